/-
  C37 — flow files are crash-consistent.  Property theorems (reader and codec are C36's model).

  * `prefix_yields_complete_records_only` : for a file that is the concatenation of n dumped flow states, EVERY
      prefix p reads as exactly the first k flows — k = number of records wholly inside p — in order, and then ends
      cleanly iff p stops on a record boundary, with FlowReadException otherwise
  * `partial_flow_never_returned`         : whatever is yielded from a truncated file is a prefix of the written flows
  * `file_is_concatenation`               : after any sequence of save hooks the stream file is the concatenation of
      the dumps of the states written so far
  * `file_only_grows`                     : each hook appends whole records to what was there
  * `stream_file_complete_after_each_hook`: after every hook the file reads back, cleanly, as all flows written so far
  * `crash_at_any_byte`                   : a crash at any byte of any hook sequence leaves a file that reads as the
      completely written flows only
-/
import MitmVerif.Lemmas.C37
import MitmVerif.Model.C37_Addon
import MitmVerif.Props.C36
namespace MitmVerif.Props.C37
open MitmVerif MitmVerif.C36 MitmVerif.C37

/-- **C37 (truncation).** `vs` are the flow states written (each a well-formed dict state within the reader's
    limits that `from_state ∘ migrate_flow` maps to the flow at the same position of `fl` — `Good`). For EVERY prefix
    `p` of the file there is a `k` such that `p` = the first `k` records followed by `q`, where `q` is empty or a
    strict non-empty prefix of record `k`; and reading `p` yields exactly the first `k` flows, in order, ending
    cleanly iff `q` is empty and with FlowReadException otherwise. -/
theorem prefix_yields_complete_records_only {α : Type} (env : Env α) (vs : List Value) (fl : List α)
    (hgood : Good env 0 vs fl) (p : Bytes) (hp : p <+: encList vs) :
    ∃ k q, k ≤ vs.length ∧ p = encList (vs.take k) ++ q ∧
      (q = [] ∨ ∃ v w, vs[k]? = some v ∧ q ≠ [] ∧ w ≠ [] ∧ q ++ w = enc v) ∧
      readAll env p = (fl.take k, if q = [] then .clean else .flowRead) := by
  obtain ⟨k, q, hk, hpq, hq⟩ := prefix_decomp vs p hp
  refine ⟨k, q, hk, hpq, hq, ?_⟩
  have hgk := Good.take env vs fl 0 k hgood
  have hklen : (vs.take k).length = k := by simp [List.length_take]; omega
  -- what the loop does once the whole records are consumed
  have htail : ∀ g, 1 ≤ g → streamLoop env g (0 + (vs.take k).length) q
      = ([], if q = [] then .clean else .flowRead) := by
    intro g hg
    rcases hq with hq | ⟨v, w, hv, hq1, hw, hqw⟩
    · simp [hq, streamLoop_nil env g _ hg]
    · simp only [hq1, if_false]
      exact streamLoop_cut env g _ hg v q w (Good.size env vs fl 0 k v hgood hv) hq1 hw hqw
  have hloop : streamLoop env (p.length + 1) 0 p = (fl.take k, if q = [] then .clean else .flowRead) := by
    rw [hpq]
    apply stream_records env (vs.take k) (fl.take k) 0 _ q _ hgk htail
    have := length_le_encList (vs.take k)
    simp only [List.length_append]; omega
  by_cases hp0 : p = []
  · subst hp0
    unfold readAll
    simp only [sniff_nil, Bool.false_eq_true, if_false]
    exact hloop
  · obtain ⟨c, cs, hc, hdig⟩ := prefix_head_digit vs p hp hp0
    unfold readAll
    rw [hc, sniff_digit c cs hdig]
    simp only [Bool.false_eq_true, if_false]
    rw [← hc]
    exact hloop

/-- **C37 (no partial flow).** The flows yielded from any truncation of the file are an initial segment of the
    flows that were written: a partially written flow, or anything else, is never returned. -/
theorem partial_flow_never_returned {α : Type} (env : Env α) (vs : List Value) (fl : List α)
    (hgood : Good env 0 vs fl) (p : Bytes) (hp : p <+: encList vs) :
    (readAll env p).1 <+: fl := by
  obtain ⟨k, q, _, _, _, hr⟩ := prefix_yields_complete_records_only env vs fl hgood p hp
  rw [hr]
  exact List.take_prefix k fl

/-- **C37 (stream file = concatenation of whole records).** After any sequence of save hooks the file is exactly the
    concatenation of `dumps state` for the states written so far, in order. -/
theorem file_is_concatenation (evs : List Event) : run evs = encList (written evs) := by
  simpa [run] using run_from evs []

/-- each hook leaves what is already in the file untouched and appends whole records -/
theorem file_only_grows (evs : List Event) (e : Event) :
    run (evs ++ [e]) = run evs ++ encList e.writes := by
  simp [file_is_concatenation, written_append, encList_append, written]

/-- **C37 (complete at any moment).** After every hook of any hook sequence the stream file reads back — cleanly —
    as exactly the flows written so far, in order. -/
theorem stream_file_complete_after_each_hook {α : Type} (env : Env α) (evs : List Event) (j : Nat) (fl : List α)
    (hgood : Good env 0 (written (evs.take j)) fl) :
    readAll env (run (evs.take j)) = (fl, .clean) := by
  rw [file_is_concatenation]
  exact MitmVerif.Props.C36.read_roundtrip env _ fl hgood

/-- **C37 (crash at any byte).** If writing stops at any byte — the file on disk is any prefix `p` of what the hook
    sequence would have written — loading yields an initial segment of the written flows and then ends cleanly or
    with FlowReadException; nothing else. -/
theorem crash_at_any_byte {α : Type} (env : Env α) (evs : List Event) (fl : List α)
    (hgood : Good env 0 (written evs) fl) (n : Nat) :
    ∃ k, readAll env ((run evs).take n) = (fl.take k, .clean) ∨
         readAll env ((run evs).take n) = (fl.take k, .flowRead) := by
  have hp : (run evs).take n <+: encList (written evs) := by
    rw [file_is_concatenation]; exact List.take_prefix n _
  obtain ⟨k, q, _, _, _, hr⟩ := prefix_yields_complete_records_only env (written evs) fl hgood _ hp
  refine ⟨k, ?_⟩
  rw [hr]
  by_cases hq : q = [] <;> simp [hq]

-- ------------------------------------------------------------------------------------------------
-- the writer's buffering and flush points inside the model
-- ------------------------------------------------------------------------------------------------
/-- reading any prefix of a prefix of the record file: the core used below -/
private theorem read_disk_cut {α : Type} (env : Env α) (vs : List Value) (fl : List α)
    (hgood : Good env 0 vs fl) (d : Bytes) (hd : d <+: encList vs) (n : Nat) :
    ∃ k, readAll env (d.take n) = (fl.take k, .clean) ∨ readAll env (d.take n) = (fl.take k, .flowRead) := by
  have hp : d.take n <+: encList vs := List.IsPrefix.trans (List.take_prefix n d) hd
  obtain ⟨k, q, _, _, _, hr⟩ := prefix_yields_complete_records_only env vs fl hgood _ hp
  refine ⟨k, ?_⟩
  rw [hr]
  by_cases hq : q = [] <;> simp [hq]

/-- **C37 (crash consistency under ANY buffering).** Let a program write the records of `vs` through a buffered file by
    ANY sequence of `write`/`flush` operations (the writes' payloads concatenate to the record file; how much the
    buffering layer hands to the OS after each write is arbitrary). Stop it after ANY number `i` of operations and let
    only the first `n` bytes of what the OS was handed survive: loading yields an initial segment of the written
    flows and ends cleanly or with FlowReadException. -/
theorem crash_consistent_any_buffering {α : Type} (env : Env α) (vs : List Value) (fl : List α)
    (hgood : Good env 0 vs fl) (ops : List FOp) (hlog : opsLog ops = encList vs) (i n : Nat) :
    ∃ k, readAll env ((BFile.empty.runOps (ops.take i)).disk.take n) = (fl.take k, .clean) ∨
         readAll env ((BFile.empty.runOps (ops.take i)).disk.take n) = (fl.take k, .flowRead) :=
  read_disk_cut env vs fl hgood _ (hlog ▸ disk_prefix ops i) n

/-- **C37 (every hook sequence, every crash point).** For EVERY sequence of save hooks, EVERY spill behaviour of the
    buffering layer, EVERY number `i` of completed file operations and EVERY surviving byte count `n`: what is on
    disk loads as an initial segment of the flows the hooks wrote, then a clean end or FlowReadException. -/
theorem crash_prefix_every_hook_sequence {α : Type} (env : Env α) (evs : List Event) (fl : List α)
    (hgood : Good env 0 (written evs) fl) (ks : List Nat) (i n : Nat) :
    ∃ k, readAll env ((BFile.empty.runOps ((hookOps evs ks).take i)).disk.take n) = (fl.take k, .clean) ∨
         readAll env ((BFile.empty.runOps ((hookOps evs ks).take i)).disk.take n) = (fl.take k, .flowRead) :=
  crash_consistent_any_buffering env (written evs) fl hgood (hookOps evs ks) (opsLog_streamOps _ _) i n

/-- **C37 (complete at every hook boundary — because of the flush).** After the file operations of any number of
    complete hooks, the OS has been handed exactly the concatenation of all records written so far and the process'
    buffer is empty — whatever the buffering layer did in between. -/
theorem hook_boundary_flushed (evs : List Event) (ks : List Nat) :
    BFile.empty.runOps (hookOps evs ks) = ⟨run evs, []⟩ := by
  rw [hookOps, streamOps_flushed _ _ _ rfl, file_is_concatenation]
  simp [BFile.empty]

/-- … hence the file on disk after every hook reads back, cleanly, as all flows written so far — with the buffering
    inside the model instead of assumed away -/
theorem stream_disk_complete_after_each_hook {α : Type} (env : Env α) (evs : List Event) (j : Nat) (fl : List α)
    (ks : List Nat) (hgood : Good env 0 (written (evs.take j)) fl) :
    readAll env (BFile.empty.runOps (hookOps (evs.take j) ks)).disk = (fl, .clean) := by
  rw [hook_boundary_flushed]
  exact stream_file_complete_after_each_hook env evs j fl hgood

/-- **C37 (explicit save).** `save.file` writes through `FlowWriter` without flushing; a crash at any operation and
    byte still leaves an initial segment of the flows, and after the `with` block closes the file it is complete. -/
theorem explicit_save_crash_consistent {α : Type} (env : Env α) (vs : List Value) (fl : List α)
    (hgood : Good env 0 vs fl) (ks : List Nat) (i n : Nat) :
    ∃ k, readAll env ((BFile.empty.runOps ((explicitOps vs ks).take i)).disk.take n) = (fl.take k, .clean) ∨
         readAll env ((BFile.empty.runOps ((explicitOps vs ks).take i)).disk.take n) = (fl.take k, .flowRead) :=
  crash_consistent_any_buffering env vs fl hgood (explicitOps vs ks) (opsLog_explicitOps _ _) i n

theorem explicit_save_complete_after_close (vs : List Value) (ks : List Nat) :
    BFile.empty.runOps (explicitOps vs ks) = ⟨encList vs, []⟩ := by
  rw [explicitOps_closed]; simp [BFile.empty]

/-- **C37 (CPython's buffering policy).** With `BufferedWriter.write` transcribed (buffer size `B`): after every
    `FlowWriter.add` of an explicit save the bytes the OS holds, cut anywhere, load as an initial segment of the flows. -/
theorem cpython_buffered_explicit_save {α : Type} (env : Env α) (vs : List Value) (fl : List α)
    (hgood : Good env 0 vs fl) (B : Nat) (st : BFile) (hst : st ∈ pyExplicit B BFile.empty (vs.map dumps)) (n : Nat) :
    ∃ k, readAll env (st.disk.take n) = (fl.take k, .clean) ∨ readAll env (st.disk.take n) = (fl.take k, .flowRead) := by
  obtain ⟨j, hj⟩ := pyExplicit_inv B _ _ _ hst
  have hall : encList vs = ((vs.map dumps).take j).flatten ++ ((vs.map dumps).drop j).flatten := by
    rw [← List.flatten_append, List.take_append_drop, MitmVerif.Props.C36.encList_eq_dumps]
  have hd : st.disk <+: encList vs := by
    refine ⟨st.buf ++ ((vs.map dumps).drop j).flatten, ?_⟩
    rw [← List.append_assoc, hj, hall]
    simp [BFile.empty]
  exact read_disk_cut env vs fl hgood _ hd n

/-- the states written by the first `j` hooks are an initial segment of the states written by all of them -/
private theorem written_take (evs : List Event) (j : Nat) :
    written (evs.take j) = (written evs).take (written (evs.take j)).length := by
  have h : written evs = written (evs.take j) ++ written (evs.drop j) := by
    rw [← written_append, List.take_append_drop]
  rw [h, List.take_left']
  rfl

/-- **C37 (complete at any moment — one hypothesis for the whole run).** It is enough to know that the states the WHOLE hook
    sequence writes are good records (`Good … (written evs) fl`): then after EVERY hook `j` the stream file reads back, cleanly,
    as exactly the flows written so far. (`stream_file_complete_after_each_hook` asked for this knowledge hook by hook.) -/
theorem stream_file_complete_at_every_hook {α : Type} (env : Env α) (evs : List Event) (fl : List α)
    (hgood : Good env 0 (written evs) fl) (j : Nat) :
    readAll env (run (evs.take j)) = (fl.take (written (evs.take j)).length, .clean) := by
  apply stream_file_complete_after_each_hook env evs j
  have hg := Good.take env (written evs) fl 0 (written (evs.take j)).length hgood
  rw [← written_take evs j] at hg
  exact hg

/-- … and the same for what the operating system holds, with the buffer and the flush points inside the model -/
theorem stream_disk_complete_at_every_hook {α : Type} (env : Env α) (evs : List Event) (fl : List α)
    (hgood : Good env 0 (written evs) fl) (ks : List Nat) (j : Nat) :
    readAll env (BFile.empty.runOps (hookOps (evs.take j) ks)).disk
      = (fl.take (written (evs.take j)).length, .clean) := by
  rw [hook_boundary_flushed]
  exact stream_file_complete_at_every_hook env evs fl hgood j

/-- **C37 (crash consistency under any buffering — WHICH flows come back).** The exact form of
    `crash_consistent_any_buffering` (audit round 6, R1): the surviving bytes are the first `k` records followed by nothing
    or by a strict non-empty prefix of record `k`; loading yields EXACTLY the first `k` flows — the ones completely written
    before the crash point — and ends cleanly iff the crash point is a record boundary, with FlowReadException otherwise. -/
theorem crash_consistent_any_buffering_exact {α : Type} (env : Env α) (vs : List Value) (fl : List α)
    (hgood : Good env 0 vs fl) (ops : List FOp) (hlog : opsLog ops = encList vs) (i n : Nat) :
    ∃ k q, k ≤ vs.length ∧ (BFile.empty.runOps (ops.take i)).disk.take n = encList (vs.take k) ++ q ∧
      (q = [] ∨ ∃ v w, vs[k]? = some v ∧ q ≠ [] ∧ w ≠ [] ∧ q ++ w = enc v) ∧
      readAll env ((BFile.empty.runOps (ops.take i)).disk.take n) = (fl.take k, if q = [] then .clean else .flowRead) :=
  prefix_yields_complete_records_only env vs fl hgood _
    (List.IsPrefix.trans (List.take_prefix n _) (hlog ▸ disk_prefix ops i))

/-- the exact form for every hook sequence -/
theorem crash_prefix_every_hook_sequence_exact {α : Type} (env : Env α) (evs : List Event) (fl : List α)
    (hgood : Good env 0 (written evs) fl) (ks : List Nat) (i n : Nat) :
    ∃ k q, k ≤ (written evs).length ∧
      (BFile.empty.runOps ((hookOps evs ks).take i)).disk.take n = encList ((written evs).take k) ++ q ∧
      (q = [] ∨ ∃ v w, (written evs)[k]? = some v ∧ q ≠ [] ∧ w ≠ [] ∧ q ++ w = enc v) ∧
      readAll env ((BFile.empty.runOps ((hookOps evs ks).take i)).disk.take n)
        = (fl.take k, if q = [] then .clean else .flowRead) :=
  crash_consistent_any_buffering_exact env (written evs) fl hgood (hookOps evs ks) (opsLog_streamOps _ _) i n

/-- the exact form for an explicit save (`FlowWriter`, no flush before close) -/
theorem explicit_save_crash_consistent_exact {α : Type} (env : Env α) (vs : List Value) (fl : List α)
    (hgood : Good env 0 vs fl) (ks : List Nat) (i n : Nat) :
    ∃ k q, k ≤ vs.length ∧ (BFile.empty.runOps ((explicitOps vs ks).take i)).disk.take n = encList (vs.take k) ++ q ∧
      (q = [] ∨ ∃ v w, vs[k]? = some v ∧ q ≠ [] ∧ w ≠ [] ∧ q ++ w = enc v) ∧
      readAll env ((BFile.empty.runOps ((explicitOps vs ks).take i)).disk.take n)
        = (fl.take k, if q = [] then .clean else .flowRead) :=
  crash_consistent_any_buffering_exact env vs fl hgood (explicitOps vs ks) (opsLog_explicitOps _ _) i n

-- ------------------------------------------------------------------------------------------------
-- the Save addon's hooks inside the model
-- ------------------------------------------------------------------------------------------------
/-- **C37 (complete up to the last finished flow — the addon).** With the Save addon's hook handlers transcribed
    (`addonStep`): for EVERY history of hooks, stream starts and stops, the states of all flows that were FINISHED while a
    stream was open and the filter matched (`finishedStates`, computed from the inputs alone) occur, in hook order, among
    the records written to the stream file — whether or not the addon ever saw the flow's start hook. -/
theorem finished_flows_are_written : ∀ (ins : List AddonIn) (sv : Save),
    (finishedStates sv.streaming ins).Sublist (written (addonEvents sv ins)) := by
  intro ins
  induction ins with
  | nil => intro sv; simp [finishedStates, addonEvents, written]
  | cons i t ih =>
    intro sv
    cases i with
    | start =>
      simp only [finishedStates, addonEvents, addonStep, written, Event.writes, List.nil_append]
      exact ih { sv with streaming := true }
    | done cands =>
      simp only [finishedStates, addonEvents, addonStep, written]
      by_cases hs : sv.streaming = true
      · simp only [hs, if_true, Event.writes]
        exact List.Sublist.trans (ih ⟨false, []⟩) (List.sublist_append_right _ _)
      · have hs' : sv.streaming = false := by simpa using hs
        simp only [hs', Bool.false_eq_true, if_false, Event.writes, List.nil_append]
        have := ih sv
        rw [hs'] at this
        exact this
    | hook h fid ws m state =>
      simp only [finishedStates, addonEvents, addonStep, written]
      by_cases hst : h.isStart = true
      · simp only [hst, if_true, Bool.not_true, Bool.false_and, Bool.false_eq_true, if_false, Event.writes, List.nil_append]
        by_cases hc : (sv.streaming && !sv.active.contains fid) = true
        · simp only [hc, if_true]; exact ih { sv with active := fid :: sv.active }
        · simp only [hc]; exact ih sv
      · have hst' : h.isStart = false := by simpa using hst
        simp only [hst', Bool.false_eq_true, if_false, Bool.not_false, Bool.true_and]
        by_cases hcs : h.callsSave ws = true
        · simp only [hcs, if_true, Bool.true_and]
          by_cases hs : sv.streaming = true
          · simp only [hs, if_true, Bool.true_and]
            by_cases hm : m = true
            · simp only [hm, if_true, Event.writes, List.singleton_append]
              exact List.Sublist.cons_cons _ (by simpa [hs] using ih { sv with active := sv.active.filter (· != fid) })
            · have hm' : m = false := by simpa using hm
              simp only [hm', Bool.false_eq_true, if_false, Event.writes, List.nil_append]
              simpa [hs] using ih { sv with active := sv.active.filter (· != fid) }
          · have hs' : sv.streaming = false := by simpa using hs
            simp only [hs', Bool.false_eq_true, if_false, Bool.false_and, Event.writes, List.nil_append]
            simpa [hs'] using ih sv
        · have hcs' : h.callsSave ws = false := by simpa using hcs
          simp only [hcs', Bool.false_eq_true, if_false, Bool.false_and, Event.writes, List.nil_append]
          exact ih sv

/-- **C37 (crash at any byte of any addon history).** For EVERY history of hooks and stream starts / stops of the Save
    addon, every buffering behaviour, every number of completed file operations and every surviving byte count: what is on
    disk loads as an initial segment of the flows the addon wrote, then a clean end or FlowReadException. -/
theorem crash_prefix_every_addon_history {α : Type} (env : Env α) (sv : Save) (ins : List AddonIn) (fl : List α)
    (hgood : Good env 0 (written (addonEvents sv ins)) fl) (ks : List Nat) (i n : Nat) :
    ∃ k, readAll env ((BFile.empty.runOps ((hookOps (addonEvents sv ins) ks).take i)).disk.take n) = (fl.take k, .clean) ∨
         readAll env ((BFile.empty.runOps ((hookOps (addonEvents sv ins) ks).take i)).disk.take n) = (fl.take k, .flowRead) :=
  crash_prefix_every_hook_sequence env (addonEvents sv ins) fl hgood ks i n

/-- … and after every hook of the history what the OS holds reads back, cleanly, as all flows written so far -/
theorem addon_disk_complete_at_every_hook {α : Type} (env : Env α) (sv : Save) (ins : List AddonIn) (fl : List α)
    (hgood : Good env 0 (written (addonEvents sv ins)) fl) (ks : List Nat) (j : Nat) :
    readAll env (BFile.empty.runOps (hookOps ((addonEvents sv ins).take j) ks)).disk
      = (fl.take (written ((addonEvents sv ins).take j)).length, .clean) :=
  stream_disk_complete_at_every_hook env (addonEvents sv ins) fl hgood ks j

/-- the exact form for every history of the Save addon -/
theorem crash_prefix_every_addon_history_exact {α : Type} (env : Env α) (sv : Save) (ins : List AddonIn) (fl : List α)
    (hgood : Good env 0 (written (addonEvents sv ins)) fl) (ks : List Nat) (i n : Nat) :
    ∃ k q, k ≤ (written (addonEvents sv ins)).length ∧
      (BFile.empty.runOps ((hookOps (addonEvents sv ins) ks).take i)).disk.take n
        = encList ((written (addonEvents sv ins)).take k) ++ q ∧
      (q = [] ∨ ∃ v w, (written (addonEvents sv ins))[k]? = some v ∧ q ≠ [] ∧ w ≠ [] ∧ q ++ w = enc v) ∧
      readAll env ((BFile.empty.runOps ((hookOps (addonEvents sv ins) ks).take i)).disk.take n)
        = (fl.take k, if q = [] then .clean else .flowRead) :=
  crash_prefix_every_hook_sequence_exact env (addonEvents sv ins) fl hgood ks i n

-- ------------------------------------------------------------------------------------------------
-- non-vacuity: a concrete two-record file, an environment for which `Good` holds, and what cuts of it read as
-- ------------------------------------------------------------------------------------------------
private def st1 : Value := .dict [(.str [0x61], .int 1)]        -- {"a": 1}   ->  8:1:a;1:1#}
private def st2 : Value := .dict []                              -- {}         ->  0:}
private def env0 : Env Nat := ⟨1000, 10, fun i _ => .ok i, fun _ => ([], true)⟩

example : Good env0 0 [st1, st2] [0, 1] := by
  simp only [Good, st1, st2, env0, isDict, and_true]
  refine ⟨⟨?_, ?_, ?_, ?_⟩, ?_, ?_, ?_⟩
  · simp [WF, WFPairs, hashable, utf8Valid, maxStrDigits]; decide +kernel
  · decide +kernel
  · decide +kernel
  · decide +kernel
  · simp [WF, WFPairs]
  · decide +kernel
  · decide +kernel
example : run [.noop, .save st1, .noop, .done [st2]] =
    [0x38,0x3a,0x31,0x3a,0x61,0x3b,0x31,0x3a,0x31,0x23,0x7d, 0x30,0x3a,0x7d] := by decide +kernel
-- cut inside the first record / on the boundary / inside the second record / complete
example : readAll env0 ((run [.save st1, .save st2]).take 5) = ([], .flowRead) := by decide +kernel
example : readAll env0 ((run [.save st1, .save st2]).take 11) = ([0], .clean) := by decide +kernel
example : readAll env0 ((run [.save st1, .save st2]).take 13) = ([0], .flowRead) := by decide +kernel
example : readAll env0 ((run [.save st1, .save st2]).take 14) = ([0, 1], .clean) := by decide +kernel

-- the flush is what makes the stream file complete at every moment: a writer that does not flush may have handed
-- NOTHING to the OS after a finished flow (spill 0) …
example : (BFile.empty.apply (.write (dumps st1) 0)).disk = [] := by decide +kernel
-- … which is exactly what CPython's buffer does for a record smaller than the buffer
example : (pyWrite 4096 BFile.empty (dumps st1)).disk = [] ∧ (pyWrite 4 BFile.empty (dumps st1)).disk = dumps st1 := by
  decide +kernel
example : (BFile.empty.runOps (hookOps [.save st1, .noop, .save st2] [0, 3])).disk
    = [0x38,0x3a,0x31,0x3a,0x61,0x3b,0x31,0x3a,0x31,0x23,0x7d, 0x30,0x3a,0x7d] := by decide +kernel

-- the addon model on a concrete history: flow 1 finishes without its start hook having been seen while streaming, flow 2
-- is a websocket flow (its `response` does not write), flow 3 is still active when the stream is switched off
example : written (addonEvents Save.init
    [.hook .request 1 false true st2, .start, .hook .response 1 false true st1, .hook .request 2 true true st2,
     .hook .response 2 true true st2, .hook .tcp_start 3 false true st2, .hook .websocket_end 2 true true st2,
     .done [(3, true, st1), (1, true, st1)]]) = [st1, st2, st1] := by
  rfl

end MitmVerif.Props.C37

-- ------------------------------------------------------------------------------------------------
-- cross-audit (round 6): the hypotheses of the buffered / hook / addon theorems hold together on a concrete two-record run
-- ------------------------------------------------------------------------------------------------
namespace MitmVerif.Props.C37
open MitmVerif MitmVerif.C36 MitmVerif.C37

example :
    (∃ k, readAll env0 ((BFile.empty.runOps ((hookOps [.save st1, .noop, .save st2] [0, 3]).take 3)).disk.take 12) = ([0, 1].take k, .clean) ∨
          readAll env0 ((BFile.empty.runOps ((hookOps [.save st1, .noop, .save st2] [0, 3]).take 3)).disk.take 12) = ([0, 1].take k, .flowRead)) ∧
    (∃ k, readAll env0 ((BFile.empty.runOps ((explicitOps [st1, st2] [5]).take 2)).disk.take 9) = ([0, 1].take k, .clean) ∨
          readAll env0 ((BFile.empty.runOps ((explicitOps [st1, st2] [5]).take 2)).disk.take 9) = ([0, 1].take k, .flowRead)) ∧
    (∃ k, readAll env0 ((pyWrite 4 BFile.empty (dumps st1)).disk.take 7) = ([0, 1].take k, .clean) ∨
          readAll env0 ((pyWrite 4 BFile.empty (dumps st1)).disk.take 7) = ([0, 1].take k, .flowRead)) ∧
    readAll env0 (BFile.empty.runOps (hookOps ([Event.save st1, .noop, .save st2].take 2) [0, 3])).disk
      = ([0, 1].take (written ([Event.save st1, .noop, .save st2].take 2)).length, .clean) := by
  have hg : Good env0 0 [st1, st2] [0, 1] := by
    simp only [Good, st1, st2, env0, isDict, and_true]
    refine ⟨⟨?_, ?_, ?_, ?_⟩, ?_, ?_, ?_⟩
    · simp [WF, WFPairs, hashable, utf8Valid, maxStrDigits]; decide +kernel
    · decide +kernel
    · decide +kernel
    · decide +kernel
    · simp [WF, WFPairs]
    · decide +kernel
    · decide +kernel
  refine ⟨crash_prefix_every_hook_sequence env0 [.save st1, .noop, .save st2] [0, 1] hg [0, 3] 3 12,
    explicit_save_crash_consistent env0 [st1, st2] [0, 1] hg [5] 2 9,
    cpython_buffered_explicit_save env0 [st1, st2] [0, 1] hg 4 (pyWrite 4 BFile.empty (dumps st1)) (by simp [pyExplicit]) 7,
    stream_disk_complete_at_every_hook env0 [.save st1, .noop, .save st2] [0, 1] hg [0, 3] 2⟩

-- the addon history theorems on a history with a start, two flows, a websocket-less response and a done():
example : written (addonEvents Save.init [.start, .hook .request 1 false true st2, .hook .response 1 false true st1,
      .hook .tcp_start 3 false true st2, .done [(3, true, st2)]]) = [st1, st2] ∧
    finishedStates false [.start, .hook .request 1 false true st2, .hook .response 1 false true st1,
      .hook .tcp_start 3 false true st2, .done [(3, true, st2)]] = [st1] := ⟨rfl, rfl⟩

end MitmVerif.Props.C37

-- owner round 6 (audit remark R1): the exact-k forms on the same run — after 3 file operations with 12 of the 14 bytes surviving,
-- EXACTLY the first flow comes back and the read ends with FlowReadException; with 11 bytes (a record boundary) it ends cleanly
namespace MitmVerif.Props.C37
open MitmVerif MitmVerif.C36 MitmVerif.C37

example : readAll env0 ((BFile.empty.runOps ((hookOps [.save st1, .noop, .save st2] [0, 3]).take 3)).disk.take 12) = ([0], .flowRead) ∧
    readAll env0 ((BFile.empty.runOps ((hookOps [.save st1, .noop, .save st2] [0, 3]).take 3)).disk.take 11) = ([0], .clean) ∧
    readAll env0 ((BFile.empty.runOps ((hookOps [.save st1, .noop, .save st2] [0, 3]).take 3)).disk.take 14) = ([0, 1], .clean) := by
  decide +kernel

end MitmVerif.Props.C37
