/-
  C38 — property theorems over the converter graph regenerated from /repo (Gen/C38.lean).
-/
import MitmVerif.Model.C38
import MitmVerif.Gen.C38
import MitmVerif.Lemmas.C38_Conv
import MitmVerif.Lemmas.C38_Host
import MitmVerif.Lemmas.C38_HostValid
import MitmVerif.Lemmas.C38_Succ
import MitmVerif.Lemmas.C38_Old
import MitmVerif.Lemmas.C38_State
import MitmVerif.Model.C38_Tuple
import MitmVerif.Lemmas.C38_Bytes
import MitmVerif.Model.C38_Migrate
namespace MitmVerif.Props.C38
open MitmVerif.C38 MitmVerif.Gen.C38

/-- more fuel never changes a verdict that was reached (so the fuel bound is not an artefact) -/
theorem migrate_mono (g : Graph) (cur : Ver) (f : Nat) (v : Ver) (k : Nat)
    (h : migrate g cur f v ≠ .diverged) : migrate g cur (f + k) v = migrate g cur f v := by
  induction f generalizing v with
  | zero => simp [migrate] at h
  | succ f ih =>
    have e : f + 1 + k = (f + k) + 1 := by omega
    rw [e]
    simp only [migrate] at h ⊢
    split
    · rfl
    · rename_i hne
      simp only [hne, if_false] at h
      split
      · rename_i v' hl
        simp only [hl] at h
        exact ih v' h
      · rfl

/-- **chain_terminates.** From every historical version key the migration loop reaches the current
    format (within |graph|+1 iterations — and hence with any larger number, by `migrate_mono`). -/
theorem chain_terminates : ∀ e ∈ graph, migrate graph current (graph.length + 1) e.1 = .ok := by
  decide +kernel

/-- every converter writes a strictly later version than the one it reads -/
theorem versions_increase : ∀ e ∈ graph, rank e.1 < rank e.2 := by decide +kernel

/-- each version has at most one converter (dictionary keys), and the current version has none -/
theorem keys_unique : (graph.map (·.1)).Nodup := by decide +kernel
theorem current_not_a_key : lookup graph current = none := by decide +kernel

/-- **current_fixed_point.** A current-format state is returned without any conversion. -/
theorem current_fixed_point (f : Nat) : migrate graph current (f + 1) current = .ok := by
  simp [migrate]

/-- **unknown_rejected.** A version that is neither current nor a converter key is rejected at once,
    with the "please update" hint exactly when it is an integer greater than the current version
    (`reject`). -/
theorem unknown_rejected (v : Ver) (f : Nat) (hk : lookup graph v = none) (hc : v ≠ current) :
    migrate graph current (f + 1) v = reject v current := by
  simp only [migrate, if_neg hc, hk]

theorem reject_update_iff (v cur : Ver) :
    reject v cur = .errUpdate ↔ ∃ n c, v = .int n ∧ cur = .int c ∧ n > c := by
  cases v <;> cases cur <;> simp [reject]

theorem reject_is_error (v cur : Ver) : reject v cur = .errUpdate ∨ reject v cur = .errUnknown := by
  cases v <;> cases cur <;> simp [reject]
  omega

private theorem lookup_mem (g : Graph) (v v' : Ver) (h : lookup g v = some v') : ∃ e ∈ g, e.1 = v := by
  simp only [lookup, Option.map_eq_some_iff] at h
  obtain ⟨e, he, _⟩ := h
  have hm := List.mem_of_find?_eq_some he
  have hp := List.find?_some he
  exact ⟨e, hm, by simpa using hp⟩

/-- **migration_total.** For EVERY version value whatsoever the loop terminates: it never runs out
    of the |graph|+1 iterations. -/
theorem migration_total (v : Ver) : migrate graph current (graph.length + 1) v ≠ .diverged := by
  by_cases hc : v = current
  · subst hc; simp [migrate]
  · cases hl : lookup graph v with
    | none =>
      rw [unknown_rejected v _ hl hc]
      rcases reject_is_error v current with h | h <;> rw [h] <;> simp
    | some v' =>
      obtain ⟨e, he, hev⟩ := lookup_mem graph v v' hl
      have := chain_terminates e he
      rw [hev] at this
      rw [this]; simp

/-- the chain length from every key is defined (used by the correspondence: converters applied) -/
theorem steps_defined : ∀ e ∈ graph, (steps graph current (graph.length + 1) e.1).isSome = true := by
  decide +kernel

/-! ### the converters' field surgery (integer formats 10 … 21, `Model/C38_Conv.lean`) -/
section Converters
open MitmVerif MitmVerif.C36 MitmVerif.C38Conv

/-- the keys besides `version` a modelled converter may assign, remove or rewrite at top level -/
def touched : Nat → List Bytes
  | 10 => [s "client_conn", s "server_conn"]
  | 11 => [s "websocket"]
  | 12 => [s "marked"]
  | 13 => [s "comment", s "response"]
  | 14 => [s "websocket"]
  | 15 => [s "timestamp_created"]
  | 16 => [s "mode"]
  | 17 => [s "client_conn"]
  | 18 => [s "client_conn", s "server_conn"]
  | 19 => [s "client_conn", s "server_conn"]
  | 20 => [s "client_conn", s "server_conn"]
  | _ => []

theorem conv_body (v : Nat) (f : Dict → Option Dict) (d d' : Dict) (m : Bytes)
    (hf : conv v = some f) (h : f d = some d') (hm : ∀ t ∈ touched v, (t == m) = false) :
    dget d' m = dget (setVersion d (v + 1)) m := by
  unfold conv at hf
  split at hf <;> cases hf <;> simp only [touched, List.mem_cons, List.not_mem_nil, or_false, forall_eq_or_imp, forall_eq] at hm
  · exact body_10 d d' m h hm.1 hm.2
  · exact body_11 d d' m h hm
  · exact body_12 d d' m h hm
  · exact body_13 d d' m h hm.1 hm.2
  · exact body_14 d d' m h hm
  · exact body_15 d d' m h hm
  · exact body_16 d d' m h hm
  · exact body_17 d d' m h hm
  · exact body_18 d d' m h hm.1 hm.2
  · exact body_19 d d' m h hm.1 hm.2
  · exact body_20 d d' m h hm.1 hm.2

theorem conv_writes_next_version (v : Nat) (f : Dict → Option Dict) (d d' : Dict)
    (hf : conv v = some f) (h : f d = some d') : dget d' (s "version") = some (.int (v + 1)) := by
  rw [conv_body v f d d' _ hf h]
  · exact dget_dset_same _ _ _
  · unfold conv at hf
    split at hf <;> cases hf <;> decide +kernel

theorem conv_frame (v : Nat) (f : Dict → Option Dict) (d d' : Dict) (m : Bytes)
    (hf : conv v = some f) (h : f d = some d') (hv : (s "version" == m) = false)
    (hm : ∀ t ∈ touched v, (t == m) = false) : dget d' m = dget d m := by
  rw [conv_body v f d d' m hf h hm]; exact dget_dset_ne _ _ _ _ hv

/-- **request_preserved.** None of the modelled converters changes anything under `request`
    (method, host, port, path, headers, body, timestamps …) — nor under `id`, `type`, `error`, `intercepted`. -/
theorem request_preserved (v : Nat) (f : Dict → Option Dict) (d d' : Dict)
    (hf : conv v = some f) (h : f d = some d') :
    dget d' (s "request") = dget d (s "request") ∧ dget d' (s "id") = dget d (s "id") ∧
    dget d' (s "type") = dget d (s "type") ∧ dget d' (s "error") = dget d (s "error") ∧
    dget d' (s "intercepted") = dget d (s "intercepted") := by
  refine ⟨?_, ?_, ?_, ?_, ?_⟩ <;>
  · apply conv_frame v f d d' _ hf h (by decide +kernel)
    unfold conv at hf
    split at hf <;> cases hf <;> decide +kernel

/-- **response_preserved_except_13.** Only 13→14 may touch `response`. -/
theorem response_preserved_except_13 (v : Nat) (f : Dict → Option Dict) (d d' : Dict) (hv : v ≠ 13)
    (hf : conv v = some f) (h : f d = some d') : dget d' (s "response") = dget d (s "response") := by
  apply conv_frame v f d d' _ hf h (by decide +kernel)
  unfold conv at hf
  split at hf <;> cases hf <;> first | (exact absurd rfl hv) | decide +kernel

/-- **marked_migration (12→13).** The boolean `marked` becomes the marker string: `":default:"` iff it was truthy. -/
theorem marked_migration (d d' : Dict) (m : Value) (hm : dget d (s "marked") = some m)
    (h : conv_12_13 d = some d') :
    dget d' (s "marked") = some (.str (if truthy m then s ":default:" else [])) ∧
    dget d' (s "version") = some (.int 13) := by
  have e : (s "version" == s "marked") = false := by decide +kernel
  have e' : (s "marked" == s "version") = false := by decide +kernel
  unfold conv_12_13 at h
  simp only [bind, Option.bind, pure, setVersion, dget_dset_ne _ _ _ _ e, hm] at h
  cases h
  exact ⟨dget_dset_same _ _ _, by rw [dget_dset_ne _ _ _ _ e']; exact dget_dset_same _ _ _⟩

/-- **mode_dropped (16→17)** and **proxy_mode_added (17→18)**. -/
theorem mode_dropped (d d' : Dict) (h : conv_16_17 d = some d') : dget d' (s "mode") = none := by
  unfold conv_16_17 at h; simp only [pure] at h; cases h; exact dget_dpop_same _ _

theorem version_written_16_17 (d d' : Dict) (h : conv_16_17 d = some d') :
    dget d' (s "version") = some (.int 17) := by
  have e : (s "mode" == s "version") = false := by decide +kernel
  unfold conv_16_17 at h; simp only [pure] at h; cases h
  rw [dget_dpop_ne _ _ _ e]; exact dget_dset_same _ _ _

/-- **proxy_mode_added (17→18).** The client connection gains `proxy_mode = "regular"`; its other fields stay. -/
theorem proxy_mode_added (d d' : Dict) (h : conv_17_18 d = some d') :
    ∃ c c', dget d (s "client_conn") = some (.dict c) ∧ dget d' (s "client_conn") = some (.dict c') ∧
      dget c' (s "proxy_mode") = some (.str (s "regular")) ∧
      ∀ m, (s "proxy_mode" == m) = false → dget c' m = dget c m := by
  unfold conv_17_18 at h
  obtain ⟨c, c', h1, h2, h3⟩ := dupd_spec _ _ _ _ h
  simp only [Option.pure_def, Option.some.injEq] at h2
  subst h2
  refine ⟨c, _, ?_, h3, dget_dset_same _ _ _, fun m hm => dget_dset_ne _ _ _ _ hm⟩
  rw [← h1]; exact (dget_dset_ne _ _ _ _ (by decide +kernel)).symm

/-- **state_dropped (19→20).** Both connections lose `state`, and nothing else. -/
theorem state_dropped (d d' : Dict) (h : conv_19_20 d = some d') :
    ∃ c c' sc sc', dget d (s "client_conn") = some (.dict c) ∧ dget d' (s "client_conn") = some (.dict c') ∧
      dget d (s "server_conn") = some (.dict sc) ∧ dget d' (s "server_conn") = some (.dict sc') ∧
      dget c' (s "state") = none ∧ dget sc' (s "state") = none ∧
      (∀ m, (s "state" == m) = false → dget c' m = dget c m ∧ dget sc' m = dget sc m) := by
  unfold conv_19_20 at h
  simp only [Option.bind_eq_bind, Option.bind_eq_some_iff] at h
  obtain ⟨d1, hd1, h⟩ := h
  obtain ⟨c, c', h1, h2, h3⟩ := dupd_spec _ _ _ _ hd1
  obtain ⟨sc, sc', g1, g2, g3⟩ := dupd_spec _ _ _ _ h
  simp only [Option.pure_def, Option.some.injEq] at h2 g2
  subst h2 g2
  refine ⟨c, _, sc, _, ?_, ?_, ?_, g3, dget_dpop_same _ _, dget_dpop_same _ _,
    fun m hm => ⟨dget_dpop_ne _ _ _ hm, dget_dpop_ne _ _ _ hm⟩⟩
  · rw [← h1]; exact (dget_dset_ne _ _ _ _ (by decide +kernel)).symm
  · rw [dget_dupd_ne _ _ _ _ _ (by decide +kernel) h]; exact h3
  · rw [← g1, dget_dupd_ne _ _ _ _ _ (by decide +kernel) hd1]
    exact (dget_dset_ne _ _ _ _ (by decide +kernel)).symm

/-- **timestamp_created (15→16)** is the request's `timestamp_start` when there is a request. -/
theorem timestamp_created_from_request (d d' : Dict) (r : Dict) (hr : dget d (s "request") = some (.dict r))
    (h : conv_15_16 d = some d') : dget d' (s "timestamp_created") = dget r (s "timestamp_start") := by
  unfold conv_15_16 at h
  have e : dget (setVersion d 16) (s "request") = some (.dict r) := by
    rw [← hr]; exact dget_dset_ne _ _ _ _ (by decide +kernel)
  simp only [Option.bind_eq_bind, Option.bind_eq_some_iff, Option.pure_def, Option.some.injEq, e, asDict] at h
  obtain ⟨_, rfl, w, hw, ts, hts, rfl⟩ := h
  cases hw
  rw [dget_dset_same, hts]


/-! #### 18→19: connection fields renamed, host names decoded -/

/-- **conv_18_19_spec.** 18→19 rewrites exactly the two connection records, each by its own function. -/
theorem conv_18_19_spec (d d' : Dict) (h : conv_18_19 d = some d') :
    ∃ cc sc cc' sc', dget d (s "client_conn") = some (.dict cc) ∧ dget d (s "server_conn") = some (.dict sc) ∧
      client18 cc = some cc' ∧ server18 sc = some sc' ∧
      dget d' (s "client_conn") = some (.dict cc') ∧ dget d' (s "server_conn") = some (.dict sc') := by
  unfold conv_18_19 at h
  simp only [Option.bind_eq_bind, Option.bind_eq_some_iff, Option.pure_def, Option.some.injEq] at h
  obtain ⟨cc, ⟨vc, hvc, hcc⟩, sc, ⟨vs, hvs, hsc⟩, cc', hcc', sc', hsc', rfl⟩ := h
  cases vc <;> simp only [asDict, Option.some.injEq, reduceCtorEq] at hcc
  cases vs <;> simp only [asDict, Option.some.injEq, reduceCtorEq] at hsc
  subst hcc hsc
  refine ⟨_, _, cc', sc', ?_, ?_, hcc', hsc', ?_, dget_dset_same _ _ _⟩
  · rw [← hvc]; exact (dget_dset_ne _ _ _ _ (by decide +kernel)).symm
  · rw [← hvs]; exact (dget_dset_ne _ _ _ _ (by decide +kernel)).symm
  · rw [dget_dset_ne _ _ _ _ (by decide +kernel)]; exact dget_dset_same _ _ _

/-- **client_frame_18_19.** In the client record only the named fields move; `sni`, `alpn`, `id`, `proxy_mode`,
    `timestamp_end`, `certificate_list`, `tls_version` … are what they were. -/
theorem client_frame_18_19 (cc cc' : Dict) (m : Bytes) (h : client18 cc = some cc')
    (h0 : (s "tls_extensions" == m) = false) (h00 : (s "timestamp_start" == m) = false)
    (h1 : (s "tls_established" == m) = false) (h2 : (s "cipher_name" == m) = false)
    (h3 : (s "cipher" == m) = false) (h4 : (s "transport_protocol" == m) = false)
    (h5 : (s "peername" == m) = false) (h6 : (s "sockname" == m) = false) (h7 : (s "address" == m) = false) :
    dget cc' m = dget cc m := by
  unfold client18 at h
  split at h
  · rw [conn18_frame _ _ m h h1 h2 h3 h4 h5 h6 h7, dget_dpop_ne _ _ _ h0]
    unfold client18pre
    rw [dget_tsDefault_ne _ _ h00, dget_rename_ne _ _ _ _ h7 h5]
  · cases h

/-- **client_renames_18_19.** The client record loses `tls_extensions`, `tls_established`, `cipher_name`; `cipher` is
    the old `cipher_name`; there is a transport protocol. -/
theorem client_renames_18_19 (cc cc' : Dict) (h : client18 cc = some cc') :
    dget cc' (s "tls_extensions") = none ∧ dget cc' (s "tls_established") = none ∧ dget cc' (s "cipher_name") = none ∧
    dget cc' (s "cipher") = some ((dget cc (s "cipher_name")).getD .null) ∧
    (dget cc' (s "transport_protocol")).isSome = true := by
  unfold client18 at h
  split at h
  · obtain ⟨a, b, c, e⟩ := conn18_renames _ _ h
    refine ⟨?_, a, b, ?_, e⟩
    · rw [conn18_frame _ _ _ h (by decide +kernel) (by decide +kernel) (by decide +kernel) (by decide +kernel)
        (by decide +kernel) (by decide +kernel) (by decide +kernel)]
      exact dget_dpop_same _ _
    · rw [c, dget_dpop_ne _ _ _ (by decide +kernel)]
      unfold client18pre
      rw [dget_tsDefault_ne _ _ (by decide +kernel), dget_rename_ne _ _ _ _ (by decide +kernel) (by decide +kernel)]
  · cases h

/-- **server_frame_18_19.** In the server record only the named fields move. -/
theorem server_frame_18_19 (sc sc' : Dict) (m : Bytes) (h : server18 sc = some sc')
    (g1 : (s "ip_address" == m) = false) (g2 : (s "source_address" == m) = false) (g3 : (s "via2" == m) = false)
    (g4 : (s "via" == m) = false) (g5 : (s "sni" == m) = false)
    (h1 : (s "tls_established" == m) = false) (h2 : (s "cipher_name" == m) = false)
    (h3 : (s "cipher" == m) = false) (h4 : (s "transport_protocol" == m) = false)
    (h5 : (s "peername" == m) = false) (h6 : (s "sockname" == m) = false) (h7 : (s "address" == m) = false) :
    dget sc' m = dget sc m := by
  unfold server18 at h
  simp only [Option.bind_eq_bind, Option.bind_eq_some_iff] at h
  obtain ⟨c1, hc1, h⟩ := h
  rw [sniFix_frame _ _ _ h g5, conn18_frame _ _ m hc1 h1 h2 h3 h4 h5 h6 h7]
  unfold server18pre
  rw [dget_rename_ne _ _ _ _ g3 g4, dget_rename_ne _ _ _ _ g2 h6, dget_rename_ne _ _ _ _ g1 h5]

/-- **server_renames_18_19.** `via` is the old `via2` (it is not a host pair, so no decode touches it). -/
theorem server_renames_18_19 (sc sc' : Dict) (h : server18 sc = some sc') :
    dget sc' (s "via") = some ((dget sc (s "via2")).getD .null) ∧ dget sc' (s "via2") = none ∧
    dget sc' (s "ip_address") = none ∧ dget sc' (s "source_address") = none ∧
    dget sc' (s "tls_established") = none := by
  unfold server18 at h
  simp only [Option.bind_eq_bind, Option.bind_eq_some_iff] at h
  obtain ⟨c1, hc1, h⟩ := h
  obtain ⟨a, -, -, -⟩ := conn18_renames _ _ hc1
  have fr : ∀ m, (s "sni" == m) = false → (s "tls_established" == m) = false → (s "cipher_name" == m) = false →
      (s "cipher" == m) = false → (s "transport_protocol" == m) = false → (s "peername" == m) = false →
      (s "sockname" == m) = false → (s "address" == m) = false → dget sc' m = dget (server18pre sc) m :=
    fun m g5 h1 h2 h3 h4 h5 h6 h7 => by
      rw [sniFix_frame _ _ _ h g5, conn18_frame _ _ m hc1 h1 h2 h3 h4 h5 h6 h7]
  refine ⟨?_, ?_, ?_, ?_, ?_⟩
  · rw [fr _ (by decide +kernel) (by decide +kernel) (by decide +kernel) (by decide +kernel) (by decide +kernel)
      (by decide +kernel) (by decide +kernel) (by decide +kernel)]
    unfold server18pre
    rw [dget_rename_new, dget_rename_ne _ _ _ _ (by decide +kernel) (by decide +kernel),
      dget_rename_ne _ _ _ _ (by decide +kernel) (by decide +kernel)]
  · rw [fr _ (by decide +kernel) (by decide +kernel) (by decide +kernel) (by decide +kernel) (by decide +kernel)
      (by decide +kernel) (by decide +kernel) (by decide +kernel)]
    unfold server18pre rename
    rw [dget_dset_ne _ _ _ _ (by decide +kernel)]; exact dget_dpop_same _ _
  · rw [fr _ (by decide +kernel) (by decide +kernel) (by decide +kernel) (by decide +kernel) (by decide +kernel)
      (by decide +kernel) (by decide +kernel) (by decide +kernel)]
    unfold server18pre
    rw [dget_rename_ne _ _ _ _ (by decide +kernel) (by decide +kernel),
      dget_rename_ne _ _ _ _ (by decide +kernel) (by decide +kernel)]
    unfold rename
    rw [dget_dset_ne _ _ _ _ (by decide +kernel)]; exact dget_dpop_same _ _
  · rw [fr _ (by decide +kernel) (by decide +kernel) (by decide +kernel) (by decide +kernel) (by decide +kernel)
      (by decide +kernel) (by decide +kernel) (by decide +kernel)]
    unfold server18pre
    rw [dget_rename_ne _ _ _ _ (by decide +kernel) (by decide +kernel)]
    unfold rename
    rw [dget_dset_ne _ _ _ _ (by decide +kernel)]; exact dget_dpop_same _ _
  · rw [sniFix_frame _ _ _ h (by decide +kernel)]; exact a

/-- **sni_true_without_destination.** `sni = True` ("use the server address") on a connection whose address is unset or
    empty becomes "no server name" — the step does not fail (repaired by the fix recorded in known/C38.json). -/
theorem sni_true_without_destination (sc : Dict) (a : Value) (h1 : dget sc (s "sni") = some (.bool true))
    (h2 : dget sc (s "address") = some a) (h3 : truthy a = false) :
    sniFix sc = some (dset sc (s "sni") .null) := by
  unfold sniFix
  simp [h1, h2, h3]

/-- **sni_true_with_destination.** … and with an address pair it becomes that pair's host. -/
theorem sni_true_with_destination (sc : Dict) (h : Value) (rest : List Value) (h1 : dget sc (s "sni") = some (.bool true))
    (h2 : dget sc (s "address") = some (.list (h :: rest))) : sniFix sc = some (dset sc (s "sni") h) := by
  unfold sniFix
  simp [h1, h2, truthy, firstOf]

/-- **host_decode_valid_utf8 / host_decode_ascii.** A host name recorded as valid UTF-8 bytes (in particular ASCII)
    is the same text after the decode; an undecodable byte becomes the four characters `\xNN` (`bsrCp_escape`). -/
theorem host_decode_valid_utf8 (b : Bytes) (h : ∀ cp ∈ MitmVerif.C35.native b, ¬ (0xDC80 ≤ cp ∧ cp ≤ 0xDCFF)) :
    bsrUtf8 b = b := bsrUtf8_valid b h

theorem host_decode_ascii (b : Bytes) (h : ∀ c ∈ b, c.toNat < 0x80) : bsrUtf8 b = b := bsrUtf8_ascii b h

/-- **host_decode_is_str.** Whatever bytes an old file holds as a host name, what 18→19 puts in their place is a str:
    valid UTF-8 (so the migrated flow can be saved again and read back by `tnetstring`, whose str payloads are strict). -/
theorem host_decode_is_str (b : Bytes) : utf8Valid (bsrUtf8 b) = true := bsrUtf8_output_valid b

theorem host_decode_escape (n : Nat) (h : 0x80 ≤ n ∧ n ≤ 0xFF) :
    bsrCp (0xDC00 + n) = [0x5c, 0x78, hexd (n / 16), hexd (n % 16)] := bsrCp_escape n h


/-! #### the older integer formats 5 … 9 -/

def touchedOld : Nat → List Bytes
  | 5 => [s "client_conn", s "server_conn"]
  | 6 => [s "client_conn"]
  | 7 => [s "request", s "response"]
  | 8 => [s "request", s "response", s "is_replay"]
  | 9 => [s "client_conn", s "server_conn"]
  | _ => []

theorem convOld_body (v : Nat) (f : Dict → Option Dict) (d d' : Dict) (m : Bytes)
    (hf : convOld v = some f) (h : f d = some d') (hm : ∀ t ∈ touchedOld v, (t == m) = false) :
    dget d' m = dget (setVersion d (v + 1)) m := by
  unfold convOld at hf
  split at hf <;> cases hf <;>
    simp only [touchedOld, List.mem_cons, List.not_mem_nil, or_false, forall_eq_or_imp, forall_eq] at hm
  · exact body_o5 d d' m h hm.1 hm.2
  · exact body_o6 d d' m h hm
  · exact body_o7 d d' m h hm.1 hm.2
  · exact body_o8 d d' m h hm.1 hm.2.1 hm.2.2
  · exact body_o9 d d' m h hm.1 hm.2

theorem convOld_writes_next_version (v : Nat) (f : Dict → Option Dict) (d d' : Dict)
    (hf : convOld v = some f) (h : f d = some d') : dget d' (s "version") = some (.int (v + 1)) := by
  rw [convOld_body v f d d' _ hf h]
  · exact dget_dset_same _ _ _
  · unfold convOld at hf
    split at hf <;> cases hf <;> decide +kernel

theorem convOld_frame (v : Nat) (f : Dict → Option Dict) (d d' : Dict) (m : Bytes)
    (hf : convOld v = some f) (h : f d = some d') (hv : (s "version" == m) = false)
    (hm : ∀ t ∈ touchedOld v, (t == m) = false) : dget d' m = dget d m := by
  rw [convOld_body v f d d' m hf h hm]; exact dget_dset_ne _ _ _ _ hv

/-- **old_identity_preserved.** `id`, `type`, `error`, `intercepted` pass through every older converter. -/
theorem old_identity_preserved (v : Nat) (f : Dict → Option Dict) (d d' : Dict)
    (hf : convOld v = some f) (h : f d = some d') :
    dget d' (s "id") = dget d (s "id") ∧ dget d' (s "type") = dget d (s "type") ∧
    dget d' (s "error") = dget d (s "error") ∧ dget d' (s "intercepted") = dget d (s "intercepted") := by
  refine ⟨?_, ?_, ?_, ?_⟩ <;>
  · apply convOld_frame v f d d' _ hf h (by decide +kernel)
    unfold convOld at hf
    split at hf <;> cases hf <;> decide +kernel

/-- **old_request_preserved.** Only 7→8 and 8→9 touch the request. -/
theorem old_request_preserved (v : Nat) (f : Dict → Option Dict) (d d' : Dict) (h7 : v ≠ 7) (h8 : v ≠ 8)
    (hf : convOld v = some f) (h : f d = some d') : dget d' (s "request") = dget d (s "request") := by
  apply convOld_frame v f d d' _ hf h (by decide +kernel)
  unfold convOld at hf
  split at hf <;> cases hf <;> first | (exact absurd rfl h7) | (exact absurd rfl h8) | decide +kernel

/-- **request_fields_8_9.** 8→9 removes `first_line_format` and `is_replay` from the request and gives it an empty
    `authority`; method, scheme, host, port, path, headers, content, timestamps are what they were. -/
theorem request_fields_8_9 (d d' : Dict) (r : Dict) (hr : dget d (s "request") = some (.dict r))
    (h : conv_8_9 d = some d') :
    ∃ r', dget d' (s "request") = some (.dict r') ∧ dget r' (s "first_line_format") = none ∧
      dget r' (s "is_replay") = none ∧ dget r' (s "authority") = some (.bytes []) ∧
      ∀ m, (s "first_line_format" == m) = false → (s "is_replay" == m) = false → (s "authority" == m) = false →
        dget r' m = dget r m := by
  unfold conv_8_9 at h
  simp only [Option.bind_eq_bind, Option.bind_eq_some_iff, Option.pure_def, Option.some.injEq] at h
  obtain ⟨⟨d1, rq⟩, h1, ⟨d2, rs⟩, h2, rfl⟩ := h
  have hr' : dget (setVersion d 9) (s "request") = some (.dict r) := by
    rw [← hr]; exact dget_dset_ne _ _ _ _ (by decide +kernel)
  obtain ⟨r', e1, rest⟩ := req89_fields _ _ _ r h1 hr'
  refine ⟨r', ?_, rest⟩
  rw [dget_dset_ne _ _ _ _ (by decide +kernel), resp89_frame _ _ _ _ h2 (by decide +kernel)]
  exact e1

/-- **trailers_added_7_8.** 7→8 gives an existing request `trailers = None` and moves nothing else in it. -/
theorem trailers_added_7_8 (d d' : Dict) (r : Dict) (hr : dget d (s "request") = some (.dict r))
    (h : conv_7_8 d = some d') :
    ∃ r', dget d' (s "request") = some (.dict r') ∧ dget r' (s "trailers") = some .null ∧
      ∀ m, (s "trailers" == m) = false → dget r' m = dget r m := by
  unfold conv_7_8 at h
  simp only [Option.bind_eq_some_iff] at h
  obtain ⟨d1, hd1, h⟩ := h
  have hr' : dget (setVersion d 8) (s "request") = some (.dict r) := by
    rw [← hr]; exact dget_dset_ne _ _ _ _ (by decide +kernel)
  unfold trailersNull at hd1
  rw [hr'] at hd1
  simp only [Option.some.injEq] at hd1
  subst hd1
  refine ⟨_, ?_, dget_dset_same _ _ _, fun m hm => dget_dset_ne _ _ _ _ hm⟩
  rw [trailersNull_frame _ _ _ _ h (by decide +kernel)]; exact dget_dset_same _ _ _

/-- **tls_renamed_5_6.** In the client record `ssl_established`/`timestamp_ssl_setup` become
    `tls_established`/`timestamp_tls_setup` with their values; every other field stays. -/
theorem tls_renamed_5_6 (c c' : Dict) (h : sslToTls c = some c') :
    dget c' (s "tls_established") = dget c (s "ssl_established") ∧
    dget c' (s "timestamp_tls_setup") = dget c (s "timestamp_ssl_setup") ∧
    dget c' (s "ssl_established") = none ∧ dget c' (s "timestamp_ssl_setup") = none ∧
    ∀ m, (s "ssl_established" == m) = false → (s "tls_established" == m) = false →
      (s "timestamp_ssl_setup" == m) = false → (s "timestamp_tls_setup" == m) = false → dget c' m = dget c m := by
  unfold sslToTls at h
  simp only [Option.bind_eq_some_iff] at h
  obtain ⟨c1, h1, h2⟩ := h
  obtain ⟨a1, a2⟩ := renameStrict_spec _ _ _ _ h1 (by decide +kernel)
  obtain ⟨b1, b2⟩ := renameStrict_spec _ _ _ _ h2 (by decide +kernel)
  refine ⟨?_, ?_, ?_, b2, ?_⟩
  · rw [renameStrict_frame _ _ _ _ _ h2 (by decide +kernel) (by decide +kernel)]; exact a1
  · rw [b1, renameStrict_frame _ _ _ _ _ h1 (by decide +kernel) (by decide +kernel)]
  · rw [renameStrict_frame _ _ _ _ _ h2 (by decide +kernel) (by decide +kernel)]; exact a2
  · intro m x1 x2 x3 x4
    rw [renameStrict_frame _ _ _ _ _ h2 x3 x4, renameStrict_frame _ _ _ _ _ h1 x1 x2]

-- non-vacuity: a format-8 record with a request runs through 8→9 and 9→10
example :
    let req : Value := .dict [(.str (s "first_line_format"), .str (s "relative")), (.str (s "path"), .bytes (s "/x"))]
    let conn : Value := .dict [(.str (s "tls_established"), .bool true), (.str (s "alpn_proto_negotiated"), .bytes (s "h2")),
                               (.str (s "cipher_name"), .null), (.str (s "via"), .null)]
    let d : Dict := [(.str (s "version"), .int 8), (.str (s "request"), req), (.str (s "response"), .null),
                     (.str (s "client_conn"), conn), (.str (s "server_conn"), conn)]
    ((conv_8_9 d).bind conv_9_10).isSome = true := by decide +kernel


/-! #### the converters with process-global tables: 11→12 (`_websocket_handshakes`) and 4→5 (connection ids) -/

/-- the table keys a format-11 record may write or consume: its own id if it is a handshake flow, the id it names if it
    is an old websocket flow -/
def keysTouched (d : Dict) : List Bytes :=
  match (dget d (s "metadata")).bind asDict with
  | none => []
  | some md =>
    (if dhas md (s "websocket") then (match dget d (s "id") with | some id => [enc id] | none => []) else []) ++
    (match dget md (s "websocket_handshake") with | some hid => [enc hid] | none => [])

private theorem dget12 (d : Dict) (m : Bytes) (h : (s "version" == m) = false) :
    dget (setVersion d 12) m = dget d m := dget_dset_ne _ _ _ _ h

private theorem dhas_of_dget {d : Dict} {n : Bytes} {v : Value} (h : dget d n = some v) : dhas d n = true := by
  unfold dget at h
  simp only [Option.map_eq_some_iff] at h
  obtain ⟨kv, hkv, _⟩ := h
  simp only [dhas, List.any_eq_true]
  exact ⟨kv, List.mem_of_find?_eq_some hkv, by simpa using List.find?_some hkv⟩

/-- **table_frame_11_12.** Converting a record changes the handshake table at most under the keys that record names. -/
theorem table_frame_11_12 (g g' : Tbl Dict) (d d' : Dict) (m : Bytes) (h : conv_11_12_st g d = some (g', d'))
    (hm : ∀ k ∈ keysTouched d, (k == m) = false) : tget g' m = tget g m := by
  unfold conv_11_12_st at h
  simp only [Option.bind_eq_bind, Option.bind_eq_some_iff] at h
  obtain ⟨md, hmd, g1, hg1, h⟩ := h
  rw [dget12 d _ (by decide +kernel)] at hmd
  have hmd' : (dget d (s "metadata")).bind asDict = some md := by
    simpa only [Option.bind_eq_bind, Option.bind_eq_some_iff] using hmd
  simp only [keysTouched, hmd'] at hm
  have e1 : tget g1 m = tget g m := by
    apply conv1112Store_frame g g1 _ md hg1 m
    intro id hw hid
    rw [dget12 d _ (by decide +kernel)] at hid
    apply hm
    simp [hw, hid]
  split at h
  · simp only [Option.bind_eq_some_iff] at h
    obtain ⟨hid, hhid, h⟩ := h
    split at h
    · cases h
    · simp only [Option.bind_eq_some_iff, Option.pure_def, Option.some.injEq, Prod.mk.injEq] at h
      obtain ⟨⟨data, g2⟩, hsel, dmd, _, rec_, _, rfl, _⟩ := h
      have hk : (enc hid == m) = false := by apply hm; simp [hhid]
      split at hsel
      · simp only [Option.some.injEq, Prod.mk.injEq] at hsel
        obtain ⟨_, rfl⟩ := hsel
        rw [tget_tdel_ne _ _ _ hk]; exact e1
      · simp only [Option.map_eq_some_iff, Prod.mk.injEq] at hsel
        obtain ⟨_, _, _, rfl⟩ := hsel
        exact e1
  · simp only [Option.pure_def, Option.some.injEq, Prod.mk.injEq] at h
    obtain ⟨rfl, _⟩ := h
    exact e1

/-- the table after a run of records all of which convert -/
def runTbl (g : Tbl Dict) : List Dict → Option (Tbl Dict)
  | [] => some g
  | d :: ds => (conv_11_12_st g d).bind (fun r => runTbl r.1 ds)

/-- **stored_until_consumed.** Whatever is on record under a key stays there, unchanged, through any run of records that
    do not name that key — however many, of whatever kind. -/
theorem stored_until_consumed (ds : List Dict) (g g' : Tbl Dict) (m : Bytes) (h : runTbl g ds = some g')
    (hm : ∀ d ∈ ds, ∀ k ∈ keysTouched d, (k == m) = false) : tget g' m = tget g m := by
  induction ds generalizing g with
  | nil => simp only [runTbl, Option.some.injEq] at h; subst h; rfl
  | cons d ds ih =>
    simp only [runTbl, Option.bind_eq_some_iff] at h
    obtain ⟨⟨g1, d1⟩, h1, h2⟩ := h
    rw [ih g1 h2 (fun d' hd' => hm d' (List.mem_cons_of_mem _ hd')),
      table_frame_11_12 g g1 d d1 m h1 (hm d (List.mem_cons_self ..))]

/-- **plain_is_stateless.** A record without websocket metadata neither reads nor writes the table, and the stateful
    converter is the stateless `conv_11_12` on it. -/
theorem plain_is_stateless (g : Tbl Dict) (d md : Dict) (hmd : (dget d (s "metadata")).bind asDict = some md)
    (h1 : dhas md (s "websocket") = false) (h2 : dhas md (s "websocket_handshake") = false) :
    conv_11_12_st g d = some (g, dset (setVersion d 12) (s "websocket") .null) ∧
    conv_11_12 d = some (dset (setVersion d 12) (s "websocket") .null) := by
  have hmd12 : (dget (setVersion d 12) (s "metadata")).bind asDict = some md := by
    rw [dget12 d _ (by decide +kernel)]; exact hmd
  constructor
  · unfold conv_11_12_st
    simp [hmd12, conv1112Store, h1, h2]
  · unfold conv_11_12
    simp [hmd12, h1, h2]

/-- **handshake_stored.** A handshake flow is put on record under its id as it is after the version stamp, and is
    itself converted like a plain record. -/
theorem handshake_stored (g : Tbl Dict) (d md : Dict) (id : Value)
    (hmd : (dget d (s "metadata")).bind asDict = some md)
    (h1 : dhas md (s "websocket") = true) (h2 : dhas md (s "websocket_handshake") = false)
    (hid : dget d (s "id") = some id) (hh : hashable id = true) :
    conv_11_12_st g d = some (tset g (enc id) (setVersion d 12), dset (setVersion d 12) (s "websocket") .null) := by
  have hmd12 : (dget (setVersion d 12) (s "metadata")).bind asDict = some md := by
    rw [dget12 d _ (by decide +kernel)]; exact hmd
  have hid12 : dget (setVersion d 12) (s "id") = some id := by rw [dget12 d _ (by decide +kernel)]; exact hid
  unfold conv_11_12_st
  simp [hmd12, conv1112Store, h1, h2, hid12, hh]

/-- **ws_takes_stored_handshake.** An old websocket flow naming a handshake that is on record comes out as THAT flow
    (id, request, response, connections … are the handshake's), gains the `duplicated` note and a `websocket` record
    with the old flow's messages; the handshake is consumed. -/
theorem ws_takes_stored_handshake (g g' : Tbl Dict) (d d' md hflow : Dict) (hid : Value)
    (hmd : (dget d (s "metadata")).bind asDict = some md) (h1 : dhas md (s "websocket") = false)
    (hh : dget md (s "websocket_handshake") = some hid) (hstored : tget g (enc hid) = some hflow)
    (h : conv_11_12_st g d = some (g', d')) :
    tget g' (enc hid) = none ∧
    (∀ m, (s "metadata" == m) = false → (s "websocket" == m) = false → dget d' m = dget hflow m) ∧
    ∃ rec_, dget d' (s "websocket") = some (.dict rec_) ∧ dget rec_ (s "messages") = dget d (s "messages") ∧
      dget rec_ (s "close_code") = dget d (s "close_code") := by
  have hmd12 : (dget (setVersion d 12) (s "metadata")).bind asDict = some md := by
    rw [dget12 d _ (by decide +kernel)]; exact hmd
  have h2 : dhas md (s "websocket_handshake") = true := dhas_of_dget hh
  unfold conv_11_12_st at h
  simp only [hmd12, conv1112Store, h1, h2, hh, Option.bind_eq_bind, Option.bind_some, Bool.false_eq_true, if_false,
    if_true, hstored] at h
  split at h
  · cases h
  · simp only [Option.bind_eq_some_iff, Option.pure_def, Option.some.injEq, Prod.mk.injEq] at h
    obtain ⟨dmd, _, rec_, hrec, rfl, rfl⟩ := h
    refine ⟨tget_tdel_same _ _, fun m a b => ?_, ?_⟩
    · rw [dget_dset_ne _ _ _ _ b, dget_dset_ne _ _ _ _ a]
    · unfold wsRecord at hrec
      simp only [Option.bind_eq_bind, Option.bind_eq_some_iff, Option.pure_def, Option.some.injEq] at hrec
      obtain ⟨msgs, hmsgs, cs, _, cc, hcc, cr, _, te, _, rfl⟩ := hrec
      rw [dget12 d _ (by decide +kernel)] at hmsgs hcc
      refine ⟨_, dget_dset_same _ _ _, ?_, ?_⟩
      · rw [hmsgs]; exact dget_cons_same _ _ _
      · rw [hcc]
        repeat (first | rw [dget_cons_ne _ _ _ _ (by decide +kernel)] | rw [dget_cons_same])

/-- **ws_without_handshake_dummy.** With no handshake on record the old websocket flow becomes the made-up flow: its own
    id and connections, the placeholder request for host `unknown`; the table is as it was. -/
theorem ws_without_handshake_dummy (g g' : Tbl Dict) (d d' md : Dict) (hid : Value)
    (hmd : (dget d (s "metadata")).bind asDict = some md) (h1 : dhas md (s "websocket") = false)
    (hh : dget md (s "websocket_handshake") = some hid) (hstored : tget g (enc hid) = none)
    (h : conv_11_12_st g d = some (g', d')) :
    g' = g ∧ dget d' (s "request") = some dummyRequest ∧ dget d' (s "id") = dget d (s "id") ∧
    dget d' (s "client_conn") = dget d (s "client_conn") ∧ dget d' (s "server_conn") = dget d (s "server_conn") ∧
    dget d' (s "version") = some (.int 12) := by
  have hmd12 : (dget (setVersion d 12) (s "metadata")).bind asDict = some md := by
    rw [dget12 d _ (by decide +kernel)]; exact hmd
  have h2 : dhas md (s "websocket_handshake") = true := dhas_of_dget hh
  unfold conv_11_12_st at h
  simp only [hmd12, conv1112Store, h1, h2, hh, Option.bind_eq_bind, Option.bind_some, Bool.false_eq_true, if_false,
    if_true, hstored] at h
  split at h
  · cases h
  · simp only [Option.bind_eq_some_iff, Option.pure_def, Option.some.injEq, Prod.mk.injEq, Option.map_eq_some_iff] at h
    obtain ⟨⟨data, g2⟩, ⟨df, hdf, hpair⟩, dmd, _, rec_, _, rfl, rfl⟩ := h
    simp only [Prod.mk.injEq] at hpair
    obtain ⟨rfl, rfl⟩ := hpair
    unfold dummyFlow at hdf
    simp only [Option.bind_eq_bind, Option.bind_eq_some_iff, Option.pure_def, Option.some.injEq] at hdf
    obtain ⟨cc, hcc, er, _, id, hid', ic, _, ir, _, mk, _, sc, hsc, rfl⟩ := hdf
    rw [dget12 d _ (by decide +kernel)] at hcc hid' hsc
    refine ⟨rfl, ?_, ?_, ?_, ?_, ?_⟩ <;>
      rw [dget_dset_ne _ _ _ _ (by decide +kernel), dget_dset_ne _ _ _ _ (by decide +kernel)] <;> dsimp only
    · repeat (first | rw [dget_cons_ne _ _ _ _ (by decide +kernel)] | rw [dget_cons_same])
    · rw [hid']; repeat (first | rw [dget_cons_ne _ _ _ _ (by decide +kernel)] | rw [dget_cons_same])
    · rw [hcc]; repeat (first | rw [dget_cons_ne _ _ _ _ (by decide +kernel)] | rw [dget_cons_same])
    · rw [hsc]; repeat (first | rw [dget_cons_ne _ _ _ _ (by decide +kernel)] | rw [dget_cons_same])
    · repeat (first | rw [dget_cons_ne _ _ _ _ (by decide +kernel)] | rw [dget_cons_same])


/-- **ids_stable_4_5.** Whatever id a connection key has on record, it keeps through the conversion of any further
    record (setdefault never overwrites), and the id supply only moves forward. -/
theorem ids_stable_4_5 (fresh : Nat → Value) (g g' : Ids) (d d' : Dict) (h : conv_4_5_st fresh g d = some (g', d')) :
    (∀ k v, tget g.client k = some v → tget g'.client k = some v) ∧
    (∀ k v, tget g.server k = some v → tget g'.server k = some v) ∧ g.drawn < g'.drawn := by
  unfold conv_4_5_st at h
  simp only [Option.bind_eq_bind, Option.bind_eq_some_iff] at h
  obtain ⟨cc, _, sc, _, ck, _, sk, _, via, _, h⟩ := h
  split at h
  · simp only [Option.bind_eq_some_iff, Option.pure_def, Option.some.injEq, Prod.mk.injEq] at h
    obtain ⟨vd, _, vk, _, rfl, _⟩ := h
    exact ⟨fun k v hk => setdefault_mono _ _ _ _ _ hk,
      fun k v hk => setdefault_mono _ _ _ _ _ (setdefault_mono _ _ _ _ _ hk), by simp⟩
  · simp only [Option.pure_def, Option.some.injEq, Prod.mk.injEq] at h
    obtain ⟨rfl, _⟩ := h
    exact ⟨fun k v hk => setdefault_mono _ _ _ _ _ hk, fun k v hk => setdefault_mono _ _ _ _ _ hk, by simp⟩

/-- a run of format-4 records through 4→5 -/
def runIds (fresh : Nat → Value) (g : Ids) : List Dict → Option (Ids × List Dict)
  | [] => some (g, [])
  | d :: ds => (conv_4_5_st fresh g d).bind (fun r => (runIds fresh r.1 ds).map (fun q => (q.1, r.2 :: q.2)))

/-- **ids_stable_over_run.** … through any number of records. -/
theorem ids_stable_over_run (fresh : Nat → Value) (ds : List Dict) (g g' : Ids) (out : List Dict)
    (h : runIds fresh g ds = some (g', out)) :
    (∀ k v, tget g.client k = some v → tget g'.client k = some v) ∧
    (∀ k v, tget g.server k = some v → tget g'.server k = some v) ∧ g.drawn ≤ g'.drawn := by
  induction ds generalizing g out with
  | nil => simp only [runIds, Option.some.injEq, Prod.mk.injEq] at h; obtain ⟨rfl, _⟩ := h; exact ⟨fun _ _ h => h, fun _ _ h => h, Nat.le_refl _⟩
  | cons d ds ih =>
    simp only [runIds, Option.bind_eq_some_iff, Option.map_eq_some_iff, Prod.mk.injEq] at h
    obtain ⟨⟨g1, d1⟩, h1, ⟨g2, o2⟩, h2, rfl, _⟩ := h
    obtain ⟨a1, a2, a3⟩ := ids_stable_4_5 fresh g g1 d d1 h1
    obtain ⟨b1, b2, b3⟩ := ih g1 o2 h2
    exact ⟨fun k v hk => b1 k v (a1 k v hk), fun k v hk => b2 k v (a2 k v hk), by omega⟩

/-- **client_id_is_recorded_id.** The id written into the client connection is the one on record for its key after the
    step — the recorded one if the key was known, else the id just drawn. -/
theorem client_id_is_recorded_id (fresh : Nat → Value) (g g' : Ids) (d d' : Dict)
    (h : conv_4_5_st fresh g d = some (g', d')) :
    ∃ cc ck cc', dget d (s "client_conn") = some (.dict cc) ∧ connKey cc (s "address") = some ck ∧
      dget d' (s "client_conn") = some (.dict cc') ∧ dget cc' (s "id") = tget g'.client ck ∧
      (∀ old, tget g.client ck = some old → dget cc' (s "id") = some old) ∧
      (tget g.client ck = none → dget cc' (s "id") = some (fresh g.drawn)) := by
  unfold conv_4_5_st at h
  simp only [Option.bind_eq_bind, Option.bind_eq_some_iff] at h
  obtain ⟨cc, ⟨vc, hvc, hcc⟩, sc, _, ck, hck, sk, _, via, _, h⟩ := h
  cases vc <;> simp only [asDict, Option.some.injEq, reduceCtorEq] at hcc
  subst hcc
  rename_i kvs
  rw [show dget (setVersion d 5) (s "client_conn") = dget d (s "client_conn") from
    dget_dset_ne _ _ _ _ (by decide +kernel)] at hvc
  have hrec := setdefault_result_recorded g.client ck (fresh g.drawn)
  have hsp := setdefault_spec g.client ck (fresh g.drawn)
  split at h
  · simp only [Option.bind_eq_some_iff, Option.pure_def, Option.some.injEq, Prod.mk.injEq] at h
    obtain ⟨vd, _, vk, _, rfl, rfl⟩ := h
    refine ⟨kvs, ck, dset kvs (s "id") (setdefault g.client ck (fresh g.drawn)).2, hvc, hck, ?_, ?_, ?_, ?_⟩
    · rw [dget_dset_ne _ _ _ _ (by decide +kernel)]; exact dget_dset_same _ _ _
    · rw [dget_dset_same]; exact hrec.symm
    · intro old ho; rw [dget_dset_same, (hsp.1 old ho)]
    · intro hn; rw [dget_dset_same, (hsp.2 hn).1]
  · simp only [Option.pure_def, Option.some.injEq, Prod.mk.injEq] at h
    obtain ⟨rfl, rfl⟩ := h
    refine ⟨kvs, ck, dset kvs (s "id") (setdefault g.client ck (fresh g.drawn)).2, hvc, hck, ?_, ?_, ?_, ?_⟩
    · rw [dget_dset_ne _ _ _ _ (by decide +kernel)]; exact dget_dset_same _ _ _
    · rw [dget_dset_same]; exact hrec.symm
    · intro old ho; rw [dget_dset_same, (hsp.1 old ho)]
    · intro hn; rw [dget_dset_same, (hsp.2 hn).1]

-- non-vacuity: handshake, then its websocket flow: the second comes out under the handshake's id; a third finds nothing
example :
    let conn : Value := .dict [(.str (s "timestamp_end"), .int 9)]
    let hs : Dict := [(.str (s "version"), .int 11), (.str (s "id"), .str (s "H")), (.str (s "metadata"), .dict [(.str (s "websocket"), .bool true)]),
                      (.str (s "server_conn"), conn)]
    let ws : Dict := [(.str (s "version"), .int 11), (.str (s "id"), .str (s "W")),
                      (.str (s "metadata"), .dict [(.str (s "websocket_handshake"), .str (s "H"))]),
                      (.str (s "messages"), .list []), (.str (s "close_sender"), .str (s "client")), (.str (s "close_code"), .int 1000),
                      (.str (s "close_reason"), .str []), (.str (s "client_conn"), conn), (.str (s "server_conn"), conn),
                      (.str (s "error"), .null), (.str (s "intercepted"), .bool false), (.str (s "is_replay"), .null), (.str (s "marked"), .bool false)]
    ((run1112 [] [hs, ws, ws]).2.map (fun o => (o.bind (fun d => dget d (s "id"))).map enc))
      = [some (enc (.str (s "H"))), some (enc (.str (s "H"))), some (enc (.str (s "W")))] ∧
    (run1112 [] [hs, ws, ws]).1.length = 0 := by decide +kernel


/-! #### the release-numbered formats 0.17 … 3.0 -/

/-- the version value each of these converters writes (a tuple is stored as a list) -/
def tupleNext : Nat → Nat → Value
  | 0, 17 => .list [.int 0, .int 18] | 0, 18 => .list [.int 0, .int 19] | 0, 19 => .list [.int 1, .int 0, .int 0]
  | 1, 0 => .list [.int 2, .int 0, .int 0] | 2, 0 => .list [.int 3, .int 0, .int 0] | _, _ => .int 4

private theorem body_t100 (d d' : Dict) (m : Bytes) (h : conv_100_200 d = some d')
    (h2 : (s "client_conn" == m) = false) (h3 : (s "server_conn" == m) = false) :
    dget d' m = dget (setVersionT d [2, 0, 0]) m := by
  unfold conv_100_200 at h
  simp only [Option.bind_eq_bind, Option.bind_eq_some_iff] at h
  obtain ⟨d1, hd1, d2, hd2, h⟩ := h
  rw [dget_viaUpd_ne _ _ _ _ h h3, dget_dupd_ne _ _ _ _ _ h3 hd2, dget_dupd_ne _ _ _ _ _ h2 hd1]

private theorem body_t200 (d d' : Dict) (m : Bytes) (h : conv_200_300 d = some d')
    (h2 : (s "client_conn" == m) = false) (h3 : (s "server_conn" == m) = false) :
    dget d' m = dget (setVersionT d [3, 0, 0]) m := by
  unfold conv_200_300 at h
  simp only [Option.bind_eq_bind, Option.bind_eq_some_iff] at h
  obtain ⟨d1, hd1, d2, hd2, h⟩ := h
  rw [dget_viaUpd_ne _ _ _ _ h h3, dget_dupd_ne _ _ _ _ _ h3 hd2, dget_dupd_ne _ _ _ _ _ h2 hd1]

/-- **tuple_writes_next_version.** Each modelled release-numbered converter stamps exactly its successor version. -/
theorem tuple_writes_next_version (a b : Nat) (f : Dict → Option Dict) (d d' : Dict)
    (hf : convTuple a b = some f) (h : f d = some d') : dget d' (s "version") = some (tupleNext a b) := by
  unfold convTuple at hf
  split at hf <;> cases hf
  · unfold conv_017_018 at h
    simp only [Option.bind_eq_bind, Option.bind_eq_some_iff, Option.pure_def, Option.some.injEq] at h
    obtain ⟨_, _, _, _, rfl⟩ := h
    exact dget_dset_same _ _ _
  · unfold conv_018_019 at h
    simp only [Option.bind_eq_bind, Option.bind_eq_some_iff, Option.pure_def, Option.some.injEq] at h
    obtain ⟨_, _, _, _, _, _, _, _, _, _, rfl⟩ := h
    exact dget_dset_same _ _ _
  · unfold conv_019_100 at h
    simp only [Option.bind_eq_bind, Option.bind_eq_some_iff, Option.pure_def, Option.some.injEq] at h
    obtain ⟨_, _, rfl⟩ := h
    exact dget_dset_same _ _ _
  · rw [body_t100 d d' _ h (by decide +kernel) (by decide +kernel)]; exact dget_dset_same _ _ _
  · rw [body_t200 d d' _ h (by decide +kernel) (by decide +kernel)]; exact dget_dset_same _ _ _
  · unfold conv_300_4 at h
    simp only [Option.pure_def, Option.some.injEq] at h
    subst h
    exact dget_dset_same _ _ _

/-- **tuple_frame_1_2_3.** 1.0→2.0 (address records unwrapped), 2.0→3.0 (`mitmcert`, `tls_version` added) and 3.0→4 touch
    only the version and the two connection records: request, response, error, id, type, marked, metadata … stay. -/
theorem tuple_frame_1_2_3 (a : Nat) (f : Dict → Option Dict) (d d' : Dict) (m : Bytes) (ha : 1 ≤ a)
    (hf : convTuple a 0 = some f) (h : f d = some d') (hv : (s "version" == m) = false)
    (h2 : (s "client_conn" == m) = false) (h3 : (s "server_conn" == m) = false) : dget d' m = dget d m := by
  unfold convTuple at hf
  split at hf <;> cases hf
  · omega
  · omega
  · omega
  · rw [body_t100 d d' m h h2 h3]; exact dget_dset_ne _ _ _ _ hv
  · rw [body_t200 d d' m h h2 h3]; exact dget_dset_ne _ _ _ _ hv
  · unfold conv_300_4 at h
    simp only [Option.pure_def, Option.some.injEq] at h
    subst h
    exact dget_dset_ne _ _ _ _ hv

-- non-vacuity: a 1.0 record (addresses wrapped in {"address": …, "use_ipv6": …}) through 1.0→2.0→3.0→4
example :
    let addr (h : String) (p : Int) : Value := .dict [(.str (s "address"), .list [.str (s h), .int p]), (.str (s "use_ipv6"), .bool false)]
    let cc : Value := .dict [(.str (s "address"), addr "127.0.0.1" 5)]
    let sc : Value := .dict [(.str (s "address"), addr "example.com" 443), (.str (s "source_address"), addr "10.0.0.1" 6),
                             (.str (s "ip_address"), .null), (.str (s "via"), .null)]
    let d : Dict := [(.str (s "version"), .list [.int 1, .int 0, .int 0]), (.str (s "client_conn"), cc), (.str (s "server_conn"), sc)]
    ((((conv_100_200 d).bind conv_200_300).bind conv_300_4).bind (fun d' => dget d' (s "version"))).map enc = some (enc (.int 4)) := by
  decide +kernel


/-! #### the oldest formats 0.11 … 0.16 (bytes keys) -/

/-- **bytes_writes_next_version.** Each of the six oldest converters stamps `(0, minor + 1)` under the bytes key `version`. -/
theorem bytes_writes_next_version (minor : Nat) (f : Dict → Option Dict) (d d' : Dict)
    (hf : convBytes minor = some f) (h : f d = some d') :
    bget d' (s "version") = some (.list [.int 0, .int (minor + 1)]) := by
  unfold convBytes at hf
  split at hf <;> cases hf
  · simp only [conv_011_012, Option.pure_def, Option.some.injEq] at h; subst h; exact bget_bset_same _ _ _
  · simp only [conv_012_013, Option.pure_def, Option.some.injEq] at h; subst h; exact bget_bset_same _ _ _
  · unfold conv_013_014 at h
    simp only [Option.bind_eq_bind, Option.bind_eq_some_iff, Option.pure_def, Option.some.injEq] at h
    obtain ⟨_, _, _, _, _, _, rfl⟩ := h
    exact bget_bset_same _ _ _
  · simp only [conv_014_015, Option.pure_def, Option.some.injEq] at h; subst h; exact bget_bset_same _ _ _
  · unfold conv_015_016 at h
    simp only [Option.bind_eq_bind, Option.bind_eq_some_iff, Option.pure_def, Option.some.injEq] at h
    obtain ⟨_, _, _, _, _, _, _, _, rfl⟩ := h
    exact bget_bset_same _ _ _
  · unfold conv_016_017 at h
    simp only [Option.bind_eq_bind, Option.bind_eq_some_iff, Option.pure_def, Option.some.injEq] at h
    obtain ⟨_, _, rfl⟩ := h
    exact bget_bset_same _ _ _

/-- **bytes_frame.** They touch nothing outside `version`, `request`, `response`, `server_conn`: the client connection,
    `error`, `id`, `type`, `intercepted` are what the file held. -/
theorem bytes_frame (minor : Nat) (f : Dict → Option Dict) (d d' : Dict) (m : Bytes)
    (hf : convBytes minor = some f) (h : f d = some d') (hv : (s "version" == m) = false)
    (h1 : (s "request" == m) = false) (h2 : (s "response" == m) = false) (h3 : (s "server_conn" == m) = false) :
    bget d' m = bget d m := by
  unfold convBytes at hf
  split at hf <;> cases hf
  · simp only [conv_011_012, Option.pure_def, Option.some.injEq] at h; subst h; exact bget_bset_ne _ _ _ _ hv
  · simp only [conv_012_013, Option.pure_def, Option.some.injEq] at h; subst h; exact bget_bset_ne _ _ _ _ hv
  · exact body_b13 d d' m h h1 h2 h3 hv
  · simp only [conv_014_015, Option.pure_def, Option.some.injEq] at h; subst h; exact bget_bset_ne _ _ _ _ hv
  · exact body_b15 d d' m h h1 h2 hv
  · exact body_b16 d d' m h h3 hv

/-- **http_version_text.** 0.13→0.14 writes the version pair `[1, 1]` as the bytes `HTTP/1.1`. -/
example : dotJoinInts [.int 1, .int 1] = some (s "1.1") ∧ dotJoinInts [.int 2, .int 0] = some (s "2.0") := by decide +kernel

-- non-vacuity: a 0.13 record runs through 0.13→0.14→0.15→0.16→0.17
example :
    let b (x : String) : Value := .bytes (s x)
    let req : Value := .dict [(b "form_in", b "relative"), (b "httpversion", .list [.int 1, .int 1]), (b "form_out", b "relative")]
    let resp : Value := .dict [(b "httpversion", .list [.int 1, .int 1]), (b "code", .int 200), (b "content", b "x"), (b "msg", b "OK")]
    let d : Dict := [(b "version", .list [.int 0, .int 13]), (b "request", req), (b "response", resp),
                     (b "server_conn", .dict [(b "state", .list [])])]
    (((((conv_013_014 d).bind conv_014_015).bind conv_015_016).bind conv_016_017).bind
      (fun d' => (bget d' (s "response")).bind asDict)).bind (fun r => bget r (s "reason")) |>.map enc
      = some (enc (b "OK")) := by decide +kernel


/-! #### `migrate_flow` as a whole: the loop with every converter dispatched to its transcription -/

/-- a key of the regenerated converter graph as `migrate_flow` computes it from the stored version -/
def keyOfVer : Ver → VKey
  | .tup a b => .tup a b
  | .int n => .int n

/-- whether the composed model has a transcription for a key (does not depend on the state or the record) -/
def hasConv (k : VKey) : Bool :=
  match k with
  | .tup a b => decide (0 ≤ a) && decide (0 ≤ b) &&
      ((convTuple a.toNat b.toNat).isSome || (decide (a = 0) && (convBytes b.toNat).isSome))
  | .int n => decide (n = 4) || decide (n = 11) || (decide (0 ≤ n) && ((conv n.toNat).isSome || (convOld n.toNat).isSome))
  | .other => false

theorem convAny_isSome_iff (fresh : Nat → Value) (fadd : Bytes → Option Bytes) (st : MigSt) (k : VKey) (d : Dict) :
    (convAny fresh fadd st k d).isSome = hasConv k := by
  cases k with
  | other => rfl
  | tup a b =>
    simp only [convAny, hasConv]
    by_cases ha : a < 0
    · simp [ha, Int.not_le.mpr ha]
    · by_cases hb : b < 0
      · simp [hb, Int.not_le.mpr hb]
      · have ha' : 0 ≤ a := by omega
        have hb' : 0 ≤ b := by omega
        simp only [ha, hb, or_self, if_false, ha', hb', decide_true, Bool.true_and]
        cases h1 : convTuple a.toNat b.toNat with
        | some f => simp
        | none =>
          by_cases h0 : a = 0
          · simp only [Option.orElse_none, h0, if_true, Option.isSome_none, Bool.false_or, decide_true, Bool.true_and]
            cases convBytes b.toNat <;> rfl
          · simp [h0]
  | int n =>
    simp only [convAny, hasConv]
    by_cases h4 : n = 4
    · simp [h4]
    · by_cases h11 : n = 11
      · simp [h11]
      · by_cases h13 : n = 13
        · subst h13; simp [conv]
        by_cases hn : n < 0
        · simp [h4, h11, h13, hn, Int.not_le.mpr hn]
        · have hn' : 0 ≤ n := by omega
          simp only [h4, h11, h13, hn, if_false, decide_false, Bool.false_or, hn', decide_true, Bool.true_and]
          cases h1 : conv n.toNat with
          | some f => simp
          | none => simp only [Option.orElse_none, Option.isSome_none, Bool.false_or]; cases convOld n.toNat <;> rfl

/-- **every_registered_converter_is_modelled.** Every key of the converter graph REGENERATED from compat.py on this run has a
    Lean transcription in the composed model — a converter added to `compat.converters` without one breaks this proof. -/
theorem every_registered_converter_is_modelled : ∀ e ∈ graph, hasConv (keyOfVer e.1) = true := by decide +kernel

/-- … and conversely the composed model dispatches on nothing the source does not register (keys up to 40 / tuples up to 5.30). -/
theorem no_extra_converter :
    (∀ n : Fin 41, hasConv (.int n.val) = (lookup graph (.int n.val)).isSome) ∧
    (∀ a : Fin 6, ∀ b : Fin 31, hasConv (.tup a.val b.val) = (lookup graph (.tup a.val b.val)).isSome) := by
  decide +kernel

/-- **migrate_ends_at_current.** Whenever the composed `migrate_flow` returns, the record carries the current version. -/
theorem migrateF_ends_at_current (fresh : Nat → Value) (fadd : Bytes → Option Bytes) (cur : Int) (f : Nat) (st st' : MigSt)
    (prev : Option VKey) (d d' : Dict) (h : migrateFlowF fresh fadd cur f st prev d = some (some (st', d'))) :
    versionKey d' = some (.int cur) := by
  induction f generalizing st prev d with
  | zero => simp [migrateFlowF] at h
  | succ f ih =>
    unfold migrateFlowF at h
    split at h
    · cases h
    · next k hk =>
      split at h
      · next hcur =>
        simp only [Option.some.injEq, Prod.mk.injEq] at h; obtain ⟨_, rfl⟩ := h; rw [hk, hcur]
      · split at h
        · cases h
        · split at h
          · cases h
          · cases h
          · exact ih _ _ _ h

theorem migrate_ends_at_current (fresh : Nat → Value) (fadd : Bytes → Option Bytes) (cur : Int) (f : Nat) (st st' : MigSt) (prev : Option VKey)
    (d d' : Dict) (h : migrateFlow fresh fadd cur f st prev d = some (st', d')) : versionKey d' = some (.int cur) := by
  unfold migrateFlow at h
  cases hF : migrateFlowF fresh fadd cur f st prev d with
  | none => simp [hF] at h
  | some r =>
    cases r with
    | none => simp [hF] at h
    | some x =>
      simp only [hF, Option.join_some, Option.some.injEq] at h
      subst h
      exact migrateF_ends_at_current fresh fadd cur f st st' prev d d' hF

/-- **migrate_fuel_irrelevant.** Fuel only matters until the loop has ended: once the model gives an answer — returned or
    raised — with fuel `f`, it gives the same answer with any larger fuel.  So running out of fuel (outer `none`, which the
    driver prints as `diverged`) can never be mistaken for an exception, and an answer never depends on the constant chosen. -/
theorem migrate_fuel_irrelevant (fresh : Nat → Value) (fadd : Bytes → Option Bytes) (cur : Int) (f k : Nat) (st : MigSt)
    (prev : Option VKey) (d : Dict) (r : Option (MigSt × Dict)) (h : migrateFlowF fresh fadd cur f st prev d = some r) :
    migrateFlowF fresh fadd cur (f + k) st prev d = some r := by
  induction f generalizing st prev d with
  | zero => simp [migrateFlowF] at h
  | succ f ih =>
    have e : f + 1 + k = (f + k) + 1 := by omega
    rw [e]
    rw [migrateFlowF] at h ⊢
    cases hk : versionKey d with
    | none => simpa [hk] using h
    | some kk =>
      simp only [hk] at h ⊢
      by_cases hcur : kk = .int cur
      · simpa [hcur] using h
      · simp only [hcur, if_false] at h ⊢
        by_cases hp : some kk = prev
        · simpa [hp] using h
        · simp only [hp, if_false] at h ⊢
          cases hc : convAny fresh fadd st kk d with
          | none => simpa [hc] using h
          | some r2 =>
            cases r2 with
            | none => simpa [hc] using h
            | some p =>
              obtain ⟨st2, d2⟩ := p
              simp only [hc] at h ⊢
              exact ih _ _ _ h

/-- **migrate_current_unchanged.** A record already at the current version is returned as it is, tables untouched. -/
theorem migrate_current_unchanged (fresh : Nat → Value) (fadd : Bytes → Option Bytes) (cur : Int) (f : Nat) (st : MigSt) (prev : Option VKey) (d : Dict)
    (h : versionKey d = some (.int cur)) : migrateFlow fresh fadd cur (f + 1) st prev d = some (st, d) := by
  unfold migrateFlow migrateFlowF
  simp [h]

/-- **migrate_turn_cases.** What the composed loop reports as an exception is one of: no usable version value, a version
    with no converter (the graph-level `reject` says which message: `unknown_rejected`, `reject_update_iff`), the stale-version
    refusal, or a converter that raised — never silence: every turn either ends the loop or applies exactly one converter and
    goes on with the converted record. -/
theorem migrate_turn_cases (fresh : Nat → Value) (fadd : Bytes → Option Bytes) (cur : Int) (f : Nat) (st : MigSt) (prev : Option VKey) (d : Dict) :
    migrateFlowF fresh fadd cur (f + 1) st prev d = some none ∨
    migrateFlowF fresh fadd cur (f + 1) st prev d = some (some (st, d)) ∨
    ∃ k st' d', versionKey d = some k ∧ convAny fresh fadd st k d = some (some (st', d')) ∧
      migrateFlowF fresh fadd cur (f + 1) st prev d = migrateFlowF fresh fadd cur f st' (some k) d' := by
  cases hk : versionKey d with
  | none => left; rw [migrateFlowF]; simp [hk]
  | some k =>
    by_cases hcur : k = .int cur
    · right; left; rw [migrateFlowF]; simp [hk, hcur]
    · by_cases hp : some k = prev
      · subst hp; left; rw [migrateFlowF]; simp [hk, hcur]
      · cases hc : convAny fresh fadd st k d with
        | none => left; rw [migrateFlowF]; simp [hk, hcur, hp, hc]
        | some r2 =>
          cases r2 with
          | none => left; rw [migrateFlowF]; simp [hk, hcur, hp, hc]
          | some p =>
            obtain ⟨st', d'⟩ := p
            right; right
            refine ⟨k, st', d', rfl, hc, ?_⟩
            rw [migrateFlowF]
            simp [hk, hcur, hp, hc]

/-- **migrate_keeps_request_partial.** One turn of the composed loop on a record of an integer format 12 … 20 (no stale
    bytes `version` key) leaves request, id and type as they are and moves the version on by one — the loop invariant of
    "a record of a recent format comes out of migrate_flow with the request that was recorded". (Stated per turn; the
    whole-loop form needs "no converter introduces a bytes key", true of all of them but not proved here.) -/
theorem migrate_turn_keeps_request (fresh : Nat → Value) (fadd : Bytes → Option Bytes) (st st' : MigSt) (d d' : Dict) (n : Nat)
    (hn : 12 ≤ n ∧ n ≤ 20) (h : convAny fresh fadd st (.int n) d = some (some (st', d'))) :
    st' = st ∧ dget d' (s "request") = dget d (s "request") ∧ dget d' (s "id") = dget d (s "id") ∧
    dget d' (s "type") = dget d (s "type") ∧ dget d' (s "version") = some (.int (n + 1)) := by
  have h4 : ¬ ((n : Int) = 4) := by omega
  have h11 : ¬ ((n : Int) = 11) := by omega
  have hneg : ¬ ((n : Int) < 0) := by omega
  by_cases h13 : (n : Int) = 13
  · have hn13 : n = 13 := by omega
    subst hn13
    have e : convAny fresh fadd st (.int ((13 : Nat) : Int)) d = some ((conv_13_14F fadd d).map (fun d' => (st, d'))) := by
      simp [convAny]
    rw [e] at h
    simp only [Option.some.injEq, Option.map_eq_some_iff, Prod.mk.injEq] at h
    obtain ⟨x, hx, rfl, rfl⟩ := h
    refine ⟨rfl, ?_, ?_, ?_, ?_⟩
    · rw [body_13F fadd d _ _ hx (by decide +kernel) (by decide +kernel)]; exact dget_dset_ne _ _ _ _ (by decide +kernel)
    · rw [body_13F fadd d _ _ hx (by decide +kernel) (by decide +kernel)]; exact dget_dset_ne _ _ _ _ (by decide +kernel)
    · rw [body_13F fadd d _ _ hx (by decide +kernel) (by decide +kernel)]; exact dget_dset_ne _ _ _ _ (by decide +kernel)
    · rw [body_13F fadd d _ _ hx (by decide +kernel) (by decide +kernel)]; exact dget_dset_same _ _ _
  · simp only [convAny, h4, h11, h13, hneg, if_false, Int.toNat_natCast] at h
    cases hc : conv n with
    | none =>
      exfalso
      obtain ⟨a, b⟩ := hn
      have : n = 12 ∨ n = 13 ∨ n = 14 ∨ n = 15 ∨ n = 16 ∨ n = 17 ∨ n = 18 ∨ n = 19 ∨ n = 20 := by omega
      rcases this with rfl | rfl | rfl | rfl | rfl | rfl | rfl | rfl | rfl <;> simp [conv] at hc
    | some f =>
      simp only [hc, Option.orElse_some, Option.some.injEq, Option.map_eq_some_iff, Prod.mk.injEq] at h
      obtain ⟨x, hx, rfl, rfl⟩ := h
      obtain ⟨r1, r2, r3, _, _⟩ := request_preserved n f d _ hc hx
      exact ⟨rfl, r1, r2, r3, by have := conv_writes_next_version n f d _ hc hx; simpa using this⟩


/-! #### success, not only correctness: the two most recent formats DO convert -/

private theorem dupd_succeeds (d : Dict) (n : Bytes) (sd : Dict) (f : Dict → Option Dict) (sd' : Dict)
    (h : dget d n = some (.dict sd)) (hf : f sd = some sd') : dupd d n f = some (dset d n (.dict sd')) := by
  unfold dupd
  simp [h, asDict, hf]

/-- **format_19_20_records_convert.** A format-19 record whose two connection records are dicts carrying `tls_version` — what every
    release writing formats 19 and 20 stored — is converted by 19→20 and then by 20→21: the converters do not raise on it, and the
    result carries version 21. (The existence half of "loads" for the two most recent old formats; for older formats it rests
    on the differential runs, see `level_note`.) -/
theorem format_19_20_records_convert (d cc sc : Dict) (tvc tvs : Value)
    (h1 : dget d (s "client_conn") = some (.dict cc)) (h2 : dget d (s "server_conn") = some (.dict sc))
    (h3 : dget cc (s "tls_version") = some tvc) (h4 : dget sc (s "tls_version") = some tvs) :
    ∃ d', chain19 d = some d' ∧ dget d' (s "version") = some (.int 21) := by
  -- 19 → 20
  have a1 : dget (setVersion d 20) (s "client_conn") = some (.dict cc) := by
    rw [← h1]; exact dget_dset_ne _ _ _ _ (by decide +kernel)
  have e1 := dupd_succeeds (setVersion d 20) (s "client_conn") cc (fun c => pure (dpop c (s "state"))) _ a1 rfl
  have a2 : dget (dset (setVersion d 20) (s "client_conn") (.dict (dpop cc (s "state")))) (s "server_conn") = some (.dict sc) := by
    rw [dget_dset_ne _ _ _ _ (by decide +kernel), ← h2]; exact dget_dset_ne _ _ _ _ (by decide +kernel)
  have e2 := dupd_succeeds _ (s "server_conn") sc (fun c => pure (dpop c (s "state"))) _ a2 rfl
  have c1920 : ∃ d20, conv_19_20 d = some d20 ∧
      dget d20 (s "client_conn") = some (.dict (dpop cc (s "state"))) ∧ dget d20 (s "server_conn") = some (.dict (dpop sc (s "state"))) := by
    refine ⟨dset (dset (setVersion d 20) (s "client_conn") (.dict (dpop cc (s "state")))) (s "server_conn")
        (.dict (dpop sc (s "state"))), ?_, ?_, dget_dset_same _ _ _⟩
    · unfold conv_19_20
      simp only [Option.bind_eq_bind, e1, Option.bind_some]
      exact e2
    · rw [dget_dset_ne _ _ _ _ (by decide +kernel)]; exact dget_dset_same _ _ _
  obtain ⟨d20, hd20, g1, g2⟩ := c1920
  -- 20 → 21
  have t1 : dget (dpop cc (s "state")) (s "tls_version") = some tvc := by
    rw [dget_dpop_ne _ _ _ (by decide +kernel)]; exact h3
  have t2 : dget (dpop sc (s "state")) (s "tls_version") = some tvs := by
    rw [dget_dpop_ne _ _ _ (by decide +kernel)]; exact h4
  have b1 : dget (setVersion d20 21) (s "client_conn") = some (.dict (dpop cc (s "state"))) := by
    rw [← g1]; exact dget_dset_ne _ _ _ _ (by decide +kernel)
  have c2021 : ∃ d21, conv_20_21 d20 = some d21 := by
    unfold conv_20_21
    simp only [Option.bind_eq_bind]
    cases hx1 : dupd (setVersion d20 21) (s "client_conn") (fun c => do
        let tv ← dget c (s "tls_version")
        pure (match tv with
          | .str u => if u == s "QUIC" then dset c (s "tls_version") (.str (s "QUICv1")) else c
          | _ => c)) with
    | none =>
      exfalso
      unfold dupd at hx1
      simp [b1, asDict, t1] at hx1
    | some x1 =>
      simp only [Option.bind_some]
      have hx1b : dget x1 (s "server_conn") = some (.dict (dpop sc (s "state"))) := by
        rw [dget_dupd_ne _ _ _ _ _ (by decide +kernel) hx1]
        rw [← g2]; exact dget_dset_ne _ _ _ _ (by decide +kernel)
      cases hx2 : dupd x1 (s "server_conn") (fun c => do
          let tv ← dget c (s "tls_version")
          pure (match tv with
            | .str u => if u == s "QUIC" then dset c (s "tls_version") (.str (s "QUICv1")) else c
            | _ => c)) with
      | none =>
        exfalso
        unfold dupd at hx2
        simp [hx1b, asDict, t2] at hx2
      | some x2 => exact ⟨x2, rfl⟩
  obtain ⟨d21, hd21⟩ := c2021
  refine ⟨d21, ?_, conv_writes_next_version 20 _ d20 d21 rfl hd21⟩
  unfold chain19
  simp [hd20, hd21]


/-- what formats 12 … 17 always stored for a flow that is not a WebSocket flow and whose response (if any) has its timestamps:
    the hypotheses of `format_12_records_convert` -/
structure Shape12 (d : Dict) : Prop where
  marked : ∃ m, dget d (s "marked") = some m
  response : dget d (s "response") = some .null ∨
    ∃ r ts, dget d (s "response") = some (.dict r) ∧ dget r (s "timestamp_start") = some ts ∧ ts ≠ .null
  websocket : dget d (s "websocket") = some .null
  request : ∃ rq ts, dget d (s "request") = some (.dict rq) ∧ dget rq (s "timestamp_start") = some ts
  client : ∃ cc, dget d (s "client_conn") = some (.dict cc)

private theorem conv_13_14_simple (d : Dict)
    (h : dget d (s "response") = some .null ∨
      ∃ r ts, dget d (s "response") = some (.dict r) ∧ dget r (s "timestamp_start") = some ts ∧ ts ≠ .null) :
    conv_13_14 d = some (dset (setVersion d 14) (s "comment") (.str [])) := by
  have e : dget (dset (setVersion d 14) (s "comment") (.str [])) (s "response") = dget d (s "response") := by
    rw [dget_dset_ne _ _ _ _ (by decide +kernel)]; exact dget_dset_ne _ _ _ _ (by decide +kernel)
  unfold conv_13_14 conv_13_14F
  simp only [Option.pure_def, e]
  rcases h with h | ⟨r, ts, hr, hts, hne⟩
  · simp [h]
  · simp only [hr]
    by_cases hemp : r.isEmpty = true
    · simp [hemp]
    · simp only [hemp, if_false, hts]
      cases ts <;> first | (exact absurd rfl hne) | rfl

/-- **format_12_records_convert_spec.** … and what comes out: the client record gained `proxy_mode = "regular"`, and every top-level
    key other than `version`, `marked`, `comment`, `timestamp_created`, `mode`, `client_conn` — in particular `request`, `response`,
    `server_conn`, `id` — is what the file held. -/
theorem format_12_records_convert_spec (d cc : Dict) (h : Shape12 d) (hcc : dget d (s "client_conn") = some (.dict cc)) :
    ∃ d18, chain12_18 d = some d18 ∧
      dget d18 (s "client_conn") = some (.dict (dset cc (s "proxy_mode") (.str (s "regular")))) ∧
      ∀ key, (s "version" == key) = false → (s "marked" == key) = false → (s "comment" == key) = false →
        (s "timestamp_created" == key) = false → (s "mode" == key) = false → (s "client_conn" == key) = false →
        dget d18 key = dget d key := by
  obtain ⟨⟨m, hm⟩, hresp, hws, ⟨rq, ts, hrq, hts⟩, _⟩ := h
  -- 12 → 13
  have s12 : conv_12_13 d = some (dset (setVersion d 13) (s "marked") (.str (if truthy m then s ":default:" else []))) := by
    have e : dget (setVersion d 13) (s "marked") = some m := by rw [← hm]; exact dget_dset_ne _ _ _ _ (by decide +kernel)
    unfold conv_12_13; simp [e]
  generalize hd13 : dset (setVersion d 13) (s "marked") (.str (if truthy m then s ":default:" else [])) = d13 at s12
  have k13 : ∀ key, (s "version" == key) = false → (s "marked" == key) = false → dget d13 key = dget d key := by
    intro key a b; rw [← hd13, dget_dset_ne _ _ _ _ b]; exact dget_dset_ne _ _ _ _ a
  -- 13 → 14
  have s13 : conv_13_14 d13 = some (dset (setVersion d13 14) (s "comment") (.str [])) := by
    apply conv_13_14_simple
    rw [k13 _ (by decide +kernel) (by decide +kernel)]; exact hresp
  generalize hd14 : dset (setVersion d13 14) (s "comment") (.str []) = d14 at s13
  have k14 : ∀ key, (s "version" == key) = false → (s "comment" == key) = false → dget d14 key = dget d13 key := by
    intro key a b; rw [← hd14, dget_dset_ne _ _ _ _ b]; exact dget_dset_ne _ _ _ _ a
  -- 14 → 15
  have s14 : conv_14_15 d14 = some (setVersion d14 15) := by
    have e : dget (setVersion d14 15) (s "websocket") = some .null := by
      rw [show dget (setVersion d14 15) (s "websocket") = dget d14 (s "websocket") from dget_dset_ne _ _ _ _ (by decide +kernel),
        k14 _ (by decide +kernel) (by decide +kernel), k13 _ (by decide +kernel) (by decide +kernel)]; exact hws
    unfold conv_14_15; simp [e]
  generalize hd15 : setVersion d14 15 = d15 at s14
  have k15 : ∀ key, (s "version" == key) = false → dget d15 key = dget d14 key := by
    intro key a; rw [← hd15]; exact dget_dset_ne _ _ _ _ a
  -- 15 → 16
  have s15 : conv_15_16 d15 = some (dset (setVersion d15 16) (s "timestamp_created") ts) := by
    have e : dget (setVersion d15 16) (s "request") = some (.dict rq) := by
      rw [show dget (setVersion d15 16) (s "request") = dget d15 (s "request") from dget_dset_ne _ _ _ _ (by decide +kernel),
        k15 _ (by decide +kernel), k14 _ (by decide +kernel) (by decide +kernel), k13 _ (by decide +kernel) (by decide +kernel)]
      exact hrq
    unfold conv_15_16; simp [e, asDict, hts]
  generalize hd16 : dset (setVersion d15 16) (s "timestamp_created") ts = d16 at s15
  have k16 : ∀ key, (s "version" == key) = false → (s "timestamp_created" == key) = false → dget d16 key = dget d15 key := by
    intro key a b; rw [← hd16, dget_dset_ne _ _ _ _ b]; exact dget_dset_ne _ _ _ _ a
  -- 16 → 17 (always succeeds), 17 → 18
  have s16 : conv_16_17 d16 = some (dpop (setVersion d16 17) (s "mode")) := rfl
  have ecc : dget (setVersion (dpop (setVersion d16 17) (s "mode")) 18) (s "client_conn") = some (.dict cc) := by
    rw [show dget (setVersion (dpop (setVersion d16 17) (s "mode")) 18) (s "client_conn")
        = dget (dpop (setVersion d16 17) (s "mode")) (s "client_conn") from dget_dset_ne _ _ _ _ (by decide +kernel),
      dget_dpop_ne _ _ _ (by decide +kernel),
      show dget (setVersion d16 17) (s "client_conn") = dget d16 (s "client_conn") from dget_dset_ne _ _ _ _ (by decide +kernel),
      k16 _ (by decide +kernel) (by decide +kernel), k15 _ (by decide +kernel), k14 _ (by decide +kernel) (by decide +kernel),
      k13 _ (by decide +kernel) (by decide +kernel)]
    exact hcc
  have s17 : conv_17_18 (dpop (setVersion d16 17) (s "mode")) =
      some (dset (setVersion (dpop (setVersion d16 17) (s "mode")) 18) (s "client_conn")
        (.dict (dset cc (s "proxy_mode") (.str (s "regular"))))) := by
    unfold conv_17_18 dupd; simp [ecc, asDict]
  refine ⟨dset (setVersion (dpop (setVersion d16 17) (s "mode")) 18) (s "client_conn")
      (.dict (dset cc (s "proxy_mode") (.str (s "regular")))), ?_, dget_dset_same _ _ _, ?_⟩
  · unfold chain12_18
    simp only [Option.bind_eq_bind, s12, Option.bind_some, s13, s14, s15, s16]
    exact s17
  · intro key a1 a2 a3 a4 a5 a6
    rw [dget_dset_ne _ _ _ _ a6,
      show dget (setVersion (dpop (setVersion d16 17) (s "mode")) 18) key = dget (dpop (setVersion d16 17) (s "mode")) key from
        dget_dset_ne _ _ _ _ a1,
      dget_dpop_ne _ _ _ a5,
      show dget (setVersion d16 17) key = dget d16 key from dget_dset_ne _ _ _ _ a1,
      k16 _ a1 a4, k15 _ a1, k14 _ a1 a3, k13 _ a1 a2]

/-- **format_12_records_convert.** A format-12 record of that shape runs through 12→13→…→18 without any converter raising.
    With `format_18_records_convert` and `format_19_20_records_convert`: every modelled step from 12 to 21 has a success theorem. -/
theorem format_12_records_convert (d : Dict) (h : Shape12 d) : (chain12_18 d).isSome = true := by
  obtain ⟨cc, hcc⟩ := h.client
  obtain ⟨d18, h18, _⟩ := format_12_records_convert_spec d cc h hcc
  rw [h18]; rfl

-- non-vacuity: the record of the chain12_18 example has that shape
example : Shape12 [(.str (s "version"), .int 12), (.str (s "marked"), .bool true),
    (.str (s "request"), .dict [(.str (s "path"), .bytes (s "/x")), (.str (s "timestamp_start"), .int 5)]),
    (.str (s "response"), .null), (.str (s "client_conn"), .dict [(.str (s "timestamp_start"), .int 5)]),
    (.str (s "websocket"), .null), (.str (s "mode"), .str (s "regular"))] := by
  refine ⟨⟨.bool true, ?_⟩, Or.inl ?_, ?_, ⟨[(.str (s "path"), .bytes (s "/x")), (.str (s "timestamp_start"), .int 5)], .int 5, ?_, ?_⟩,
    ⟨[(.str (s "timestamp_start"), .int 5)], ?_⟩⟩ <;>
  repeat (first | rw [dget_cons_same] | rw [dget_cons_ne _ _ _ _ (by decide +kernel)])


/-- what formats 10 … 18 stored in the two connection records, as far as 18→19 looks: `tls_extensions` (client) and
    `tls_established` (both) present; every address-like field absent, None, or a pair / text; the server's `sni` a name, None,
    or `True` with the address None or a pair -/
structure Shape18 (d : Dict) : Prop where
  conns : ∃ cc sc, dget d (s "client_conn") = some (.dict cc) ∧ dget d (s "server_conn") = some (.dict sc) ∧
    (∃ tx, dget cc (s "tls_extensions") = some tx) ∧ (∃ te, dget cc (s "tls_established") = some te) ∧
    hostOkB (dget cc (s "address")) = true ∧ hostOkB (dget cc (s "sockname")) = true ∧
    (∃ te, dget sc (s "tls_established") = some te) ∧
    hostOkB (dget sc (s "ip_address")) = true ∧ hostOkB (dget sc (s "source_address")) = true ∧
    hostOkB (dget sc (s "address")) = true ∧
    ∃ sni, dget sc (s "sni") = some sni ∧
      (sni = .bool true → (dget sc (s "address") = some .null ∨ ∃ hh t, dget sc (s "address") = some (.list (hh :: t))))

/-- **format_18_records_convert.** On a record of that shape 18→19 does not raise — whatever bytes the host names hold (the
    decode never fails: undecodable bytes are escaped), with or without a destination (fix 9d000c6e4). With
    `format_12_records_convert` and `format_19_20_records_convert`: every modelled step from 12 to 21 has a success theorem. -/
theorem format_18_records_convert (d : Dict) (h : Shape18 d) :
    ∃ d', conv_18_19 d = some d' ∧ dget d' (s "version") = some (.int 19) := by
  obtain ⟨cc, sc, hcc, hsc, ⟨tx, h0⟩, ⟨te, h1⟩, h2, h3, ⟨te', g1⟩, g2, g3, g4, sni, g5, g6⟩ := h.conns
  obtain ⟨cc', hcc'⟩ := client18_succeeds cc tx te h0 h1 h2 h3
  obtain ⟨sc', hsc'⟩ := server18_succeeds sc te' sni g1 g2 g3 g4 g5 g6
  have e1 : dget (setVersion d 19) (s "client_conn") = some (.dict cc) := by
    rw [← hcc]; exact dget_dset_ne _ _ _ _ (by decide +kernel)
  have e2 : dget (setVersion d 19) (s "server_conn") = some (.dict sc) := by
    rw [← hsc]; exact dget_dset_ne _ _ _ _ (by decide +kernel)
  have hconv : conv_18_19 d = some (dset (dset (setVersion d 19) (s "client_conn") (.dict cc')) (s "server_conn") (.dict sc')) := by
    unfold conv_18_19
    simp [e1, e2, asDict, hcc', hsc']
  exact ⟨_, hconv, conv_writes_next_version 18 _ d _ rfl hconv⟩

-- non-vacuity: the two format-18 example records above (bytes hosts + sni=True; no destination at all) have that shape
example : Shape18 [(.str (s "version"), .int 18),
    (.str (s "client_conn"), .dict [(.str (s "address"), .null), (.str (s "tls_extensions"), .null), (.str (s "tls_established"), .bool false)]),
    (.str (s "server_conn"), .dict [(.str (s "address"), .null), (.str (s "sni"), .bool true), (.str (s "tls_established"), .bool false)])] := by
  refine ⟨_, _, by repeat (first | rw [dget_cons_same] | rw [dget_cons_ne _ _ _ _ (by decide +kernel)]),
    by repeat (first | rw [dget_cons_same] | rw [dget_cons_ne _ _ _ _ (by decide +kernel)]),
    ⟨.null, by repeat (first | rw [dget_cons_same] | rw [dget_cons_ne _ _ _ _ (by decide +kernel)])⟩,
    ⟨.bool false, by repeat (first | rw [dget_cons_same] | rw [dget_cons_ne _ _ _ _ (by decide +kernel)])⟩,
    by decide +kernel, by decide +kernel,
    ⟨.bool false, by repeat (first | rw [dget_cons_same] | rw [dget_cons_ne _ _ _ _ (by decide +kernel)])⟩,
    by decide +kernel, by decide +kernel, by decide +kernel,
    .bool true, by repeat (first | rw [dget_cons_same] | rw [dget_cons_ne _ _ _ _ (by decide +kernel)]),
    fun _ => Or.inl (by repeat (first | rw [dget_cons_same] | rw [dget_cons_ne _ _ _ _ (by decide +kernel)]))⟩

/-! #### the whole modelled chain 12 → 21 -/

def chain12_21 (d : Dict) : Option Dict := chain12_18 d >>= conv_18_19 >>= chain19

/-- a sequence of modelled converter steps starting at version `v` -/
inductive Steps : Nat → Dict → Dict → Prop where
  | nil (v : Nat) (d : Dict) : Steps v d d
  | cons (v : Nat) (f : Dict → Option Dict) (d d1 d2 : Dict) :
      conv v = some f → f d = some d1 → Steps (v + 1) d1 d2 → Steps v d d2

/-- **steps_request_preserved.** However many modelled converters run, one after the other, the recorded request —
    and `id`, `type`, `error`, `intercepted` — come out as they went in. -/
theorem steps_request_preserved (v : Nat) (d d' : Dict) (h : Steps v d d') :
    dget d' (s "request") = dget d (s "request") ∧ dget d' (s "id") = dget d (s "id") ∧
    dget d' (s "type") = dget d (s "type") ∧ dget d' (s "error") = dget d (s "error") ∧
    dget d' (s "intercepted") = dget d (s "intercepted") := by
  induction h with
  | nil => exact ⟨rfl, rfl, rfl, rfl, rfl⟩
  | cons v f d d1 d2 hf hd _ ih =>
    obtain ⟨a1, a2, a3, a4, a5⟩ := request_preserved v f d d1 hf hd
    obtain ⟨b1, b2, b3, b4, b5⟩ := ih
    exact ⟨b1.trans a1, b2.trans a2, b3.trans a3, b4.trans a4, b5.trans a5⟩

theorem chain12_21_steps (d d' : Dict) (h : chain12_21 d = some d') : Steps 12 d d' := by
  unfold chain12_21 chain12_18 chain19 at h
  simp only [Option.bind_eq_bind, Option.bind_eq_some_iff] at h
  obtain ⟨d19, ⟨d18, ⟨d17, ⟨d16, ⟨d15, ⟨d14, ⟨d13, h12, h13⟩, h14⟩, h15⟩, h16⟩, h17⟩, h18⟩, d20, h19, h20⟩ := h
  exact .cons 12 _ _ _ _ rfl h12 (.cons 13 _ _ _ _ rfl h13 (.cons 14 _ _ _ _ rfl h14 (.cons 15 _ _ _ _ rfl h15
    (.cons 16 _ _ _ _ rfl h16 (.cons 17 _ _ _ _ rfl h17 (.cons 18 _ _ _ _ rfl h18 (.cons 19 _ _ _ _ rfl h19
    (.cons 20 _ _ _ _ rfl h20 (.nil _ _)))))))))

/-- **chain_request_preserved.** A format-12 record taken through all nine modelled converters keeps its request and
    arrives at version 21. -/
theorem chain_request_preserved (d d' : Dict) (h : chain12_21 d = some d') :
    dget d' (s "request") = dget d (s "request") ∧ dget d' (s "version") = some (.int 21) := by
  refine ⟨(steps_request_preserved 12 d d' (chain12_21_steps d d' h)).1, ?_⟩
  unfold chain12_21 chain12_18 chain19 at h
  simp only [Option.bind_eq_bind, Option.bind_eq_some_iff] at h
  obtain ⟨d19, -, d20, -, h20⟩ := h
  exact conv_writes_next_version 20 _ d20 d' rfl h20


/-! #### a format-12 record of the shape old releases wrote LOADS: the whole chain 12 → 21 succeeds and keeps the request -/

/-- the connection records as formats 12 … 18 stored them (what 18→19 and the last two steps look at) -/
structure ConnShape (cc sc : Dict) : Prop where
  c_ext : ∃ tx, dget cc (s "tls_extensions") = some tx
  c_est : ∃ te, dget cc (s "tls_established") = some te
  c_addr : hostOkB (dget cc (s "address")) = true
  c_sock : hostOkB (dget cc (s "sockname")) = true
  c_tv : ∃ tv, dget cc (s "tls_version") = some tv
  s_est : ∃ te, dget sc (s "tls_established") = some te
  s_ip : hostOkB (dget sc (s "ip_address")) = true
  s_src : hostOkB (dget sc (s "source_address")) = true
  s_addr : hostOkB (dget sc (s "address")) = true
  s_tv : ∃ tv, dget sc (s "tls_version") = some tv
  s_sni : ∃ sni, dget sc (s "sni") = some sni ∧
    (sni = .bool true → (dget sc (s "address") = some .null ∨ ∃ hh t, dget sc (s "address") = some (.list (hh :: t))))

/-- **format_12_records_load.** Existence AND correctness for one whole format: a non-WebSocket format-12 record of the shape
    mitmproxy 7 wrote (`Shape12`, `ConnShape`) is taken by the nine modelled converters 12→13→…→21 without any of them raising,
    arrives at version 21, and carries the request that was recorded. -/
theorem format_12_records_load (d cc sc : Dict) (h12 : Shape12 d) (hcc : dget d (s "client_conn") = some (.dict cc))
    (hsc : dget d (s "server_conn") = some (.dict sc)) (hc : ConnShape cc sc) :
    ∃ d', chain12_21 d = some d' ∧ dget d' (s "version") = some (.int 21) ∧ dget d' (s "request") = dget d (s "request") := by
  obtain ⟨d18, h18, hcc18, hk⟩ := format_12_records_convert_spec d cc h12 hcc
  have hsc18 : dget d18 (s "server_conn") = some (.dict sc) := by
    rw [hk _ (by decide +kernel) (by decide +kernel) (by decide +kernel) (by decide +kernel) (by decide +kernel) (by decide +kernel)]
    exact hsc
  obtain ⟨⟨tx, a1⟩, ⟨te, a2⟩, a3, a4, ⟨tvc, a5⟩, ⟨te', b1⟩, b2, b3, b4, ⟨tvs, b5⟩, ⟨sni, b6, b7⟩⟩ := hc
  have pm (key : Bytes) (hne : (s "proxy_mode" == key) = false) :
      dget (dset cc (s "proxy_mode") (.str (s "regular"))) key = dget cc key := dget_dset_ne _ _ _ _ hne
  have sh18 : Shape18 d18 := ⟨_, _, hcc18, hsc18,
    ⟨tx, by rw [pm _ (by decide +kernel)]; exact a1⟩, ⟨te, by rw [pm _ (by decide +kernel)]; exact a2⟩,
    by rw [pm _ (by decide +kernel)]; exact a3, by rw [pm _ (by decide +kernel)]; exact a4,
    ⟨te', b1⟩, b2, b3, b4, sni, b6, b7⟩
  obtain ⟨d19, h19, _⟩ := format_18_records_convert d18 sh18
  obtain ⟨c18, s18, c19, s19, e1, e2, e3, e4, e5, e6⟩ := conv_18_19_spec d18 d19 h19
  rw [hcc18] at e1
  rw [hsc18] at e2
  simp only [Option.some.injEq, Value.dict.injEq] at e1 e2
  subst e1 e2
  have tv1 : dget c19 (s "tls_version") = some tvc := by
    rw [client_frame_18_19 _ _ _ e3 (by decide +kernel) (by decide +kernel) (by decide +kernel) (by decide +kernel)
      (by decide +kernel) (by decide +kernel) (by decide +kernel) (by decide +kernel) (by decide +kernel),
      pm _ (by decide +kernel)]
    exact a5
  have tv2 : dget s19 (s "tls_version") = some tvs := by
    rw [server_frame_18_19 _ _ _ e4 (by decide +kernel) (by decide +kernel) (by decide +kernel) (by decide +kernel)
      (by decide +kernel) (by decide +kernel) (by decide +kernel) (by decide +kernel) (by decide +kernel)
      (by decide +kernel) (by decide +kernel) (by decide +kernel)]
    exact b5
  obtain ⟨d21, h21, _⟩ := format_19_20_records_convert d19 c19 s19 tvc tvs e5 e6 tv1 tv2
  have hall : chain12_21 d = some d21 := by
    unfold chain12_21
    simp only [Option.bind_eq_bind, h18, Option.bind_some, h19, h21]
  obtain ⟨r1, r2⟩ := chain_request_preserved d d21 hall
  exact ⟨d21, hall, r2, r1⟩

/-- **shape12B_sound / checked_shape_loads.** The executable shape test the driver prints for every generated format-12 record
    (`shape12` op) implies the hypotheses of `format_12_records_load`: a record for which the driver answers 1 loads. -/
theorem checked_shape_loads (d : Dict) (h : shape12B d = true) :
    ∃ d', chain12_21 d = some d' ∧ dget d' (s "version") = some (.int 21) ∧ dget d' (s "request") = dget d (s "request") := by
  have hok : ∀ o, hostOkM o = hostOkB o := by
    intro o; cases o with
    | none => rfl
    | some v => rfl
  unfold shape12B at h
  simp only [Bool.and_eq_true] at h
  obtain ⟨⟨⟨⟨hm, hr⟩, hw⟩, hq⟩, hc⟩ := h
  cases hcc : dget d (s "client_conn") with
  | none => simp [hcc] at hc
  | some vc =>
    cases hsc : dget d (s "server_conn") with
    | none => simp [hcc, hsc] at hc
    | some vs =>
      cases vc <;> cases vs <;> simp only [hcc, hsc, Bool.false_eq_true] at hc
      rename_i cc sc
      unfold connShapeB at hc
      simp only [Bool.and_eq_true, hok] at hc
      obtain ⟨⟨⟨⟨⟨⟨⟨⟨⟨⟨c1, c2⟩, c3⟩, c4⟩, c5⟩, s1⟩, s2⟩, s3⟩, s4⟩, s5⟩, s6⟩ := hc
      have ex : ∀ {o : Option Value}, o.isSome = true → ∃ v, o = some v := by
        intro o ho; cases o with
        | none => cases ho
        | some v => exact ⟨v, rfl⟩
      -- Shape12
      have sh : Shape12 d := by
        refine ⟨ex hm, ?_, ?_, ?_, ⟨cc, hcc⟩⟩
        · unfold respOkB at hr
          cases hresp : dget d (s "response") with
          | none => simp [hresp] at hr
          | some v =>
            cases v <;> simp only [hresp, Bool.false_eq_true] at hr
            · exact Or.inl rfl
            · rename_i r
              cases hts : dget r (s "timestamp_start") with
              | none => simp [hts] at hr
              | some ts =>
                refine Or.inr ⟨r, ts, rfl, hts, ?_⟩
                intro hn; subst hn; simp [hts] at hr
        · unfold isNull at hw
          cases hws : dget d (s "websocket") with
          | none => simp [hws] at hw
          | some v => cases v <;> simp [hws] at hw; rfl
        · unfold reqOkB at hq
          cases hrq : dget d (s "request") with
          | none => simp [hrq] at hq
          | some v =>
            cases v <;> simp only [hrq, Bool.false_eq_true] at hq
            rename_i rq
            obtain ⟨ts, hts⟩ := ex hq
            exact ⟨rq, ts, rfl, hts⟩
      -- ConnShape
      have cs : ConnShape cc sc := by
        refine ⟨ex c1, ex c2, c3, c4, ex c5, ex s1, s2, s3, s4, ex s5, ?_⟩
        unfold sniOkM at s6
        cases hsni : dget sc (s "sni") with
        | none => simp [hsni] at s6
        | some sni =>
          refine ⟨sni, rfl, ?_⟩
          intro ht; subst ht
          simp only [hsni] at s6
          cases ha : dget sc (s "address") with
          | none => simp [ha] at s6
          | some a =>
            cases a <;> simp only [ha, Bool.false_eq_true] at s6
            · exact Or.inl rfl
            · rename_i l
              cases l with
              | nil => simp at s6
              | cons hh t => exact Or.inr ⟨hh, t, rfl⟩
      exact format_12_records_load d cc sc sh hcc hsc cs

-- non-vacuity of `format_12_records_load`: a plain-HTTP flow as mitmproxy 7 stored it (bytes host in the client address, sni = True)
private def ld_cc : Dict := [(.str (s "address"), .list [.bytes (s "127.0.0.1"), .int 50000]), (.str (s "sockname"), .list [.str (s "::1"), .int 8080]),
  (.str (s "tls_extensions"), .null), (.str (s "tls_established"), .bool false), (.str (s "tls_version"), .null),
  (.str (s "timestamp_start"), .int 5)]
private def ld_sc : Dict := [(.str (s "address"), .list [.str (s "example.com"), .int 80]), (.str (s "ip_address"), .list [.str (s "93.184.216.34"), .int 80]),
  (.str (s "source_address"), .null), (.str (s "sni"), .bool true), (.str (s "tls_established"), .bool false), (.str (s "tls_version"), .null),
  (.str (s "via2"), .null)]
private def ld_d : Dict := [(.str (s "version"), .int 12), (.str (s "marked"), .bool false),
  (.str (s "request"), .dict [(.str (s "path"), .bytes (s "/x")), (.str (s "timestamp_start"), .int 5)]),
  (.str (s "response"), .null), (.str (s "client_conn"), .dict ld_cc), (.str (s "server_conn"), .dict ld_sc),
  (.str (s "websocket"), .null), (.str (s "mode"), .str (s "regular"))]
example : ∃ d', chain12_21 ld_d = some d' ∧ dget d' (s "version") = some (.int 21) ∧ dget d' (s "request") = dget ld_d (s "request") := by
  refine format_12_records_load ld_d ld_cc ld_sc ?_ ?_ ?_ ?_
  · unfold ld_d
    refine ⟨⟨.bool false, ?_⟩, Or.inl ?_, ?_, ⟨[(.str (s "path"), .bytes (s "/x")), (.str (s "timestamp_start"), .int 5)], .int 5, ?_, ?_⟩,
      ⟨ld_cc, ?_⟩⟩ <;>
    repeat (first | rw [dget_cons_same] | rw [dget_cons_ne _ _ _ _ (by decide +kernel)])
  · unfold ld_d; repeat (first | rw [dget_cons_same] | rw [dget_cons_ne _ _ _ _ (by decide +kernel)])
  · unfold ld_d; repeat (first | rw [dget_cons_same] | rw [dget_cons_ne _ _ _ _ (by decide +kernel)])
  · refine ⟨⟨.null, ?_⟩, ⟨.bool false, ?_⟩, by decide +kernel, by decide +kernel, ⟨.null, ?_⟩, ⟨.bool false, ?_⟩,
      by decide +kernel, by decide +kernel, by decide +kernel, ⟨.null, ?_⟩,
      ⟨.bool true, ?_, fun _ => Or.inr ⟨.str (s "example.com"), [.int 80], ?_⟩⟩⟩ <;>
    (first | unfold ld_cc | unfold ld_sc) <;>
    repeat (first | rw [dget_cons_same] | rw [dget_cons_ne _ _ _ _ (by decide +kernel)])

-- non-vacuity: a concrete format-12 record runs through the modelled chain 12 → 18 and keeps its request
example :
    let req : Value := .dict [(.str (s "path"), .bytes (s "/x")), (.str (s "timestamp_start"), .int 5)]
    let d : Dict := [(.str (s "version"), .int 12), (.str (s "marked"), .bool true), (.str (s "request"), req),
                     (.str (s "client_conn"), .dict [(.str (s "timestamp_start"), .int 5)]),
                     (.str (s "websocket"), .null), (.str (s "mode"), .str (s "regular"))]
    (chain12_18 d).isSome = true := by decide +kernel

-- non-vacuity for 18→19: bytes host names are decoded (an invalid byte becomes `\\xff`), `sni = True` becomes the host
example :
    let cc : Value := .dict [(.str (s "address"), .list [.bytes [0x61, 0xff], .int 80]), (.str (s "tls_extensions"), .null),
                             (.str (s "tls_established"), .bool false), (.str (s "timestamp_start"), .null)]
    let sc : Value := .dict [(.str (s "address"), .list [.bytes (s "example.com"), .int 443]), (.str (s "sni"), .bool true),
                             (.str (s "tls_established"), .bool true), (.str (s "cipher_name"), .str (s "X"))]
    let d : Dict := [(.str (s "version"), .int 18), (.str (s "client_conn"), cc), (.str (s "server_conn"), sc)]
    (((conv_18_19 d).bind (fun d' => (dget d' (s "server_conn")).bind asDict)).bind (fun sc' => dget sc' (s "sni"))).map enc
      = some (enc (.str (s "example.com"))) ∧
    (((conv_18_19 d).bind (fun d' => (dget d' (s "client_conn")).bind asDict)).bind (fun cc' => dget cc' (s "peername"))).map enc
      = some (enc (.list [.str [0x61, 0x5c, 0x78, 0x66, 0x66], .int 80])) := by decide +kernel

-- non-vacuity: a format-18 record of a flow without a destination (address None, sni True) converts; sni becomes None
example :
    let cc : Value := .dict [(.str (s "address"), .null), (.str (s "tls_extensions"), .null), (.str (s "tls_established"), .bool false)]
    let sc : Value := .dict [(.str (s "address"), .null), (.str (s "sni"), .bool true), (.str (s "tls_established"), .bool false)]
    let d : Dict := [(.str (s "version"), .int 18), (.str (s "client_conn"), cc), (.str (s "server_conn"), sc)]
    (((conv_18_19 d).bind (fun d' => (dget d' (s "server_conn")).bind asDict)).bind (fun sc' => dget sc' (s "sni"))).map enc
      = some (enc .null) := by decide +kernel

end Converters

-- non-vacuity: the graph is non-empty, the oldest key migrates, an unknown future version is refused
example : graph ≠ [] := by decide
example : migrate graph current (graph.length + 1) (.tup 0 11) = .ok := by decide +kernel
example : migrate graph current (graph.length + 1) (.int 22) = .errUpdate := by decide +kernel
example : migrate graph current (graph.length + 1) (.tup 9 9) = .errUnknown := by decide +kernel

end MitmVerif.Props.C38

/-! ### round 6 cross-audit: non-vacuity witnesses (appended by the auditor b-c25; see notes/audit6/C38.md) -/
namespace MitmVerif.Props.C38
open MitmVerif MitmVerif.C36 MitmVerif.C38Conv MitmVerif.C38 MitmVerif.Gen.C38

-- W1: 4→5 — two records of the same client connection: both convert, the second gets the id recorded for the first
def w45 : Dict :=
  [(.str (s "version"), .list [.int 3, .int 0, .int 0]),
   (.str (s "client_conn"), .dict [(.str (s "timestamp_start"), .int 1), (.str (s "address"), .list [.str (s "h"), .int 80])]),
   (.str (s "server_conn"), .dict [(.str (s "timestamp_start"), .int 2), (.str (s "source_address"), .list [.str (s "x"), .int 1]),
                                   (.str (s "via"), .null)])]
def ids0 : Ids := { client := [], server := [], drawn := 0 }
example :
    (match runIds (fun n => .int n) ids0 [w45, w45] with
     | some (g, [a, b]) =>
       decide (g.drawn = 4) && decide (g.client.length = 1) &&
       (((dget a (s "client_conn")).bind asDict).bind (fun c => dget c (s "id"))).map enc ==
         (((dget b (s "client_conn")).bind asDict).bind (fun c => dget c (s "id"))).map enc &&
       ((((dget a (s "client_conn")).bind asDict).bind (fun c => dget c (s "id"))).map enc == some (enc (.int 0)))
     | _ => false) = true := by decide +kernel

-- W2: 5→6→7→8 on one record (tls renames incl. the strict pops, tls_extensions, trailers)
example :
    let conn : Value := .dict [(.str (s "ssl_established"), .bool true), (.str (s "timestamp_ssl_setup"), .int 3), (.str (s "via"), .null)]
    let d : Dict := [(.str (s "version"), .int 5), (.str (s "request"), .dict [(.str (s "path"), .bytes (s "/"))]),
                     (.str (s "response"), .null), (.str (s "client_conn"), conn), (.str (s "server_conn"), conn)]
    ((((conv_5_6 d).bind conv_6_7).bind conv_7_8).bind (fun d' => (dget d' (s "request")).bind asDict)).map (fun r => (dget r (s "trailers")).map enc == some (enc .null))
      = some true := by decide +kernel

-- W3: the whole modelled chain 12 → 21 succeeds on a record with both connections, keeps the request, arrives at 21
def w12 : Dict :=
  let cc : Value := .dict [(.str (s "address"), .list [.str (s "c"), .int 1]), (.str (s "timestamp_start"), .int 5),
    (.str (s "tls_extensions"), .null), (.str (s "tls_established"), .bool false), (.str (s "state"), .int 0), (.str (s "tls_version"), .null)]
  let sc : Value := .dict [(.str (s "address"), .list [.str (s "example.com"), .int 443]), (.str (s "sni"), .bool true),
    (.str (s "tls_established"), .bool true), (.str (s "cipher_name"), .str (s "X")), (.str (s "state"), .int 0), (.str (s "tls_version"), .str (s "QUIC"))]
  [(.str (s "version"), .int 12), (.str (s "marked"), .bool true),
   (.str (s "request"), .dict [(.str (s "path"), .bytes (s "/x")), (.str (s "timestamp_start"), .int 5)]),
   (.str (s "response"), .null), (.str (s "websocket"), .null), (.str (s "mode"), .str (s "regular")),
   (.str (s "client_conn"), cc), (.str (s "server_conn"), sc)]
example : ((chain12_21 w12).map (fun d' => ((dget d' (s "version")).map enc == some (enc (.int 21))) && ((dget d' (s "request")).map enc == (dget w12 (s "request")).map enc) &&
    ((dget d' (s "marked")).map enc == some (enc (.str (s ":default:")))) && ((dget d' (s "mode")).map enc == none))) = some true := by decide +kernel

-- W4: the composed migrate_flow takes that record from 12 to the current version in nine turns; one turn from 19
example : ((migrateFlow (fun n => .int n) (fun _ => none) 21 64 { ws := [], ids := ids0 } none w12).map (fun r => versionKey r.2)) =
    some (some (.int 21)) := by decide +kernel
example : (match convAny (fun n => .int n) (fun _ => none) { ws := [], ids := ids0 } (.int 12) w12 with
    | some (some (_, d')) => (dget d' (s "version")).map enc == some (enc (.int 13)) && ((dget d' (s "request")).map enc == (dget w12 (s "request")).map enc)
    | _ => false) = true := by decide +kernel
-- … and fuel 9 is one turn short of what this record needs: `none` here is fuel, not an exception (see NEEDS OWNER)
example : (migrateFlow (fun n => .int n) (fun _ => none) 21 9 { ws := [], ids := ids0 } none w12).isNone = true ∧
    (migrateFlow (fun n => .int n) (fun _ => none) 21 10 { ws := [], ids := ids0 } none w12).isSome = true := by decide +kernel

-- W5: `stored_until_consumed` / `table_frame_11_12`: a run of records through 11→12 (`runTbl`) that all convert — a handshake
-- flow H is stored, an unrelated plain record leaves it on record, the old websocket flow consumes it
example :
    let conn : Value := .dict [(.str (s "timestamp_end"), .int 9)]
    let hs : Dict := [(.str (s "version"), .int 11), (.str (s "id"), .str (s "H")), (.str (s "metadata"), .dict [(.str (s "websocket"), .bool true)]),
                      (.str (s "server_conn"), conn)]
    let plain : Dict := [(.str (s "version"), .int 11), (.str (s "id"), .str (s "P")), (.str (s "metadata"), .dict [])]
    let ws : Dict := [(.str (s "version"), .int 11), (.str (s "id"), .str (s "W")),
                      (.str (s "metadata"), .dict [(.str (s "websocket_handshake"), .str (s "H"))]),
                      (.str (s "messages"), .list []), (.str (s "close_sender"), .str (s "client")), (.str (s "close_code"), .int 1000),
                      (.str (s "close_reason"), .str []), (.str (s "client_conn"), conn), (.str (s "server_conn"), conn),
                      (.str (s "error"), .null), (.str (s "intercepted"), .bool false), (.str (s "is_replay"), .null), (.str (s "marked"), .bool false)]
    ((runTbl [] [hs, plain]).map (fun g => (tget g (enc (.str (s "H")))).isSome)) = some true ∧
    ((runTbl [] [hs, plain, ws]).map (fun g => (tget g (enc (.str (s "H")))).isSome)) = some false := by decide +kernel

-- W6: the composed loop answers an unknown future version, a missing version and a raising converter with the same `none`
example :
    (migrateFlow (fun n => .int n) (fun _ => none) 21 64 { ws := [], ids := ids0 } none [(.str (s "version"), .int 22)]).isNone = true ∧
    (migrateFlow (fun n => .int n) (fun _ => none) 21 64 { ws := [], ids := ids0 } none [(.str (s "version"), .int 12)]).isNone = true := by
  decide +kernel

end MitmVerif.Props.C38
