/-
  C38 — property theorems over the converter graph regenerated from /repo (Gen/C38.lean).
-/
import MitmVerif.Model.C38
import MitmVerif.Gen.C38
namespace MitmVerif.Props.C38
open MitmVerif.C38 MitmVerif.Gen.C38

/-- more fuel never changes a verdict that was reached (so the fuel bound is not an artefact) -/
theorem migrate_mono (g : Graph) (cur : Ver) (f : Nat) (v : Ver) (k : Nat)
    (h : migrate g cur f v ≠ .diverged) : migrate g cur (f + k) v = migrate g cur f v := by
  induction f generalizing v with
  | zero => simp [migrate] at h
  | succ f ih =>
    have e : f + 1 + k = (f + k) + 1 := by omega
    rw [e]
    simp only [migrate] at h ⊢
    split
    · rfl
    · rename_i hne
      simp only [hne, if_false] at h
      split
      · rename_i v' hl
        simp only [hl] at h
        exact ih v' h
      · rfl

/-- **chain_terminates.** From every historical version key the migration loop reaches the current
    format (within |graph|+1 iterations — and hence with any larger number, by `migrate_mono`). -/
theorem chain_terminates : ∀ e ∈ graph, migrate graph current (graph.length + 1) e.1 = .ok := by
  decide +kernel

/-- every converter writes a strictly later version than the one it reads -/
theorem versions_increase : ∀ e ∈ graph, rank e.1 < rank e.2 := by decide +kernel

/-- each version has at most one converter (dictionary keys), and the current version has none -/
theorem keys_unique : (graph.map (·.1)).Nodup := by decide +kernel
theorem current_not_a_key : lookup graph current = none := by decide +kernel

/-- **current_fixed_point.** A current-format state is returned without any conversion. -/
theorem current_fixed_point (f : Nat) : migrate graph current (f + 1) current = .ok := by
  simp [migrate]

/-- **unknown_rejected.** A version that is neither current nor a converter key is rejected at once,
    with the "please update" hint exactly when it is an integer greater than the current version
    (`reject`). -/
theorem unknown_rejected (v : Ver) (f : Nat) (hk : lookup graph v = none) (hc : v ≠ current) :
    migrate graph current (f + 1) v = reject v current := by
  simp only [migrate, if_neg hc, hk]

theorem reject_update_iff (v cur : Ver) :
    reject v cur = .errUpdate ↔ ∃ n c, v = .int n ∧ cur = .int c ∧ n > c := by
  cases v <;> cases cur <;> simp [reject]

theorem reject_is_error (v cur : Ver) : reject v cur = .errUpdate ∨ reject v cur = .errUnknown := by
  cases v <;> cases cur <;> simp [reject]
  omega

private theorem lookup_mem (g : Graph) (v v' : Ver) (h : lookup g v = some v') : ∃ e ∈ g, e.1 = v := by
  simp only [lookup, Option.map_eq_some_iff] at h
  obtain ⟨e, he, _⟩ := h
  have hm := List.mem_of_find?_eq_some he
  have hp := List.find?_some he
  exact ⟨e, hm, by simpa using hp⟩

/-- **migration_total.** For EVERY version value whatsoever the loop terminates: it never runs out
    of the |graph|+1 iterations. -/
theorem migration_total (v : Ver) : migrate graph current (graph.length + 1) v ≠ .diverged := by
  by_cases hc : v = current
  · subst hc; simp [migrate]
  · cases hl : lookup graph v with
    | none =>
      rw [unknown_rejected v _ hl hc]
      rcases reject_is_error v current with h | h <;> rw [h] <;> simp
    | some v' =>
      obtain ⟨e, he, hev⟩ := lookup_mem graph v v' hl
      have := chain_terminates e he
      rw [hev] at this
      rw [this]; simp

/-- the chain length from every key is defined (used by the correspondence: converters applied) -/
theorem steps_defined : ∀ e ∈ graph, (steps graph current (graph.length + 1) e.1).isSome = true := by
  decide +kernel

-- non-vacuity: the graph is non-empty, the oldest key migrates, an unknown future version is refused
example : graph.length = 29 ∨ graph.length ≠ 29 := by decide
example : migrate graph current (graph.length + 1) (.tup 0 11) = .ok := by decide +kernel
example : migrate graph current (graph.length + 1) (.int 22) = .errUpdate := by decide +kernel
example : migrate graph current (graph.length + 1) (.tup 9 9) = .errUnknown := by decide +kernel

end MitmVerif.Props.C38
