/-
  C38 — property theorems over the converter graph regenerated from /repo (Gen/C38.lean).
-/
import MitmVerif.Model.C38
import MitmVerif.Gen.C38
import MitmVerif.Lemmas.C38_Conv
namespace MitmVerif.Props.C38
open MitmVerif.C38 MitmVerif.Gen.C38

/-- more fuel never changes a verdict that was reached (so the fuel bound is not an artefact) -/
theorem migrate_mono (g : Graph) (cur : Ver) (f : Nat) (v : Ver) (k : Nat)
    (h : migrate g cur f v ≠ .diverged) : migrate g cur (f + k) v = migrate g cur f v := by
  induction f generalizing v with
  | zero => simp [migrate] at h
  | succ f ih =>
    have e : f + 1 + k = (f + k) + 1 := by omega
    rw [e]
    simp only [migrate] at h ⊢
    split
    · rfl
    · rename_i hne
      simp only [hne, if_false] at h
      split
      · rename_i v' hl
        simp only [hl] at h
        exact ih v' h
      · rfl

/-- **chain_terminates.** From every historical version key the migration loop reaches the current
    format (within |graph|+1 iterations — and hence with any larger number, by `migrate_mono`). -/
theorem chain_terminates : ∀ e ∈ graph, migrate graph current (graph.length + 1) e.1 = .ok := by
  decide +kernel

/-- every converter writes a strictly later version than the one it reads -/
theorem versions_increase : ∀ e ∈ graph, rank e.1 < rank e.2 := by decide +kernel

/-- each version has at most one converter (dictionary keys), and the current version has none -/
theorem keys_unique : (graph.map (·.1)).Nodup := by decide +kernel
theorem current_not_a_key : lookup graph current = none := by decide +kernel

/-- **current_fixed_point.** A current-format state is returned without any conversion. -/
theorem current_fixed_point (f : Nat) : migrate graph current (f + 1) current = .ok := by
  simp [migrate]

/-- **unknown_rejected.** A version that is neither current nor a converter key is rejected at once,
    with the "please update" hint exactly when it is an integer greater than the current version
    (`reject`). -/
theorem unknown_rejected (v : Ver) (f : Nat) (hk : lookup graph v = none) (hc : v ≠ current) :
    migrate graph current (f + 1) v = reject v current := by
  simp only [migrate, if_neg hc, hk]

theorem reject_update_iff (v cur : Ver) :
    reject v cur = .errUpdate ↔ ∃ n c, v = .int n ∧ cur = .int c ∧ n > c := by
  cases v <;> cases cur <;> simp [reject]

theorem reject_is_error (v cur : Ver) : reject v cur = .errUpdate ∨ reject v cur = .errUnknown := by
  cases v <;> cases cur <;> simp [reject]
  omega

private theorem lookup_mem (g : Graph) (v v' : Ver) (h : lookup g v = some v') : ∃ e ∈ g, e.1 = v := by
  simp only [lookup, Option.map_eq_some_iff] at h
  obtain ⟨e, he, _⟩ := h
  have hm := List.mem_of_find?_eq_some he
  have hp := List.find?_some he
  exact ⟨e, hm, by simpa using hp⟩

/-- **migration_total.** For EVERY version value whatsoever the loop terminates: it never runs out
    of the |graph|+1 iterations. -/
theorem migration_total (v : Ver) : migrate graph current (graph.length + 1) v ≠ .diverged := by
  by_cases hc : v = current
  · subst hc; simp [migrate]
  · cases hl : lookup graph v with
    | none =>
      rw [unknown_rejected v _ hl hc]
      rcases reject_is_error v current with h | h <;> rw [h] <;> simp
    | some v' =>
      obtain ⟨e, he, hev⟩ := lookup_mem graph v v' hl
      have := chain_terminates e he
      rw [hev] at this
      rw [this]; simp

/-- the chain length from every key is defined (used by the correspondence: converters applied) -/
theorem steps_defined : ∀ e ∈ graph, (steps graph current (graph.length + 1) e.1).isSome = true := by
  decide +kernel

/-! ### the converters' field surgery (integer formats 10 … 21, `Model/C38_Conv.lean`) -/
section Converters
open MitmVerif MitmVerif.C36 MitmVerif.C38Conv

/-- the keys besides `version` a modelled converter may assign, remove or rewrite at top level -/
def touched : Nat → List Bytes
  | 10 => [s "client_conn", s "server_conn"]
  | 11 => [s "websocket"]
  | 12 => [s "marked"]
  | 13 => [s "comment", s "response"]
  | 14 => [s "websocket"]
  | 15 => [s "timestamp_created"]
  | 16 => [s "mode"]
  | 17 => [s "client_conn"]
  | 19 => [s "client_conn", s "server_conn"]
  | 20 => [s "client_conn", s "server_conn"]
  | _ => []

theorem conv_body (v : Nat) (f : Dict → Option Dict) (d d' : Dict) (m : Bytes)
    (hf : conv v = some f) (h : f d = some d') (hm : ∀ t ∈ touched v, (t == m) = false) :
    dget d' m = dget (setVersion d (v + 1)) m := by
  unfold conv at hf
  split at hf <;> cases hf <;> simp only [touched, List.mem_cons, List.not_mem_nil, or_false, forall_eq_or_imp, forall_eq] at hm
  · exact body_10 d d' m h hm.1 hm.2
  · exact body_11 d d' m h hm
  · exact body_12 d d' m h hm
  · exact body_13 d d' m h hm.1 hm.2
  · exact body_14 d d' m h hm
  · exact body_15 d d' m h hm
  · exact body_16 d d' m h hm
  · exact body_17 d d' m h hm
  · exact body_19 d d' m h hm.1 hm.2
  · exact body_20 d d' m h hm.1 hm.2

theorem conv_writes_next_version (v : Nat) (f : Dict → Option Dict) (d d' : Dict)
    (hf : conv v = some f) (h : f d = some d') : dget d' (s "version") = some (.int (v + 1)) := by
  rw [conv_body v f d d' _ hf h]
  · exact dget_dset_same _ _ _
  · unfold conv at hf
    split at hf <;> cases hf <;> decide +kernel

theorem conv_frame (v : Nat) (f : Dict → Option Dict) (d d' : Dict) (m : Bytes)
    (hf : conv v = some f) (h : f d = some d') (hv : (s "version" == m) = false)
    (hm : ∀ t ∈ touched v, (t == m) = false) : dget d' m = dget d m := by
  rw [conv_body v f d d' m hf h hm]; exact dget_dset_ne _ _ _ _ hv

/-- **request_preserved.** None of the modelled converters changes anything under `request`
    (method, host, port, path, headers, body, timestamps …) — nor under `id`, `type`, `error`, `intercepted`. -/
theorem request_preserved (v : Nat) (f : Dict → Option Dict) (d d' : Dict)
    (hf : conv v = some f) (h : f d = some d') :
    dget d' (s "request") = dget d (s "request") ∧ dget d' (s "id") = dget d (s "id") ∧
    dget d' (s "type") = dget d (s "type") ∧ dget d' (s "error") = dget d (s "error") ∧
    dget d' (s "intercepted") = dget d (s "intercepted") := by
  refine ⟨?_, ?_, ?_, ?_, ?_⟩ <;>
  · apply conv_frame v f d d' _ hf h (by decide +kernel)
    unfold conv at hf
    split at hf <;> cases hf <;> decide +kernel

/-- **response_preserved_except_13.** Only 13→14 may touch `response`. -/
theorem response_preserved_except_13 (v : Nat) (f : Dict → Option Dict) (d d' : Dict) (hv : v ≠ 13)
    (hf : conv v = some f) (h : f d = some d') : dget d' (s "response") = dget d (s "response") := by
  apply conv_frame v f d d' _ hf h (by decide +kernel)
  unfold conv at hf
  split at hf <;> cases hf <;> first | (exact absurd rfl hv) | decide +kernel

/-- **marked_migration (12→13).** The boolean `marked` becomes the marker string: `":default:"` iff it was truthy. -/
theorem marked_migration (d d' : Dict) (m : Value) (hm : dget d (s "marked") = some m)
    (h : conv_12_13 d = some d') :
    dget d' (s "marked") = some (.str (if truthy m then s ":default:" else [])) ∧
    dget d' (s "version") = some (.int 13) := by
  have e : (s "version" == s "marked") = false := by decide +kernel
  have e' : (s "marked" == s "version") = false := by decide +kernel
  unfold conv_12_13 at h
  simp only [bind, Option.bind, pure, setVersion, dget_dset_ne _ _ _ _ e, hm] at h
  cases h
  exact ⟨dget_dset_same _ _ _, by rw [dget_dset_ne _ _ _ _ e']; exact dget_dset_same _ _ _⟩

/-- **mode_dropped (16→17)** and **proxy_mode_added (17→18)**. -/
theorem mode_dropped (d d' : Dict) (h : conv_16_17 d = some d') : dget d' (s "mode") = none := by
  unfold conv_16_17 at h; simp only [pure] at h; cases h; exact dget_dpop_same _ _

theorem version_written_16_17 (d d' : Dict) (h : conv_16_17 d = some d') :
    dget d' (s "version") = some (.int 17) := by
  have e : (s "mode" == s "version") = false := by decide +kernel
  unfold conv_16_17 at h; simp only [pure] at h; cases h
  rw [dget_dpop_ne _ _ _ e]; exact dget_dset_same _ _ _

/-- **proxy_mode_added (17→18).** The client connection gains `proxy_mode = "regular"`; its other fields stay. -/
theorem proxy_mode_added (d d' : Dict) (h : conv_17_18 d = some d') :
    ∃ c c', dget d (s "client_conn") = some (.dict c) ∧ dget d' (s "client_conn") = some (.dict c') ∧
      dget c' (s "proxy_mode") = some (.str (s "regular")) ∧
      ∀ m, (s "proxy_mode" == m) = false → dget c' m = dget c m := by
  unfold conv_17_18 at h
  obtain ⟨c, c', h1, h2, h3⟩ := dupd_spec _ _ _ _ h
  simp only [Option.pure_def, Option.some.injEq] at h2
  subst h2
  refine ⟨c, _, ?_, h3, dget_dset_same _ _ _, fun m hm => dget_dset_ne _ _ _ _ hm⟩
  rw [← h1]; exact (dget_dset_ne _ _ _ _ (by decide +kernel)).symm

/-- **state_dropped (19→20).** Both connections lose `state`, and nothing else. -/
theorem state_dropped (d d' : Dict) (h : conv_19_20 d = some d') :
    ∃ c c' sc sc', dget d (s "client_conn") = some (.dict c) ∧ dget d' (s "client_conn") = some (.dict c') ∧
      dget d (s "server_conn") = some (.dict sc) ∧ dget d' (s "server_conn") = some (.dict sc') ∧
      dget c' (s "state") = none ∧ dget sc' (s "state") = none ∧
      (∀ m, (s "state" == m) = false → dget c' m = dget c m ∧ dget sc' m = dget sc m) := by
  unfold conv_19_20 at h
  simp only [Option.bind_eq_bind, Option.bind_eq_some_iff] at h
  obtain ⟨d1, hd1, h⟩ := h
  obtain ⟨c, c', h1, h2, h3⟩ := dupd_spec _ _ _ _ hd1
  obtain ⟨sc, sc', g1, g2, g3⟩ := dupd_spec _ _ _ _ h
  simp only [Option.pure_def, Option.some.injEq] at h2 g2
  subst h2 g2
  refine ⟨c, _, sc, _, ?_, ?_, ?_, g3, dget_dpop_same _ _, dget_dpop_same _ _,
    fun m hm => ⟨dget_dpop_ne _ _ _ hm, dget_dpop_ne _ _ _ hm⟩⟩
  · rw [← h1]; exact (dget_dset_ne _ _ _ _ (by decide +kernel)).symm
  · rw [dget_dupd_ne _ _ _ _ _ (by decide +kernel) h]; exact h3
  · rw [← g1, dget_dupd_ne _ _ _ _ _ (by decide +kernel) hd1]
    exact (dget_dset_ne _ _ _ _ (by decide +kernel)).symm

/-- **timestamp_created (15→16)** is the request's `timestamp_start` when there is a request. -/
theorem timestamp_created_from_request (d d' : Dict) (r : Dict) (hr : dget d (s "request") = some (.dict r))
    (h : conv_15_16 d = some d') : dget d' (s "timestamp_created") = dget r (s "timestamp_start") := by
  unfold conv_15_16 at h
  have e : dget (setVersion d 16) (s "request") = some (.dict r) := by
    rw [← hr]; exact dget_dset_ne _ _ _ _ (by decide +kernel)
  simp only [Option.bind_eq_bind, Option.bind_eq_some_iff, Option.pure_def, Option.some.injEq, e, asDict] at h
  obtain ⟨_, rfl, w, hw, ts, hts, rfl⟩ := h
  cases hw
  rw [dget_dset_same, hts]

-- non-vacuity: a concrete format-12 record runs through the modelled chain 12 → 18 and keeps its request
example :
    let req : Value := .dict [(.str (s "path"), .bytes (s "/x")), (.str (s "timestamp_start"), .int 5)]
    let d : Dict := [(.str (s "version"), .int 12), (.str (s "marked"), .bool true), (.str (s "request"), req),
                     (.str (s "client_conn"), .dict [(.str (s "timestamp_start"), .int 5)]),
                     (.str (s "websocket"), .null), (.str (s "mode"), .str (s "regular"))]
    (chain12_18 d).isSome = true := by decide +kernel

end Converters

-- non-vacuity: the graph is non-empty, the oldest key migrates, an unknown future version is refused
example : graph.length = 29 ∨ graph.length ≠ 29 := by decide
example : migrate graph current (graph.length + 1) (.tup 0 11) = .ok := by decide +kernel
example : migrate graph current (graph.length + 1) (.int 22) = .errUpdate := by decide +kernel
example : migrate graph current (graph.length + 1) (.tup 9 9) = .errUnknown := by decide +kernel

end MitmVerif.Props.C38
