/-
  C39 — property theorems about the Save addon model (Model/C39.lean), for ALL environments `env`
  (filter matcher, WebSocket test, strftime, open failures), all filter/content types and all histories.

  * `reachable_inv`                               every state reachable from the initial one satisfies `Inv`
  * `completion_appends_exactly_one_if_match`     a completion hook while streaming writes exactly the one record of
                                                  that flow iff it passes the filter (nothing otherwise), and closes it
  * `completion_while_inactive_writes_nothing`    no stream, no action
  * `nonmatching_never_written_step` / `nonmatching_never_written`
                                                  every record ever written passed the filter in effect when it was
                                                  written and is the flow's content at that moment (whole histories)
  * `no_record_before_completion_except_stop`     a step writes records only for the flow whose completion hook it is,
                                                  or when saving stops (done / save_stream_file := None)
  * `started_uncompleted_written_once_at_stop`    start hook while streaming, then ANY history without a completion of
                                                  that flow / a stop / an exit, then a stop: exactly one record of it
  * `append_mode_keeps_prefix`                    with only "+" file specs every file keeps its previous content as prefix
-/
import MitmVerif.Lemmas.C39
import MitmVerif.Lemmas.C39Coh
import MitmVerif.Model.C39_Flt
namespace MitmVerif.Props.C39
open MitmVerif.C39 MitmVerif.Lemmas.C39

variable {F C : Type}

/-- hook h is a completion of flow f in state s, per the statement: response/error only for plain HTTP -/
def isCompletion (env : Env F C) (s : St F C) (h : Hook) (f : FlowId) : Bool :=
  !h.isStart && !(h.isHttpEnd && env.isWs (s.world f))

/-- events that may stop saving -/
def stops : Ev F C → Bool
  | .done => true
  | .update (some none) _ => true
  | _ => false

def completes (env : Env F C) (s : St F C) (e : Ev F C) (f : FlowId) : Bool :=
  match e with
  | .hook h g => g == f && isCompletion env s h g
  | _ => false

/-- a history during which flow f neither completes nor saving stops nor the process exits -/
def Quiet (env : Env F C) (f : FlowId) : St F C → List (Ev F C) → Prop
  | _, [] => True
  | s, e :: es => completes env s e f = false ∧ stops e = false ∧ (step env s e).1.exited = false ∧
                  Quiet env f (step env s e).1 es

/-- **invariant.** Every reachable state: stream open ⇔ path set, the writer's filter is the current filter,
    a stream is only open while save_stream_file is set, the filter is the parsed option, the open-flow set has
    no duplicates and is empty while not streaming. -/
theorem reachable_inv (env : Env F C) (w : FlowId → C) (evs : List (Ev F C)) :
    Inv (run env (init w) evs).1 :=
  run_inv env evs _ (init_inv w)

private theorem hook_completion_eq (env : Env F C) (s : St F C) (h : Hook) (f : FlowId) (hx : s.exited = false)
    (hc : isCompletion env s h f = true) : step env s (.hook h f) = saveFlow env s f := by
  simp only [isCompletion, Bool.and_eq_true, Bool.not_eq_true'] at hc
  obtain ⟨h1, h2⟩ := hc
  unfold step hookOp
  simp only [hx, Bool.false_eq_true, if_false, h1]
  cases h3 : h.isHttpEnd with
  | false => simp
  | true =>
    simp only [h3, Bool.true_and] at h2
    simp [h2]

/-- **C39 (completion).** While streaming, a completion hook of flow f (response/error of plain HTTP,
    websocket_end, tcp/udp end or error, dns response or error) writes exactly one record of f — its current
    content — if f passes the filter, nothing if it does not; f is no longer an open flow afterwards.
    (Side condition: the rotation target can be opened; otherwise the addon exits the process.) -/
theorem completion_appends_exactly_one_if_match (env : Env F C) (s : St F C) (h : Hook) (f : FlowId)
    (hi : Inv s) (hx : s.exited = false) (hs : s.stream.isSome = true) (hc : isCompletion env s h f = true)
    (hrot : ∀ spec, s.optFile = some spec → rotate env s spec ≠ none) :
    writes (step env s (.hook h f)).2 = (if passes env s.filt f (s.world f) then [⟨f, s.world f⟩] else []) ∧
    f ∉ (step env s (.hook h f)).1.active ∧ (step env s (.hook h f)).1.stream.isSome = true := by
  rw [hook_completion_eq env s h f hx hc]
  obtain ⟨a, b, c, _⟩ := (saveFlow_writes env s f hi).2.1 hs hrot
  exact ⟨a, b, c⟩

/-- without an open stream no hook does anything to the file system -/
theorem completion_while_inactive_writes_nothing (env : Env F C) (s : St F C) (h : Hook) (f : FlowId)
    (hi : Inv s) (hs : s.stream = none) : (step env s (.hook h f)).2 = [] ∧ (step env s (.hook h f)).1.active = [] := by
  have hact := hi.idle hs
  have hsave : saveFlow env s f = (s, []) := by simp [saveFlow, hs]
  have e1 : step env s (.hook h f) = if s.exited then (s, []) else hookOp env s h f := rfl
  rw [e1]
  unfold hookOp
  simp only [hs, hsave, Option.isSome_none, Bool.false_eq_true, if_false]
  split
  · exact ⟨rfl, hact⟩
  · split
    · exact ⟨rfl, hact⟩
    · split
      · split <;> exact ⟨rfl, hact⟩
      · exact ⟨rfl, hact⟩

/-- **C39 (filter), one step.** Whatever the event, every record it writes passes the filter in effect
    before the event and carries the flow's content of that moment. -/
theorem nonmatching_never_written_step (env : Env F C) (s : St F C) (e : Ev F C) (hi : Inv s) :
    ∀ r ∈ writes (step env s e).2,
      passes env s.filt r.flow (s.world r.flow) = true ∧ r.content = s.world r.flow := by
  intro r hr
  unfold step at hr
  split at hr
  · simp at hr
  · cases e with
    | hook h f =>
      simp only at hr
      unfold hookOp at hr
      have key : r ∈ writes (saveFlow env s f).2 →
          passes env s.filt r.flow (s.world r.flow) = true ∧ r.content = s.world r.flow := by
        intro h'
        obtain ⟨rfl, hp⟩ := (saveFlow_writes env s f hi).2.2.1 r h'
        exact ⟨hp, rfl⟩
      split at hr
      · simp at hr
      · split at hr
        · split at hr
          · simp at hr
          · exact key hr
        · exact key hr
    | edit f c => simp at hr
    | tick t => simp at hr
    | update file filt =>
      obtain ⟨_, _, b, c⟩ := (update_io env s file filt hi).1 r hr
      exact ⟨c, b⟩
    | done =>
      obtain ⟨flt, a1, _, a3, a4⟩ := (doneOp_io env s).1 r hr
      rw [hi.flt flt a1] at a4
      exact ⟨a4, a3⟩

private theorem mem_run_writes (env : Env F C) (evs : List (Ev F C)) :
    ∀ (s : St F C) (r : Rec C), r ∈ writes (run env s evs).2 →
      ∃ pre e post, evs = pre ++ e :: post ∧ r ∈ writes (step env (run env s pre).1 e).2 := by
  induction evs with
  | nil => intro s r h; simp [run] at h
  | cons e es ih =>
    intro s r h
    simp only [run, writes_append] at h
    rcases List.mem_append.mp h with h1 | h1
    · exact ⟨[], e, es, rfl, h1⟩
    · obtain ⟨pre, e', post, he, hm⟩ := ih _ r h1
      exact ⟨e :: pre, e', post, by simp [he], hm⟩

/-- **C39 (filter), whole histories.** In any history from the initial state, every record that is ever
    written was written by some event of the history at a moment when the flow passed the filter then in
    effect, and the record is the flow's content at that moment: flows that do not match are never written. -/
theorem nonmatching_never_written (env : Env F C) (w : FlowId → C) (evs : List (Ev F C)) :
    ∀ r ∈ writes (run env (init w) evs).2,
      ∃ pre e post, evs = pre ++ e :: post ∧
        passes env (run env (init w) pre).1.filt r.flow ((run env (init w) pre).1.world r.flow) = true ∧
        r.content = (run env (init w) pre).1.world r.flow := by
  intro r hr
  obtain ⟨pre, e, post, he, hm⟩ := mem_run_writes env evs _ r hr
  exact ⟨pre, e, post, he, nonmatching_never_written_step env _ e (reachable_inv env w pre) r hm⟩

/-- **C39 (no early records).** A step writes a record of flow g only if it is a completion hook of g, or the
    `done` hook, or an options update that sets save_stream_file to None (saving stops). -/
theorem no_record_before_completion_except_stop (env : Env F C) (s : St F C) (e : Ev F C) (hi : Inv s) :
    ∀ r ∈ writes (step env s e).2,
      (∃ h, e = .hook h r.flow ∧ isCompletion env s h r.flow = true) ∨ e = .done ∨
      (∃ filt, e = .update (some none) filt) := by
  intro r hr
  unfold step at hr
  split at hr
  · simp at hr
  · cases e with
    | hook h f =>
      left
      simp only at hr
      unfold hookOp at hr
      split at hr
      · simp at hr
      · rename_i hst
        split at hr
        · rename_i hhe
          split at hr
          · simp at hr
          · rename_i hws
            obtain ⟨rfl, _⟩ := (saveFlow_writes env s f hi).2.2.1 r hr
            exact ⟨h, rfl, by simp [isCompletion, hst, hhe, hws]⟩
        · rename_i hhe
          obtain ⟨rfl, _⟩ := (saveFlow_writes env s f hi).2.2.1 r hr
          exact ⟨h, rfl, by simp [isCompletion, hst, hhe]⟩
    | edit f c => simp at hr
    | tick t => simp at hr
    | update file filt =>
      obtain ⟨a, _⟩ := (update_io env s file filt hi).1 r hr
      right; right; exact ⟨filt, by rw [a]⟩
    | done => right; left; rfl

-- ------------------------------------------------------------------------------------------ open flows at stop
private theorem step_keep (env : Env F C) (s : St F C) (e : Ev F C) (f : FlowId) (hi : Inv s)
    (hm : f ∈ s.active) (hs : s.stream.isSome = true) (hc : completes env s e f = false) (hst : stops e = false)
    (hx : (step env s e).1.exited = false) :
    f ∈ (step env s e).1.active ∧ (step env s e).1.stream.isSome = true := by
  unfold step at hx ⊢
  split
  · exact ⟨hm, hs⟩
  · rename_i hex
    simp only [hex] at hx
    cases e with
    | hook h g =>
      simp only at hx ⊢
      have ksave : g ≠ f → (saveFlow env s g).1.exited = false →
          f ∈ (saveFlow env s g).1.active ∧ (saveFlow env s g).1.stream.isSome = true := by
        intro hne hx'
        rcases saveFlow_cases env s g with ⟨h0, h'⟩ | ⟨h0, _, h'⟩ | ⟨spec, _, _, _, h'⟩ |
            ⟨spec, s', io, flt, _, _, hr, hs', h'⟩ | ⟨spec, s', io, h0, _, hr, hs', h'⟩
        · rw [h0] at hs; simp at hs
        · rw [h']; exact ⟨hm, hs⟩
        · rw [h'] at hx'; simp at hx'
        · rw [h']
          obtain ⟨_, _, _, b4, _⟩ := rotate_facts env s s' spec io hr
          refine ⟨?_, by simp [hs']⟩
          simp only
          rw [List.mem_erase_of_ne (Ne.symm hne), b4]; exact hm
        · exfalso
          have := (rotate_W env s s' spec io hr hi.toW).2 h0
          rw [hs'] at this; simp at this
      unfold hookOp at hx ⊢
      split
      · refine ⟨?_, hs⟩
        show f ∈ (if s.active.contains g = true then s.active else g :: s.active)
        split
        · exact hm
        · exact List.mem_cons_of_mem _ hm
      · rename_i hstart
        split
        · rename_i hhe
          split
          · exact ⟨hm, hs⟩
          · rename_i hws
            have hne : g ≠ f := by
              intro e'; subst e'
              simp [completes, isCompletion, hstart, hhe, hws] at hc
            simp only [hstart, hhe, hws, if_true, if_false, Bool.false_eq_true] at hx
            exact ksave hne hx
        · rename_i hhe
          have hne : g ≠ f := by
            intro e'; subst e'
            simp [completes, isCompletion, hstart, hhe] at hc
          simp only [hstart, hhe, if_false, Bool.false_eq_true] at hx
          exact ksave hne hx
    | edit g c => exact ⟨hm, hs⟩
    | tick t => exact ⟨hm, hs⟩
    | update file filt =>
      have hf : file ≠ some none := by
        intro e'; subst e'; simp [stops] at hst
      obtain ⟨a, b⟩ := update_keep env s file filt hi hf hs
      exact ⟨by simp only; rw [a]; exact hm, b⟩
    | done => simp [stops] at hst

private theorem quiet_keeps (env : Env F C) (f : FlowId) (evs : List (Ev F C)) :
    ∀ s : St F C, Inv s → f ∈ s.active → s.stream.isSome = true → Quiet env f s evs →
      Inv (run env s evs).1 ∧ f ∈ (run env s evs).1.active ∧ (run env s evs).1.stream.isSome = true := by
  induction evs with
  | nil => intro s hi hm hs _; exact ⟨hi, hm, hs⟩
  | cons e es ih =>
    intro s hi hm hs hq
    obtain ⟨q1, q2, q3, q4⟩ := hq
    obtain ⟨k1, k2⟩ := step_keep env s e f hi hm hs q1 q2 q3
    exact ih _ (step_inv env s e hi) k1 k2 q4

/-- **C39 (open flows at stop).** Let flow f get a start hook (request, tcp_start, udp_start, dns_request) while
    streaming; then let ANY history follow in which f does not complete, saving is not stopped and the process
    does not exit (other flows' hooks, edits of f, filter changes, file changes and failed option updates, clock
    ticks).  When saving then stops — by the `done` hook or by setting save_stream_file to None — exactly one
    record of f (its content at that moment) is written if it passes the filter, none otherwise, and f is no
    longer an open flow (so it is not written again by a later stop). -/
theorem started_uncompleted_written_once_at_stop (env : Env F C) (s0 : St F C) (hs : Hook) (f : FlowId)
    (mid : List (Ev F C)) (hi : Inv s0) (hx : s0.exited = false) (hopen : s0.stream.isSome = true)
    (hstart : hs.isStart = true) (hq : Quiet env f (step env s0 (.hook hs f)).1 mid)
    (filt : Option (FiltOpt F)) (hnb : filt = some .bad → False) :
    let s := (run env s0 (.hook hs f :: mid)).1
    ((writes (step env s .done).2).filter (fun r => r.flow == f) =
        (if passes env s.filt f (s.world f) then [⟨f, s.world f⟩] else []) ∧ (step env s .done).1.active = []) ∧
    ((writes (step env s (.update (some none) filt)).2).filter (fun r => r.flow == f) =
        (if passes env s.filt f (s.world f) then [⟨f, s.world f⟩] else []) ∧
      (step env s (.update (some none) filt)).1.active = []) := by
  intro s
  -- after the start hook f is an open flow
  have h1 : step env s0 (.hook hs f) =
      ({ s0 with active := if s0.active.contains f then s0.active else f :: s0.active }, []) := by
    unfold step hookOp; simp [hx, hstart, hopen]
  have hi1 : Inv (step env s0 (.hook hs f)).1 := step_inv env s0 _ hi
  have hm1 : f ∈ (step env s0 (.hook hs f)).1.active := by
    rw [h1]; simp only
    split
    · rename_i hc; simpa using hc
    · simp
  have hs1 : (step env s0 (.hook hs f)).1.stream.isSome = true := by rw [h1]; exact hopen
  obtain ⟨his, hms, hss⟩ := quiet_keeps env f mid _ hi1 hm1 hs1 hq
  have hrun : s = (run env (step env s0 (.hook hs f)).1 mid).1 := rfl
  rw [← hrun] at his hms hss
  obtain ⟨flt, hflt⟩ := Option.isSome_iff_exists.mp hss
  have hfe : flt = s.filt := his.flt flt hflt
  -- the process has not exited (else the stream facts could not have been kept): derive from Quiet? not needed:
  -- `step` on an exited state writes nothing, so we distinguish
  have hdone : doneOp env s = ({ s with active := [], curPath := none, stream := none },
      s.active.flatMap (add env flt s.world) ++ [.cls]) := by
    simp [doneOp, hflt]
  have hbatch : (writes (s.active.flatMap (add env flt s.world) ++ [Act.cls])).filter (fun r => r.flow == f) =
      (if passes env s.filt f (s.world f) then [⟨f, s.world f⟩] else []) := by
    rw [writes_append]
    simp only [writes_cls, writes_nil, List.append_nil]
    rw [writes_flatMap_of env flt s.world f s.active his.nodup hms, hfe]
  by_cases hex : s.exited = true
  · -- impossible: an exited state never results from a Quiet history that started un-exited
    exfalso
    have : ∀ (evs : List (Ev F C)) (t : St F C), t.exited = false → Quiet env f t evs → (run env t evs).1.exited = false := by
      intro evs
      induction evs with
      | nil => intro t ht _; exact ht
      | cons e es ih => intro t _ hq'; exact ih _ hq'.2.2.1 hq'.2.2.2
    have hx1 : (step env s0 (.hook hs f)).1.exited = false := by rw [h1]; exact hx
    have := this mid _ hx1 hq
    rw [← hrun] at this; rw [this] at hex; simp at hex
  · have hex' : s.exited = false := by simpa using hex
    refine ⟨?_, ?_⟩
    · have : step env s .done = doneOp env s := by unfold step; simp [hex']
      rw [this, hdone]; exact ⟨hbatch, rfl⟩
    · -- update(save_stream_file=None [, filter]): configure → (filter step) → done()
      have hstep : step env s (.update (some none) filt) =
          ((update env s (some none) filt).1, (update env s (some none) filt).2.1) := by
        unfold step; simp [hex']
      rw [hstep]
      obtain ⟨s1, hfs⟩ : ∃ s1, filtStep (optSet s (some none) filt) filt.isSome = some s1 := by
        cases hq' : filtStep (optSet s (some none) filt) filt.isSome with
        | some s1 => exact ⟨s1, rfl⟩
        | none =>
          exfalso
          obtain ⟨hut, hbad⟩ := filtStep_none _ _ hq'
          cases filt with
          | none => simp at hut
          | some v =>
            cases v with
            | bad => exact hnb rfl
            | unset => simp [optSet, filtOf] at hbad
            | ok g => simp [optSet, filtOf] at hbad
      obtain ⟨a1, a2, a3, a4, a5, a6, _⟩ := filtStep_some _ s1 _ hfs
      have hcfg : configure env (optSet s (some none) filt) (some (none : Option Spec)).isSome filt.isSome =
          ((doneOp env s1).1, (doneOp env s1).2, .ok) := by
        rcases configure_cases env (optSet s (some none) filt) (some (none : Option Spec)).isSome filt.isSome with
          ⟨h1', _⟩ | ⟨s1', h1', h2', _⟩ | ⟨s1', h1', _, _, h'⟩ | ⟨s1', spec, h1', _, h3', _⟩ |
          ⟨s1', spec, _, _, h1', _, h3', _⟩ | ⟨s1', spec, _, _, h1', _, h3', _⟩
        · rw [hfs] at h1'; simp at h1'
        · simp at h2'
        · rw [hfs] at h1'; cases h1'; exact h'
        · rw [hfs] at h1'; cases h1'; rw [a1] at h3'; simp [optSet] at h3'
        · rw [hfs] at h1'; cases h1'; rw [a1] at h3'; simp [optSet] at h3'
        · rw [hfs] at h1'; cases h1'; rw [a1] at h3'; simp [optSet] at h3'
      have hd1 : doneOp env s1 = ({ s1 with active := [], curPath := none, stream := none },
          s.active.flatMap (add env flt s.world) ++ [.cls]) := by
        have e1 : s1.stream = some flt := by rw [a3]; exact hflt
        have e2 : s1.active = s.active := a5
        have e3 : s1.world = s.world := a6
        simp [doneOp, e1, e2, e3]
      have hupd : update env s (some none) filt =
          ((doneOp env s1).1, (doneOp env s1).2, false) := by
        rcases update_cases env s (some none) filt with ⟨hb, _⟩ | ⟨_, _, h'⟩ | ⟨_, hr, _⟩ | ⟨_, hr, _⟩
        · simp at hb
        · rw [h', hcfg]
        · rw [hcfg] at hr; simp at hr
        · rw [hcfg] at hr; simp at hr
      rw [hupd, hd1]
      exact ⟨hbatch, rfl⟩

-- ------------------------------------------------------------------------------------------ append mode
/-- all file specs that occur in the history are append specs ("+path") -/
def AppendOnly (evs : List (Ev F C)) : Prop :=
  ∀ e ∈ evs, ∀ spec filt, e = .update (some (some spec)) filt → spec.append = true

private theorem fsStep_prefix (fs : FS C) (a : Act C) (ha : ∀ p b, a = .opn p b → b = true) (q : Path) :
    fs.files q <+: (fsStep fs a).files q := by
  cases a with
  | opn p b =>
    have hb : b = true := ha p b rfl
    subst hb
    simp only [fsStep]
    by_cases hq : q = p
    · subst hq; simp
    · simp [hq]
  | wr r =>
    simp only [fsStep]
    cases hc : fs.cur with
    | none => simp
    | some p =>
      simp only
      by_cases hq : q = p
      · subst hq; simp
      · simp [hq]
  | cls => simp [fsStep]

private theorem fsRun_prefix (io : List (Act C)) :
    ∀ (fs : FS C), (∀ a ∈ io, ∀ p b, a = .opn p b → b = true) → ∀ q, fs.files q <+: (fsRun fs io).files q := by
  induction io with
  | nil => intro fs _ q; exact List.prefix_refl _
  | cons a l ih =>
    intro fs h q
    have h1 := fsStep_prefix fs a (h a (by simp)) q
    have h2 := ih (fsStep fs a) (fun a' ha' => h a' (by simp [ha'])) q
    exact h1.trans h2

private theorem step_opn (env : Env F C) (s : St F C) (e : Ev F C) (hi : Inv s) (p : Path) (b : Bool)
    (hm : Act.opn p b ∈ (step env s e).2) :
    (∃ spec, s.optFile = some spec ∧ b = spec.append) ∨
    (∃ spec filt, e = .update (some (some spec)) filt ∧ b = spec.append) := by
  unfold step at hm
  split at hm
  · simp at hm
  · cases e with
    | hook h f =>
      simp only at hm
      unfold hookOp at hm
      split at hm
      · simp at hm
      · split at hm
        · split at hm
          · simp at hm
          · left; exact (saveFlow_writes env s f hi).2.2.2 p b hm
        · left; exact (saveFlow_writes env s f hi).2.2.2 p b hm
    | edit f c => simp at hm
    | tick t => simp at hm
    | update file filt =>
      rcases (update_io env s file filt hi).2 p b hm with h | ⟨spec, h1, h2⟩
      · left; exact h
      · right; exact ⟨spec, filt, by rw [h1], h2⟩
    | done => exact absurd hm ((doneOp_io env s).2 p b)

private theorem step_optFile (env : Env F C) (s : St F C) (e : Ev F C) (hi : Inv s)
    (hs : ∀ spec, s.optFile = some spec → spec.append = true)
    (he : ∀ spec filt, e = .update (some (some spec)) filt → spec.append = true) :
    ∀ spec, (step env s e).1.optFile = some spec → spec.append = true := by
  intro spec h
  unfold step at h
  split at h
  · exact hs spec h
  · cases e with
    | hook hk f =>
      simp only at h
      have hsave : (saveFlow env s f).1.optFile = s.optFile := by
        rcases saveFlow_cases env s f with ⟨_, h'⟩ | ⟨_, _, h'⟩ | ⟨sp, _, _, _, h'⟩ | ⟨sp, s', io, flt, _, _, hr, _, h'⟩ |
            ⟨sp, s', io, _, _, hr, _, h'⟩
        · rw [h']
        · rw [h']
        · rw [h']
        · rw [h']; exact (rotate_facts env s s' sp io hr).1
        · rw [h']; exact (rotate_facts env s s' sp io hr).1
      unfold hookOp at h
      split at h
      · split at h <;> exact hs spec h
      · split at h
        · split at h
          · exact hs spec h
          · rw [hsave] at h; exact hs spec h
        · rw [hsave] at h; exact hs spec h
    | edit f c => exact hs spec h
    | tick t => exact hs spec h
    | done =>
      simp only at h
      rcases doneOp_cases env s with ⟨_, h'⟩ | ⟨flt, _, h'⟩ <;> (rw [h'] at h; exact hs spec h)
    | update file filt =>
      simp only at h
      have hw0 : W (optSet s file filt) := W_of_eq hi.toW rfl rfl rfl
      have c1 := configure_W env (optSet s file filt) file.isSome filt.isSome hw0
      have hset : ∀ sp, (optSet s file filt).optFile = some sp → sp.append = true := by
        intro sp hsp
        cases hf : file with
        | none => rw [hf] at hsp; exact hs sp (by simpa [optSet] using hsp)
        | some v =>
          rw [hf] at hsp
          have : v = some sp := by simpa [optSet] using hsp
          exact he sp filt (by rw [hf, this])
      rcases update_cases env s file filt with ⟨_, h'⟩ | ⟨_, _, h'⟩ | ⟨_, _, h'⟩ | ⟨_, _, h'⟩
      · rw [h'] at h; exact hs spec h
      · rw [h'] at h; exact hset spec (c1.2.2.1 ▸ h)
      · rw [h'] at h; exact hset spec (c1.2.2.1 ▸ h)
      · rw [h'] at h
        have hw2 : W (optBack s (configure env (optSet s file filt) file.isSome filt.isSome).1) :=
          W_of_eq c1.1 rfl rfl rfl
        have c3 := configure_W env _ file.isSome filt.isSome hw2
        have : (optBack s (configure env (optSet s file filt) file.isSome filt.isSome).1).optFile = s.optFile := rfl
        exact hs spec (this ▸ c3.2.2.1 ▸ h)

private theorem run_opn_append (env : Env F C) (evs : List (Ev F C)) :
    ∀ s : St F C, Inv s → (∀ spec, s.optFile = some spec → spec.append = true) → AppendOnly evs →
      ∀ a ∈ (run env s evs).2, ∀ p b, a = .opn p b → b = true := by
  induction evs with
  | nil => intro s _ _ _ a ha; simp [run] at ha
  | cons e es ih =>
    intro s hi hs hap a ha p b hab
    have he : ∀ spec filt, e = .update (some (some spec)) filt → spec.append = true :=
      fun spec filt h => hap e (by simp) spec filt h
    simp only [run] at ha
    rcases List.mem_append.mp ha with h1 | h1
    · subst hab
      rcases step_opn env s e hi p b h1 with ⟨spec, h2, h3⟩ | ⟨spec, filt, h2, h3⟩
      · rw [h3]; exact hs spec h2
      · rw [h3]; exact he spec filt h2
    · exact ih _ (step_inv env s e hi) (step_optFile env s e hi hs he)
        (fun e' he' => hap e' (by simp [he'])) a h1 p b hab

/-- **C39 (append mode).** If the configured file spec and every file spec set during the history carry the
    "+" prefix, then for every path the content present before the history is a prefix of the content
    afterwards: nothing is ever truncated or overwritten, records are only appended. -/
theorem append_mode_keeps_prefix (env : Env F C) (s : St F C) (evs : List (Ev F C)) (fs : FS C) (hi : Inv s)
    (hs : ∀ spec, s.optFile = some spec → spec.append = true) (hap : AppendOnly evs) (q : Path) :
    fs.files q <+: (fsRun fs (run env s evs).2).files q :=
  fsRun_prefix _ fs (run_opn_append env evs s hi hs hap) q

/-- overwrite mode does truncate: opening an existing file without "+" empties it (the model is not constant) -/
theorem overwrite_open_truncates (fs : FS C) (p : Path) :
    (fsStep fs (.opn p false)).files p = [] := by
  simp [fsStep]

-- ------------------------------------------------------------------------------------------ whole lifecycles
private theorem run_append (env : Env F C) : ∀ (a b : List (Ev F C)) (s : St F C),
    run env s (a ++ b) = ((run env (run env s a).1 b).1, (run env s a).2 ++ (run env (run env s a).1 b).2) := by
  intro a
  induction a with
  | nil => intro b s; simp [run]
  | cons e es ih => intro b s; simp [run, ih, List.append_assoc]

private theorem quiet_no_writes (env : Env F C) (f : FlowId) (evs : List (Ev F C)) :
    ∀ s : St F C, Inv s → Quiet env f s evs →
      (writes (run env s evs).2).filter (fun r => r.flow == f) = [] := by
  induction evs with
  | nil => intro s _ _; simp [run]
  | cons e es ih =>
    intro s hi hq
    obtain ⟨q1, q2, _, q4⟩ := hq
    simp only [run, writes_append, List.filter_append]
    rw [ih _ (step_inv env s e hi) q4, List.append_nil, List.filter_eq_nil_iff]
    intro r hr hrf
    have hfl : r.flow = f := by simpa using hrf
    rcases no_record_before_completion_except_stop env s e hi r hr with ⟨h, he, hc⟩ | he | ⟨filt, he⟩
    · subst he
      rw [hfl] at hc
      simp [completes] at q1
      have := q1 hfl
      rw [hfl, hc] at this
      cases this
    · subst he; simp [stops] at q2
    · subst he; simp [stops] at q2

private theorem quiet_not_exited (env : Env F C) (f : FlowId) (evs : List (Ev F C)) :
    ∀ t : St F C, t.exited = false → Quiet env f t evs → (run env t evs).1.exited = false := by
  induction evs with
  | nil => intro t ht _; exact ht
  | cons e es ih => intro t _ hq; exact ih _ hq.2.2.1 hq.2.2.2

/-- **C39 (whole lifecycle, every interleaving).** Let flow f get a start hook while streaming, let ANY history
    follow in which f does not complete, saving is not stopped and the process does not exit — arbitrary hooks of
    other flows, edits of f, filter changes (also unparsable ones), file changes (also failing ones), clock ticks
    with rotations — and then let f's completion hook arrive.  Over the WHOLE history the records of f that were
    written are: exactly one, carrying f's content at completion, if f passes the filter in effect at completion;
    none otherwise.  (Side condition as in the one-step theorem: the rotation target at completion can be opened.) -/
theorem lifecycle_written_exactly_once (env : Env F C) (s0 : St F C) (hs hc : Hook) (f : FlowId)
    (mid : List (Ev F C)) (hi : Inv s0) (hx : s0.exited = false) (hopen : s0.stream.isSome = true)
    (hstart : hs.isStart = true) (hq : Quiet env f (step env s0 (.hook hs f)).1 mid)
    (hcomp : isCompletion env (run env s0 (.hook hs f :: mid)).1 hc f = true)
    (hrot : ∀ spec, (run env s0 (.hook hs f :: mid)).1.optFile = some spec →
              rotate env (run env s0 (.hook hs f :: mid)).1 spec ≠ none) :
    (writes (run env s0 (.hook hs f :: mid ++ [.hook hc f])).2).filter (fun r => r.flow == f) =
      (if passes env (run env s0 (.hook hs f :: mid)).1.filt f ((run env s0 (.hook hs f :: mid)).1.world f)
       then [⟨f, (run env s0 (.hook hs f :: mid)).1.world f⟩] else []) := by
  have h1 : step env s0 (.hook hs f) =
      ({ s0 with active := if s0.active.contains f then s0.active else f :: s0.active }, []) := by
    unfold step hookOp; simp [hx, hstart, hopen]
  have hi1 : Inv (step env s0 (.hook hs f)).1 := step_inv env s0 _ hi
  have hm1 : f ∈ (step env s0 (.hook hs f)).1.active := by
    rw [h1]; simp only
    split
    · rename_i hc'; simpa using hc'
    · simp
  have hs1 : (step env s0 (.hook hs f)).1.stream.isSome = true := by rw [h1]; exact hopen
  have hx1 : (step env s0 (.hook hs f)).1.exited = false := by rw [h1]; exact hx
  obtain ⟨his, _, hss⟩ := quiet_keeps env f mid _ hi1 hm1 hs1 hq
  have hex := quiet_not_exited env f mid _ hx1 hq
  have hrun : (run env s0 (.hook hs f :: mid)).1 = (run env (step env s0 (.hook hs f)).1 mid).1 := rfl
  have hpre : (writes (run env s0 (.hook hs f :: mid)).2).filter (fun r => r.flow == f) = [] := by
    simp only [run, writes_append, List.filter_append]
    rw [quiet_no_writes env f mid _ hi1 hq, h1]; simp
  have hlist : (Ev.hook hs f :: mid ++ [Ev.hook hc f]) = (Ev.hook hs f :: mid) ++ [Ev.hook hc f] := rfl
  rw [hlist, run_append]
  simp only [writes_append, List.filter_append, hpre, List.nil_append]
  rw [← hrun] at his hss hex
  obtain ⟨a, _, _⟩ := completion_appends_exactly_one_if_match env _ hc f his hex hss hcomp hrot
  simp only [run, List.append_nil]
  rw [hrun] at a
  rw [a]
  split
  · rename_i hp; simp [hp]
  · rename_i hp; simp [hp]

/-- **C39 (which file).** A completion hook of a matching flow puts the record at the end of the file whose name
    is the strftime-formatted pattern at the time of the hook: if that is the file already open nothing else
    changes, otherwise the file is opened first (keeping its content in append mode, emptying it in overwrite
    mode).  No other file changes.  `fs.cur = s.curPath` says the file system's open handle is the addon's. -/
theorem completion_record_goes_to_formatted_path (env : Env F C) (s : St F C) (h : Hook) (f : FlowId)
    (spec : Spec) (fs : FS C) (hi : Inv s) (hx : s.exited = false) (hs : s.stream.isSome = true)
    (hc : isCompletion env s h f = true) (ho : s.optFile = some spec) (hrot : rotate env s spec ≠ none)
    (hcoh : fs.cur = s.curPath) (hp : passes env s.filt f (s.world f) = true) :
    (step env s (.hook h f)).1.curPath = some (env.fmt spec.pat s.now) ∧
    (fsRun fs (step env s (.hook h f)).2).cur = some (env.fmt spec.pat s.now) ∧
    (fsRun fs (step env s (.hook h f)).2).files (env.fmt spec.pat s.now) =
      (if s.curPath = some (env.fmt spec.pat s.now) then fs.files (env.fmt spec.pat s.now)
       else if spec.append then fs.files (env.fmt spec.pat s.now) else []) ++ [⟨f, s.world f⟩] ∧
    (∀ q, q ≠ env.fmt spec.pat s.now → (fsRun fs (step env s (.hook h f)).2).files q = fs.files q) := by
  rw [hook_completion_eq env s h f hx hc]
  rcases saveFlow_cases env s f with ⟨h0, _⟩ | ⟨_, h1, _⟩ | ⟨sp, _, h1, h2, _⟩ | ⟨sp, s', io, flt, _, h1, hr, hs', hh⟩ |
      ⟨sp, s', io, h0, _, hr, hs', _⟩
  · rw [h0] at hs; simp at hs
  · rw [ho] at h1; simp at h1
  · rw [ho] at h1; cases h1; exact absurd h2 hrot
  · rw [ho] at h1; cases h1
    rw [hh]
    obtain ⟨_, _, b3, _, b5, _, _, hcases⟩ := rotate_facts env s s' spec io hr
    have hflt : flt = s.filt := by
      rcases hcases with ⟨rfl, _, _⟩ | ⟨h1', _, _, _⟩
      · exact hi.flt flt hs'
      · rw [h1'] at hs'; exact (Option.some.inj hs').symm
    have hadd : add env flt s'.world f = [.wr ⟨f, s.world f⟩] := by
      rw [hflt, b5]; simp [add, hp]
    rw [hadd]
    rcases hcases with ⟨rfl, rfl, hcp⟩ | ⟨_, hcp', rfl, _⟩
    · have hcur : fs.cur = some (env.fmt spec.pat s'.now) := by rw [hcoh, hcp]
      refine ⟨hcp, ?_, ?_, ?_⟩
      · simp [fsRun, fsStep, hcur]
      · simp [fsRun, fsStep, hcur, hcp]
      · intro q hq; simp [fsRun, fsStep, hcur, hq]
    · have hne : s.curPath ≠ some (env.fmt spec.pat s.now) := by
        intro heq
        unfold rotate at hr
        simp [heq] at hr
      refine ⟨hcp', ?_, ?_, ?_⟩
      · simp [fsRun, fsStep]
      · simp [fsRun, fsStep, hne]
      · intro q hq; simp [fsRun, fsStep, hq]
  · exfalso
    have := (rotate_W env s s' sp io hr hi.toW).2 h0
    rw [hs'] at this; simp at this

/-- along every history from the initial state the file system's open stream handle is the addon's
    `current_path` (this discharges the hypothesis `fs.cur = s.curPath` of the previous theorem) -/
theorem stream_file_handle_is_current_path (env : Env F C) (w : FlowId → C) (evs : List (Ev F C)) (fs0 : FS C)
    (h0 : fs0.cur = none) :
    (fsRun fs0 (run env (init w) evs).2).cur = (run env (init w) evs).1.curPath :=
  run_cur env evs _ fs0 (init_inv w) h0

/-- **C39 (which file, every reachable state).** After ANY history from the initial state (all interleavings,
    filter and file changes, rotations), a completion hook of a matching flow appends its record to the file
    named by the pattern formatted with the clock at that moment, and changes no other file. -/
theorem completion_file_reachable (env : Env F C) (w : FlowId → C) (pre : List (Ev F C)) (h : Hook) (f : FlowId)
    (spec : Spec) (fs0 : FS C) (h0 : fs0.cur = none)
    (hx : (run env (init w) pre).1.exited = false) (hs : (run env (init w) pre).1.stream.isSome = true)
    (hc : isCompletion env (run env (init w) pre).1 h f = true)
    (ho : (run env (init w) pre).1.optFile = some spec) (hrot : rotate env (run env (init w) pre).1 spec ≠ none)
    (hp : passes env (run env (init w) pre).1.filt f ((run env (init w) pre).1.world f) = true) :
    (fsRun fs0 (run env (init w) (pre ++ [.hook h f])).2).files (env.fmt spec.pat (run env (init w) pre).1.now) =
      (if (run env (init w) pre).1.curPath = some (env.fmt spec.pat (run env (init w) pre).1.now)
       then (fsRun fs0 (run env (init w) pre).2).files (env.fmt spec.pat (run env (init w) pre).1.now)
       else if spec.append then (fsRun fs0 (run env (init w) pre).2).files (env.fmt spec.pat (run env (init w) pre).1.now)
       else []) ++ [⟨f, (run env (init w) pre).1.world f⟩] ∧
    (∀ q, q ≠ env.fmt spec.pat (run env (init w) pre).1.now →
      (fsRun fs0 (run env (init w) (pre ++ [.hook h f])).2).files q = (fsRun fs0 (run env (init w) pre).2).files q) := by
  have hcoh := stream_file_handle_is_current_path env w pre fs0 h0
  have key := completion_record_goes_to_formatted_path env _ h f spec (fsRun fs0 (run env (init w) pre).2)
    (reachable_inv env w pre) hx hs hc ho hrot hcoh hp
  have hsplit : fsRun fs0 (run env (init w) (pre ++ [.hook h f])).2 =
      fsRun (fsRun fs0 (run env (init w) pre).2) (step env (run env (init w) pre).1 (.hook h f)).2 := by
    rw [run_append]
    simp [fsRun, List.foldl_append, run]
  rw [hsplit]
  exact ⟨key.2.2.1, key.2.2.2⟩

-- ------------------------------------------------------------------------------------------ reachable-state forms
/-- `completion_appends_exactly_one_if_match` without the invariant hypothesis: for the state after ANY history
    from the initial state the invariant is derived (`reachable_inv`). -/
theorem completion_appends_exactly_one_reachable (env : Env F C) (w : FlowId → C) (pre : List (Ev F C)) (h : Hook)
    (f : FlowId) (hx : (run env (init w) pre).1.exited = false) (hs : (run env (init w) pre).1.stream.isSome = true)
    (hc : isCompletion env (run env (init w) pre).1 h f = true)
    (hrot : ∀ spec, (run env (init w) pre).1.optFile = some spec → rotate env (run env (init w) pre).1 spec ≠ none) :
    writes (step env (run env (init w) pre).1 (.hook h f)).2 =
      (if passes env (run env (init w) pre).1.filt f ((run env (init w) pre).1.world f)
       then [⟨f, (run env (init w) pre).1.world f⟩] else []) :=
  (completion_appends_exactly_one_if_match env _ h f (reachable_inv env w pre) hx hs hc hrot).1

/-- `no_record_before_completion_except_stop` for every event of every history from the initial state -/
theorem no_record_before_completion_reachable (env : Env F C) (w : FlowId → C) (evs : List (Ev F C)) :
    ∀ r ∈ writes (run env (init w) evs).2,
      ∃ pre e post, evs = pre ++ e :: post ∧
        ((∃ h, e = .hook h r.flow ∧ isCompletion env (run env (init w) pre).1 h r.flow = true) ∨ e = .done ∨
         (∃ filt, e = .update (some none) filt)) := by
  intro r hr
  obtain ⟨pre, e, post, he, hm⟩ := mem_run_writes env evs _ r hr
  exact ⟨pre, e, post, he, no_record_before_completion_except_stop env _ e (reachable_inv env w pre) r hm⟩

/-- `lifecycle_written_exactly_once` after ANY history from the initial state (invariant derived) -/
theorem lifecycle_written_exactly_once_reachable (env : Env F C) (w : FlowId → C) (pre : List (Ev F C))
    (hs hc : Hook) (f : FlowId) (mid : List (Ev F C))
    (hx : (run env (init w) pre).1.exited = false) (hopen : (run env (init w) pre).1.stream.isSome = true)
    (hstart : hs.isStart = true) (hq : Quiet env f (step env (run env (init w) pre).1 (.hook hs f)).1 mid)
    (hcomp : isCompletion env (run env (run env (init w) pre).1 (.hook hs f :: mid)).1 hc f = true)
    (hrot : ∀ spec, (run env (run env (init w) pre).1 (.hook hs f :: mid)).1.optFile = some spec →
              rotate env (run env (run env (init w) pre).1 (.hook hs f :: mid)).1 spec ≠ none) :
    (writes (run env (run env (init w) pre).1 (.hook hs f :: mid ++ [.hook hc f])).2).filter (fun r => r.flow == f) =
      (if passes env (run env (run env (init w) pre).1 (.hook hs f :: mid)).1.filt f
            ((run env (run env (init w) pre).1 (.hook hs f :: mid)).1.world f)
       then [⟨f, (run env (run env (init w) pre).1 (.hook hs f :: mid)).1.world f⟩] else []) :=
  lifecycle_written_exactly_once env _ hs hc f mid (reachable_inv env w pre) hx hopen hstart hq hcomp hrot

/-- `started_uncompleted_written_once_at_stop` (the `done` form) after ANY history from the initial state -/
theorem started_uncompleted_written_once_reachable (env : Env F C) (w : FlowId → C) (pre : List (Ev F C))
    (hs : Hook) (f : FlowId) (mid : List (Ev F C))
    (hx : (run env (init w) pre).1.exited = false) (hopen : (run env (init w) pre).1.stream.isSome = true)
    (hstart : hs.isStart = true) (hq : Quiet env f (step env (run env (init w) pre).1 (.hook hs f)).1 mid) :
    (writes (step env (run env (run env (init w) pre).1 (.hook hs f :: mid)).1 .done).2).filter (fun r => r.flow == f) =
      (if passes env (run env (run env (init w) pre).1 (.hook hs f :: mid)).1.filt f
            ((run env (run env (init w) pre).1 (.hook hs f :: mid)).1.world f)
       then [⟨f, (run env (run env (init w) pre).1 (.hook hs f :: mid)).1.world f⟩] else []) :=
  (started_uncompleted_written_once_at_stop env _ hs f mid (reachable_inv env w pre) hx hopen hstart hq none
    (fun h => by cases h)).1.1

-- ------------------------------------------------------------------------------------------ transcribed matcher and file spec
/-- save._mode / save._path: a leading "+" selects append mode and is stripped exactly once -/
theorem spec_plus_prefix (p : Bytes) : specMode (0x2b :: p) = true ∧ specPath (0x2b :: p) = p := by
  simp [specMode, specPath]

/-- without a leading "+" the spec is an overwrite spec and the path is the spec itself -/
theorem spec_no_prefix (s : Bytes) (h : s.head? ≠ some 0x2b) : specMode s = false ∧ specPath s = s := by
  simp [specMode, specPath, h]

/-- the filter combinators mean negation, conjunction and disjunction of their arguments; the class atoms are
    mutually exclusive and exhaustive; class-restricted atoms (`@only`) are false outside their classes -/
theorem flt_combinators (a b : Flt) (c : Nat) :
    (Flt.not a).eval c = !(a.eval c) ∧ (Flt.and a b).eval c = (a.eval c && b.eval c) ∧
    (Flt.or a b).eval c = (a.eval c || b.eval c) := ⟨rfl, rfl, rfl⟩

theorem flt_class_atoms (c : Nat) :
    (Flt.http.eval c || Flt.tcp.eval c || Flt.udp.eval c || Flt.dns.eval c) = true ∧
    (Flt.http.eval c = true → Flt.tcp.eval c = false ∧ Flt.udp.eval c = false ∧ Flt.dns.eval c = false) ∧
    (Flt.http.eval c = false → Flt.post.eval c = false ∧ Flt.c200.eval c = false ∧ Flt.c404.eval c = false) ∧
    (Flt.tcp.eval c = true ∨ Flt.udp.eval c = true → Flt.noresp.eval c = false) := by
  have h4 : c % 4 = 0 ∨ c % 4 = 1 ∨ c % 4 = 2 ∨ c % 4 = 3 := by omega
  rcases h4 with h | h | h | h <;> simp [Flt.eval, h]

/-- **C39 with flowfilter transcribed.** The whole-lifecycle theorem for the transcribed matcher `Flt.eval`
    (the `mt` parameter of the environment is no longer abstract; strftime and the set of unopenable paths stay
    parameters): over any interleaving a flow is written exactly once iff the configured filter expression evaluates
    to true on its content at completion. -/
theorem lifecycle_written_exactly_once_flt (fmt : Nat → Nat → Path) (openFails : Path → Bool) (w : FlowId → Nat)
    (pre : List (Ev Flt Nat)) (hs hc : Hook) (f : FlowId) (mid : List (Ev Flt Nat))
    (hx : (run (fltEnv fmt openFails) (init w) pre).1.exited = false)
    (hopen : (run (fltEnv fmt openFails) (init w) pre).1.stream.isSome = true) (hstart : hs.isStart = true)
    (hq : Quiet (fltEnv fmt openFails) f (step (fltEnv fmt openFails) (run (fltEnv fmt openFails) (init w) pre).1 (.hook hs f)).1 mid)
    (hcomp : isCompletion (fltEnv fmt openFails)
      (run (fltEnv fmt openFails) (run (fltEnv fmt openFails) (init w) pre).1 (.hook hs f :: mid)).1 hc f = true)
    (hrot : ∀ spec, (run (fltEnv fmt openFails) (run (fltEnv fmt openFails) (init w) pre).1 (.hook hs f :: mid)).1.optFile = some spec →
      rotate (fltEnv fmt openFails) (run (fltEnv fmt openFails) (run (fltEnv fmt openFails) (init w) pre).1 (.hook hs f :: mid)).1 spec ≠ none) :
    let s := (run (fltEnv fmt openFails) (run (fltEnv fmt openFails) (init w) pre).1 (.hook hs f :: mid)).1
    (writes (run (fltEnv fmt openFails) (run (fltEnv fmt openFails) (init w) pre).1
        (.hook hs f :: mid ++ [.hook hc f])).2).filter (fun r => r.flow == f) =
      (if (match s.filt with | some g => g.eval (s.world f) | none => true) then [⟨f, s.world f⟩] else []) := by
  intro s
  have := lifecycle_written_exactly_once_reachable (fltEnv fmt openFails) w pre hs hc f mid hx hopen hstart hq hcomp hrot
  rw [this]
  have hp : ∀ (flt : Option Flt) (c : Nat), passes (fltEnv fmt openFails) flt f c =
      (match flt with | some g => g.eval c | none => true) := by
    intro flt c; cases flt <;> rfl
  rw [hp]

-- ------------------------------------------------------------------------------------------ non-vacuity
section Examples
private def envx : Env Nat Nat :=
  { mt := fun g _ c => c % 2 == g, isWs := fun c => c ≥ 100, fmt := fun pat now => pat + now, openFails := fun p => p == 9 }
private def evs1 : List (Ev Nat Nat) :=
  [.update (some (some ⟨false, 0⟩)) (some (.ok 1)), .hook .request 1, .hook .tcpStart 2, .edit 1 3, .edit 2 5,
   .hook .response 1, .edit 2 7, .done]
-- flow 1 completes (content 3 matches filter "odd") and is written once; flow 2 is still open and written at `done`
example : writes (run envx (init (fun _ => 0)) evs1).2 = [⟨1, 3⟩, ⟨2, 7⟩] := by decide
-- a non-matching flow is never written; an unparsable filter raises and changes nothing
example : writes (run envx (init (fun _ => 0))
    [.update (some (some ⟨false, 0⟩)) (some (.ok 1)), .hook .request 1, .edit 1 4, .update none (some .bad),
     .hook .response 1, .done]).2 = [] := by decide
-- a failed file change (path 9 cannot be opened) keeps streaming to the old file (repaired behaviour)
example : writes (run envx (init (fun _ => 0))
    [.update (some (some ⟨false, 0⟩)) none, .hook .request 1, .update (some (some ⟨false, 9⟩)) none,
     .hook .response 1]).2 = [⟨1, 0⟩] := by decide
-- WebSocket flows are not written at `response` but at `websocket_end`
example : writes (run envx (init (fun _ => 0))
    [.update (some (some ⟨true, 0⟩)) none, .hook .request 1, .edit 1 100, .hook .response 1]).2 = [] := by decide
example : writes (run envx (init (fun _ => 0))
    [.update (some (some ⟨true, 0⟩)) none, .hook .request 1, .edit 1 100, .hook .response 1, .edit 1 102,
     .hook .websocketEnd 1]).2 = [⟨1, 102⟩] := by decide
-- hypotheses of `started_uncompleted_written_once_at_stop` are satisfiable
example : Quiet envx 2 (run envx (init (fun _ => 0)) [.update (some (some ⟨false, 0⟩)) none, .hook .tcpStart 2]).1
    [.hook .request 1, .edit 2 5, .update none (some (.ok 1)), .hook .response 1, .tick 3] := by
  simp only [Quiet]; decide
-- the whole-lifecycle theorem on a concrete interleaving with a filter change and a rotation in between
example : (writes (run envx (init (fun _ => 0))
    [.update (some (some ⟨false, 0⟩)) none, .hook .tcpStart 2, .hook .request 1, .edit 2 5, .update none (some (.ok 1)),
     .tick 3, .hook .response 1, .hook .tcpEnd 2]).2).filter (fun r => r.flow == 2) = [⟨2, 5⟩] := by decide
-- the transcribed matcher is not constant
example : (Flt.and .resp (.not .c404)).eval (0 + 4) = true ∧ (Flt.and .resp (.not .c404)).eval (0 + 4 + 256) = false ∧
    Flt.noresp.eval 3 = true ∧ Flt.noresp.eval 1 = false ∧ Flt.post.eval (1 + 128) = false := by decide
example : specMode [0x2b, 0x2b, 0x78] = true ∧ specPath [0x2b, 0x2b, 0x78] = [0x2b, 0x78] ∧ specMode [] = false := by decide
end Examples


-- ------------------------------------------------------------------------------------------ round-6 audit witnesses
section AuditWitnesses
/-- a file system in which path 5 already holds a record -/
private def fsA : FS Nat := { files := fun p => if p = 5 then [⟨9, 9⟩] else [], cur := none, trunc := fun _ => 0 }
private def hOver : List (Ev Nat Nat) :=
  [.update (some (some ⟨false, 0⟩)) none, .hook .request 1, .tick 5, .edit 1 3, .hook .response 1]
private def hApp : List (Ev Nat Nat) :=
  [.update (some (some ⟨true, 0⟩)) none, .hook .request 1, .tick 5, .edit 1 3, .hook .response 1]
-- `completion_record_goes_to_formatted_path` / `completion_file_reachable`, rotation case (clock moved, path 0 → 5):
-- overwrite spec empties the existing file 5 and appends the record; file 0 (opened earlier, empty) is unchanged
example : (fsRun fsA (run envx (init (fun _ => 0)) hOver).2).files 5 = [⟨1, 3⟩] ∧
    (fsRun fsA (run envx (init (fun _ => 0)) hOver).2).files 0 = [] ∧
    (fsRun fsA (run envx (init (fun _ => 0)) hOver).2).cur = some 5 ∧
    (run envx (init (fun _ => 0)) hOver).1.curPath = some 5 := by decide
-- the hypotheses of `completion_file_reachable` hold on that history's prefix (stream open, not exited, completion,
-- rotation target can be opened, flow passes the filter)
example : (let s := (run envx (init (fun _ => 0)) (hOver.take 4)).1
    (s.exited, s.stream.isSome, isCompletion envx s .response 1, s.optFile == some ⟨false, 0⟩,
     (rotate envx s ⟨false, 0⟩).isSome, passes envx s.filt 1 (s.world 1))) = (false, true, true, true, true, true) := by decide
-- `append_mode_keeps_prefix`: same history with a "+" spec keeps the old record of file 5 as a prefix
example : (fsRun fsA (run envx (init (fun _ => 0)) hApp).2).files 5 = [⟨9, 9⟩, ⟨1, 3⟩] := by decide
example : AppendOnly hApp := by
  intro e he spec filt h
  simp only [hApp, List.mem_cons, List.not_mem_nil, or_false] at he
  rcases he with rfl | rfl | rfl | rfl | rfl <;> first | (cases h; rfl) | cases h
-- `started_uncompleted_written_once_at_stop`, the `update(save_stream_file=None)` form: the open flow is flushed once
-- by the stop; a later restart + `done` does not write it again
example : writes (run envx (init (fun _ => 0))
    [.update (some (some ⟨false, 0⟩)) none, .hook .tcpStart 2, .edit 2 5, .update (some none) none,
     .update (some (some ⟨false, 0⟩)) none, .done]).2 = [⟨2, 5⟩] := by decide
-- the side condition `hrot` matters: when the rotation target (path 9) cannot be opened at completion the addon
-- exits and nothing is written
private def hExit : List (Ev Nat Nat) :=
  [.update (some (some ⟨false, 0⟩)) none, .hook .request 1, .tick 9, .hook .response 1]
example : (run envx (init (fun _ => 0)) hExit).1.exited = true ∧ writes (run envx (init (fun _ => 0)) hExit).2 = [] := by
  decide
-- `lifecycle_written_exactly_once_flt` on the driver's environment: filter "~s & !(~c 404)"; flow 1 (HTTP, response 200)
-- is written at its response, flow 2 (HTTP, response 404) is not
example : writes (run (fltEnv driverFmt driverOpenFails) (init (fun _ => 0))
    [.update (some (some ⟨false, 0⟩)) (some (.ok (.and .resp (.not .c404)))), .hook .request 1, .hook .request 2,
     .edit 1 4, .edit 2 (4 + 256), .hook .response 2, .hook .response 1]).2 = [⟨1, 4⟩] := by decide
-- a flow that completes twice (response, then error) is written at each completion: "each completion appends one record"
example : writes (run envx (init (fun _ => 0))
    [.update (some (some ⟨false, 0⟩)) none, .hook .request 1, .hook .response 1, .edit 1 2, .hook .error 1]).2
    = [⟨1, 0⟩, ⟨1, 2⟩] := by decide
end AuditWitnesses

end MitmVerif.Props.C39
