/-
  C40 — property theorems (all for arbitrary component value type V, arbitrary in-place/re-bind choice
  `ip` of set_state, arbitrary stores and arbitrary operation histories).

  * `revert_restores_and_clears`           backup; ANY history without a revert of that flow; revert
                                           ⇒ get_state() = the state at backup time, backup = None
  * `modified_iff_state_ne_backup`         modified() ⇔ a backup exists and differs from the current state
  * `not_modified_right_after_backup`      (the F-C40a situation) backup() then modified() = False
  * `modified_after_backup_history`        along any history after a backup: modified ⇔ content changed
  * `copy_fresh_id_equal_content_not_live` copy(): given id, equal content + backup, live = False, source intact
  * `copy_independent`                     ANY history of operations not addressed to flow b leaves b's
                                           get_state() and liveness untouched
  * `sep_preserved` / `sep_newFlow`        the no-aliasing invariant holds initially and after every operation
-/
import MitmVerif.Model.C40
import MitmVerif.Model.C40_Http
import MitmVerif.Model.C31
import MitmVerif.Model.C40_Obj
import MitmVerif.Model.C40_Obj2
namespace MitmVerif.Props.C40
open MitmVerif.C40

variable {V : Type}

/-- no aliasing: component cells are allocated, distinct within a flow and disjoint between flows -/
def Sep (σ : Store V) : Prop :=
  (∀ (a : Nat) (f : FlowObj V), σ.flows[a]? = some f → f.parts.Nodup ∧ ∀ ad ∈ f.parts, ad < σ.next) ∧
  (∀ (a b : Nat) (fa fb : FlowObj V), a ≠ b → σ.flows[a]? = some fa → σ.flows[b]? = some fb → ∀ ad ∈ fa.parts, ad ∉ fb.parts)

/-- everything a caller can observe of flow handle b is unchanged between σ and σ' -/
def Same (σ σ' : Store V) (b : Nat) : Prop :=
  ∀ fb : FlowObj V, σ.flows[b]? = some fb → σ'.flows[b]? = some fb ∧ content σ' fb = content σ fb

/-- effect of an edit on its own flow -/
def Own (σ' : Store V) (a : Nat) (f : FlowObj V) (c : List V) : Prop :=
  ∃ f', σ'.flows[a]? = some f' ∧ f'.id = f.id ∧ f'.live = f.live ∧ f'.backup = f.backup ∧
        f'.parts.length = f.parts.length ∧ content σ' f' = c

private theorem map_upd_not_mem (h : Addr → V) (ad : Addr) (v : V) (l : List Addr) (hn : ad ∉ l) :
    l.map (upd h ad v) = l.map h := by
  apply List.map_congr_left
  intro x hx
  have : x ≠ ad := fun e => hn (e ▸ hx)
  simp [upd, this]

private theorem map_upd_nodup (h : Addr → V) (v : V) :
    ∀ (l : List Addr) (j : Nat) (ad : Addr), l.Nodup → l[j]? = some ad →
      l.map (upd h ad v) = (l.map h).set j v := by
  intro l
  induction l with
  | nil => intro j ad _ hj; simp at hj
  | cons x xs ih =>
    intro j ad hnd hj
    rw [List.nodup_cons] at hnd
    cases j with
    | zero =>
      simp at hj; subst hj
      simp [upd, map_upd_not_mem h x v xs hnd.1]
    | succ j =>
      simp at hj
      have hmem : ad ∈ xs := List.mem_iff_getElem?.mpr ⟨j, hj⟩
      have hne : x ≠ ad := fun e => hnd.1 (e ▸ hmem)
      simp [upd, hne, ih j ad hnd.2 hj]

private theorem nodup_set_fresh : ∀ (l : List Addr) (j : Nat) (x : Addr), l.Nodup → x ∉ l → (l.set j x).Nodup := by
  intro l
  induction l with
  | nil => intro j x _ _; simp
  | cons y ys ih =>
    intro j x hnd hx
    rw [List.nodup_cons] at hnd
    simp at hx
    cases j with
    | zero => simp [List.nodup_cons]; exact ⟨hx.2, hnd.2⟩
    | succ j =>
      simp only [List.set_cons_succ, List.nodup_cons]
      refine ⟨?_, ih j x hnd.2 hx.2⟩
      intro hm
      rcases List.mem_or_eq_of_mem_set hm with h1 | h1
      · exact hnd.1 h1
      · exact hx.1 h1.symm

private theorem mutate_none {σ : Store V} {a j : Nat} {v : V} (h : σ.flows[a]? = none) : mutate σ a j v = σ := by
  simp [mutate, h]
private theorem mutate_some_none {σ : Store V} {a j : Nat} {v : V} {f : FlowObj V} (h : σ.flows[a]? = some f)
    (h2 : f.parts[j]? = none) : mutate σ a j v = σ := by
  simp [mutate, h, h2]
private theorem mutate_some_some {σ : Store V} {a j : Nat} {v : V} {f : FlowObj V} {ad : Addr}
    (h : σ.flows[a]? = some f) (h2 : f.parts[j]? = some ad) :
    mutate σ a j v = Store.mk (upd σ.heap ad v) σ.next σ.flows := by
  simp [mutate, h, h2]
private theorem rebind_none {σ : Store V} {a j : Nat} {v : V} (h : σ.flows[a]? = none) : rebind σ a j v = σ := by
  simp [rebind, h]
private theorem rebind_some_none {σ : Store V} {a j : Nat} {v : V} {f : FlowObj V} (h : σ.flows[a]? = some f)
    (h2 : f.parts[j]? = none) : rebind σ a j v = σ := by
  simp [rebind, h, h2]
private theorem rebind_some_some {σ : Store V} {a j : Nat} {v : V} {f : FlowObj V} {ad : Addr}
    (h : σ.flows[a]? = some f) (h2 : f.parts[j]? = some ad) :
    rebind σ a j v = Store.mk (upd σ.heap σ.next v) (σ.next + 1)
        (σ.flows.set a (FlowObj.mk f.id f.live (f.parts.set j σ.next) f.backup)) := by
  simp [rebind, h, h2]

-- ---------------------------------------------------------------- mutate
private theorem mutate_spec (σ : Store V) (a j : Nat) (v : V) (hs : Sep σ) :
    Sep (mutate σ a j v) ∧ (∀ b, b ≠ a → Same σ (mutate σ a j v) b) ∧
    (∀ f, σ.flows[a]? = some f → Own (mutate σ a j v) a f ((content σ f).set j v)) := by
  cases hfa : σ.flows[a]? with
  | none =>
    rw [mutate_none hfa]
    refine ⟨hs, fun b _ fb h => ⟨h, rfl⟩, ?_⟩
    intro f hf; simp at hf
  | some f =>
    cases hj : f.parts[j]? with
    | none =>
      rw [mutate_some_none hfa hj]
      refine ⟨hs, fun b _ fb h => ⟨h, rfl⟩, ?_⟩
      intro f' hf'
      simp at hf'; subst hf'
      refine ⟨f, hfa, rfl, rfl, rfl, rfl, ?_⟩
      have : f.parts.length ≤ j := by
        rcases Nat.lt_or_ge j f.parts.length with h | h
        · simp [List.getElem?_eq_getElem h] at hj
        · exact h
      rw [List.set_eq_of_length_le]; simp [content, this]
    | some ad =>
      rw [mutate_some_some hfa hj]
      have hmem : ad ∈ f.parts := List.mem_iff_getElem?.mpr ⟨j, hj⟩
      have hs' : Sep (Store.mk (upd σ.heap ad v) σ.next σ.flows) := hs
      refine ⟨hs', ?_, ?_⟩
      · intro b hb fb hfb
        refine ⟨hfb, ?_⟩
        have : ad ∉ fb.parts := hs.2 a b f fb (Ne.symm hb) hfa hfb ad hmem
        simp only [content]
        exact map_upd_not_mem _ _ _ _ this
      · intro f' hf'
        simp at hf'; subst hf'
        refine ⟨f, hfa, rfl, rfl, rfl, rfl, ?_⟩
        simp only [content]
        exact map_upd_nodup _ _ _ _ _ (hs.1 a f hfa).1 hj

-- ---------------------------------------------------------------- rebind
private theorem rebind_spec (σ : Store V) (a j : Nat) (v : V) (hs : Sep σ) :
    Sep (rebind σ a j v) ∧ (∀ b, b ≠ a → Same σ (rebind σ a j v) b) ∧
    (∀ f, σ.flows[a]? = some f → Own (rebind σ a j v) a f ((content σ f).set j v)) := by
  cases hfa : σ.flows[a]? with
  | none =>
    rw [rebind_none hfa]
    refine ⟨hs, fun b _ fb h => ⟨h, rfl⟩, ?_⟩
    intro f hf; simp at hf
  | some f =>
    cases hj : f.parts[j]? with
    | none =>
      rw [rebind_some_none hfa hj]
      refine ⟨hs, fun b _ fb h => ⟨h, rfl⟩, ?_⟩
      intro f' hf'
      simp at hf'; subst hf'
      refine ⟨f, hfa, rfl, rfl, rfl, rfl, ?_⟩
      have : f.parts.length ≤ j := by
        rcases Nat.lt_or_ge j f.parts.length with h | h
        · simp [List.getElem?_eq_getElem h] at hj
        · exact h
      rw [List.set_eq_of_length_le]; simp [content, this]
    | some ad0 =>
      rw [rebind_some_some hfa hj]
      have halen : a < σ.flows.length := by
        rcases Nat.lt_or_ge a σ.flows.length with h | h
        · exact h
        · simp [List.getElem?_eq_none h] at hfa
      have hfresh : ∀ (b : Nat) (fb : FlowObj V), σ.flows[b]? = some fb → σ.next ∉ fb.parts := by
        intro b fb hfb hm
        exact Nat.lt_irrefl σ.next ((hs.1 b fb hfb).2 _ hm)
      refine ⟨⟨?_, ?_⟩, ?_, ?_⟩
      · intro b fb hfb
        simp only [List.getElem?_set] at hfb
        by_cases hab : a = b
        · subst hab
          simp [halen] at hfb; subst hfb
          refine ⟨nodup_set_fresh _ _ _ (hs.1 a f hfa).1 (hfresh a f hfa), ?_⟩
          intro ad had
          rcases List.mem_or_eq_of_mem_set had with h1 | h1
          · exact Nat.lt_succ_of_lt ((hs.1 a f hfa).2 ad h1)
          · subst h1; exact Nat.lt_succ_self _
        · simp [hab] at hfb
          exact ⟨(hs.1 b fb hfb).1, fun ad had => Nat.lt_succ_of_lt ((hs.1 b fb hfb).2 ad had)⟩
      · intro b c fb fc hbc hfb hfc ad had
        simp only [List.getElem?_set] at hfb hfc
        by_cases hab : a = b
        · subst hab
          have hac : a ≠ c := hbc
          simp [halen] at hfb; subst hfb
          simp [hac] at hfc
          rcases List.mem_or_eq_of_mem_set had with h1 | h1
          · exact hs.2 a c f fc hbc hfa hfc ad h1
          · subst h1; exact hfresh c fc hfc
        · simp [hab] at hfb
          by_cases hac : a = c
          · subst hac
            simp [halen] at hfc; subst hfc
            intro hm
            rcases List.mem_or_eq_of_mem_set hm with h1 | h1
            · exact hs.2 b a fb f hbc hfb hfa ad had h1
            · subst h1; exact hfresh b fb hfb had
          · simp [hac] at hfc
            exact hs.2 b c fb fc hbc hfb hfc ad had
      · intro b hb fb hfb
        refine ⟨?_, ?_⟩
        · simp only [List.getElem?_set]; simp [Ne.symm hb, hfb]
        · simp only [content]
          exact map_upd_not_mem _ _ _ _ (hfresh b fb hfb)
      · intro f' hf'
        simp at hf'; subst hf'
        refine ⟨FlowObj.mk f.id f.live (f.parts.set j σ.next) f.backup, ?_, rfl, rfl, rfl, by simp, ?_⟩
        · simp [List.getElem?_set, halen]
        · simp only [content, List.map_set]
          rw [map_upd_not_mem _ _ _ _ (hfresh a f hfa)]
          simp [upd]

-- ---------------------------------------------------------------- field-only updates (backup / id)
private theorem setfields_spec (σ : Store V) (a : Nat) (f f' : FlowObj V) (hfa : σ.flows[a]? = some f)
    (hp : f'.parts = f.parts) (hs : Sep σ) :
    Sep (Store.mk σ.heap σ.next (σ.flows.set a f')) ∧
    (∀ b, b ≠ a → Same σ (Store.mk σ.heap σ.next (σ.flows.set a f')) b) ∧
    (Store.mk σ.heap σ.next (σ.flows.set a f')).flows[a]? = some f' := by
  have halen : a < σ.flows.length := by
    rcases Nat.lt_or_ge a σ.flows.length with h | h
    · exact h
    · simp [List.getElem?_eq_none h] at hfa
  have hget : ∀ (b : Nat) (fb : FlowObj V), (σ.flows.set a f')[b]? = some fb →
      ∃ fb0, σ.flows[b]? = some fb0 ∧ fb.parts = fb0.parts := by
    intro b fb hfb
    simp only [List.getElem?_set] at hfb
    by_cases hab : a = b
    · subst hab; simp [halen] at hfb; subst hfb; exact ⟨f, hfa, hp⟩
    · simp [hab] at hfb; exact ⟨fb, hfb, rfl⟩
  refine ⟨⟨?_, ?_⟩, ?_, ?_⟩
  · intro b fb hfb
    obtain ⟨fb0, h0, hp0⟩ := hget b fb hfb
    rw [hp0]; exact hs.1 b fb0 h0
  · intro b c fb fc hbc hfb hfc
    obtain ⟨fb0, h0, hp0⟩ := hget b fb hfb
    obtain ⟨fc0, h1, hp1⟩ := hget c fc hfc
    rw [hp0, hp1]; exact hs.2 b c fb0 fc0 hbc h0 h1
  · intro b hb fb hfb
    refine ⟨?_, rfl⟩
    simp [List.getElem?_set, Ne.symm hb, hfb]
  · simp [List.getElem?_set, halen]

private theorem backupOp_none {σ : Store V} {a : Nat} (h : σ.flows[a]? = none) : backupOp σ a = σ := by
  simp [backupOp, h]
private theorem backupOp_some_some {σ : Store V} {a : Nat} {f : FlowObj V} {b : Nat × List V}
    (h : σ.flows[a]? = some f) (h2 : f.backup = some b) : backupOp σ a = σ := by
  simp [backupOp, h, h2]
private theorem backupOp_some_none {σ : Store V} {a : Nat} {f : FlowObj V}
    (h : σ.flows[a]? = some f) (h2 : f.backup = none) :
    backupOp σ a = Store.mk σ.heap σ.next
      (σ.flows.set a (FlowObj.mk f.id f.live f.parts (some (f.id, content σ f)))) := by
  simp [backupOp, h, h2]

private theorem backupOp_spec (σ : Store V) (a : Nat) (hs : Sep σ) :
    Sep (backupOp σ a) ∧ (∀ b, b ≠ a → Same σ (backupOp σ a) b) := by
  cases hfa : σ.flows[a]? with
  | none => rw [backupOp_none hfa]; exact ⟨hs, fun b _ fb h => ⟨h, rfl⟩⟩
  | some f =>
    cases hb : f.backup with
    | some b => rw [backupOp_some_some hfa hb]; exact ⟨hs, fun b _ fb h => ⟨h, rfl⟩⟩
    | none =>
      rw [backupOp_some_none hfa hb]
      have := setfields_spec σ a f (FlowObj.mk f.id f.live f.parts (some (f.id, content σ f))) hfa rfl hs
      exact ⟨this.1, this.2.1⟩

private theorem setMeta_none {σ : Store V} {a i : Nat} {b : Option (Nat × List V)} (h : σ.flows[a]? = none) :
    setMeta σ a i b = σ := by
  simp [setMeta, h]
private theorem setMeta_some {σ : Store V} {a i : Nat} {b : Option (Nat × List V)} {f : FlowObj V}
    (h : σ.flows[a]? = some f) :
    setMeta σ a i b = Store.mk σ.heap σ.next (σ.flows.set a (FlowObj.mk i f.live f.parts b)) := by
  simp [setMeta, h]

-- ---------------------------------------------------------------- set_state component by component
/-- pure list counterpart of `restore` -/
private def setFrom : List V → Nat → List V → List V
  | l, _, [] => l
  | l, j, v :: vs => setFrom (l.set j v) (j + 1) vs

private theorem setFrom_length : ∀ (vs l : List V) (j : Nat), (setFrom l j vs).length = l.length := by
  intro vs
  induction vs with
  | nil => intro l j; rfl
  | cons v vs ih => intro l j; simp [setFrom, ih]

private theorem setFrom_get : ∀ (vs l : List V) (j i : Nat), j + vs.length ≤ l.length →
    (setFrom l j vs)[i]? = if j ≤ i ∧ i < j + vs.length then vs[i - j]? else l[i]? := by
  intro vs
  induction vs with
  | nil => intro l j i _; simp [setFrom]; omega
  | cons v vs ih =>
    intro l j i hlen
    simp only [setFrom, List.length_cons] at hlen ⊢
    rw [ih (l.set j v) (j + 1) i (by simp; omega)]
    by_cases h1 : j + 1 ≤ i ∧ i < j + 1 + vs.length
    · have h2 : j ≤ i ∧ i < j + (vs.length + 1) := by omega
      have h3 : i - j = (i - (j + 1)) + 1 := by omega
      simp [h1, h2, h3]
    · simp only [h1, if_false]
      by_cases h4 : i = j
      · subst h4
        have : i < l.length := by omega
        simp [this]
      · have h5 : ¬ (j ≤ i ∧ i < j + (vs.length + 1)) := by omega
        simp [h5, List.getElem?_set, Ne.symm h4]

private theorem setFrom_all (l vs : List V) (h : vs.length = l.length) : setFrom l 0 vs = vs := by
  apply List.ext_getElem?
  intro i
  rw [setFrom_get vs l 0 i (by omega)]
  by_cases hi : i < vs.length
  · simp [hi]
  · simp [hi]
    omega

private theorem restore_spec (ip : Nat → Bool) (a : Nat) :
    ∀ (vs : List V) (σ : Store V) (j : Nat) (f : FlowObj V), Sep σ → σ.flows[a]? = some f →
      Sep (restore ip σ a j vs) ∧ (∀ b, b ≠ a → Same σ (restore ip σ a j vs) b) ∧
      Own (restore ip σ a j vs) a f (setFrom (content σ f) j vs) := by
  intro vs
  induction vs with
  | nil =>
    intro σ j f hs hfa
    exact ⟨hs, fun b _ fb h => ⟨h, rfl⟩, f, hfa, rfl, rfl, rfl, rfl, rfl⟩
  | cons v vs ih =>
    intro σ j f hs hfa
    simp only [restore, setFrom]
    have key : ∀ σ1 : Store V, (Sep σ1 ∧ (∀ b, b ≠ a → Same σ σ1 b) ∧ Own σ1 a f ((content σ f).set j v)) →
        Sep (restore ip σ1 a (j + 1) vs) ∧ (∀ b, b ≠ a → Same σ (restore ip σ1 a (j + 1) vs) b) ∧
        Own (restore ip σ1 a (j + 1) vs) a f (setFrom ((content σ f).set j v) (j + 1) vs) := by
      intro σ1 ⟨hs1, hsame1, f1, hf1, hid, hlive, hbk, hlen, hc⟩
      obtain ⟨hs2, hsame2, f2, hf2, hid2, hlive2, hbk2, hlen2, hc2⟩ := ih σ1 (j + 1) f1 hs1 hf1
      refine ⟨hs2, ?_, f2, hf2, hid2.trans hid, hlive2.trans hlive, hbk2.trans hbk, hlen2.trans hlen, ?_⟩
      · intro b hb fb hfb
        obtain ⟨h1, h1c⟩ := hsame1 b hb fb hfb
        obtain ⟨h2, h2c⟩ := hsame2 b hb fb h1
        exact ⟨h2, h2c.trans h1c⟩
      · rw [hc2, hc]
    cases hip : ip j with
    | true =>
      simp only [if_true]
      have := mutate_spec σ a j v hs
      exact key _ ⟨this.1, this.2.1, this.2.2 f hfa⟩
    | false =>
      simp only [Bool.false_eq_true, if_false]
      have := rebind_spec σ a j v hs
      exact key _ ⟨this.1, this.2.1, this.2.2 f hfa⟩

private theorem revert_none {ip : Nat → Bool} {σ : Store V} {a : Nat} (h : σ.flows[a]? = none) :
    revert ip σ a = σ := by
  simp [revert, h]
private theorem revert_some_none {ip : Nat → Bool} {σ : Store V} {a : Nat} {f : FlowObj V}
    (h : σ.flows[a]? = some f) (h2 : f.backup = none) : revert ip σ a = σ := by
  simp [revert, h, h2]
private theorem revert_some_some {ip : Nat → Bool} {σ : Store V} {a : Nat} {f : FlowObj V} {i : Nat} {vs : List V}
    (h : σ.flows[a]? = some f) (h2 : f.backup = some (i, vs)) :
    revert ip σ a = setMeta (restore ip σ a 0 vs) a i none := by
  simp [revert, h, h2]

/-- revert on a flow with backup (i, vs): Sep kept, other flows untouched, own flow = (i, vs-restored, no backup) -/
private theorem revert_spec (ip : Nat → Bool) (σ : Store V) (a : Nat) (hs : Sep σ) :
    Sep (revert ip σ a) ∧ (∀ b, b ≠ a → Same σ (revert ip σ a) b) ∧
    (∀ f i vs, σ.flows[a]? = some f → f.backup = some (i, vs) →
      ∃ f', (revert ip σ a).flows[a]? = some f' ∧ f'.id = i ∧ f'.live = f.live ∧ f'.backup = none ∧
        f'.parts.length = f.parts.length ∧ content (revert ip σ a) f' = setFrom (content σ f) 0 vs) := by
  cases hfa : σ.flows[a]? with
  | none =>
    rw [revert_none hfa]
    exact ⟨hs, fun b _ fb h => ⟨h, rfl⟩, fun f i vs h => by simp at h⟩
  | some f =>
    cases hb : f.backup with
    | none =>
      rw [revert_some_none hfa hb]
      refine ⟨hs, fun b _ fb h => ⟨h, rfl⟩, ?_⟩
      intro f' i vs h h2; simp at h; subst h; simp [hb] at h2
    | some bk =>
      obtain ⟨i, vs⟩ := bk
      rw [revert_some_some hfa hb]
      obtain ⟨hs1, hsame1, f1, hf1, hid, hlive, hbk, hlen, hc⟩ := restore_spec ip a vs σ 0 f hs hfa
      rw [setMeta_some hf1]
      have sf := setfields_spec (restore ip σ a 0 vs) a f1 (FlowObj.mk i f1.live f1.parts none) hf1 rfl hs1
      refine ⟨sf.1, ?_, ?_⟩
      · intro b hbne fb hfb
        obtain ⟨h1, h1c⟩ := hsame1 b hbne fb hfb
        obtain ⟨h2, h2c⟩ := sf.2.1 b hbne fb h1
        exact ⟨h2, h2c.trans h1c⟩
      · intro f' i' vs' h h2
        simp at h; subst h
        rw [hb] at h2; simp at h2
        obtain ⟨rfl, rfl⟩ := h2
        exact ⟨_, sf.2.2, rfl, hlive, rfl, hlen, hc⟩

-- ---------------------------------------------------------------- copy
private theorem alloc_content (h : Addr → V) (n : Addr) (vs : List V) :
    (List.range' n vs.length).map (allocHeap h n vs) = vs := by
  apply List.ext_getElem?
  intro i
  by_cases hi : i < vs.length
  · simp [List.getElem?_map, List.getElem?_range' hi, allocHeap, hi]
  · have h1 : vs.length ≤ i := by omega
    have h2 : (List.range' n vs.length).length ≤ i := by simp; omega
    simp [List.getElem?_eq_none h1, List.getElem?_eq_none h2]

private theorem alloc_old (h : Addr → V) (n : Addr) (vs : List V) (l : List Addr) (hl : ∀ ad ∈ l, ad < n) :
    l.map (allocHeap h n vs) = l.map h := by
  apply List.map_congr_left
  intro x hx
  have : ¬ n ≤ x := Nat.not_le.mpr (hl x hx)
  simp [allocHeap, this]

/-- appending a flow object built from fresh cells keeps Sep and every existing flow -/
private theorem append_spec (σ : Store V) (vs : List V) (g : FlowObj V) (hs : Sep σ)
    (hg : g.parts = List.range' σ.next vs.length) :
    let σ' := Store.mk (allocHeap σ.heap σ.next vs) (σ.next + vs.length) (σ.flows ++ [g])
    Sep σ' ∧ (∀ b, Same σ σ' b) ∧ σ'.flows[σ.flows.length]? = some g ∧ content σ' g = vs := by
  intro σ'
  have hget : ∀ (b : Nat) (fb : FlowObj V), (σ.flows ++ [g])[b]? = some fb →
      (b < σ.flows.length ∧ σ.flows[b]? = some fb) ∨ (b = σ.flows.length ∧ fb = g) := by
    intro b fb hfb
    rcases Nat.lt_or_ge b σ.flows.length with h | h
    · left; rw [List.getElem?_append_left h] at hfb; exact ⟨h, hfb⟩
    · right
      rw [List.getElem?_append_right h] at hfb
      have : b - σ.flows.length = 0 := by
        rcases Nat.eq_zero_or_pos (b - σ.flows.length) with h0 | h0
        · exact h0
        · have : ([g] : List (FlowObj V))[b - σ.flows.length]? = none := by
            apply List.getElem?_eq_none; simp; omega
          rw [this] at hfb; simp at hfb
      rw [this] at hfb; simp at hfb
      exact ⟨by omega, hfb.symm⟩
  have hgmem : ∀ ad ∈ g.parts, σ.next ≤ ad ∧ ad < σ.next + vs.length := by
    intro ad had; rw [hg] at had; exact List.mem_range'_1.mp had
  refine ⟨⟨?_, ?_⟩, ?_, ?_, ?_⟩
  · intro b fb hfb
    rcases hget b fb hfb with ⟨_, h⟩ | ⟨_, h⟩
    · exact ⟨(hs.1 b fb h).1, fun ad had => Nat.lt_of_lt_of_le ((hs.1 b fb h).2 ad had) (Nat.le_add_right _ _)⟩
    · subst h
      refine ⟨?_, fun ad had => (hgmem ad had).2⟩
      rw [hg]; exact List.nodup_range' 1
  · intro b c fb fc hbc hfb hfc ad had
    rcases hget b fb hfb with ⟨hb1, h⟩ | ⟨hb1, h⟩ <;> rcases hget c fc hfc with ⟨hc1, h'⟩ | ⟨hc1, h'⟩
    · exact hs.2 b c fb fc hbc h h' ad had
    · subst h'
      intro hm
      have q1 : ad < σ.next := (hs.1 b fb h).2 ad had
      have q2 : σ.next ≤ ad := (hgmem ad hm).1
      exact Nat.lt_irrefl _ (Nat.lt_of_lt_of_le q1 q2)
    · subst h
      intro hm
      have q1 : ad < σ.next := (hs.1 c fc h').2 ad hm
      have q2 : σ.next ≤ ad := (hgmem ad had).1
      exact Nat.lt_irrefl _ (Nat.lt_of_lt_of_le q1 q2)
    · omega
  · intro b fb hfb
    have hb : b < σ.flows.length := by
      rcases Nat.lt_or_ge b σ.flows.length with h | h
      · exact h
      · simp [List.getElem?_eq_none h] at hfb
    refine ⟨?_, ?_⟩
    · show (σ.flows ++ [g])[b]? = some fb
      rw [List.getElem?_append_left hb]; exact hfb
    · show fb.parts.map (allocHeap σ.heap σ.next vs) = fb.parts.map σ.heap
      exact alloc_old _ _ _ _ (hs.1 b fb hfb).2
  · show (σ.flows ++ [g])[σ.flows.length]? = some g
    simp
  · show g.parts.map (allocHeap σ.heap σ.next vs) = vs
    rw [hg]; exact alloc_content _ _ _

private theorem copy_none {σ : Store V} {a n : Nat} (h : σ.flows[a]? = none) : copy σ a n = σ := by
  simp [copy, h]
private theorem copy_some {σ : Store V} {a n : Nat} {f : FlowObj V} (h : σ.flows[a]? = some f) :
    copy σ a n = Store.mk (allocHeap σ.heap σ.next (content σ f)) (σ.next + (content σ f).length)
      (σ.flows ++ [FlowObj.mk n false (List.range' σ.next (content σ f).length) f.backup]) := by
  simp [copy, h]

private theorem copy_spec (σ : Store V) (a n : Nat) (hs : Sep σ) :
    Sep (copy σ a n) ∧ (∀ b, Same σ (copy σ a n) b) := by
  cases hfa : σ.flows[a]? with
  | none => rw [copy_none hfa]; exact ⟨hs, fun b fb h => ⟨h, rfl⟩⟩
  | some f =>
    rw [copy_some hfa]
    have := append_spec σ (content σ f) (FlowObj.mk n false (List.range' σ.next (content σ f).length) f.backup) hs rfl
    exact ⟨this.1, this.2.1⟩

-- ---------------------------------------------------------------- all operations
private theorem step_spec (ip : Nat → Bool) (σ : Store V) (op : Op V) (hs : Sep σ) :
    Sep (step ip σ op) ∧ (∀ b, b ≠ op.target → Same σ (step ip σ op) b) := by
  cases op with
  | mutate a j v => have := mutate_spec σ a j v hs; exact ⟨this.1, this.2.1⟩
  | rebind a j v => have := rebind_spec σ a j v hs; exact ⟨this.1, this.2.1⟩
  | backup a => exact backupOp_spec σ a hs
  | revert a => have := revert_spec ip σ a hs; exact ⟨this.1, this.2.1⟩
  | copy a n => have := copy_spec σ a n hs; exact ⟨this.1, fun b _ => this.2 b⟩

/-- **invariant.** No operation ever creates aliasing between flows. -/
theorem sep_preserved (ip : Nat → Bool) (ops : List (Op V)) :
    ∀ σ : Store V, Sep σ → Sep (run ip σ ops) := by
  induction ops with
  | nil => intro σ hs; exact hs
  | cons op ops ih => intro σ hs; exact ih _ (step_spec ip σ op hs).1

/-- the invariant holds for the empty store and for every flow created from a state -/
theorem sep_newFlow (σ : Store V) (id : Nat) (live : Bool) (vs : List V) (hs : Sep σ) :
    Sep (newFlow σ id live vs) :=
  (append_spec σ vs (FlowObj.mk id live (List.range' σ.next vs.length) none) hs rfl).1

theorem sep_empty (d : V) : Sep (empty d) := by
  refine ⟨?_, ?_⟩ <;> intro a <;> simp [empty]

/-- **C40 (copy independence).** For ANY history of operations none of which is addressed to flow b
    (edits, backups, reverts and copies of any other flows, including b's copies or b's original),
    flow b is the same object with the same get_state() content, id, backup and liveness. -/
theorem copy_independent (ip : Nat → Bool) (ops : List (Op V)) :
    ∀ (σ : Store V) (b : Nat) (fb : FlowObj V), Sep σ → σ.flows[b]? = some fb →
      (∀ op ∈ ops, op.target ≠ b) →
      (run ip σ ops).flows[b]? = some fb ∧ getState (run ip σ ops) fb = getState σ fb := by
  induction ops with
  | nil => intro σ b fb _ h _; exact ⟨h, rfl⟩
  | cons op ops ih =>
    intro σ b fb hs hfb hops
    have h1 := step_spec ip σ op hs
    have hne : b ≠ op.target := fun e => hops op (by simp) e.symm
    obtain ⟨h2, h2c⟩ := h1.2 b hne fb hfb
    obtain ⟨h3, h3c⟩ := ih (step ip σ op) b fb h1.1 h2 (fun o ho => hops o (by simp [ho]))
    refine ⟨h3, ?_⟩
    simp only [getState] at h3c ⊢
    simp only [run, List.foldl_cons] at h3c ⊢
    rw [h3c, h2c]

-- ---------------------------------------------------------------- backup … history … revert
private theorem step_keeps_own (ip : Nat → Bool) (σ : Store V) (a : Nat) (op : Op V) (g : FlowObj V)
    (bk : Nat × List V) (hs : Sep σ) (hg : σ.flows[a]? = some g) (hbk : g.backup = some bk)
    (hop : op ≠ .revert a) :
    ∃ g', (step ip σ op).flows[a]? = some g' ∧ g'.backup = some bk ∧ g'.id = g.id ∧ g'.live = g.live ∧
          g'.parts.length = g.parts.length := by
  by_cases ht : op.target = a
  · cases op with
    | mutate a' j v =>
      simp only [Op.target] at ht; subst ht
      obtain ⟨g', h1, h2, h3, h4, h5, _⟩ := (mutate_spec σ a' j v hs).2.2 g hg
      exact ⟨g', h1, h4.trans hbk, h2, h3, h5⟩
    | rebind a' j v =>
      simp only [Op.target] at ht; subst ht
      obtain ⟨g', h1, h2, h3, h4, h5, _⟩ := (rebind_spec σ a' j v hs).2.2 g hg
      exact ⟨g', h1, h4.trans hbk, h2, h3, h5⟩
    | backup a' =>
      simp only [Op.target] at ht; subst ht
      simp only [step]; rw [backupOp_some_some hg hbk]
      exact ⟨g, hg, hbk, rfl, rfl, rfl⟩
    | revert a' =>
      simp only [Op.target] at ht; subst ht
      exact absurd rfl hop
    | copy a' n =>
      obtain ⟨h1, _⟩ := (copy_spec σ a' n hs).2 a g hg
      exact ⟨g, h1, hbk, rfl, rfl, rfl⟩
  · obtain ⟨h1, _⟩ := (step_spec ip σ op hs).2 a (fun e => ht e.symm) g hg
    exact ⟨g, h1, hbk, rfl, rfl, rfl⟩

private theorem run_keeps_own (ip : Nat → Bool) (a : Nat) (bk : Nat × List V) (ops : List (Op V)) :
    ∀ (σ : Store V) (g : FlowObj V), Sep σ → σ.flows[a]? = some g → g.backup = some bk →
      (∀ op ∈ ops, op ≠ .revert a) →
      ∃ g', (run ip σ ops).flows[a]? = some g' ∧ g'.backup = some bk ∧ g'.id = g.id ∧ g'.live = g.live ∧
            g'.parts.length = g.parts.length := by
  induction ops with
  | nil => intro σ g _ hg hbk _; exact ⟨g, hg, hbk, rfl, rfl, rfl⟩
  | cons op ops ih =>
    intro σ g hs hg hbk hops
    obtain ⟨g1, h1, h2, h3, h4, h5⟩ := step_keeps_own ip σ a op g bk hs hg hbk (hops op (by simp))
    obtain ⟨g2, k1, k2, k3, k4, k5⟩ :=
      ih (step ip σ op) g1 (step_spec ip σ op hs).1 h1 h2 (fun o ho => hops o (by simp [ho]))
    exact ⟨g2, k1, k2, k3.trans h3, k4.trans h4, k5.trans h5⟩

/-- the store after `backup a` and then an arbitrary history -/
private theorem after_backup (ip : Nat → Bool) (σ : Store V) (a : Nat) (f : FlowObj V) (ops : List (Op V))
    (hs : Sep σ) (hf : σ.flows[a]? = some f) (hnb : f.backup = none)
    (hops : ∀ op ∈ ops, op ≠ .revert a) :
    Sep (run ip (backupOp σ a) ops) ∧
    ∃ g, (run ip (backupOp σ a) ops).flows[a]? = some g ∧ g.backup = some (f.id, content σ f) ∧
         g.id = f.id ∧ g.live = f.live ∧ g.parts.length = f.parts.length := by
  have hs1 : Sep (backupOp σ a) := (backupOp_spec σ a hs).1
  refine ⟨sep_preserved ip ops _ hs1, ?_⟩
  have hg0 : (backupOp σ a).flows[a]? = some (FlowObj.mk f.id f.live f.parts (some (f.id, content σ f))) := by
    rw [backupOp_some_none hf hnb]
    exact (setfields_spec σ a f (FlowObj.mk f.id f.live f.parts (some (f.id, content σ f))) hf rfl hs).2.2
  obtain ⟨g, h1, h2, h3, h4, h5⟩ := run_keeps_own ip a (f.id, content σ f) ops _ _ hs1 hg0 rfl hops
  exact ⟨g, h1, h2, h3, h4, h5⟩

/-- **C40 (revert).** Take any flow a without a backup, back it up, then run ANY history of operations
    on any flows (edits of every component of a, repeated backups, copies, reverts of *other* flows)
    that does not revert a itself; reverting a then yields exactly the get_state() a had at backup
    time — same id, same content, backup cleared — and its liveness is untouched. -/
theorem revert_restores_and_clears (ip : Nat → Bool) (σ : Store V) (a : Nat) (f : FlowObj V)
    (ops : List (Op V)) (hs : Sep σ) (hf : σ.flows[a]? = some f) (hnb : f.backup = none)
    (hops : ∀ op ∈ ops, op ≠ .revert a) :
    ∃ f', (revert ip (run ip (backupOp σ a) ops) a).flows[a]? = some f' ∧
          getState (revert ip (run ip (backupOp σ a) ops) a) f' = (f.id, content σ f, none) ∧
          f'.live = f.live := by
  obtain ⟨hs2, g, hg, hbk, _, hlive, hlen⟩ := after_backup ip σ a f ops hs hf hnb hops
  obtain ⟨f', h1, h2, h3, h4, _, h6⟩ :=
    (revert_spec ip _ a hs2).2.2 g f.id (content σ f) hg hbk
  refine ⟨f', h1, ?_, h3.trans hlive⟩
  have hl : (content σ f).length = (content (run ip (backupOp σ a) ops) g).length := by
    simp [content, hlen]
  simp only [getState, h2, h4, h6, setFrom_all _ _ hl]

/-- reverting a flow that has no backup changes nothing -/
theorem revert_without_backup_noop (ip : Nat → Bool) (σ : Store V) (a : Nat) (f : FlowObj V)
    (hf : σ.flows[a]? = some f) (hnb : f.backup = none) : revert ip σ a = σ :=
  revert_some_none hf hnb

/-- a second revert is a no-op: the backup was cleared by the first -/
theorem revert_twice (ip : Nat → Bool) (σ : Store V) (a : Nat) (f : FlowObj V) (i : Nat) (vs : List V)
    (hs : Sep σ) (hf : σ.flows[a]? = some f) (hb : f.backup = some (i, vs)) :
    revert ip (revert ip σ a) a = revert ip σ a := by
  obtain ⟨f', h1, _, _, h4, _, _⟩ := (revert_spec ip σ a hs).2.2 f i vs hf hb
  exact revert_some_none h1 h4

/-- **C40 (modified).** A flow reports itself as modified exactly when it has a backup and its
    current state (id and content; the embedded backup is not part of the comparison) differs from it. -/
theorem modified_iff_state_ne_backup [DecidableEq V] (σ : Store V) (f : FlowObj V) :
    modified σ f = true ↔ ∃ b, f.backup = some b ∧ b ≠ (f.id, content σ f) := by
  unfold modified
  cases hb : f.backup with
  | none => simp
  | some b => simp

/-- the F-C40a situation: immediately after backup() a flow is not modified -/
theorem not_modified_right_after_backup [DecidableEq V] (σ : Store V) (a : Nat) (f : FlowObj V)
    (hs : Sep σ) (hf : σ.flows[a]? = some f) (hnb : f.backup = none) :
    ∃ g, (backupOp σ a).flows[a]? = some g ∧ modified (backupOp σ a) g = false := by
  have hg0 : (backupOp σ a).flows[a]? = some (FlowObj.mk f.id f.live f.parts (some (f.id, content σ f))) := by
    rw [backupOp_some_none hf hnb]
    exact (setfields_spec σ a f (FlowObj.mk f.id f.live f.parts (some (f.id, content σ f))) hf rfl hs).2.2
  refine ⟨_, hg0, ?_⟩
  rw [backupOp_some_none hf hnb]
  simp [modified, content]

/-- along ANY history after a backup (without a revert of a): modified() ⇔ the content differs from
    the content at backup time — in particular editing back to the original value gives False. -/
theorem modified_after_backup_history [DecidableEq V] (ip : Nat → Bool) (σ : Store V) (a : Nat)
    (f : FlowObj V) (ops : List (Op V)) (hs : Sep σ) (hf : σ.flows[a]? = some f) (hnb : f.backup = none)
    (hops : ∀ op ∈ ops, op ≠ .revert a) :
    ∃ g, (run ip (backupOp σ a) ops).flows[a]? = some g ∧
         (modified (run ip (backupOp σ a) ops) g = true ↔
            content (run ip (backupOp σ a) ops) g ≠ content σ f) := by
  obtain ⟨_, g, hg, hbk, hid, _, _⟩ := after_backup ip σ a f ops hs hf hnb hops
  refine ⟨g, hg, ?_⟩
  rw [modified_iff_state_ne_backup]
  constructor
  · rintro ⟨b, h1, h2⟩ heq
    rw [hbk] at h1; simp at h1; subst h1
    exact h2 (by rw [hid, heq])
  · intro hne
    refine ⟨_, hbk, ?_⟩
    intro heq
    simp [hid] at heq
    exact hne heq.symm

/-- a reverted flow is not modified -/
theorem not_modified_after_revert [DecidableEq V] (ip : Nat → Bool) (σ : Store V) (a : Nat) (f : FlowObj V)
    (i : Nat) (vs : List V) (hs : Sep σ) (hf : σ.flows[a]? = some f) (hb : f.backup = some (i, vs)) :
    ∃ g, (revert ip σ a).flows[a]? = some g ∧ modified (revert ip σ a) g = false := by
  obtain ⟨f', h1, _, _, h4, _, _⟩ := (revert_spec ip σ a hs).2.2 f i vs hf hb
  exact ⟨f', h1, by simp [modified, h4]⟩

/-- **C40 (copy).** `copy a n` creates, at the next handle, a flow with the given id n (fresh ⇒ different
    from the source id), the same content and the same backup, not live; the source flow is the same
    object with the same state. -/
theorem copy_fresh_id_equal_content_not_live (σ : Store V) (a n : Nat) (f : FlowObj V) (hs : Sep σ)
    (hf : σ.flows[a]? = some f) :
    ∃ g, (copy σ a n).flows[σ.flows.length]? = some g ∧ g.id = n ∧ (n ≠ f.id → g.id ≠ f.id) ∧
         g.live = false ∧ content (copy σ a n) g = content σ f ∧ g.backup = f.backup ∧
         (copy σ a n).flows[a]? = some f ∧ getState (copy σ a n) f = getState σ f := by
  rw [copy_some hf]
  have sp := append_spec σ (content σ f)
    (FlowObj.mk n false (List.range' σ.next (content σ f).length) f.backup) hs rfl
  obtain ⟨_, hsame, hnew, hc⟩ := sp
  obtain ⟨h1, h1c⟩ := hsame a f hf
  refine ⟨_, hnew, rfl, fun h => h, rfl, hc, rfl, h1, ?_⟩
  simp only [getState, h1c]

/-- after a copy, any history of edits/backups/reverts on the original leaves the copy's state
    untouched and vice versa (instance of `copy_independent` for the pair original/copy) -/
theorem copy_then_edits_independent (ip : Nat → Bool) (σ : Store V) (a n : Nat) (f : FlowObj V)
    (ops : List (Op V)) (hs : Sep σ) (hf : σ.flows[a]? = some f) :
    (∀ g, (copy σ a n).flows[σ.flows.length]? = some g → (∀ op ∈ ops, op.target ≠ σ.flows.length) →
        getState (run ip (copy σ a n) ops) g = getState (copy σ a n) g) ∧
    ((∀ op ∈ ops, op.target ≠ a) →
        getState (run ip (copy σ a n) ops) f = getState σ f) := by
  have hsc : Sep (copy σ a n) := (copy_spec σ a n hs).1
  refine ⟨fun g hg hops => (copy_independent ip ops _ _ g hsc hg hops).2, ?_⟩
  intro hops
  obtain ⟨_, _, _, _, _, _, _, h7, h8⟩ := copy_fresh_id_equal_content_not_live σ a n f hs hf
  rw [(copy_independent ip ops _ a f hsc h7 hops).2, h8]

-- ---------------------------------------------------------------- typed histories (Model/C40_Http.lean)
/-- a typed history is the heap history of its compiled operations -/
theorem runT_eq_run (ip : Nat → Bool) (ts : List TOp) :
    ∀ σ : Store Comp, runT ip σ ts = run ip σ (compileAll ip σ ts) := by
  induction ts with
  | nil => intro σ; rfl
  | cons t ts ih =>
    intro σ
    simp only [runT, List.foldl_cons, compileAll, run] at ih ⊢
    exact ih (stepT ip σ t)

private theorem compile_target (σ : Store Comp) (t : TOp) : (compile σ t).target = t.target := by
  cases t with
  | edit a e =>
    simp only [compile, TOp.target]
    split
    · rfl
    · split
      · rfl
      · split <;> rfl
  | backup a => rfl
  | revert a => rfl
  | copy a n => rfl

private theorem compile_revert (σ : Store Comp) (t : TOp) (a : Nat) (h : compile σ t = .revert a) : t = .revert a := by
  cases t with
  | edit b e =>
    simp only [compile] at h
    split at h
    · cases h
    · split at h
      · cases h
      · split at h <;> cases h
  | backup b => cases h
  | revert b => simp only [compile] at h; cases h; rfl
  | copy b n => cases h

private theorem compileAll_spec (ip : Nat → Bool) (ts : List TOp) :
    ∀ σ : Store Comp, ∀ op ∈ compileAll ip σ ts,
      (∃ t ∈ ts, op.target = t.target) ∧ (∀ a, op = .revert a → TOp.revert a ∈ ts) := by
  induction ts with
  | nil => intro σ op h; simp [compileAll] at h
  | cons t ts ih =>
    intro σ op h
    simp only [compileAll, List.mem_cons] at h
    rcases h with rfl | h
    · exact ⟨⟨t, by simp, compile_target σ t⟩, fun a ha => by rw [compile_revert σ t a ha]; simp⟩
    · obtain ⟨⟨t', ht', e⟩, hr⟩ := ih _ op h
      exact ⟨⟨t', by simp [ht'], e⟩, fun a ha => by simp [hr a ha]⟩

/-- **C40 (typed edits are predicted).** In a store without aliasing, a typed edit changes exactly component
    `e.comp` of the addressed flow to `e.apply` of its previous state — id, liveness, backup and all other
    components stay, and (by `typed_copy_independent`) so does every other flow. -/
theorem typed_edit_predicts (ip : Nat → Bool) (σ : Store Comp) (a : Nat) (e : Edit) (f : FlowObj Comp)
    (hs : Sep σ) (hf : σ.flows[a]? = some f) :
    ∃ f', (stepT ip σ (.edit a e)).flows[a]? = some f' ∧ f'.id = f.id ∧ f'.live = f.live ∧ f'.backup = f.backup ∧
      content (stepT ip σ (.edit a e)) f' =
        match f.parts[e.comp]? with
        | some ad => (content σ f).set e.comp (e.apply (σ.heap ad))
        | none => content σ f := by
  simp only [stepT, compile, hf]
  cases hp : f.parts[e.comp]? with
  | none =>
    simp only [step]
    obtain ⟨f', h1, h2, h3, h4, _, h6⟩ := (mutate_spec σ a e.comp (.flag false) hs).2.2 f hf
    refine ⟨f', h1, h2, h3, h4, ?_⟩
    rw [h6]
    apply List.set_eq_of_length_le
    have : f.parts.length ≤ e.comp := by
      rcases Nat.lt_or_ge e.comp f.parts.length with h | h
      · simp [List.getElem?_eq_getElem h] at hp
      · exact h
    simp [content, this]
  | some ad =>
    simp only
    split
    · simp only [step]
      obtain ⟨f', h1, h2, h3, h4, _, h6⟩ := (rebind_spec σ a e.comp (e.apply (σ.heap ad)) hs).2.2 f hf
      exact ⟨f', h1, h2, h3, h4, h6⟩
    · simp only [step]
      obtain ⟨f', h1, h2, h3, h4, _, h6⟩ := (mutate_spec σ a e.comp (e.apply (σ.heap ad)) hs).2.2 f hf
      exact ⟨f', h1, h2, h3, h4, h6⟩

/-- **C40 (revert ∘ edit* = id, typed).** Back up flow a, then run ANY typed history — edits of nested objects of
    any flow (request/response attributes, headers, trailers, bodies, WebSocket messages, connection fields,
    metadata, error, markers, comments), repeated backups, copies, reverts of other flows — without a revert of a;
    reverting a gives back exactly the get_state() of backup time and clears the backup. -/
theorem typed_revert_restores (ip : Nat → Bool) (σ : Store Comp) (a : Nat) (f : FlowObj Comp) (ts : List TOp)
    (hs : Sep σ) (hf : σ.flows[a]? = some f) (hnb : f.backup = none) (hts : TOp.revert a ∉ ts) :
    ∃ f', (revert ip (runT ip (backupOp σ a) ts) a).flows[a]? = some f' ∧
          getState (revert ip (runT ip (backupOp σ a) ts) a) f' = (f.id, content σ f, none) ∧ f'.live = f.live := by
  rw [runT_eq_run]
  apply revert_restores_and_clears ip σ a f _ hs hf hnb
  intro op hop heq
  exact hts ((compileAll_spec ip ts _ op hop).2 a heq)

/-- **C40 (copy independence, typed).** ANY typed history none of whose operations addresses flow b leaves b the
    same object with the same get_state(): editing a copy's (or the original's) nested objects never shows in the
    other. -/
theorem typed_copy_independent (ip : Nat → Bool) (σ : Store Comp) (b : Nat) (fb : FlowObj Comp) (ts : List TOp)
    (hs : Sep σ) (hfb : σ.flows[b]? = some fb) (hts : ∀ t ∈ ts, t.target ≠ b) :
    (runT ip σ ts).flows[b]? = some fb ∧ getState (runT ip σ ts) fb = getState σ fb := by
  rw [runT_eq_run]
  apply copy_independent ip _ σ b fb hs hfb
  intro op hop
  obtain ⟨⟨t, ht, e⟩, _⟩ := compileAll_spec ip ts σ op hop
  rw [e]; exact hts t ht

/-- typed histories keep the no-aliasing invariant -/
theorem typed_sep_preserved (ip : Nat → Bool) (σ : Store Comp) (ts : List TOp) (hs : Sep σ) : Sep (runT ip σ ts) := by
  rw [runT_eq_run]; exact sep_preserved ip _ σ hs

/-- along any typed history after a backup: modified() ⇔ the (typed) content differs from the backup content -/
theorem typed_modified_after_backup (ip : Nat → Bool) (σ : Store Comp) (a : Nat) (f : FlowObj Comp) (ts : List TOp)
    (hs : Sep σ) (hf : σ.flows[a]? = some f) (hnb : f.backup = none) (hts : TOp.revert a ∉ ts) :
    ∃ g, (runT ip (backupOp σ a) ts).flows[a]? = some g ∧
         (modified (runT ip (backupOp σ a) ts) g = true ↔ content (runT ip (backupOp σ a) ts) g ≠ content σ f) := by
  rw [runT_eq_run]
  apply modified_after_backup_history ip σ a f _ hs hf hnb
  intro op hop heq
  exact hts ((compileAll_spec ip ts _ op hop).2 a heq)

-- Headers: the multi-dict operations do what their names say
theorem hdrDel_not_has (h : Fields) (k : Bytes) : hdrHas (hdrDel h k) k = false := by
  induction h with
  | nil => rfl
  | cons kv rest ih =>
    simp only [hdrDel, List.filter_cons]
    split
    · rename_i hne
      simp only [hdrHas, List.any_cons, Bool.or_eq_false_iff]
      exact ⟨by simpa using hne, ih⟩
    · exact ih

private theorem setAllAux_has (k v : Bytes) : ∀ (h : Fields), hdrHas (setAllAux k v h false) k = true := by
  intro h
  induction h with
  | nil => simp [setAllAux, hdrHas]
  | cons kv rest ih =>
    obtain ⟨k', v'⟩ := kv
    simp only [setAllAux]
    split
    · rename_i he; simp [hdrHas, he]
    · simp only [hdrHas, List.any_cons] at ih ⊢; simp [ih]

theorem hdrSet_has (h : Fields) (k v : Bytes) : hdrHas (hdrSet h k v) k = true := setAllAux_has k v h

/-- `.content = b` on a message without transfer-encoding leaves a content-length header behind -/
theorem setContent_sets_length (m : Msg) (b : Bytes) (ht : hdrHas m.headers transferEncoding = false) :
    (setContent m (some b)).content = some b ∧ hdrHas (setContent m (some b)).headers contentLength = true := by
  simp [setContent, ht, hdrSet_has]

-- ---------------------------------------------------------------- reachable stores (no-aliasing hypothesis derived)
/-- every store reachable from one flow created from a state by any typed history has no aliasing -/
theorem sep_reachable (ip : Nat → Bool) (d : Comp) (id : Nat) (live : Bool) (cs : List Comp) (pre : List TOp) :
    Sep (runT ip (newFlow (empty d) id live cs) pre) :=
  typed_sep_preserved ip _ pre (sep_newFlow _ id live cs (sep_empty d))

/-- `typed_revert_restores` for reachable stores: the hypothesis `Sep σ` is derived -/
theorem typed_revert_restores_reachable (ip : Nat → Bool) (d : Comp) (id : Nat) (live : Bool) (cs : List Comp)
    (pre ts : List TOp) (a : Nat) (f : FlowObj Comp)
    (hf : (runT ip (newFlow (empty d) id live cs) pre).flows[a]? = some f) (hnb : f.backup = none)
    (hts : TOp.revert a ∉ ts) :
    ∃ f', (revert ip (runT ip (backupOp (runT ip (newFlow (empty d) id live cs) pre) a) ts) a).flows[a]? = some f' ∧
          getState (revert ip (runT ip (backupOp (runT ip (newFlow (empty d) id live cs) pre) a) ts) a) f' =
            (f.id, content (runT ip (newFlow (empty d) id live cs) pre) f, none) ∧ f'.live = f.live :=
  typed_revert_restores ip _ a f ts (sep_reachable ip d id live cs pre) hf hnb hts

/-- `typed_copy_independent` for reachable stores -/
theorem typed_copy_independent_reachable (ip : Nat → Bool) (d : Comp) (id : Nat) (live : Bool) (cs : List Comp)
    (pre ts : List TOp) (b : Nat) (fb : FlowObj Comp)
    (hfb : (runT ip (newFlow (empty d) id live cs) pre).flows[b]? = some fb) (hts : ∀ t ∈ ts, t.target ≠ b) :
    (runT ip (runT ip (newFlow (empty d) id live cs) pre) ts).flows[b]? = some fb ∧
    getState (runT ip (runT ip (newFlow (empty d) id live cs) pre) ts) fb =
      getState (runT ip (newFlow (empty d) id live cs) pre) fb :=
  typed_copy_independent ip _ b fb ts (sep_reachable ip d id live cs pre) hfb hts

-- ---------------------------------------------------------------- set_content with Content-Encoding (ties to the C31 model)
private theorem getAll_del_self (h : Fields) (k : Bytes) : hdrGetAll (hdrDel h k) k = [] := by
  induction h with
  | nil => rfl
  | cons kv rest ih =>
    simp only [hdrDel, List.filter_cons]
    split
    · rename_i hne
      simp only [hdrGetAll, List.filterMap_cons]
      have : ¬ kconv kv.1 = kconv k := by simpa using hne
      simp only [this, if_false]
      exact ih
    · exact ih

private theorem getAll_del_other (h : Fields) (k k' : Bytes) (hne : kconv k' ≠ kconv k) :
    hdrGetAll (hdrDel h k) k' = hdrGetAll h k' := by
  induction h with
  | nil => rfl
  | cons kv rest ih =>
    simp only [hdrDel, List.filter_cons]
    split
    · simp only [hdrGetAll, List.filterMap_cons]
      simp only [hdrGetAll, hdrDel] at ih
      rw [ih]
    · rename_i heq
      have h1 : kconv kv.1 = kconv k := by simpa using heq
      have h2 : ¬ kconv kv.1 = kconv k' := fun e => hne (e.symm.trans h1)
      simp only [hdrGetAll, List.filterMap_cons, h2, if_false]
      simp only [hdrGetAll, hdrDel] at ih
      exact ih

private theorem getAll_setAll_self (k v : Bytes) :
    ∀ h : Fields, hdrGetAll (setAllAux k v h true) k = [] ∧ hdrGetAll (setAllAux k v h false) k = [v] := by
  intro h
  induction h with
  | nil => simp [setAllAux, hdrGetAll]
  | cons kv rest ih =>
    obtain ⟨k0, v0⟩ := kv
    simp only [setAllAux]
    by_cases he : kconv k0 = kconv k
    · simp only [he, if_true, Bool.false_eq_true, if_false]
      refine ⟨ih.1, ?_⟩
      simp only [hdrGetAll, List.filterMap_cons, he, if_true]
      have := ih.1; simp only [hdrGetAll] at this; rw [this]
    · simp only [he, if_false]
      simp only [hdrGetAll, List.filterMap_cons, he, if_false]
      exact ih

private theorem getAll_setAll_other (k v k' : Bytes) (hne : kconv k' ≠ kconv k) :
    ∀ (h : Fields) (u : Bool), (u = false → True) → hdrGetAll (setAllAux k v h u) k' =
      hdrGetAll h k' ++ (if u then [] else []) := by
  intro h
  induction h with
  | nil =>
    intro u _
    cases u
    · have : ¬ kconv k = kconv k' := fun e => hne e.symm
      simp [setAllAux, hdrGetAll, this]
    · simp [setAllAux, hdrGetAll]
  | cons kv rest ih =>
    intro u _
    obtain ⟨k0, v0⟩ := kv
    simp only [setAllAux]
    by_cases he : kconv k0 = kconv k
    · have h2 : ¬ kconv k0 = kconv k' := fun e => hne (e.symm.trans he)
      simp only [he, if_true]
      cases u
      · simp only [Bool.false_eq_true, if_false, hdrGetAll, List.filterMap_cons, h2]
        have := ih true (fun _ => trivial); simp only [hdrGetAll] at this; simpa using this
      · simp only [if_true, hdrGetAll, List.filterMap_cons, h2, if_false]
        have := ih true (fun _ => trivial); simp only [hdrGetAll] at this; simpa using this
    · simp only [he, if_false, hdrGetAll, List.filterMap_cons]
      have := ih u (fun _ => trivial); simp only [hdrGetAll] at this
      split
      · simp at this ⊢; exact this
      · simp at this ⊢; exact this

private theorem has_iff_getAll (h : Fields) (k : Bytes) : hdrHas h k = !(hdrGetAll h k).isEmpty := by
  induction h with
  | nil => rfl
  | cons kv rest ih =>
    simp only [hdrHas, List.any_cons, hdrGetAll, List.filterMap_cons] at ih ⊢
    by_cases he : kconv kv.1 = kconv k
    · simp [he]
    · simp [he, ih]

/-- `headers[k] = v` then `headers.get(k)` is v (exactly one field is left for the key) -/
theorem hdrGet_set_self (h : Fields) (k v : Bytes) : hdrGet (hdrSet h k v) k = some v := by
  simp [hdrGet, hdrSet, (getAll_setAll_self k v h).2, joinComma]

/-- `headers[k] = v` does not disturb any other header name -/
theorem hdrGet_set_other (h : Fields) (k v k' : Bytes) (hne : kconv k' ≠ kconv k) :
    hdrGet (hdrSet h k v) k' = hdrGet h k' ∧ hdrHas (hdrSet h k v) k' = hdrHas h k' := by
  have := getAll_setAll_other k v k' hne h false (fun _ => trivial)
  simp only [Bool.false_eq_true, if_false, List.append_nil] at this
  simp only [hdrGet, hdrSet, has_iff_getAll, this, and_self]

/-- `del headers[k]`: the name is gone, every other name is untouched -/
theorem hdrGet_del (h : Fields) (k k' : Bytes) :
    hdrGet (hdrDel h k) k = none ∧
    (kconv k' ≠ kconv k → hdrGet (hdrDel h k) k' = hdrGet h k' ∧ hdrHas (hdrDel h k) k' = hdrHas h k') := by
  refine ⟨by simp [hdrGet, getAll_del_self], fun hne => ?_⟩
  simp only [hdrGet, has_iff_getAll, getAll_del_other h k k' hne, and_self]

private theorem names_distinct :
    kconv contentLength ≠ kconv contentEncoding ∧ kconv contentLength ≠ kconv transferEncoding ∧
    kconv contentEncoding ≠ kconv transferEncoding := by decide

/-- the C31 view of a typed message: body, Content-Encoding value, Transfer-Encoding present, and
    "Content-Length is str(n)" (one direction: what C31 claims about the header holds of the real header list) -/
def RefinesC31 (a : C31.Msg) (m : Msg) : Prop :=
  a.raw = m.content ∧ a.ce = hdrGet m.headers contentEncoding ∧ a.te = hdrHas m.headers transferEncoding ∧
  (∀ n, a.cl = some n → hdrGet m.headers contentLength = some (decimal n))

/-- what the typed edit is told about `encoding.encode`, as a function of C31's outcome -/
def encResOf : C31.Res → Option EncRes
  | .ok x => some (.ok x)
  | .verr => some .verr
  | _ => none

/-- **C40 ⊑ C31 (set_content with Content-Encoding).** The header-list transcription of `Message.set_content`
    used by the typed C40 model refines C31's model of the same method for EVERY message, cache state and codec
    answer: if the abstract message describes the typed one before `.content = v`, it does so afterwards — the
    body becomes the encoded bytes (or the plain value with the Content-Encoding header deleted when the coding
    is invalid), and Content-Length is rewritten unless Transfer-Encoding is present. -/
theorem setContentCE_refines_C31 (c : C31.Cache) (a : C31.Msg) (m : Msg) (v : Option Bytes) (fresh : C31.Res)
    (r : EncRes) (href : RefinesC31 a m)
    (hr : ∀ b, v = some b → encResOf (C31.encodeStep c b (C31.ceOrIdentity a.ce) C31.strictB fresh).1 = some r) :
    RefinesC31 (C31.setContent c a v fresh).2.2 (setContentCE m v r) := by
  obtain ⟨h1, h2, h3, h4⟩ := href
  obtain ⟨d1, d2, d3⟩ := names_distinct
  cases v with
  | none => exact ⟨rfl, h2, h3, h4⟩
  | some b =>
    have hr' := hr b rfl
    simp only [C31.setContent, setContentCE]
    rcases hres : C31.encodeStep c b (C31.ceOrIdentity a.ce) C31.strictB fresh with ⟨res, c'⟩
    rw [hres] at hr'
    cases res with
    | ok x =>
      simp only [encResOf, Option.some.injEq] at hr'; subst hr'
      simp only [C31.fixLen]
      by_cases hte : a.te = true
      · have hte' : hdrHas m.headers transferEncoding = true := by rw [← h3]; exact hte
        simp only [hte, if_true, hte']
        exact ⟨rfl, h2, hte'.symm, h4⟩
      · have hte0 : a.te = false := by simpa using hte
        have hte' : hdrHas m.headers transferEncoding = false := by rw [← h3]; exact hte0
        simp only [hte0, Bool.false_eq_true, if_false, hte']
        refine ⟨rfl, ?_, ?_, ?_⟩
        · simp only; rw [(hdrGet_set_other _ _ _ _ (Ne.symm d1)).1]; exact h2
        · simp only; rw [(hdrGet_set_other _ _ _ _ (Ne.symm d2)).2]; exact hte'.symm
        · intro n hn
          simp only [Option.map_some, Option.some.injEq] at hn
          subst hn
          simp [hdrGet_set_self]
    | verr =>
      simp only [encResOf, Option.some.injEq] at hr'; subst hr'
      simp only [C31.fixLen]
      have g1 := (hdrGet_del m.headers contentEncoding transferEncoding).2 (Ne.symm d3)
      have g2 := (hdrGet_del m.headers contentEncoding contentLength).2 d1
      have g0 := (hdrGet_del m.headers contentEncoding contentEncoding).1
      by_cases hte : a.te = true
      · have hte' : hdrHas (hdrDel m.headers contentEncoding) transferEncoding = true := by rw [g1.2, ← h3]; exact hte
        simp only [hte, if_true, hte']
        exact ⟨rfl, g0.symm, hte'.symm, fun n hn => by rw [g2.1]; exact h4 n hn⟩
      · have hte0 : a.te = false := by simpa using hte
        have hte' : hdrHas (hdrDel m.headers contentEncoding) transferEncoding = false := by rw [g1.2, ← h3]; exact hte0
        simp only [hte0, Bool.false_eq_true, if_false, hte']
        refine ⟨rfl, ?_, ?_, ?_⟩
        · simp only; rw [(hdrGet_set_other _ _ _ _ (Ne.symm d1)).1]; exact g0.symm
        · simp only; rw [(hdrGet_set_other _ _ _ _ (Ne.symm d2)).2]; exact hte'.symm
        · intro n hn
          simp only [Option.map_some, Option.some.injEq] at hn
          subst hn
          simp [hdrGet_set_self]
    | str => simp [encResOf] at hr'
    | terr => simp [encResOf] at hr'
    | nil => simp [encResOf] at hr'
    | done => simp [encResOf] at hr'

/-- without a Content-Encoding header the general transcription is the round-3 one (`encode(v, "identity") = v`) -/
theorem setContentCE_identity (m : Msg) (b : Bytes) : setContentCE m (some b) (.ok b) = setContent m (some b) := by
  simp only [setContentCE, setContent]
  split <;> simp

-- ---------------------------------------------------------------- object layer (Model/C40_Obj.lean)
/-- the Headers objects of a message are allocated and the trailers object is not the headers object -/
def WfObj (h : OHeap) (o : MsgObj) : Prop :=
  o.headers < h.next ∧ ∀ ad, o.trailers = some ad → ad < h.next ∧ ad ≠ o.headers

/-- two message objects share no Headers object -/
def DisjObj (o1 o2 : MsgObj) : Prop := ∀ a ∈ o1.refs, a ∉ o2.refs

private theorem mem_refs (o : MsgObj) (a : Addr) : a ∈ o.refs ↔ a = o.headers ∨ o.trailers = some a := by
  simp only [MsgObj.refs, List.mem_cons]
  cases o.trailers with
  | none => simp
  | some ad => simp [eq_comm]

private theorem getState_congr (h h' : OHeap) (o : MsgObj) (hc : ∀ a ∈ o.refs, h'.cells a = h.cells a) :
    o.getState h' = o.getState h := by
  have h1 := hc o.headers ((mem_refs o _).mpr (Or.inl rfl))
  simp only [MsgObj.getState, h1]
  cases ht : o.trailers with
  | none => rfl
  | some ad =>
    have h2 := hc ad ((mem_refs o _).mpr (Or.inr ht))
    simp [h2]

private theorem writeBack_spec (h : OHeap) (o : MsgObj) (m : Msg) (hw : WfObj h o)
    (hs : m.trailers.isSome = o.trailers.isSome) :
    (writeBack h o m).2.getState (writeBack h o m).1 = m ∧ (writeBack h o m).1.next = h.next ∧
    (writeBack h o m).2.headers = o.headers ∧ (writeBack h o m).2.trailers = o.trailers ∧
    (∀ a, a ∉ o.refs → (writeBack h o m).1.cells a = h.cells a) := by
  obtain ⟨_, hw2⟩ := hw
  cases ht : o.trailers with
  | none =>
    have hm : m.trailers = none := by rw [ht] at hs; simpa using hs
    refine ⟨?_, rfl, rfl, by simp [writeBack, ht], ?_⟩
    · cases m; simp_all [writeBack, MsgObj.getState, updF]
    · intro a ha
      have : a ≠ o.headers := fun e => ha ((mem_refs o a).mpr (Or.inl e))
      simp [writeBack, ht, updF, this]
  | some ad =>
    obtain ⟨t, hm⟩ : ∃ t, m.trailers = some t := by
      rw [ht] at hs; exact Option.isSome_iff_exists.mp (by simpa using hs)
    have hne : ad ≠ o.headers := (hw2 ad ht).2
    refine ⟨?_, rfl, rfl, by simp [writeBack, ht], ?_⟩
    · cases m; simp_all [writeBack, MsgObj.getState, updF, Ne.symm hne]
    · intro a ha
      have h1 : a ≠ o.headers := fun e => ha ((mem_refs o a).mpr (Or.inl e))
      have h2 : a ≠ ad := fun e => ha ((mem_refs o a).mpr (Or.inr (e ▸ ht)))
      simp [writeBack, ht, hm, updF, h1, h2]

private theorem setContent_trailers (m : Msg) (v : Option Bytes) : (setContent m v).trailers = m.trailers := by
  unfold setContent; split
  · rfl
  · split <;> rfl

private theorem setContentCE_trailers (m : Msg) (v : Option Bytes) (r : EncRes) :
    (setContentCE m v r).trailers = m.trailers := by
  unfold setContentCE
  cases v with
  | none => rfl
  | some b => cases r <;> (simp only; split <;> rfl)

/-- what one edit of a message object does: the object's get_state() changes exactly as the value-level edit of
    the typed model says, the object stays well formed, and cells of Headers objects it does not own are untouched;
    `.headers = …` / `.trailers = …` bind a NEW object (address ≥ the old allocation pointer) -/
theorem obj_edit_simulates (e : MsgEdit) (h : OHeap) (o : MsgObj) (hw : WfObj h o) :
    (applyObj e h o).2.getState (applyObj e h o).1 = e.apply (o.getState h) ∧
    WfObj (applyObj e h o).1 (applyObj e h o).2 ∧ h.next ≤ (applyObj e h o).1.next ∧
    (∀ a, a < h.next → a ∉ o.refs → (applyObj e h o).1.cells a = h.cells a) ∧
    (∀ a ∈ (applyObj e h o).2.refs, a ∈ o.refs ∨ h.next ≤ a) := by
  have inplace : ∀ m : Msg, m.trailers.isSome = o.trailers.isSome →
      (writeBack h o m).2.getState (writeBack h o m).1 = m ∧ WfObj (writeBack h o m).1 (writeBack h o m).2 ∧
      h.next ≤ (writeBack h o m).1.next ∧
      (∀ a, a < h.next → a ∉ o.refs → (writeBack h o m).1.cells a = h.cells a) ∧
      (∀ a ∈ (writeBack h o m).2.refs, a ∈ o.refs ∨ h.next ≤ a) := by
    intro m hs
    obtain ⟨a1, a2, a3, a4, a5⟩ := writeBack_spec h o m hw hs
    refine ⟨a1, ?_, by rw [a2]; exact Nat.le_refl _, fun a _ ha => a5 a ha, ?_⟩
    · refine ⟨by rw [a2, a3]; exact hw.1, ?_⟩
      intro ad had; rw [a4] at had; rw [a2, a3]; exact hw.2 ad had
    · intro a ha
      left
      rw [mem_refs] at ha ⊢
      rw [a3, a4] at ha; exact ha
  have hsome : ∀ m : Msg, m.trailers = (o.getState h).trailers → m.trailers.isSome = o.trailers.isSome := by
    intro m hm; rw [hm]; simp [MsgObj.getState]
  cases e with
  | atom k a => exact inplace _ (hsome _ rfl)
  | hset k v => exact inplace _ (hsome _ rfl)
  | hdel k => exact inplace _ (hsome _ rfl)
  | hadd k v => exact inplace _ (hsome _ rfl)
  | content v => exact inplace _ (hsome _ (setContent_trailers _ v))
  | contentCE v r => exact inplace _ (hsome _ (setContentCE_trailers _ v r))
  | thset k v =>
    apply inplace
    simp [MsgEdit.apply, MsgObj.getState]
  | hrep f =>
    simp only [applyObj]
    refine ⟨?_, ⟨Nat.lt_succ_self _, ?_⟩, Nat.le_succ _, ?_, ?_⟩
    · simp only [MsgObj.getState, MsgEdit.apply, updF, if_true]
      cases ht : o.trailers with
      | none => rfl
      | some ad =>
        have : ad ≠ h.next := Nat.ne_of_lt (hw.2 ad ht).1
        simp [updF, this]
    · intro ad had
      have := hw.2 ad had
      exact ⟨Nat.lt_succ_of_lt this.1, Nat.ne_of_lt this.1⟩
    · intro a ha _
      simp [updF, Nat.ne_of_lt ha]
    · intro a ha
      rw [mem_refs] at ha
      rcases ha with ha | ha
      · right; rw [ha]; exact Nat.le_refl _
      · left; exact (mem_refs o a).mpr (Or.inr ha)
  | tset t =>
    cases t with
    | none =>
      simp only [applyObj]
      refine ⟨?_, ⟨hw.1, fun ad had => by simp at had⟩, Nat.le_refl _, ?_, ?_⟩
      · first | rfl | simp [MsgObj.getState, MsgEdit.apply]
      · intro a _ _; first | rfl | trivial
      intro a ha
      rw [mem_refs] at ha
      rcases ha with ha | ha
      · left; exact (mem_refs o a).mpr (Or.inl ha)
      · simp at ha
    | some t =>
      simp only [applyObj]
      refine ⟨?_, ⟨Nat.lt_succ_of_lt hw.1, ?_⟩, Nat.le_succ _, ?_, ?_⟩
      · simp [MsgObj.getState, MsgEdit.apply, updF, Nat.ne_of_lt hw.1]
      · intro ad had
        simp only [Option.some.injEq] at had
        subst had
        exact ⟨Nat.lt_succ_self _, Ne.symm (Nat.ne_of_lt hw.1)⟩
      · intro a ha _
        simp [updF, Nat.ne_of_lt ha]
      · intro a ha
        rw [mem_refs] at ha
        rcases ha with ha | ha
        · left; exact (mem_refs o a).mpr (Or.inl ha)
        · simp only [Option.some.injEq] at ha; right; rw [← ha]; exact Nat.le_refl _

/-- **C40 (no sharing below the component level), one edit.** Editing message object o1 — in place through its
    Headers objects or by binding new ones — leaves the get_state() of every message object o2 that shares no
    Headers object with it unchanged, and they still share nothing afterwards. -/
theorem obj_edit_frame (e : MsgEdit) (h : OHeap) (o1 o2 : MsgObj) (hw1 : WfObj h o1) (hw2 : WfObj h o2)
    (hd : DisjObj o1 o2) :
    o2.getState (applyObj e h o1).1 = o2.getState h ∧ WfObj (applyObj e h o1).1 o2 ∧
    DisjObj (applyObj e h o1).2 o2 := by
  obtain ⟨_, _, hn, hc, hr⟩ := obj_edit_simulates e h o1 hw1
  have hlt : ∀ a ∈ o2.refs, a < h.next := by
    intro a ha
    rcases (mem_refs o2 a).mp ha with e' | e'
    · rw [e']; exact hw2.1
    · exact (hw2.2 a e').1
  refine ⟨?_, ?_, ?_⟩
  · apply getState_congr
    intro a ha
    exact hc a (hlt a ha) (fun h1 => hd a h1 ha)
  · exact ⟨Nat.lt_of_lt_of_le hw2.1 hn, fun ad had => ⟨Nat.lt_of_lt_of_le (hw2.2 ad had).1 hn, (hw2.2 ad had).2⟩⟩
  · intro a ha h2
    rcases hr a ha with h1 | h1
    · exact hd a h1 h2
    · exact Nat.lt_irrefl _ (Nat.lt_of_lt_of_le (hlt a h2) h1)

/-- **C40 (from_state builds fresh objects).** `Message.from_state(s)` yields an object whose get_state() is s
    (round trip), built only from Headers objects allocated by the call: it shares nothing with any existing
    message object, and existing objects keep their state.  Derived from the transcription, not assumed. -/
theorem fromState_fresh_roundtrip (h : OHeap) (s : Msg) :
    (MsgObj.fromState h s).2.getState (MsgObj.fromState h s).1 = s ∧
    WfObj (MsgObj.fromState h s).1 (MsgObj.fromState h s).2 ∧
    (∀ a ∈ (MsgObj.fromState h s).2.refs, h.next ≤ a) ∧
    (∀ o2, WfObj h o2 → o2.getState (MsgObj.fromState h s).1 = o2.getState h ∧ WfObj (MsgObj.fromState h s).1 o2 ∧
        DisjObj (MsgObj.fromState h s).2 o2) := by
  have hfresh : (∀ a ∈ (MsgObj.fromState h s).2.refs, h.next ≤ a) := by
    intro a ha
    rw [mem_refs] at ha
    cases ht : s.trailers with
    | none => simp only [MsgObj.fromState, ht] at ha; rcases ha with ha | ha <;> simp_all
    | some t =>
      simp only [MsgObj.fromState, ht] at ha
      rcases ha with ha | ha
      · simp [ha]
      · simp only [Option.some.injEq] at ha; rw [← ha]; exact Nat.le_succ _
  have hcells : ∀ a, a < h.next → (MsgObj.fromState h s).1.cells a = h.cells a := by
    intro a ha
    cases ht : s.trailers with
    | none => simp [MsgObj.fromState, ht, updF, Nat.ne_of_lt ha]
    | some t =>
      have : a ≠ h.next + 1 := Nat.ne_of_lt (Nat.lt_succ_of_lt ha)
      simp [MsgObj.fromState, ht, updF, Nat.ne_of_lt ha, this]
  have hnext : h.next ≤ (MsgObj.fromState h s).1.next := by
    cases ht : s.trailers <;> simp [MsgObj.fromState, ht]
  refine ⟨?_, ?_, hfresh, ?_⟩
  · cases ht : s.trailers with
    | none => cases s; simp_all [MsgObj.fromState, MsgObj.getState, updF]
    | some t => cases s; simp_all [MsgObj.fromState, MsgObj.getState, updF]
  · cases ht : s.trailers with
    | none => simp [MsgObj.fromState, ht, WfObj]
    | some t =>
      simp only [MsgObj.fromState, ht, WfObj]
      refine ⟨Nat.lt_add_of_pos_right (by decide), ?_⟩
      intro ad had
      simp only [Option.some.injEq] at had
      subst had
      exact ⟨Nat.lt_succ_self _, Nat.succ_ne_self _⟩
  · intro o2 hw2
    have hlt : ∀ a ∈ o2.refs, a < h.next := by
      intro a ha
      rcases (mem_refs o2 a).mp ha with e' | e'
      · rw [e']; exact hw2.1
      · exact (hw2.2 a e').1
    refine ⟨getState_congr _ _ _ (fun a ha => hcells a (hlt a ha)), ?_, ?_⟩
    · exact ⟨Nat.lt_of_lt_of_le hw2.1 hnext, fun ad had => ⟨Nat.lt_of_lt_of_le (hw2.2 ad had).1 hnext, (hw2.2 ad had).2⟩⟩
    · intro a ha h2
      exact Nat.lt_irrefl _ (Nat.lt_of_lt_of_le (hlt a h2) (hfresh a ha))

private theorem applyObjs_frame (es : List MsgEdit) :
    ∀ (h : OHeap) (o1 o2 : MsgObj), WfObj h o1 → WfObj h o2 → DisjObj o1 o2 →
      o2.getState (applyObjs es h o1).1 = o2.getState h ∧ WfObj (applyObjs es h o1).1 o2 ∧
      WfObj (applyObjs es h o1).1 (applyObjs es h o1).2 ∧ DisjObj (applyObjs es h o1).2 o2 := by
  induction es with
  | nil => intro h o1 o2 h1 h2 hd; exact ⟨rfl, h2, h1, hd⟩
  | cons e es ih =>
    intro h o1 o2 h1 h2 hd
    obtain ⟨f1, f2, f3⟩ := obj_edit_frame e h o1 o2 h1 h2 hd
    obtain ⟨_, w1, _⟩ := obj_edit_simulates e h o1 h1
    obtain ⟨g1, g2, g3, g4⟩ := ih _ _ o2 w1 f2 f3
    simp only [applyObjs, List.foldl_cons] at g1 g2 g3 g4 ⊢
    exact ⟨g1.trans f1, g2, g3, g4⟩

/-- **C40 (copy independence below the component level, all histories).** Copy a message object
    (get_state → from_state); then ANY sequence of edits of the original — header/trailer edits in place, body
    assignments with their Content-Length / Content-Encoding side effects, new header or trailer objects — leaves
    the copy's get_state() equal to the original's state at copy time, and ANY sequence of edits of the copy leaves
    the original's state untouched.  (This is the level of the empty-trailers seed c40-5.) -/
theorem obj_copy_independent (h : OHeap) (o : MsgObj) (es : List MsgEdit) (hw : WfObj h o) :
    (MsgObj.copy h o).2.getState (applyObjs es (MsgObj.copy h o).1 o).1 = o.getState h ∧
    o.getState (applyObjs es (MsgObj.copy h o).1 (MsgObj.copy h o).2).1 = o.getState h := by
  obtain ⟨r1, r2, _, r4⟩ := fromState_fresh_roundtrip h (o.getState h)
  obtain ⟨s1, s2, s3⟩ := r4 o hw
  have hd' : DisjObj o (MsgObj.fromState h (o.getState h)).2 := fun a ha hb => s3 a hb ha
  refine ⟨?_, ?_⟩
  · have := (applyObjs_frame es _ o _ s2 r2 hd').1
    simp only [MsgObj.copy]
    rw [this]; exact r1
  · have := (applyObjs_frame es _ _ o r2 s2 s3).1
    simp only [MsgObj.copy]
    rw [this]; exact s1

/-- a history of object edits is the history of the value-level edits of the typed model -/
theorem obj_edits_simulate (es : List MsgEdit) :
    ∀ (h : OHeap) (o : MsgObj), WfObj h o →
      (applyObjs es h o).2.getState (applyObjs es h o).1 = es.foldl (fun m e => e.apply m) (o.getState h) := by
  induction es with
  | nil => intro h o _; rfl
  | cons e es ih =>
    intro h o hw
    obtain ⟨a1, a2, _⟩ := obj_edit_simulates e h o hw
    have := ih _ _ a2
    simp only [applyObjs, List.foldl_cons] at this ⊢
    rw [this, a1]

-- ---------------------------------------------------------------- generic object layer (Model/C40_Obj2.lean)
section GenericObjects
variable {I I2 SV : Type}

/-- the sub-objects of an object are allocated and pairwise distinct -/
def WfG (h : GHeap SV) (o : GObj I) : Prop := o.subs.Nodup ∧ ∀ a ∈ o.subs, a < h.next

/-- two objects share no sub-object -/
def DisjG (o1 : GObj I) (o2 : GObj I2) : Prop := ∀ a ∈ o1.subs, a ∉ o2.subs

/-- **one edit of an object graph.** The object's get_state() changes exactly as the value-level edit says; the
    object stays well formed; cells of sub-objects it does not own are untouched; new sub-objects are NEW. -/
theorem gobj_edit_simulates (e : GEdit I SV) (h : GHeap SV) (o : GObj I) (hw : WfG h o) :
    (applyG e h o).2.getState (applyG e h o).1 = e.applyV (o.getState h) ∧
    WfG (applyG e h o).1 (applyG e h o).2 ∧ h.next ≤ (applyG e h o).1.next ∧
    (∀ a, a < h.next → a ∉ o.subs → (applyG e h o).1.cells a = h.cells a) ∧
    (∀ a ∈ (applyG e h o).2.subs, a ∈ o.subs ∨ h.next ≤ a) := by
  obtain ⟨hnd, hlt⟩ := hw
  have hfresh : h.next ∉ o.subs := fun hm => Nat.lt_irrefl _ (hlt _ hm)
  cases e with
  | imm g => exact ⟨rfl, ⟨hnd, hlt⟩, Nat.le_refl _, fun _ _ _ => rfl, fun a ha => Or.inl ha⟩
  | inPlace j g =>
    simp only [applyG]
    cases hj : o.subs[j]? with
    | none =>
      refine ⟨?_, ⟨hnd, hlt⟩, Nat.le_refl _, fun _ _ _ => rfl, fun a ha => Or.inl ha⟩
      simp [GObj.getState, GEdit.applyV, List.getElem?_map, hj]
    | some ad =>
      have hmem : ad ∈ o.subs := List.mem_iff_getElem?.mpr ⟨j, hj⟩
      refine ⟨?_, ⟨hnd, hlt⟩, Nat.le_refl _, ?_, fun a ha => Or.inl ha⟩
      · simp only [GObj.getState, GEdit.applyV, List.getElem?_map, hj, Option.map_some]
        rw [map_upd_nodup _ _ _ _ _ hnd hj]
      · intro a _ ha
        have : a ≠ ad := fun e' => ha (e' ▸ hmem)
        simp [upd, this]
  | rebind j v =>
    simp only [applyG]
    cases hj : o.subs[j]? with
    | none =>
      refine ⟨?_, ⟨hnd, hlt⟩, Nat.le_refl _, fun _ _ _ => rfl, fun a ha => Or.inl ha⟩
      have : o.subs.length ≤ j := by
        rcases Nat.lt_or_ge j o.subs.length with h' | h'
        · simp [List.getElem?_eq_getElem h'] at hj
        · exact h'
      simp only [GObj.getState, GEdit.applyV]
      rw [List.set_eq_of_length_le]; simp [this]
    | some ad =>
      refine ⟨?_, ⟨nodup_set_fresh _ _ _ hnd hfresh, ?_⟩, Nat.le_succ _, ?_, ?_⟩
      · simp only [GObj.getState, GEdit.applyV, List.map_set]
        rw [map_upd_not_mem _ _ _ _ hfresh]; simp [upd]
      · intro a ha
        rcases List.mem_or_eq_of_mem_set ha with h1 | h1
        · exact Nat.lt_succ_of_lt (hlt a h1)
        · rw [h1]; exact Nat.lt_succ_self _
      · intro a ha _
        simp [upd, Nat.ne_of_lt ha]
      · intro a ha
        rcases List.mem_or_eq_of_mem_set ha with h1 | h1
        · exact Or.inl h1
        · right; rw [h1]; exact Nat.le_refl _
  | append v =>
    simp only [applyG]
    refine ⟨?_, ⟨?_, ?_⟩, Nat.le_succ _, ?_, ?_⟩
    · simp only [GObj.getState, GEdit.applyV, List.map_append, List.map_cons, List.map_nil]
      rw [map_upd_not_mem _ _ _ _ hfresh]; simp [upd]
    · rw [List.nodup_append]
      refine ⟨hnd, by simp, ?_⟩
      intro a ha b hb
      simp at hb; subst hb
      exact Nat.ne_of_lt (hlt a ha)
    · intro a ha
      rcases List.mem_append.mp ha with h1 | h1
      · exact Nat.lt_succ_of_lt (hlt a h1)
      · simp at h1; rw [h1]; exact Nat.lt_succ_self _
    · intro a ha _
      simp [upd, Nat.ne_of_lt ha]
    · intro a ha
      rcases List.mem_append.mp ha with h1 | h1
      · exact Or.inl h1
      · simp at h1; right; rw [h1]; exact Nat.le_refl _
  | pop =>
    simp only [applyG]
    have hsub := List.dropLast_sublist o.subs
    refine ⟨?_, ⟨List.Nodup.sublist hsub hnd, fun a ha => hlt a (hsub.subset ha)⟩, Nat.le_refl _, by intros; trivial,
      fun a ha => Or.inl (hsub.subset ha)⟩
    simp [GObj.getState, GEdit.applyV, List.map_dropLast]
  | replace vs =>
    simp only [applyG, GObj.fromState]
    refine ⟨?_, ⟨List.nodup_range' 1, ?_⟩, Nat.le_add_right _ _, ?_, ?_⟩
    · simp only [GObj.getState, GEdit.applyV]
      rw [alloc_content]
    · intro a ha; exact (List.mem_range'_1.mp ha).2
    · intro a ha _
      have : ¬ h.next ≤ a := Nat.not_le.mpr ha
      simp [allocHeap, this]
    · intro a ha; right; exact (List.mem_range'_1.mp ha).1

/-- **no sharing between objects, one edit.** Editing o1 leaves the get_state() of every object o2 (of any class)
    that shares no sub-object with it unchanged; they still share nothing. -/
theorem gobj_edit_frame (e : GEdit I SV) (h : GHeap SV) (o1 : GObj I) (o2 : GObj I2) (hw1 : WfG h o1)
    (hw2 : WfG h o2) (hd : DisjG o1 o2) :
    o2.getState (applyG e h o1).1 = o2.getState h ∧ WfG (applyG e h o1).1 o2 ∧ DisjG (applyG e h o1).2 o2 := by
  obtain ⟨_, _, hn, hc, hr⟩ := gobj_edit_simulates e h o1 hw1
  refine ⟨?_, ⟨hw2.1, fun a ha => Nat.lt_of_lt_of_le (hw2.2 a ha) hn⟩, ?_⟩
  · simp only [GObj.getState]
    congr 1
    apply List.map_congr_left
    intro a ha
    exact hc a (hw2.2 a ha) (fun h1 => hd a h1 ha)
  · intro a ha h2
    rcases hr a ha with h1 | h1
    · exact hd a h1 h2
    · exact Nat.lt_irrefl _ (Nat.lt_of_lt_of_le (hw2.2 a h2) h1)

/-- **from_state builds fresh objects (every component class).** The object built from a state has that state
    (round trip), consists only of sub-objects allocated by the call, shares nothing with any existing object, and
    existing objects keep their state. -/
theorem gobj_fromState_fresh_roundtrip (h : GHeap SV) (s : I × List SV) :
    (GObj.fromState h s).2.getState (GObj.fromState h s).1 = s ∧ WfG (GObj.fromState h s).1 (GObj.fromState h s).2 ∧
    (∀ a ∈ (GObj.fromState h s).2.subs, h.next ≤ a) ∧
    (∀ o2 : GObj I2, WfG h o2 → o2.getState (GObj.fromState h s).1 = o2.getState h ∧
        WfG (GObj.fromState h s).1 o2 ∧ DisjG (GObj.fromState h s).2 o2) := by
  obtain ⟨i, vs⟩ := s
  refine ⟨?_, ⟨List.nodup_range' 1, fun a ha => (List.mem_range'_1.mp ha).2⟩,
    fun a ha => (List.mem_range'_1.mp ha).1, ?_⟩
  · simp only [GObj.getState, GObj.fromState]; rw [alloc_content]
  · intro o2 hw2
    refine ⟨?_, ⟨hw2.1, fun a ha => Nat.lt_of_lt_of_le (hw2.2 a ha) (Nat.le_add_right _ _)⟩, ?_⟩
    · simp only [GObj.getState, GObj.fromState]
      rw [alloc_old _ _ _ _ hw2.2]
    · intro a ha h2
      exact Nat.lt_irrefl _ (Nat.lt_of_lt_of_le (hw2.2 a h2) (List.mem_range'_1.mp ha).1)

private theorem applyGs_frame (es : List (GEdit I SV)) :
    ∀ (h : GHeap SV) (o1 : GObj I) (o2 : GObj I2), WfG h o1 → WfG h o2 → DisjG o1 o2 →
      o2.getState (applyGs es h o1).1 = o2.getState h ∧ WfG (applyGs es h o1).1 o2 := by
  induction es with
  | nil => intro h o1 o2 _ h2 _; exact ⟨rfl, h2⟩
  | cons e es ih =>
    intro h o1 o2 h1 h2 hd
    obtain ⟨f1, f2, f3⟩ := gobj_edit_frame e h o1 o2 h1 h2 hd
    obtain ⟨_, w1, _⟩ := gobj_edit_simulates e h o1 h1
    obtain ⟨g1, g2⟩ := ih _ _ o2 w1 f2 f3
    simp only [applyGs, List.foldl_cons] at g1 g2 ⊢
    exact ⟨g1.trans f1, g2⟩

/-- **copy independence for every component class, all histories.** Copy an object (get_state → from_state); ANY
    sequence of edits of the original — in-place mutation of sub-objects, new sub-objects, append/pop, replacing the
    list — leaves the copy's state equal to the original's state at copy time, and ANY sequence of edits of the copy
    leaves the original untouched. -/
theorem gobj_copy_independent (h : GHeap SV) (o : GObj I) (es : List (GEdit I SV)) (hw : WfG h o) :
    (GObj.copy h o).2.getState (applyGs es (GObj.copy h o).1 o).1 = o.getState h ∧
    o.getState (applyGs es (GObj.copy h o).1 (GObj.copy h o).2).1 = o.getState h := by
  obtain ⟨r1, r2, _, r4⟩ := gobj_fromState_fresh_roundtrip (I2 := I) h (o.getState h)
  obtain ⟨s1, s2, s3⟩ := r4 o hw
  have hd' : DisjG o (GObj.fromState h (o.getState h)).2 := fun a ha hb => s3 a hb ha
  refine ⟨?_, ?_⟩
  · have := (applyGs_frame es _ o _ s2 r2 hd').1
    simp only [GObj.copy]; rw [this]; exact r1
  · have := (applyGs_frame es _ _ o r2 s2 s3).1
    simp only [GObj.copy]; rw [this]; exact s1

/-- an edit history of an object graph is the history of the value-level edits -/
theorem gobj_edits_simulate (es : List (GEdit I SV)) :
    ∀ (h : GHeap SV) (o : GObj I), WfG h o →
      (applyGs es h o).2.getState (applyGs es h o).1 = es.foldl (fun s e => e.applyV s) (o.getState h) := by
  induction es with
  | nil => intro h o _; rfl
  | cons e es ih =>
    intro h o hw
    obtain ⟨a1, a2, _⟩ := gobj_edit_simulates e h o hw
    have := ih _ _ a2
    simp only [applyGs, List.foldl_cons] at this ⊢
    rw [this, a1]
end GenericObjects

private theorem modify_eq_set {α : Type} (f : α → α) : ∀ (l : List α) (i : Nat),
    l.modify i f = match l[i]? with | some x => l.set i (f x) | none => l := by
  intro l
  induction l with
  | nil => intro i; simp
  | cons x xs ih =>
    intro i
    cases i with
    | zero => simp
    | succ i =>
      simp only [List.modify_succ_cons, List.getElem?_cons_succ, List.set_cons_succ]
      rw [ih i]
      cases xs[i]? <;> rfl

/-- the value-level edits of the generic layer ARE the typed model's edits of WebSocketData, TCP/UDP message lists
    and DNS messages: the object graph of each class simulates the typed component edit (with `gobj_edit_simulates`) -/
theorem ws_edit_is_generic (e : WsEdit) (s : List A × List WsMsg) :
    wsOfState (e.toG.applyV s) = e.apply (wsOfState s) := by
  obtain ⟨i, l⟩ := s
  cases e with
  | append m => rfl
  | pop => rfl
  | atom k a => rfl
  | setContent j c => simp only [WsEdit.toG, GEdit.applyV, WsEdit.apply, wsOfState, modify_eq_set]; cases l[j]? <;> rfl
  | drop j b => simp only [WsEdit.toG, GEdit.applyV, WsEdit.apply, wsOfState, modify_eq_set]; cases l[j]? <;> rfl

theorem tmsg_edit_is_generic (e : TMsgEdit) (s : Unit × List TMsg) :
    (e.toG.applyV s).2 = e.apply s.2 := by
  obtain ⟨i, l⟩ := s
  cases e with
  | append m => rfl
  | pop => rfl
  | setContent j c => simp only [TMsgEdit.toG, GEdit.applyV, TMsgEdit.apply, modify_eq_set]; cases l[j]? <;> rfl
  | setFc j b => simp only [TMsgEdit.toG, GEdit.applyV, TMsgEdit.apply, modify_eq_set]; cases l[j]? <;> rfl

theorem dns_edit_is_generic (e : DnsEdit) (s : List A × List (List A)) :
    dnsOfState (e.toG.applyV s) = e.apply (dnsOfState s) := by
  obtain ⟨i, l⟩ := s
  cases e with
  | atom k a => rfl
  | qappend q => rfl
  | qclear => rfl
  | qname j a => simp only [DnsEdit.toG, GEdit.applyV, DnsEdit.apply, dnsOfState, modify_eq_set]; cases l[j]? <;> rfl

-- ---------------------------------------------------------------- non-vacuity (concrete store, V = Nat)
private def σ0 : Store Nat := newFlow (empty 0) 7 true [10, 20, 30]
private def ipx : Nat → Bool := fun j => j % 2 == 0

-- backup, edit component 1 in place and re-bind component 2, copy, revert: the original state is back
example : (let σ := revert ipx (run ipx (backupOp σ0 0) [.mutate 0 1 21, .rebind 0 2 31, .copy 0 8, .backup 0]) 0
           (σ.flows.map (fun f => (f.id, f.live, content σ f, f.backup))))
        = [(7, true, [10, 20, 30], none), (8, false, [10, 21, 31], some (7, [10, 20, 30]))] := by decide
-- modified(): False after backup, True after an edit, False again after editing back
example : (let σ := backupOp σ0 0; σ.flows.map (modified σ)) = [false] := by decide
example : (let σ := run ipx (backupOp σ0 0) [.mutate 0 1 21]; σ.flows.map (modified σ)) = [true] := by decide
example : (let σ := run ipx (backupOp σ0 0) [.mutate 0 1 21, .mutate 0 1 20]; σ.flows.map (modified σ)) = [false] := by decide
-- a copy inherits the backup; reverting the copy gives it the *original's* id (modelled as implemented)
example : (let σ := revert ipx (run ipx (backupOp σ0 0) [.mutate 0 0 11, .copy 0 8]) 1
           (σ.flows.map (fun f => (f.id, content σ f)))) = [(7, [11, 20, 30]), (7, [10, 20, 30])] := by decide
example : Sep σ0 := sep_newFlow _ _ _ _ (sep_empty 0)

-- typed: Host header spelled "HoSt" is replaced case-insensitively, body assignment rewrites content-length
private def m0 : Msg := { atoms := [1, 2], headers := [([0x48,0x6f,0x53,0x74], [0x61]), ([0x78], [0x31]), ([0x68,0x6f,0x73,0x74], [0x62])],
                          content := none, trailers := none }
example : (MsgEdit.hset [0x68,0x4f,0x73,0x54] [0x7a]).apply m0 =
    { m0 with headers := [([0x48,0x6f,0x53,0x74], [0x7a]), ([0x78], [0x31])] } := by decide
example : ((MsgEdit.content (some [1,2,3,4,5,6,7,8,9,10,11,12])).apply m0).headers.getLast? =
    some (contentLength, [0x31, 0x32]) := by decide
-- EMPTY-but-present containers are values like any other: trailers = Headers() (empty), backed up, edited in place,
-- reverted: the empty trailer block is back; a copy taken before the edit keeps the empty block as well
private def mE : Msg := { m0 with trailers := some [], headers := [] }
private def σe : Store Comp := newFlow (empty (.flag false)) 7 true
  [.conn [], .conn [2], .err none, .flag false, .atom 0, .atom 0, .mdata [], .atom 0, .atom 0, .req mE, .resp (some mE), .ws (some ⟨[], [0]⟩)]
example : (let σ := revert ipx (runT ipx (backupOp σe 0)
              [.copy 0 8, .edit 0 (.req (.thset [0x74] [0x31])), .edit 0 (.req (.hadd [0x78] [0x31])), .edit 0 (.metaSet 1 2),
               .edit 0 (.ws (.append ⟨1, true, [], 0, false, false⟩)), .edit 0 (.resp (.thset [0x74] [0x32]))]) 0
           σ.flows.map (fun f => content σ f == content σe (σe.flows.headD f))) = [true, true] := by decide
example : ((MsgEdit.thset [0x74] [0x31]).apply mE).trailers = some [([0x74], [0x31])] := by decide
-- set_content with a Content-Encoding header: the encoded bytes and their length go in; an invalid coding is deleted
private def mCE : Msg := { m0 with headers := [(contentEncoding, [0x67,0x7a,0x69,0x70]), (contentLength, [0x37])] }
example : setContentCE mCE (some [1,2,3]) (.ok [9,9,9,9,9,9,9,9,9,9,9]) =
    { mCE with content := some [9,9,9,9,9,9,9,9,9,9,9], headers := [(contentEncoding, [0x67,0x7a,0x69,0x70]), (contentLength, [0x31,0x31])] } := by decide
example : setContentCE mCE (some [1,2,3]) .verr =
    { mCE with content := some [1,2,3], headers := [(contentLength, [0x33])] } := by decide
example : RefinesC31 ⟨none, some [0x67,0x7a,0x69,0x70], false, some 7, .absent, .h11⟩ mCE := by
  refine ⟨rfl, by decide, by decide, ?_⟩
  intro n hn; simp at hn; subst hn; decide
-- object layer: a message with an EMPTY trailers object; copy; edit the original's trailers and headers in place;
-- the copy still has the state of copy time, and `WfObj` holds of the example
private def hO : OHeap := { cells := fun a => if a = 0 then [([0x78], [0x31])] else [], next := 2 }
private def oO : MsgObj := { atoms := [1], headers := 0, content := none, trailers := some 1 }
example : WfObj hO oO := ⟨by decide, fun ad had => by simp [oO] at had; subst had; decide⟩
example : (let c := MsgObj.copy hO oO
           let r := applyObjs [.thset [0x74] [0x31], .hdel [0x78], .content (some [1,2])] c.1 oO
           (c.2.getState r.1 == oO.getState hO, r.2.getState r.1 == oO.getState hO)) = (true, false) := by decide
-- generic object layer: a WebSocketData object with two message objects; copy; edits of the original in place and by
-- append/pop/replace; the copy keeps the state of copy time; `WfG` holds of the example
private def hG : GHeap WsMsg := { cells := fun a => ⟨a, true, [], 0, false, false⟩, next := 2 }
private def oG : GObj (List A) := { imm := [0, 1000], subs := [0, 1] }
example : WfG hG oG := ⟨by decide, by decide⟩
example : (let c := GObj.copy hG oG
           let r := applyGs [(WsEdit.setContent 0 [1]).toG, (WsEdit.append ⟨9, false, [], 0, false, false⟩).toG, WsEdit.pop.toG,
                             (WsEdit.drop 1 true).toG, (WsEdit.atom 1 7).toG] c.1 oG
           (decide (c.2.getState r.1 = oG.getState hG), decide (r.2.getState r.1 = oG.getState hG))) = (true, false) := by decide
private def σt : Store Comp := newFlow (empty (.flag false)) 7 true
  [.conn [1], .conn [2], .err none, .flag false, .atom 0, .atom 0, .mdata [], .atom 0, .atom 0, .req m0, .resp none, .ws none]
-- backup, header edit + response assignment + copy + edit of the copy, revert: original back, copy keeps its edits
example : (let σ := revert ipx (runT ipx (backupOp σt 0)
              [.edit 0 (.req (.hdel [0x78])), .edit 0 (.respReplace (some m0)), .copy 0 8, .edit 1 (.req (.atom 0 9))]) 0
           σ.flows.map (fun f => (f.id, content σ f == content σt (σt.flows.headD f), modified σ f))) =
    [(7, true, false), (8, false, true)] := by decide


-- ---------------------------------------------------------------- round-6 audit witnesses
-- `revert_twice` / `not_modified_after_revert` / `revert_without_backup_noop`: a flow WITH a backup and edits
private def σb : Store Nat := run ipx (backupOp σ0 0) [.mutate 0 1 21, .rebind 0 2 31]
example : (σb.flows.map (fun f => (f.backup, modified σb f))) = [(some (7, [10, 20, 30]), true)] := by decide
example : (let σ := revert ipx σb 0; σ.flows.map (fun f => (content σ f, f.backup, modified σ f))) =
    [([10, 20, 30], none, false)] := by decide
example : (let σ := revert ipx (revert ipx σb 0) 0; σ.flows.map (fun f => (content σ f, f.backup))) =
    [([10, 20, 30], none)] := by decide
-- `copy_then_edits_independent`, both directions on one history: edits of the original (in place and by assignment)
-- and of the copy, a backup + revert of the copy; each side only shows its own edits, the copy has the fresh id
example : (let σ := run ipx (copy σ0 0 8) [.mutate 0 0 11, .rebind 1 1 99, .backup 1, .mutate 1 2 98, .rebind 0 2 33, .revert 1]
           σ.flows.map (fun f => (f.id, f.live, content σ f))) = [(7, true, [11, 20, 33]), (8, false, [10, 99, 30])] := by decide
example : Sep (copy σ0 0 8) := sep_preserved ipx [.copy 0 8] σ0 (sep_newFlow _ _ _ _ (sep_empty 0))
-- hypotheses of `copy_independent` on that store: flow 1 exists and a history that never addresses it
example : (copy σ0 0 8).flows[1]?.isSome = true ∧
    (∀ op ∈ ([.mutate 0 0 11, .backup 0, .revert 0, .copy 0 9] : List (Op Nat)), op.target ≠ 1) := by decide
-- `hdrGet_set_self` / `hdrGet_set_other` / `hdrGet_del`: folding lookup after a case-insensitive assignment
example : hdrGet (hdrSet m0.headers [0x48,0x4f,0x53,0x54] [0x7a]) [0x68,0x6f,0x73,0x74] = some [0x7a] ∧
    hdrGet (hdrSet m0.headers [0x48,0x4f,0x53,0x54] [0x7a]) [0x78] = some [0x31] ∧
    hdrGet m0.headers [0x68,0x6f,0x73,0x74] = some [0x61, 0x2c, 0x20, 0x62] ∧
    hdrGet (hdrDel m0.headers [0x48,0x4f,0x53,0x54]) [0x68,0x6f,0x73,0x74] = none ∧
    kconv [0x78] ≠ kconv [0x48,0x4f,0x53,0x54] := by decide
-- `typed_copy_independent_reachable` / `typed_revert_restores_reachable`: a store reachable by a typed history
-- (copy, then an edit of the copy) — the original is untouched; then backup/edit/revert of the copy restores it
example : (let σ := runT ipx σt [.copy 0 8, .edit 1 (.req (.hset [0x78] [0x39])), .backup 1, .edit 1 (.metaSet 1 2),
                                 .edit 1 (.respReplace (some m0)), .revert 1]
           (σ.flows.map (fun f => (f.id, f.backup.isSome, modified σ f)),
            content σ (σ.flows.headD (σt.flows.headD ⟨0, false, [], none⟩)) == content σt (σt.flows.headD ⟨0, false, [], none⟩)))
    = ([(7, false, false), (8, false, false)], true) := by decide
-- TOTALISATION, for the record: an edit addressed to an absent component object is a no-op in the model
-- (`Edit.apply` falls through); the harness edit functions carry the same guards (`if f.response: …`)
example : (Edit.resp (.atom 0 9)).apply (.resp none) = .resp none ∧ (Edit.errMsg 3).apply (.err none) = .err none ∧
    (WsEdit.pop).apply ⟨[], [0]⟩ = ⟨[], [0]⟩ := by decide

end MitmVerif.Props.C40
