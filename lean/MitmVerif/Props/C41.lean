/-
  C41 — HAR export followed by HAR import preserves the exchange.

  Full statement (`ImportExportPreserves`): for every library satisfying the codec laws and every list of
  flows, `roundtrip` succeeds and yields flows that agree with the originals, in order, on method, URL, HTTP
  version, request header fields apart from Content-Length, request body for POST/PUT/PATCH, status, response
  header fields and decoded response body.

  The code as it is does NOT satisfy the full statement (findings F-C41a … F-C41h, one guard conjunct each in
  `Lemmas/C41.lean`): `import_export_preserves_counterexample*` refute it on concrete flows, and
  `import_export_preserves_partial` proves it for all flows (any number, any library obeying the laws)
  satisfying the decidable guard that excludes exactly those classes.
-/
import MitmVerif.Lemmas.C41
import MitmVerif.Model.C41_Lib
import MitmVerif.Model.C41_Url
import MitmVerif.Model.C41_Host
import MitmVerif.Props.C33
namespace MitmVerif.Props.C41
open MitmVerif MitmVerif.C41

/-- what is assumed of the text codecs and base64 (CPython: utf-8/surrogateescape round-trips every byte
string, ASCII is a fixed point, `upper()` of a decoded method encodes again and is idempotent through the
round trip, `b64decode ∘ b64encode = id`) -/
structure Laws (lib : Lib) : Prop where
  senc_sdec : ∀ b, lib.senc (lib.sdec b) = some b
  sdec_ascii : ∀ b : Bytes, (∀ x ∈ b, x.toNat < 128) → lib.sdec b = b
  method_rt : ∀ m, ∃ m', lib.senc (lib.upper (lib.sdec m)) = some m' ∧ lib.upper (lib.sdec m') = lib.upper (lib.sdec m)
  b64 : ∀ b, lib.b64dec (lib.b64enc b) = some b

/-- `json.loads(json.dumps(x)) = x` on HAR documents -/
def JsonLaw {J : Type} (js : Json J) : Prop := ∀ es, js.load (js.dump es) = some es

/-- the property at full strength (false for the code as it is, see the counter-examples) -/
def ImportExportPreserves : Prop :=
  ∀ (J : Type) (lib : Lib) (js : Json J), Laws lib → JsonLaw js → ∀ fs : List Flow,
    ∃ fs', roundtrip lib js fs = some fs' ∧ InOrder (fun f f' => same lib f f' = true) fs fs'

/-! ### the pieces -/

private theorem fixHeaders_fmt {lib : Lib} (laws : Laws lib) (h : Hdrs) :
    fixHeaders lib (fmtHeaders lib h) = some h := by
  induction h with
  | nil => rfl
  | cons f r ih =>
    have ih' : fixHeaders lib (List.map (fun f => (lib.sdec f.1, lib.sdec f.2)) r) = some r := ih
    simp [fmtHeaders, fixHeaders, laws.senc_sdec, ih']

private theorem lower_Host : asciiLower (L "Host") = kHost := by decide +kernel
private theorem mapVer_v11 : mapVer v11 = v11 := by decide +kernel
private theorem mapVer_v3 : mapVer v3 = v3 := by decide +kernel
private theorem ascii_v11 : ∀ x ∈ v11, x.toNat < 128 := by decide +kernel
private theorem ascii_v3 : ∀ x ∈ v3, x.toNat < 128 := by decide +kernel

private theorem guard_split {lib : Lib} {f : Flow} (g : guardButVer lib f = true) :
    gMethod lib f = true ∧ gUrlParse lib f = true ∧ gUrl lib f = true ∧ gHost lib f = true ∧ gNoCE f = true
    ∧ gReqText lib f = true ∧ gRespCL f = true ∧ gRespText lib f = true := by
  simp only [guardButVer, Bool.and_eq_true] at g
  obtain ⟨⟨⟨⟨⟨⟨⟨a, b⟩, c⟩, d⟩, e⟩, f'⟩, g'⟩, h⟩ := g
  exact ⟨a, b, c, d, e, f', g', h⟩

private theorem noCE_split {f : Flow} (g : gNoCE f = true) :
    hcontains f.req.hdrs kCE = false ∧ hcontains f.resp.hdrs kCE = false := by
  simp only [gNoCE, Bool.and_eq_true, Bool.not_eq_true'] at g
  exact g

/-- `Request.make` on the exported request: succeeds; method, body (POST/PUT/PATCH) and all header fields but
Content-Length are the original ones -/
private theorem makeReq_export {lib : Lib} (laws : Laws lib) (f : Flow) (g : guardButVer lib f = true) :
    ∃ mb m, makeReq lib (exportReq lib f) = some (mb, m) ∧ methodOf lib mb = methodOf lib f.method ∧
      SameButCL f.req.hdrs m.hdrs ∧
      (isBodyMethod (methodOf lib f.method) = true → m.body = f.req.body) := by
  obtain ⟨gm, gp, _, gh, gce, gt, _, _⟩ := guard_split g
  obtain ⟨rce, _⟩ := noCE_split gce
  obtain ⟨mb, hmb, hup⟩ := laws.method_rt f.method
  have hm : methodOf lib f.method ≠ L "CONNECT" := by simpa [gMethod] using gm
  have heu : exportUrl lib f = f.purl := by simp [exportUrl, hm]
  obtain ⟨hp, hhp⟩ : ∃ hp, lib.urlHostport f.purl = some hp := by
    simpa [gUrlParse, Option.isSome_iff_exists, heu] using gp
  -- the exported request
  have eurl : (exportReq lib f).url = f.purl := heu
  have emeth : (exportReq lib f).method = methodOf lib f.method := rfl
  have ehdr : (exportReq lib f).headers = fmtHeaders lib f.req.hdrs := rfl
  have epost : (exportReq lib f).postData.getD [] = postText lib f := by
    unfold exportReq postText
    by_cases c : isBodyMethod (methodOf lib f.method) = true <;> simp [c]
  -- Host update leaves the headers alone
  have hhost : (if hcontains f.req.hdrs kHost then (lib.senc hp).map (hset f.req.hdrs (L "Host")) else some f.req.hdrs)
      = some f.req.hdrs := by
    by_cases c : hcontains f.req.hdrs kHost = true
    · simp only [gHost, heu, hhp, c, if_true] at gh
      cases hs : lib.senc hp with
      | none => simp [hs] at gh
      | some hpB =>
        simp only [hs] at gh
        have e : fieldsOf f.req.hdrs kHost = [hpB] := by simpa using gh
        have : hset f.req.hdrs (L "Host") hpB = f.req.hdrs := hset_id (by rw [lower_Host]; exact e)
        simp [c, this]
    · simp [c]
  -- the text re-encodes
  obtain ⟨b, hb, hbody⟩ : ∃ b, lib.csEnc (lib.infer (ctOf lib f.req) []) (postText lib f) = some b ∧
      (isBodyMethod (methodOf lib f.method) = true → b = f.req.body) := by
    unfold gReqText at gt
    cases hc : lib.csEnc (lib.infer (ctOf lib f.req) []) (postText lib f) with
    | none => simp [hc] at gt
    | some b =>
      refine ⟨b, rfl, fun hbm => ?_⟩
      simp [hc, hbm] at gt
      exact gt
  let m0 : Msg := { ver := v11, hdrs := f.req.hdrs, body := [] }
  have hct : ctOf lib m0 = ctOf lib f.req := rfl
  have hset' : setText lib m0 (postText lib f) = some (setContent lib m0 b) := by
    unfold setText; rw [hct, hb]
  have p := setContent_noCE_props lib (m := m0) rce b
  refine ⟨mb, setContent lib m0 b, ?_, hup, p.2.2, fun hbm => p.2.1.trans (hbody hbm)⟩
  unfold makeReq
  rw [ehdr, fixHeaders_fmt laws, emeth]
  show (match some f.req.hdrs, lib.senc (lib.upper (lib.sdec f.method)), lib.urlHostport (exportReq lib f).url with
        | some h, some mb, some hp => _
        | _, _, _ => none) = _
  rw [hmb, eurl, hhp]
  simp only [hhost, epost]
  show Option.map (fun m => (mb, m)) (setText lib m0 (postText lib f)) = _
  rw [hset']; rfl

/-- the response rebuilt from the exported entry is the original response (before `decode()` and the version) -/
private theorem makeResp_export {lib : Lib} (laws : Laws lib) (f : Flow) (g : guardButVer lib f = true) :
    makeResp lib (exportResp lib f) = some { ver := v11, hdrs := f.resp.hdrs, body := f.resp.body } := by
  obtain ⟨_, _, _, _, gce, _, _, gt⟩ := guard_split g
  obtain ⟨_, sce⟩ := noCE_split gce
  have hc : getContent lib f.resp = f.resp.body := getContent_noCE lib sce
  have hce : hget lib f.resp.hdrs kCE = none := hget_of_not_contains lib sce
  have hct : (hget lib f.resp.hdrs kCT).getD [] = ctOf lib f.resp := rfl
  unfold makeResp
  have ehdr : (exportResp lib f).headers = fmtHeaders lib f.resp.hdrs := rfl
  rw [ehdr, fixHeaders_fmt laws]
  simp only [hce, hct]
  by_cases bin : f.resp.body ≠ [] ∧ lib.mostlyBin f.resp.body = true
  · have e1 : (exportResp lib f).encoding = some (L "base64") := by simp [exportResp, hc, bin]
    have e2 : (exportResp lib f).text = lib.b64enc f.resp.body := by simp [exportResp, hc, bin]
    simp [e1, e2, laws.b64]
  · have e1 : (exportResp lib f).encoding = none := by simp [exportResp, hc, bin]
    have e2 : (exportResp lib f).text = getText lib f.resp := by simp [exportResp, hc, bin]
    have : importText lib (lib.infer (ctOf lib f.resp) []) (getText lib f.resp) = some f.resp.body := by
      unfold gRespText at gt
      simp only [Bool.or_eq_true, Bool.and_eq_true, bne_iff_ne, ne_eq, beq_iff_eq] at gt
      rcases gt with h | h
      · exact absurd h bin
      · exact h
    simp [e1, e2, this]

/-- one flow: under the guard the import of the exported entry succeeds and preserves everything the
statement names except (unless `gVer`) the HTTP version -/
private theorem entry_partial {lib : Lib} (laws : Laws lib) (f : Flow) (g : guardButVer lib f = true) :
    ∃ f', importEntry lib (exportEntry lib f) = some f' ∧ sameButVer lib f f' = true ∧
      (gVer f = true → f'.req.ver = f.req.ver) := by
  obtain ⟨mb, m, hreq, hmeth, hsame, hbody⟩ := makeReq_export laws f g
  have hresp := makeResp_export laws f g
  obtain ⟨gm, _, gu, _, gce, _, gcl, _⟩ := guard_split g
  obtain ⟨rce, sce⟩ := noCE_split gce
  have hm : methodOf lib f.method ≠ L "CONNECT" := by simpa [gMethod] using gm
  -- request.decode()
  let rv := mapVer (exportEntry lib f).request.httpVersion
  have mce : hcontains ({ m with ver := rv } : Msg).hdrs kCE = false := noCE_of_sameButCL hsame rce
  obtain ⟨m', hdec, hver, hb', hs'⟩ := decodeMsg_noCE lib (m := { m with ver := rv }) true mce
  -- response.decode(strict=False)
  let sv := mapVer (exportEntry lib f).response.httpVersion
  have hcl : ({ ver := sv, hdrs := f.resp.hdrs, body := f.resp.body } : Msg).body = [] ∨
      hcontains f.resp.hdrs kTE = true ∨ fieldsOf f.resp.hdrs kCL = [natDec f.resp.body.length] := by
    simp only [gRespCL, Bool.or_eq_true, beq_iff_eq] at gcl
    rcases gcl with (h | h) | h
    · exact Or.inl h
    · exact Or.inr (Or.inl h)
    · exact Or.inr (Or.inr h)
  have hdecs := decodeMsg_noCE_clOk lib (m := { ver := sv, hdrs := f.resp.hdrs, body := f.resp.body }) false sce hcl
  have hall : SameButCL f.req.hdrs m'.hdrs := hsame.trans hs'
  have m'ce : hcontains m'.hdrs kCE = false := noCE_of_sameButCL hall rce
  have heu : exportUrl lib f = f.purl := by simp [exportUrl, hm]
  have hurl : (exportEntry lib f).request.url = f.purl := heu
  refine ⟨{ method := mb, purl := lib.urlPretty f.purl (hget lib m'.hdrs kHost), req := m', status := f.status,
            resp := { ver := sv, hdrs := f.resp.hdrs, body := f.resp.body } }, ?_, ?_, ?_⟩
  · unfold importEntry
    have e1 : makeReq lib (exportEntry lib f).request = some (mb, m) := hreq
    have e2 : makeResp lib (exportEntry lib f).response = some { ver := v11, hdrs := f.resp.hdrs, body := f.resp.body } := hresp
    rw [e1, e2]
    simp only []
    have d1 : decodeMsg lib { m with ver := mapVer (exportEntry lib f).request.httpVersion } true = some m' := hdec
    have d2 : decodeMsg lib { ver := mapVer (exportEntry lib f).response.httpVersion, hdrs := f.resp.hdrs, body := f.resp.body } false
        = some { ver := sv, hdrs := f.resp.hdrs, body := f.resp.body } := hdecs
    rw [d1, d2]
    simp only [hmeth, hm, if_false, hurl]
    rfl
  · have hhost : hget lib m'.hdrs kHost = hget lib f.req.hdrs kHost := hget_congr lib (hall.2 kHost kHost_ne_kCL)
    have hu : lib.urlPretty f.purl (hget lib f.req.hdrs kHost) = f.purl := by simpa [gUrl, heu] using gu
    have hbd : isBodyMethod (methodOf lib f.method) = true → getContent lib m' = getContent lib f.req := by
      intro hbm
      rw [getContent_noCE lib m'ce, getContent_noCE lib rce, hb']
      exact hbody hbm
    have hd : dropCL m'.hdrs = dropCL f.req.hdrs := hall.1
    have hrc : getContent lib ({ ver := sv, hdrs := f.resp.hdrs, body := f.resp.body } : Msg) = getContent lib f.resp := rfl
    simp only [sameButVer, hmeth, hhost, hu, hd, hrc, beq_self_eq_true, Bool.and_true, Bool.true_and]
    cases hbm : isBodyMethod (methodOf lib f.method) with
    | false => simp
    | true => simp [hbd hbm]
  · intro gv
    show m'.ver = f.req.ver
    rw [hver]
    show mapVer (lib.sdec f.req.ver) = f.req.ver
    simp only [gVer, Bool.or_eq_true, beq_iff_eq] at gv
    rcases gv with h | h
    · rw [h, laws.sdec_ascii v11 ascii_v11, mapVer_v11]
    · rw [h, laws.sdec_ascii v3 ascii_v3, mapVer_v3]

private theorem importAll_partial {lib : Lib} (laws : Laws lib) :
    ∀ fs : List Flow, (∀ f ∈ fs, guardButVer lib f = true) →
      ∃ fs', importAll lib (fs.map (exportEntry lib)) = some fs' ∧
        InOrder (fun f f' => sameButVer lib f f' = true ∧ (gVer f = true → f'.req.ver = f.req.ver)) fs fs' := by
  intro fs
  induction fs with
  | nil => intro _; exact ⟨[], rfl, InOrder.nil⟩
  | cons f r ih =>
    intro hg
    obtain ⟨f', h1, h2, h3⟩ := entry_partial laws f (hg f (List.mem_cons_self))
    obtain ⟨r', hr1, hr2⟩ := ih (fun x hx => hg x (List.mem_cons_of_mem _ hx))
    refine ⟨f' :: r', ?_, InOrder.cons ⟨h2, h3⟩ hr2⟩
    simp [importAll, h1, hr1]

/-! ### the theorems -/

/-- **import_export_preserves (partial)**: for every library obeying the codec laws, every JSON codec obeying
`loads ∘ dumps = id` and every list of flows each satisfying the guard (`guardButVer`: not one of the classes
F-C41b…h), exporting and importing succeeds and returns as many flows, in the same order, each agreeing with
its original on method, URL, request header fields apart from Content-Length, request body (POST/PUT/PATCH),
status, response header fields and decoded response body — and on the HTTP version too unless the flow is in
class F-C41a (`gVer`). -/
theorem import_export_preserves_partial {J : Type} (lib : Lib) (js : Json J) (laws : Laws lib) (jl : JsonLaw js)
    (fs : List Flow) (hg : ∀ f ∈ fs, guardButVer lib f = true) :
    ∃ fs', roundtrip lib js fs = some fs' ∧
      InOrder (fun f f' => sameButVer lib f f' = true ∧ (gVer f = true → f'.req.ver = f.req.ver)) fs fs' := by
  obtain ⟨fs', h1, h2⟩ := importAll_partial laws fs hg
  exact ⟨fs', by simp [roundtrip, jl _, h1], h2⟩

/-- under the whole guard the full comparison `same` holds -/
theorem import_export_preserves_guarded {J : Type} (lib : Lib) (js : Json J) (laws : Laws lib) (jl : JsonLaw js)
    (fs : List Flow) (hg : ∀ f ∈ fs, guardAll lib f = true) :
    ∃ fs', roundtrip lib js fs = some fs' ∧ InOrder (fun f f' => same lib f f' = true) fs fs' := by
  have hg' : ∀ f ∈ fs, guardButVer lib f = true := fun f hf => by
    have := hg f hf; simp only [guardAll, Bool.and_eq_true] at this; exact this.2
  obtain ⟨fs', h1, h2⟩ := import_export_preserves_partial lib js laws jl fs hg'
  refine ⟨fs', h1, ?_⟩
  clear h1
  induction h2 with
  | nil => exact InOrder.nil
  | @cons a b l₁ l₂ hab _ ih =>
    have ga := hg a (List.mem_cons_self)
    simp only [guardAll, Bool.and_eq_true] at ga
    refine InOrder.cons ?_ (ih (fun f hf => hg f (List.mem_cons_of_mem _ hf)) (fun f hf => hg' f (List.mem_cons_of_mem _ hf)))
    simp [same, hab.1, hab.2 ga.1]

/-- the import never reorders or drops: whenever it succeeds it returns one flow per exported flow -/
theorem roundtrip_length {J : Type} (lib : Lib) (js : Json J) (jl : JsonLaw js) (fs fs' : List Flow)
    (h : roundtrip lib js fs = some fs') : fs'.length = fs.length := by
  simp only [roundtrip, jl _] at h
  clear jl
  induction fs generalizing fs' with
  | nil => simp [importAll] at h; simp [← h]
  | cons f r ih =>
    simp only [List.map_cons, importAll] at h
    cases h1 : importEntry lib (exportEntry lib f) with
    | none => simp [h1] at h
    | some f1 =>
      cases h2 : importAll lib (r.map (exportEntry lib)) with
      | none => simp [h1, h2] at h
      | some r1 =>
        simp [h1, h2] at h
        subst h
        simp [ih r1 h2]

/-! ### a concrete library (identity codecs) for non-vacuity and the counter-examples -/

def toyLib : Lib where
  sdec := id
  senc := some
  upper := asciiUpper
  b64enc := id
  b64dec := some
  mostlyBin := fun b => b.any (fun x => x.toNat < 9)
  ceDec := fun _ b => some b
  ceEnc := fun _ b => some b
  infer := fun _ _ => L "latin-1"
  csDec := fun _ b => some b
  csEnc := fun _ t => some t
  ctUtf8 := id
  urlHostport := fun _ => some (L "example.com")
  urlPretty := fun u _ => u

def toyJson : Json (List Entry) := ⟨id, some⟩

private theorem asciiUpper_idem (b : Bytes) : asciiUpper (asciiUpper b) = asciiUpper b := by
  have hb : ∀ n : Fin 256, asciiUpperB (asciiUpperB (UInt8.ofNat n.val)) = asciiUpperB (UInt8.ofNat n.val) := by
    decide +kernel
  have hx : ∀ x : UInt8, asciiUpperB (asciiUpperB x) = asciiUpperB x := by
    intro x
    have := hb ⟨x.toNat, UInt8.toNat_lt x⟩
    simpa using this
  simp [asciiUpper, List.map_map, Function.comp_def, hx]

theorem toyLaws : Laws toyLib where
  senc_sdec := fun _ => rfl
  sdec_ascii := fun _ _ => rfl
  method_rt := fun m => ⟨asciiUpper m, rfl, asciiUpper_idem m⟩
  b64 := fun _ => rfl

theorem toyJsonLaw : JsonLaw toyJson := fun _ => rfl

def hdr (k v : String) : Bytes × Bytes := (L k, L v)

/-- a POST over HTTP/1.1 with a Host header, duplicate fields and a correct Content-Length: inside the guard -/
def okFlow : Flow :=
  { method := L "post", purl := L "http://example.com/a?x=1"
    req := ⟨v11, [hdr "Host" "example.com", hdr "X-A" "1", hdr "x-a" "2", hdr "Content-Length" "3"], L "abc"⟩
    status := 200
    resp := ⟨v11, [hdr "Content-Type" "text/plain", hdr "Set-Cookie" "a=b", hdr "Set-Cookie" "c=d", hdr "Content-Length" "5"], L "hello"⟩ }

/-- the guard is satisfiable by a non-trivial flow, and the round trip really returns it -/
example : guardAll toyLib okFlow = true := by decide +kernel
example : (roundtrip toyLib toyJson [okFlow, okFlow]).map (·.length) = some 2 := by decide +kernel
/-- the model's import does reject something (a header the text codec cannot encode, a URL that does not parse) -/
example : importEntry { toyLib with urlHostport := fun _ => none } (exportEntry toyLib okFlow) = none := by decide +kernel

/-- F-C41a: an HTTP/2 flow (mitmproxy writes "HTTP/2.0") comes back as HTTP/1.1 -/
def h2Flow : Flow := { okFlow with req := { okFlow.req with ver := v20 } }
/-- F-C41e: a gzip-coded response loses its Content-Encoding field -/
def ceFlow : Flow := { okFlow with resp := ⟨v11, [hdr "Content-Encoding" "gzip", hdr "Content-Length" "5"], L "hello"⟩ }
/-- F-C41g: a response without Content-Length gains one -/
def clFlow : Flow := { okFlow with resp := ⟨v11, [hdr "Server" "x"], L "hello"⟩ }
/-- F-C41d: a Host header that is not host[:port] of the URL is overwritten -/
def hostFlow : Flow := { okFlow with req := { okFlow.req with hdrs := [hdr "Host" "EXAMPLE.com:80"] } }

def refutes (f : Flow) : Bool :=
  match roundtrip toyLib toyJson [f] with
  | some [f'] => !same toyLib f f'
  | _ => true

private theorem refute_of {f : Flow} (h : refutes f = true) : ¬ ImportExportPreserves := by
  intro hp
  obtain ⟨fs', h1, h2⟩ := hp _ toyLib toyJson toyLaws toyJsonLaw [f]
  unfold refutes at h
  rw [h1] at h
  cases h2 with
  | cons hab hr =>
    cases hr
    simp [hab] at h

/-- **counter-example** to the full statement (F-C41a, HTTP version) -/
theorem import_export_preserves_counterexample : ¬ ImportExportPreserves :=
  refute_of (f := h2Flow) (by decide +kernel)

/-- further witnesses: each guard conjunct excludes flows on which the full comparison really fails -/
theorem import_export_preserves_counterexample_coding : refutes ceFlow = true ∧ gNoCE ceFlow = false := by decide +kernel
theorem import_export_preserves_counterexample_length : refutes clFlow = true ∧ gRespCL clFlow = false := by decide +kernel
theorem import_export_preserves_counterexample_host : refutes hostFlow = true ∧ gHost toyLib hostFlow = false := by decide +kernel

/-! ### round 3: the mitmproxy-side helpers are transcribed (`Model/C41_Lib.lean`), only CPython primitives remain parameters -/

/-- the laws, stated on the primitives -/
structure PrimLaws (p : Prim) : Prop where
  senc_sdec : ∀ b, p.senc (p.sdec b) = some b
  sdec_ascii : ∀ b : Bytes, (∀ x ∈ b, x.toNat < 128) → p.sdec b = b
  method_rt : ∀ m, ∃ m', p.senc (p.upper (p.sdec m)) = some m' ∧ p.upper (p.sdec m') = p.upper (p.sdec m)
  b64 : ∀ b, p.b64dec (p.b64enc b) = some b

theorem laws_of_prim {p : Prim} (h : PrimLaws p) : Laws (mkLib p) :=
  ⟨h.senc_sdec, h.sdec_ascii, h.method_rt, h.b64⟩

/-- **the round trip with `is_mostly_bin`, `infer_content_encoding`, `parse_content_type`/`assemble_content_type`
and set_text's Content-Type rewrite inside the model**: only the text codecs, base64, content codings, str
primitives, three regex searches, the URL library and JSON are parameters. -/
theorem import_export_preserves_transcribed {J : Type} (p : Prim) (js : Json J) (pl : PrimLaws p) (jl : JsonLaw js)
    (fs : List Flow) (hg : ∀ f ∈ fs, guardAll (mkLib p) f = true) :
    ∃ fs', roundtrip (mkLib p) js fs = some fs' ∧ InOrder (fun f f' => same (mkLib p) f f' = true) fs fs' :=
  import_export_preserves_guarded (mkLib p) js (laws_of_prim pl) jl fs hg

/-- no byte-order mark at the start of the content -/
def noBom (c : Bytes) : Bool :=
  !(startsWith c [0x00, 0x00, 0xfe, 0xff] || startsWith c [0xff, 0xfe, 0x00, 0x00] || startsWith c [0xfe, 0xff]
    || startsWith c [0xff, 0xfe] || startsWith c [0xef, 0xbb, 0xbf])

private theorem declared_noBom (p : Prim) (ct : Text) (c : Bytes) (hb : noBom c = true) :
    declaredCharset p ct c = declaredCharset p ct [] := by
  simp only [noBom, Bool.not_eq_true', Bool.or_eq_false_iff] at hb
  obtain ⟨⟨⟨⟨h1, h2⟩, h3⟩, h4⟩, h5⟩ := hb
  have e : ∀ pre : Bytes, pre ≠ [] → startsWith [] pre = false := by
    intro pre hp; cases pre with
    | nil => exact absurd rfl hp
    | cons a r => rfl
  simp [declaredCharset, h1, h2, h3, h4, h5, e]

/-- F-C41f/h characterised, part 1: when the header names a charset and the body has no BOM, the exporter's
content sniffing cannot disagree with the importer's header-only inference -/
theorem infer_header_charset (p : Prim) (ct : Text) (c : Bytes) (hb : noBom c = true)
    (hc : declaredCharset p ct [] ≠ []) : inferT p ct c = inferT p ct [] := by
  have h1 := declared_noBom p ct c hb
  unfold inferT
  simp [orElse, h1, hc]

/-- part 2: without a BOM, sniffing only matters for html, xml and css content types -/
theorem infer_no_sniff (p : Prim) (ct : Text) (c : Bytes) (hb : noBom c = true)
    (hh : isInfix (L "html") ct = false) (hx : isInfix (L "xml") ct = false) (hs : isInfix (L "text/css") ct = false) :
    inferT p ct c = inferT p ct [] := by
  have h1 := declared_noBom p ct c hb
  unfold inferT
  simp [orElse, h1, hh, hx, hs]

/-- the response-text conjunct of the guard follows from: no Content-Encoding, sniffing-independent charset,
and the charset codec round-tripping this body -/
theorem gRespText_of_roundtrip (lib : Lib) (f : Flow) (t : Text)
    (hce : hcontains f.resp.hdrs kCE = false)
    (hi : lib.infer (ctOf lib f.resp) f.resp.body = lib.infer (ctOf lib f.resp) [])
    (hd : lib.csDec (lib.infer (ctOf lib f.resp) []) f.resp.body = some t)
    (he : lib.csEnc (lib.infer (ctOf lib f.resp) []) t = some f.resp.body) : gRespText lib f = true := by
  have hc : getContent lib f.resp = f.resp.body := getContent_noCE lib hce
  have ht : getText lib f.resp = t := by
    unfold getText; simp only [hc, hi, hd]
  simp [gRespText, ht, importText, he]

/-- likewise for the request text of a POST/PUT/PATCH -/
theorem gReqText_of_roundtrip (lib : Lib) (f : Flow) (t : Text)
    (hce : hcontains f.req.hdrs kCE = false)
    (hi : lib.infer (ctOf lib f.req) f.req.body = lib.infer (ctOf lib f.req) [])
    (hd : lib.csDec (lib.infer (ctOf lib f.req) []) f.req.body = some t)
    (he : lib.csEnc (lib.infer (ctOf lib f.req) []) t = some f.req.body)
    (hbm : isBodyMethod (methodOf lib f.method) = true) : gReqText lib f = true := by
  have hc : getContent lib f.req = f.req.body := getContent_noCE lib hce
  have ht : getText lib f.req = t := by
    unfold getText; simp only [hc, hi, hd]
  simp [gReqText, postText, hbm, ht, he]

private theorem cutText_mem (s : Bytes) : ∀ x ∈ cutText s, x ∈ s := by
  intro x hx
  unfold cutText at hx
  split at hx
  · split at hx <;> exact List.mem_of_mem_take hx
  · exact hx

private theorem cutText_ne_nil (s : Bytes) (h : s ≠ []) : cutText s ≠ [] := by
  unfold cutText
  split
  · split
    · rename_i cut hf
      have hm := List.mem_of_find?_eq_some hf
      have h100 : 100 ≤ cut := by
        have := List.mem_range'_1.mp hm; omega
      intro e
      rcases List.take_eq_nil_iff.mp e with c | c
      · omega
      · exact h c
    · intro e
      rcases List.take_eq_nil_iff.mp e with c | c
      · omega
      · exact h c
  · exact h

/-- `is_mostly_bin` never sends a body of printable ASCII (and TAB/LF/CR…) to base64: such bodies take the text path -/
theorem mostlyBin_printable (p : Prim) (s : Bytes) (h : ∀ x ∈ s, isLow x = false ∧ isHigh x = false) :
    mostlyBinT p s = false := by
  unfold mostlyBinT
  by_cases e : s = []
  · simp [e]
  · have hl : (cutText s).countP isLow = 0 := List.countP_eq_zero.mpr (fun x hx => by simp [(h x (cutText_mem s x hx)).1])
    have hh : (cutText s).countP isHigh = 0 := List.countP_eq_zero.mpr (fun x hx => by simp [(h x (cutText_mem s x hx)).2])
    have hn : (cutText s).length > 0 := List.length_pos_iff.mpr (cutText_ne_nil s e)
    simp only [e, if_false, hl, hh, Nat.sub_zero]
    have : 10 * (cutText s).length > 7 * (cutText s).length := by omega
    simp [this]


/-! ### round 4: the URL library is transcribed too (`Model/C41_Url.lean`, over the C33 model of `mitmproxy.net.http.url`) -/

section url
open MitmVerif.C33 (Str)

private theorem toStrF_toText_ascii : ∀ (s : Str) (f : Nat), (∀ c ∈ s, c < 128) → s.length ≤ f → toStrF f (toText s) = s := by
  intro s
  induction s with
  | nil => intro f _ _; cases f <;> rfl
  | cons c r ih =>
    intro f hs hf
    cases f with
    | zero => simp at hf
    | succ f' =>
      have hc : c < 128 := hs c (List.mem_cons_self)
      have e : toText (c :: r) = UInt8.ofNat c :: toText r := by
        simp [toText, utf8Enc1, hc]
      have hn : (UInt8.ofNat c).toNat = c := by
        simp [UInt8.toNat_ofNat]; omega
      rw [e]
      simp only [toStrF, hn, hc, if_true]
      rw [ih f' (fun x hx => hs x (List.mem_cons_of_mem _ hx)) (by simpa using hf)]

private theorem toText_length_ascii (s : Str) (h : ∀ c ∈ s, c < 128) : (toText s).length = s.length := by
  induction s with
  | nil => rfl
  | cons c r ih =>
    have hc : c < 128 := h c (List.mem_cons_self)
    have e : toText (c :: r) = UInt8.ofNat c :: toText r := by simp [toText, utf8Enc1, hc]
    rw [e]; simp [ih (fun x hx => h x (List.mem_cons_of_mem _ hx))]

/-- on ASCII strings the two representations of a Python `str` coincide -/
theorem toStr_toText_ascii (s : Str) (h : ∀ c ∈ s, c < 128) : toStr (toText s) = s := by
  unfold toStr
  exact toStrF_toText_ascii s _ h (by rw [toText_length_ascii s h]; exact Nat.le_refl _)

/-- `url.parse` only accepts ASCII URLs -/
theorem urlParse_ascii (P : C33.UrlLib) (u : Str) (q : Str × Str × Nat × Str) (h : C33.urlParse P u = some q) :
    ∀ c ∈ u, c < 128 := by
  unfold C33.urlParse at h
  by_cases ha : u.any (fun c => decide (c ≥ 128)) = true
  · cases h1 : P.split u with
    | none => simp [h1] at h
    | some t =>
      obtain ⟨sc, nl, full⟩ := t
      simp only [h1] at h
      cases h2 : C33.hostname nl with
      | none => simp [h2] at h
      | some hn =>
        simp only [h2] at h
        cases h3 : P.idnaRt hn with
        | none => simp [h3] at h
        | some hd => simp [h3, ha] at h
  · intro c hc
    have : ¬ (c ≥ 128) := by
      intro hge
      exact ha (List.any_eq_true.mpr ⟨c, hc, by simpa using hge⟩)
    omega

/-- the request the URL getter renders (C33): `url r = scheme://hostport/path` -/
private theorem url_form (r : C33.Req) (hm : r.method.map C33.upperC ≠ C33.S "CONNECT") (hs : r.path.head? = some 47) :
    C33.url r = C33.unparse r.scheme r.host r.port r.path := by
  have : r.path ≠ [42] := by intro e; rw [e] at hs; simp at hs
  unfold C33.url; simp [hm, this]

/-- **F-C41c as a theorem (1)**: for a request whose URL is `scheme://host[:port]/path` with http/https, a lower-case ASCII
host, a port in 1…65535 and an ASCII path (`GetterUrlOk` of C33), `Request.make(url=…)` parses it and would write exactly
`hostport(scheme, host, port)` into the Host header -/
theorem urlHostport_getter (U : UrlPrim) (r : C33.Req) (ok : MitmVerif.Props.C33.GetterUrlOk (pyOf U) r) :
    urlHostportT U (toText (C33.url r)) = some (toText (C33.hostport r.scheme r.host r.port)) := by
  have hp := MitmVerif.Props.C33.url_parse_reads_getter_url (pyOf U) r ok
  have ha := urlParse_ascii _ _ _ hp
  unfold urlHostportT parseUrl
  rw [toStr_toText_ascii _ ha, hp]; rfl

private theorem prettyPort_portOpt (s : Str) (p : Nat) (hp : 1 ≤ p) :
    prettyPort s (MitmVerif.Props.C33.portOpt s p) = p := by
  unfold prettyPort MitmVerif.Props.C33.portOpt
  by_cases hd : C33.defaultPort s = some p
  · simp [hd]
  · have : p ≠ 0 := by omega
    simp [hd, this]

/-- **F-C41c as a theorem (2)**: the imported request shows the same URL, whether it has no Host header, an empty one, or
the canonical `host[:port]` one -/
theorem urlPretty_getter (U : UrlPrim) (r : C33.Req) (ok : MitmVerif.Props.C33.GetterUrlOk (pyOf U) r) (h : Option Text)
    (hh : h = none ∨ h = some [] ∨
      (h = some (toText (C33.hostport r.scheme r.host r.port)) ∧ U.validAuthHost r.host = true)) :
    urlPrettyT U (toText (C33.url r)) h = toText (C33.url r) := by
  have hp := MitmVerif.Props.C33.url_parse_reads_getter_url (pyOf U) r ok
  have ha := urlParse_ascii _ _ _ hp
  have hform := url_form r ok.notConnect ok.pathSlash
  have hne42 : r.path ≠ [42] := by intro e; have := ok.pathSlash; rw [e] at this; simp at this
  unfold urlPrettyT parseUrl
  rw [toStr_toText_ascii _ ha, hp]
  simp only [hne42, if_false]
  rcases hh with rfl | rfl | ⟨rfl, hv⟩
  · simp [hform]
  · simp [hform]
  · -- hostport is ASCII (it is part of the URL) and non-empty
    have hsub : ∀ c ∈ C33.hostport r.scheme r.host r.port, c < 128 := by
      intro c hc
      apply ha c
      rw [hform]; unfold C33.unparse
      simp [hc]
    have hne : toText (C33.hostport r.scheme r.host r.port) ≠ [] := by
      intro e
      have hl := toText_length_ascii _ hsub
      rw [e] at hl
      have h0 : C33.hostport r.scheme r.host r.port = [] := List.eq_nil_of_length_eq_zero hl.symm
      have hb : C33.bracket r.host ≠ [] := by
        unfold C33.bracket; split
        · simp
        · exact ok.host.shape.1
      unfold C33.hostport at h0
      split at h0
      · exact hb h0
      · simp at h0
    have hpa := MitmVerif.Props.C33.parseAuthority_hostport U.validAuthHost r.scheme r.host r.port ok.host.shape hv ok.port.2
    simp only [hne, if_false, toStr_toText_ascii _ hsub, C33.parseAuthorityLoose, hpa, Option.getD_some,
      prettyPort_portOpt r.scheme r.port ok.port.1, hform]

/-- **the URL/Host conjuncts of the guard are theorems** for the library with the URL functions transcribed: if the
flow's `pretty_url` is the rendering of a well-formed request (C33 `GetterUrlOk`) and its Host field is absent or is
exactly `host[:port]`, then `gUrlParse`, `gUrl` and `gHost` hold (F-C41c/d cannot occur). -/
theorem url_guards_of_getter (p : Prim) (U : UrlPrim) (f : Flow) (r : C33.Req)
    (ok : MitmVerif.Props.C33.GetterUrlOk (pyOf U) r)
    (hm : gMethod (mkLibU p U) f = true)
    (hu : f.purl = toText (C33.url r))
    (hh : fieldsOf f.req.hdrs kHost = [] ∨
      (∃ hpB, fieldsOf f.req.hdrs kHost = [hpB] ∧ p.senc (toText (C33.hostport r.scheme r.host r.port)) = some hpB ∧
        p.sdec hpB = toText (C33.hostport r.scheme r.host r.port) ∧ U.validAuthHost r.host = true)) :
    gUrlParse (mkLibU p U) f = true ∧ gUrl (mkLibU p U) f = true ∧ gHost (mkLibU p U) f = true := by
  have hmeth : methodOf (mkLibU p U) f.method ≠ L "CONNECT" := by simpa [gMethod] using hm
  have heu : exportUrl (mkLibU p U) f = toText (C33.url r) := by simp [exportUrl, hmeth, hu]
  have h1 := urlHostport_getter U r ok
  have e1 : (mkLibU p U).urlHostport = urlHostportT U := rfl
  have e2 : (mkLibU p U).urlPretty = urlPrettyT U := rfl
  have e3 : (mkLibU p U).senc = p.senc := rfl
  have e4 : (mkLibU p U).sdec = p.sdec := rfl
  refine ⟨by simp [gUrlParse, heu, e1, h1], ?_, ?_⟩
  · rcases hh with h0 | ⟨hpB, hf, _, hsd, hv⟩
    · have : hget (mkLibU p U) f.req.hdrs kHost = none := by unfold hget; rw [h0]
      have h2 := urlPretty_getter U r ok none (Or.inl rfl)
      simp [gUrl, heu, e2, this, h2, hu]
    · have : hget (mkLibU p U) f.req.hdrs kHost = some (toText (C33.hostport r.scheme r.host r.port)) := by
        unfold hget; rw [hf]; simp [joinCS, e4, hsd]
      have h2 := urlPretty_getter U r ok _ (Or.inr (Or.inr ⟨rfl, hv⟩))
      simp [gUrl, heu, e2, this, h2, hu]
  · rcases hh with h0 | ⟨hpB, hf, hse, _, _⟩
    · have hc : hcontains f.req.hdrs kHost = false := not_contains_iff.mpr h0
      simp [gHost, heu, e1, h1, hc]
    · have hc : hcontains f.req.hdrs kHost = true := by unfold hcontains; rw [hf]; rfl
      simp [gHost, heu, e1, h1, hc, e3, hse, hf]

/-- the guarded round trip with the URL library inside the model as well: the parameters left are the text codecs,
str primitives, UTF-8 validity, base64, content codings, three regex searches, `_check_bracketed_host`, the IDNA codec,
`is_valid_host` and JSON -/
theorem import_export_preserves_url_transcribed {J : Type} (p : Prim) (U : UrlPrim) (js : Json J) (pl : PrimLaws p)
    (jl : JsonLaw js) (fs : List Flow) (hg : ∀ f ∈ fs, guardAll (mkLibU p U) f = true) :
    ∃ fs', roundtrip (mkLibU p U) js fs = some fs' ∧ InOrder (fun f f' => same (mkLibU p U) f f' = true) fs fs' :=
  import_export_preserves_guarded (mkLibU p U) js ⟨pl.senc_sdec, pl.sdec_ascii, pl.method_rt, pl.b64⟩ jl fs hg

end url

/-- a concrete primitive set for non-vacuity (identity codecs) -/
def toyPrim : Prim where
  sdec := id
  senc := some
  upper := asciiUpper
  lower := asciiLower
  strip := fun s => ((s.dropWhile (· == 32)).reverse.dropWhile (· == 32)).reverse
  b64enc := id
  b64dec := some
  utf8Valid := fun b => b.all (fun x => x.toNat < 128)
  ceDec := fun _ b => some b
  ceEnc := fun _ b => some b
  csDec := fun _ b => some b
  csEnc := fun _ t => some t
  reMeta := fun _ => none
  reXml := fun _ => none
  reCss := fun _ => none
  urlHostport := fun _ => some (L "example.com")
  urlPretty := fun u _ => u

theorem toyPrimLaws : PrimLaws toyPrim where
  senc_sdec := fun _ => rfl
  sdec_ascii := fun _ _ => rfl
  method_rt := fun m => ⟨asciiUpper m, rfl, asciiUpper_idem m⟩
  b64 := fun _ => rfl

/-- the transcriptions compute what the Python functions return on familiar inputs -/
example : inferT toyPrim (L "text/html; charset=GBK") [] = L "gb18030" := by decide +kernel
example : inferT toyPrim (L "application/json") (L "{}") = L "utf8" := by decide +kernel
example : inferT toyPrim (L "image/png") (L "x") = L "latin-1" := by decide +kernel
example : inferT toyPrim (L "text/plain; charset=utf-8") [0xff, 0xfe, 0x41, 0x00] = L "utf-16le" := by decide +kernel
example : ctUtf8T toyPrim (L "text/plain; charset=bogus; x=1") = L "text/plain; charset=utf-8; x=1" := by decide +kernel
example : ctUtf8T toyPrim (L "nonsense") = L "text/plain; charset=utf-8" := by decide +kernel
example : mostlyBinT toyPrim [0x00, 0x01, 0x02, 0x41] = true := by decide +kernel
example : mostlyBinT toyPrim (L "hello world") = false := by decide +kernel
/-- the guarded class is inhabited under the transcribed library too, and an HTTP/2 flow is still outside it -/
example : guardAll (mkLib toyPrim) okFlow = true := by decide +kernel
example : guardAll (mkLib toyPrim) h2Flow = false := by decide +kernel

/-- CPython answers for non-vacuity: every bracketed literal / host accepted, IDNA leaves names alone -/
def toyUrl : UrlPrim := ⟨fun _ => true, some, fun _ => true, fun _ => true⟩

def toyReq : C33.Req :=
  { h2 := false, method := C33.S "POST", scheme := C33.S "http", host := C33.S "example.com", port := 8080,
    path := C33.S "/a;p?x=1", hostHeader := none, authority := [] }

/-- the hypotheses of the URL theorems are satisfiable … -/
example : MitmVerif.Props.C33.GetterUrlOk (pyOf toyUrl) toyReq where
  notConnect := by decide +kernel
  scheme := Or.inl rfl
  host := ⟨⟨by decide +kernel, by decide +kernel, by decide +kernel, by decide +kernel⟩, by decide +kernel,
           by decide +kernel, by decide +kernel⟩
  port := by decide
  pathSlash := by decide +kernel
  pathAscii := by decide +kernel
  bracketedOk := fun _ => rfl
  idnaAscii := rfl
  hostValid := rfl
  restStable := by decide +kernel

/-- … and the transcription computes what the Python functions return -/
example : urlHostportT toyUrl (L "http://Example.COM:8080/a;p?x=1") = some (L "example.com:8080") := by decide +kernel
example : urlHostportT toyUrl (L "https://example.com:443/") = some (L "example.com") := by decide +kernel
example : urlHostportT toyUrl (L "http://example.com/" ++ [0xc3, 0xa9]) = none := by decide +kernel
example : urlPrettyT toyUrl (L "http://10.0.0.1:8080/x") (some (L "example.com")) = L "http://example.com/x" := by decide +kernel
example : urlPrettyT toyUrl (L "http://10.0.0.1:8080/x") none = L "http://10.0.0.1:8080/x" := by decide +kernel
example : guardAll (mkLibU toyPrim toyUrl) { okFlow with purl := L "http://example.com/a?x=1" } = true := by decide +kernel
/-- F-C41d inside the transcribed library: `Host: example.com:80` is not what hostport writes -/
example : gHost (mkLibU toyPrim toyUrl) { hostFlow with purl := L "http://example.com/a" } = false := by decide +kernel

/-! ### round 5: `is_valid_host`, `_check_bracketed_host` and the IDNA fast paths are transcribed (`Model/C41_Host.lean`,
over `C13.validHostT` and `C22.parseIp`); for DNS-name hosts no library hypothesis is left -/

section host
open MitmVerif.C33 (Str)

/-- a host name given as text: ASCII, no `xn--` label, labels of 1…63 DNS-label characters, at most 255 bytes
(all conditions are computable on the input) -/
structure DnsHost (h : Str) : Prop where
  nonempty : h ≠ []
  ascii : ∀ c ∈ h, c < 128
  noAce : C13.isInfix C13.acePrefix (toText h) = false
  lens : labelsLenOk (toText h) = true
  short : (toText h).length ≤ 255
  labels : (C13.splitDot (C13.stripDot (toText h))).all C13.labelValid = true

private theorem toText_cons_ascii (c : Nat) (r : Str) (hc : c < 128) : toText (c :: r) = UInt8.ofNat c :: toText r := by
  simp [toText, utf8Enc1, hc]

private theorem toText_bytes_ascii : ∀ (s : Str), (∀ c ∈ s, c < 128) → ∀ b ∈ toText s, b.toNat < 128 := by
  intro s
  induction s with
  | nil => intro _ b hb; simp [toText] at hb
  | cons c r ih =>
    intro hs b hb
    have hc : c < 128 := hs c (List.mem_cons_self)
    rw [toText_cons_ascii c r hc] at hb
    rcases List.mem_cons.mp hb with rfl | hb
    · simp [UInt8.toNat_ofNat]; omega
    · exact ih (fun x hx => hs x (List.mem_cons_of_mem _ hx)) b hb

/-- **the IDNA round trip and `is_valid_host` for a DNS name, computed**: `hostname.encode("idna").decode("idna")` gives
the name back and `is_valid_host` accepts it — formerly the C33 hypotheses `idnaAscii` and `hostValid` -/
theorem dns_host_lib_facts (H : HostPrim) (h : Str) (d : DnsHost h) :
    idnaRtT H h = some h ∧ validHostU H h = true := by
  have hasc : isAsciiStr h = true := by
    unfold isAsciiStr; rw [List.all_eq_true]; intro c hc; simpa using d.ascii c hc
  have henc : idnaEncodeT H h = some (toText h) := by
    unfold idnaEncodeT; simp [d.nonempty, hasc, d.lens]
  have hall : (toText h).all (fun b => decide (b.toNat < 128)) = true := by
    rw [List.all_eq_true]; intro b hb; simpa using toText_bytes_ascii h d.ascii b hb
  have htxt : C13.idnaText (idnaLibOf H) (toText h) = some (toText h) := by
    unfold C13.idnaText; simp [d.noAce, hall]
  constructor
  · unfold idnaRtT; rw [henc]; simp [htxt, toStr_toText_ascii h d.ascii]
  · unfold validHostU; rw [henc]
    have hidn : C13.idnaOk (C13.hostLibOf (idnaLibOf H)) (toText h) = true := by
      unfold C13.idnaOk; simp [d.noAce, hall]
    have hlen : ¬ (255 < (toText h).length) := by have := d.short; omega
    show C13.validHost (C13.hostLibOf (idnaLibOf H)) (toText h) = true
    unfold C13.validHost
    simp [hidn, hlen, d.labels]

/-- C33's `GetterUrlOk` for a request to a DNS-name host over the transcribed library: only input properties are left -/
theorem getterUrlOk_of_dns (H : HostPrim) (r : C33.Req)
    (hm : r.method.map C33.upperC ≠ C33.S "CONNECT") (hs : r.scheme = C33.S "http" ∨ r.scheme = C33.S "https")
    (hk : MitmVerif.Props.C33.HostOk r.host) (d : DnsHost r.host) (hcolon : 58 ∉ r.host)
    (hport : 1 ≤ r.port ∧ r.port ≤ 65535) (hslash : r.path.head? = some 47)
    (hpath : ∀ c ∈ r.path, c < 128 ∧ c ≠ 9 ∧ c ≠ 10 ∧ c ≠ 13) (hrest : C33.normRestPy r.scheme r.path = r.path) :
    MitmVerif.Props.C33.GetterUrlOk (pyOf (urlPrimOf H)) r where
  notConnect := hm
  scheme := hs
  host := hk
  port := hport
  pathSlash := hslash
  pathAscii := hpath
  bracketedOk := fun h58 => absurd h58 hcolon
  idnaAscii := (dns_host_lib_facts H r.host d).1
  hostValid := (dns_host_lib_facts H r.host d).2
  restStable := hrest

/-- **F-C41c/d excluded without any library hypothesis**: a flow whose `pretty_url` renders `scheme://name[:port]/path`
(http/https, lower-case DNS name, port 1…65535, ASCII path stable under urlunparse) and whose Host field is absent or
exactly `name[:port]` satisfies the URL, URL-parse and Host conjuncts of the guard, for every choice of the remaining
primitives (text codecs, IDNA slow path). -/
theorem url_guards_of_dns_name (p : Prim) (H : HostPrim) (f : Flow) (r : C33.Req)
    (hm : r.method.map C33.upperC ≠ C33.S "CONNECT") (hs : r.scheme = C33.S "http" ∨ r.scheme = C33.S "https")
    (hk : MitmVerif.Props.C33.HostOk r.host) (d : DnsHost r.host) (hcolon : 58 ∉ r.host)
    (hport : 1 ≤ r.port ∧ r.port ≤ 65535) (hslash : r.path.head? = some 47)
    (hpath : ∀ c ∈ r.path, c < 128 ∧ c ≠ 9 ∧ c ≠ 10 ∧ c ≠ 13) (hrest : C33.normRestPy r.scheme r.path = r.path)
    (hmeth : gMethod (mkLibH p H) f = true) (hu : f.purl = toText (C33.url r))
    (hh : fieldsOf f.req.hdrs kHost = [] ∨
      (∃ hpB, fieldsOf f.req.hdrs kHost = [hpB] ∧ p.senc (toText (C33.hostport r.scheme r.host r.port)) = some hpB ∧
        p.sdec hpB = toText (C33.hostport r.scheme r.host r.port))) :
    gUrlParse (mkLibH p H) f = true ∧ gUrl (mkLibH p H) f = true ∧ gHost (mkLibH p H) f = true := by
  have ok := getterUrlOk_of_dns H r hm hs hk d hcolon hport hslash hpath hrest
  have hv : (urlPrimOf H).validAuthHost r.host = true := (dns_host_lib_facts H r.host d).2
  apply url_guards_of_getter p (urlPrimOf H) f r ok hmeth hu
  rcases hh with h0 | ⟨hpB, a, b, c⟩
  · exact Or.inl h0
  · exact Or.inr ⟨hpB, a, b, c, hv⟩

/-- the guarded round trip over the library with the host checks inside the model: parameters left are the text codecs,
str primitives, UTF-8 validity, base64, content codings, three regex searches, the IDNA slow path and JSON -/
theorem import_export_preserves_host_transcribed {J : Type} (p : Prim) (H : HostPrim) (js : Json J) (pl : PrimLaws p)
    (jl : JsonLaw js) (fs : List Flow) (hg : ∀ f ∈ fs, guardAll (mkLibH p H) f = true) :
    ∃ fs', roundtrip (mkLibH p H) js fs = some fs' ∧ InOrder (fun f f' => same (mkLibH p H) f f' = true) fs fs' :=
  import_export_preserves_url_transcribed p (urlPrimOf H) js pl jl fs hg

/-- IDNA slow path that fails on everything: never asked for names without `xn--` / non-ASCII characters -/
def noHostPrim : HostPrim := ⟨fun _ => none, fun _ => none⟩

example : DnsHost (C33.S "example.com") :=
  ⟨by decide +kernel, by decide +kernel, by decide +kernel, by decide +kernel, by decide +kernel, by decide +kernel⟩
example : validBracketedT (C33.S "::1") = true ∧ validBracketedT (C33.S "1.2.3.4") = false ∧
    validBracketedT (C33.S "vF.a:b") = true ∧ validBracketedT (C33.S "v.x") = false ∧
    validBracketedT (C33.S "fe80::1%eth0") = true := by decide +kernel
example : validHostU noHostPrim (C33.S "a_b.example.") = true ∧ validHostU noHostPrim (C33.S "a..b") = false ∧
    validHostU noHostPrim (C33.S "exa mple.com") = false ∧ validHostU noHostPrim (C33.S "192.0.2.7") = true := by decide +kernel
example : guardAll (mkLibH toyPrim noHostPrim) { okFlow with purl := L "http://example.com/a?x=1" } = true := by decide +kernel
example : urlHostportT (urlPrimOf noHostPrim) (L "http://[::1]:8080/x") = some (L "[::1]:8080") := by decide +kernel
example : urlHostportT (urlPrimOf noHostPrim) (L "http://[1.2.3.4]/x") = none := by decide +kernel

end host

/-! ### audit round 6 (cross-audit by b-c36): witnesses that the guarded round-trip theorems are not vacuous on a list of
    two DIFFERENT flows, and that their conclusion really is the field-by-field agreement (computed, not just implied) -/
/-- a GET without body next to `okFlow`'s POST -/
def okGet : Flow :=
  { method := L "GET", purl := L "http://example.com/b"
    req := ⟨v3, [hdr "Host" "example.com", hdr "Accept" "*/*"], []⟩
    status := 404
    resp := ⟨v11, [hdr "Server" "x", hdr "Content-Length" "2"], L "no"⟩ }
example : guardAll toyLib okGet = true ∧ okGet ≠ okFlow := by decide +kernel
example : (∀ f ∈ [okFlow, okGet], guardAll toyLib f = true) := by decide +kernel
example : (match roundtrip toyLib toyJson [okFlow, okGet] with
    | some [a, b] => same toyLib okFlow a && same toyLib okGet b && !(same toyLib okFlow b)
    | _ => false) = true := by decide +kernel
-- the same two flows over the library with the transcribed helpers
example : (∀ f ∈ [okFlow, okGet], guardAll (mkLib toyPrim) f = true) := by decide +kernel

/-! ### round 6 (owner fixes): a Lean refutation for each remaining guard conjunct (b, c, f, h), so that "the guard excludes
exactly the recorded classes" rests on theorems: every conjunct is individually necessary -/

section conjuncts

/-- `refutes` for an arbitrary library -/
def refutesWith (lib : Lib) (f : Flow) : Bool :=
  match roundtrip lib toyJson [f] with
  | some [f'] => !same lib f f'
  | _ => true

private theorem refuteWith_of {lib : Lib} (laws : Laws lib) {f : Flow} (h : refutesWith lib f = true) :
    ¬ ImportExportPreserves := by
  intro hp
  obtain ⟨fs', h1, h2⟩ := hp _ lib toyJson laws toyJsonLaw [f]
  unfold refutesWith at h
  rw [h1] at h
  cases h2 with
  | cons hab hr =>
    cases hr
    simp [hab] at h

/-- a library whose URL parser rejects everything (an IDN / non-ASCII URL for the real one) -/
def noUrlLib : Lib := { toyLib with urlHostport := fun _ => none }
/-- a library whose charset encoder is not the inverse of its decoder (content sniffing, BOMs, undecodable bytes for the real one) -/
def lossyLib : Lib := { toyLib with csEnc := fun _ t => some (t.map fun _ => 0x3f) }

theorem noUrlLaws : Laws noUrlLib := ⟨toyLaws.senc_sdec, toyLaws.sdec_ascii, toyLaws.method_rt, toyLaws.b64⟩
theorem lossyLaws : Laws lossyLib := ⟨toyLaws.senc_sdec, toyLaws.sdec_ascii, toyLaws.method_rt, toyLaws.b64⟩

/-- F-C41b: a CONNECT flow comes back with an empty URL -/
def connectFlow : Flow := { okFlow with method := L "connect" }

theorem import_export_preserves_counterexample_connect :
    refutes connectFlow = true ∧ gMethod toyLib connectFlow = false ∧ ¬ ImportExportPreserves :=
  ⟨by decide +kernel, by decide +kernel, refute_of (f := connectFlow) (by decide +kernel)⟩

/-- F-C41c: a URL the importer cannot parse loses the whole file -/
theorem import_export_preserves_counterexample_urlparse :
    refutesWith noUrlLib okFlow = true ∧ gUrlParse noUrlLib okFlow = false ∧ ¬ ImportExportPreserves :=
  ⟨by decide +kernel, by decide +kernel, refuteWith_of noUrlLaws (f := okFlow) (by decide +kernel)⟩

/-- F-C41f: a POST body whose text does not re-encode to the same bytes is changed -/
theorem import_export_preserves_counterexample_reqtext :
    refutesWith lossyLib okFlow = true ∧ gReqText lossyLib okFlow = false ∧ ¬ ImportExportPreserves :=
  ⟨by decide +kernel, by decide +kernel, refuteWith_of lossyLaws (f := okFlow) (by decide +kernel)⟩

/-- F-C41h: the same for a response body exported as text (a GET, so that only the response side is concerned) -/
def getFlow : Flow := { okFlow with method := L "GET", req := ⟨v11, [hdr "Host" "example.com"], []⟩ }

theorem import_export_preserves_counterexample_resptext :
    refutesWith lossyLib getFlow = true ∧ gRespText lossyLib getFlow = false ∧ gReqText lossyLib getFlow = true ∧
      ¬ ImportExportPreserves :=
  ⟨by decide +kernel, by decide +kernel, by decide +kernel, refuteWith_of lossyLaws (f := getFlow) (by decide +kernel)⟩

end conjuncts

end MitmVerif.Props.C41
