/-
  C42 — filter expressions mean what the documented grammar says.

  `Renders t s` (Model/C42_Spec.lean): `s` is one of the documented ways of writing the tree `t` — any white space
  in front of any token, redundant parentheses anywhere, a conjunction by `&` or by juxtaposition, arguments
  unquoted or quoted with escapes, leading zeros.  `parse compiles s` (Model/C42.lean) is the model of
  `flowfilter.parse` (pyparsing grammar transcribed; `none` = ValueError); `eval sem t f` is the verdict of the
  tree on a flow, the leaves' verdicts `sem` and the regex compiler `compiles` being parameters.

  Every theorem is for ALL trees, layouts, flows, regex engines: induction over the concrete syntax
  (Lemmas/C42.lean, `main` / `mainL`), no bounds.
-/
import MitmVerif.Lemmas.C42
import MitmVerif.Lemmas.C42Print
import MitmVerif.Model.C42_Body
import MitmVerif.Model.C42_Leaf
import MitmVerif.Lemmas.C42Fuel
namespace MitmVerif.Props.C42
open MitmVerif.C42

private theorem allWs_cond {w : Str} (hw : AllWs w) (b : Bool) : Cond 4 b w := by
  have hs := skipWs_allWs hw
  have hcl : Closed w := Or.inl hs
  refine ⟨⟨?_, fun _ => ?_⟩, fun _ => closed_noOp hcl _ (by decide), fun _ => closed_noOp hcl _ (by decide), fun _ => hcl⟩
  · cases w with
    | nil => trivial
    | cons c w => exact Or.inl hw.1
  · cases w with
    | nil => trivial
    | cons c w => exact Or.inl hw.1

private theorem level_le_four (e : C) : e.level ≤ 4 := by
  cases e with
  | atom _ _ => simp [C.level]
  | group _ _ _ => simp [C.level]
  | not _ _ => simp [C.level]
  | chain k _ _ => exact (kind_level k).2

/-- Every documented way of writing a tree is read back as exactly that tree (class of every node, n-ary nesting,
arguments after unquoting, numbers), before regexes are compiled. -/
theorem parse_render_struct (t : Ast) (s : Str) (h : Renders t s) : parseStruct s = some t := by
  obtain ⟨e, w, he, hw, rfl, rfl⟩ := h
  have := atLevel e he (main e he) 4 (e.render ++ w).length w (level_le_four e) (Nat.le_refl _)
    (by simp) (allWs_cond hw _)
  have h' : pExpr ((e.render ++ w).length + 1) (e.render ++ w) = some (e.ast, w) := this
  unfold parseStruct
  rw [h']
  simp [skipWs_allWs hw]

/-- `parse_render` at full strength: a documented rendering of a tree whose regexes compile is accepted and the
result IS that tree. -/
theorem parse_render_exact (compiles : Str → Str → Bool) (t : Ast) (s : Str)
    (h : Renders t s) (hc : argsOk compiles t = true) : parse compiles s = some t := by
  simp [parse, parse_render_struct t s h, hc]

/-- The property in the DESIGN's ∃-form: every expression built from the documented operators is accepted, and on every
flow its verdict is the documented one (that of the tree that was written down), whatever the leaves answer.
The content is the first conjunct, which is `parse_render_exact` (`t' = t`); the verdict conjunct is then DEFINITIONAL
(`rfl`): it adds nothing of its own - what a tree's verdict is, is said by `eval_documented` / `eval_hom` and tied by the
`px` and `lv` ops. -/
theorem parse_render (compiles : Str → Str → Bool) (t : Ast) (s : Str)
    (h : Renders t s) (hc : argsOk compiles t = true) :
    ∃ t', parse compiles s = some t' ∧
      ∀ (Flow : Type) (sem : Sem Flow) (f : Flow), eval sem t' f = eval sem t f :=
  ⟨t, parse_render_exact compiles t s h hc, fun _ _ _ => rfl⟩

/-- The only renderings of documented expressions that are refused are those with a regex that does not compile
(`_Rex.__init__` raises ValueError). -/
theorem parse_render_uncompilable (compiles : Str → Str → Bool) (t : Ast) (s : Str)
    (h : Renders t s) (hc : argsOk compiles t = false) : parse compiles s = none := by
  simp [parse, parse_render_struct t s h, hc]

/-- The documented meaning of the composite nodes: `!` negates, a conjunction holds iff all members hold,
a disjunction iff some member holds. -/
theorem eval_documented {Flow : Type} (sem : Sem Flow) (f : Flow) :
    (∀ t, eval sem (.not t) f = !eval sem t f) ∧
    (∀ l, eval sem (.and l) f = l.all (fun t => eval sem t f)) ∧
    (∀ l, eval sem (.or l) f = l.any (fun t => eval sem t f)) := by
  refine ⟨fun t => by simp [eval], fun l => ?_, fun l => ?_⟩
  · have : ∀ l : List Ast, evalAll sem l f = l.all (fun t => eval sem t f) := by
      intro l
      induction l with
      | nil => simp [evalAll]
      | cons t l ih => simp [evalAll, ih]
    simp [eval, this]
  · have : ∀ l : List Ast, evalAny sem l f = l.any (fun t => eval sem t f) := by
      intro l
      induction l with
      | nil => simp [evalAny]
      | cons t l ih => simp [evalAny, ih]
    simp [eval, this]

/-- one blank -/
private def sp : Str := [' ']
private theorem sp_ws : AllWs sp := ⟨by decide, trivial⟩

private theorem chain2_wf (kd : Kind) (a b : C) (ha : a.WF) (hb : b.WF) (la : a.level < kd.level) (lb : b.level < kd.level) :
    (C.chain kd a (.cons sp b .nil)).WF := by
  simp only [C.WF, CL.WF, CL.isNil]
  exact ⟨la, ha, trivial, sp_ws, fun _ => by simp [sp], lb, hb, trivial⟩

/-- `!` binds tighter than `&`:  `!x & y`  is  (not x) and y  — never  not (x and y). -/
theorem not_tighter_than_and (compiles : Str → Str → Bool) (x y : C) (hx : x.WF) (hy : y.WF)
    (lx : x.level ≤ 1) (ly : y.level ≤ 1)
    (cx : argsOk compiles x.ast = true) (cy : argsOk compiles y.ast = true) :
    ∃ t', parse compiles ('!' :: x.render ++ (sp ++ '&' :: y.render)) = some t' ∧
      ∀ (Flow : Type) (sem : Sem Flow) (f : Flow),
        eval sem t' f = (!eval sem x.ast f && eval sem y.ast f) := by
  have hn : (C.not [] x).WF := by simp only [C.WF]; exact ⟨trivial, lx, hx⟩
  have hwf := chain2_wf .and (.not [] x) y hn hy (by simp [C.level, Kind.level]) (by simp [Kind.level]; omega)
  have hr : Renders (.and [.not x.ast, y.ast]) ('!' :: x.render ++ (sp ++ '&' :: y.render)) :=
    ⟨_, [], hwf, trivial, by simp [C.ast, CL.asts, Kind.mk], by simp [C.render, CL.render, Kind.opStr]⟩
  refine ⟨_, parse_render_exact compiles _ _ hr (by simp [argsOk, argsOkL, cx, cy]), fun _ sem f => ?_⟩
  simp [eval, evalAll]

/-- `&` binds tighter than `|`:  `x & y | z`  is  (x and y) or z,  and  `x | y & z`  is  x or (y and z). -/
theorem and_tighter_than_or (compiles : Str → Str → Bool) (x y z : C) (hx : x.WF) (hy : y.WF) (hz : z.WF)
    (lx : x.level ≤ 1) (ly : y.level ≤ 1) (lz : z.level ≤ 1)
    (cx : argsOk compiles x.ast = true) (cy : argsOk compiles y.ast = true) (cz : argsOk compiles z.ast = true) :
    (∃ t', parse compiles (x.render ++ (sp ++ '&' :: y.render) ++ (sp ++ '|' :: z.render)) = some t' ∧
      ∀ (Flow : Type) (sem : Sem Flow) (f : Flow),
        eval sem t' f = ((eval sem x.ast f && eval sem y.ast f) || eval sem z.ast f)) ∧
    (∃ t', parse compiles (x.render ++ (sp ++ '|' :: (y.render ++ (sp ++ '&' :: z.render)))) = some t' ∧
      ∀ (Flow : Type) (sem : Sem Flow) (f : Flow),
        eval sem t' f = (eval sem x.ast f || (eval sem y.ast f && eval sem z.ast f))) := by
  have hxy := chain2_wf .and x y hx hy (by simp [Kind.level]; omega) (by simp [Kind.level]; omega)
  have hyz := chain2_wf .and y z hy hz (by simp [Kind.level]; omega) (by simp [Kind.level]; omega)
  have h1 := chain2_wf .or (.chain .and x (.cons sp y .nil)) z hxy hz (by simp [C.level, Kind.level]) (by simp [Kind.level]; omega)
  have h2 := chain2_wf .or x (.chain .and y (.cons sp z .nil)) hx hyz (by simp [Kind.level]; omega) (by simp [C.level, Kind.level])
  have r1 : Renders (.or [.and [x.ast, y.ast], z.ast]) (x.render ++ (sp ++ '&' :: y.render) ++ (sp ++ '|' :: z.render)) :=
    ⟨_, [], h1, trivial, by simp [C.ast, CL.asts, Kind.mk], by simp [C.render, CL.render, Kind.opStr]⟩
  have r2 : Renders (.or [x.ast, .and [y.ast, z.ast]]) (x.render ++ (sp ++ '|' :: (y.render ++ (sp ++ '&' :: z.render)))) :=
    ⟨_, [], h2, trivial, by simp [C.ast, CL.asts, Kind.mk], by simp [C.render, CL.render, Kind.opStr]⟩
  refine ⟨⟨_, parse_render_exact compiles _ _ r1 (by simp [argsOk, argsOkL, cx, cy, cz]), fun _ sem f => ?_⟩,
          ⟨_, parse_render_exact compiles _ _ r2 (by simp [argsOk, argsOkL, cx, cy, cz]), fun _ sem f => ?_⟩⟩
  · simp [eval, evalAll, evalAny]
  · simp [eval, evalAll, evalAny]

/-- Juxtaposition is the loosest conjunction ("the default binary operator is &", outermost):
`x y | z`  is  x and (y or z);  `x | y z`  is  (x or y) and z — also inside parentheses. -/
theorem juxtaposition_loosest (compiles : Str → Str → Bool) (x y z : C) (hx : x.WF) (hy : y.WF) (hz : z.WF)
    (lx : x.level ≤ 1) (ly : y.level ≤ 1) (lz : z.level ≤ 1)
    (cx : argsOk compiles x.ast = true) (cy : argsOk compiles y.ast = true) (cz : argsOk compiles z.ast = true) :
    (∃ t', parse compiles (x.render ++ (sp ++ (y.render ++ (sp ++ '|' :: z.render)))) = some t' ∧
      ∀ (Flow : Type) (sem : Sem Flow) (f : Flow),
        eval sem t' f = (eval sem x.ast f && (eval sem y.ast f || eval sem z.ast f))) ∧
    (∃ t', parse compiles ('(' :: (x.render ++ (sp ++ '|' :: y.render) ++ (sp ++ z.render)) ++ [')']) = some t' ∧
      ∀ (Flow : Type) (sem : Sem Flow) (f : Flow),
        eval sem t' f = ((eval sem x.ast f || eval sem y.ast f) && eval sem z.ast f)) := by
  have hyz := chain2_wf .or y z hy hz (by simp [Kind.level]; omega) (by simp [Kind.level]; omega)
  have hxy := chain2_wf .or x y hx hy (by simp [Kind.level]; omega) (by simp [Kind.level]; omega)
  have h1 := chain2_wf .juxt x (.chain .or y (.cons sp z .nil)) hx hyz (by simp [Kind.level]; omega) (by simp [C.level, Kind.level])
  have h2 := chain2_wf .juxt (.chain .or x (.cons sp y .nil)) z hxy hz (by simp [C.level, Kind.level]) (by simp [Kind.level]; omega)
  have h2g : (C.group [] (.chain .juxt (.chain .or x (.cons sp y .nil)) (.cons sp z .nil)) []).WF := by
    simp only [C.WF]; exact ⟨trivial, trivial, by simpa only [C.WF] using h2⟩
  have r1 : Renders (.and [x.ast, .or [y.ast, z.ast]]) (x.render ++ (sp ++ (y.render ++ (sp ++ '|' :: z.render)))) :=
    ⟨_, [], h1, trivial, by simp [C.ast, CL.asts, Kind.mk], by simp [C.render, CL.render, Kind.opStr]⟩
  have r2 : Renders (.and [.or [x.ast, y.ast], z.ast])
      ('(' :: (x.render ++ (sp ++ '|' :: y.render) ++ (sp ++ z.render)) ++ [')']) :=
    ⟨_, [], h2g, trivial, by simp [C.ast, CL.asts, Kind.mk], by simp [C.render, CL.render, Kind.opStr]⟩
  refine ⟨⟨_, parse_render_exact compiles _ _ r1 (by simp [argsOk, argsOkL, cx, cy, cz]), fun _ sem f => ?_⟩,
          ⟨_, parse_render_exact compiles _ _ r2 (by simp [argsOk, argsOkL, cx, cy, cz]), fun _ sem f => ?_⟩⟩
  · simp [eval, evalAll, evalAny]
  · simp [eval, evalAll, evalAny]

/-! ### non-vacuity -/

/-- a concrete rendering with odd spacing, a redundant group, a quoted argument with escapes and a naked regex
containing `|`:   `!~q &( ~h "a\"b\tc"  a|b )` -/
private def ex1 : C :=
  .chain .and (.not [] (.atom [] (.unary ['q'])))
    (.cons [' '] (.group [] (.chain .juxt
        (.atom [' '] (.rex ['h'] [' '] (.quoted '"' [.raw 'a', .esc '"', .raw 'b', .esc 't', .raw 'c'])))
        (.cons [' ', ' '] (.atom [] (.bare (.word ['a', '|', 'b']))) .nil)) [' ']) .nil)

example : ex1.WF := by
  simp [ex1, C.WF, CL.WF, CL.isNil, AtomC.WF, Arg.WF, ItemsWF, QItem.WF, AllWs, AllWordCh, C.level, Kind.level,
    C.endsWord, AtomC.endsWord, Arg.isWord, notOpStart, Arg.render]
  decide

example : String.ofList ex1.render = "!~q &( ~h \"a\\\"b\\tc\"  a|b )" := by decide +kernel

example : ex1.ast = .and [.not (.unary ['q']), .and [.rex ['h'] ['a', '"', 'b', '\t', 'c'], .rex ['u'] ['a', '|', 'b']]] := rfl

/-- the model parser does refuse things, and juxtaposition really differs from `|`-precedence -/
example : parseStruct "(~q".toList = none := by decide +kernel
example : parseStruct "~q)".toList = none := by decide +kernel
example : parseStruct "~u".toList = none := by decide +kernel
example : parseStruct "a|b".toList = some (.rex ['u'] ['a', '|', 'b']) := by rfl
example : parseStruct "a | b c".toList
    = some (.and [.or [.rex ['u'] ['a'], .rex ['u'] ['b']], .rex ['u'] ['c']]) := by rfl
/-- a regex that does not compile makes an otherwise fine expression invalid -/
example : parse (fun _ a => a != ['[']) "~q & [".toList = none := by decide +kernel

/-! ### the canonical printer: parse ∘ print = id on everything the grammar can express -/

/-- The canonical text of an expressible tree is one of the documented ways of writing it. -/
theorem print_renders (t : Ast) (h : Printable t) : Renders t (print t) := by
  obtain ⟨a, _, c⟩ := pr_ok t h 3 [] (by decide) (Nat.le_refl _) trivial
  exact ⟨pr 3 [] t, [], a, trivial, c, by simp [print]⟩

/-- parse ∘ print = id: for EVERY expressible tree (every operator code of the generated tables, every argument
string - empty, with quotes, backslashes, white space, parentheses, `~` - every number, any nesting of `!`, `&`, `|`)
the printed text is read back as exactly that tree. -/
theorem parse_print (t : Ast) (h : Printable t) : parseStruct (print t) = some t :=
  parse_render_struct t (print t) (print_renders t h)

/-- … and `flowfilter.parse` accepts it whenever its regexes compile. -/
theorem parse_print_compiles (compiles : Str → Str → Bool) (t : Ast) (h : Printable t)
    (hc : argsOk compiles t = true) : parse compiles (print t) = some t :=
  parse_render_exact compiles t (print t) (print_renders t h) hc

/-- `Printable` is exactly what the grammar can express: a tree is the parse of some text iff its codes come from the
tables and every conjunction/disjunction has at least two members. -/
theorem printable_iff_parsable (t : Ast) : Printable t ↔ ∃ s, parseStruct s = some t :=
  ⟨fun h => ⟨print t, parse_print t h⟩, fun ⟨s, h⟩ => parseStruct_printable s t h⟩

/-- The trees outside `Printable` (an unknown code, `FAnd`/`FOr` with fewer than two members, anywhere inside) are
never produced by the parser, whatever the text. -/
theorem not_printable_unparsable (t : Ast) (h : ¬ Printable t) (s : Str) : parseStruct s ≠ some t :=
  fun hs => h (parseStruct_printable s t hs)

/-- print ∘ parse is a normal form: whatever text was accepted, printing its tree and parsing again gives the same
tree (so `print (parse s)` is a canonical spelling of `s`). -/
theorem print_parse_normal (s : Str) (t : Ast) (h : parseStruct s = some t) : parseStruct (print t) = some t :=
  parse_print t (parseStruct_printable s t h)

theorem print_parse_normal_compiles (compiles : Str → Str → Bool) (s : Str) (t : Ast) (h : parse compiles s = some t) :
    parse compiles (print t) = some t := by
  unfold parse at h
  cases hp : parseStruct s with
  | none => simp [hp] at h
  | some t' =>
    simp only [hp] at h
    by_cases hc : argsOk compiles t' = true
    · simp [hc] at h
      subst h
      exact parse_print_compiles compiles t' (parseStruct_printable s t' hp) hc
    · simp [hc] at h

example : ¬ Printable (.and [.unary ['q']]) := by simp [Printable]
example : ¬ Printable (.or []) := by simp [Printable]
example : ¬ Printable (.not (.unary ['x', 'y'])) := by simp [Printable]; decide
example : String.ofList (print (.or [.and [.not (.rex ['u'] ['a', ' ', '"', '\\']), .int ['c'] 200], .rex ['b'] [],
    .not (.or [.unary ['q'], .rex ['h'] ['x', '|', 'y']])]))
    = "!~u \"a \\\"\\\\\" & ~c 200 | ~b \"\" | !(~q | ~h x|y)" := by decide +kernel

/-! ### evaluation is the Boolean algebra of the leaf verdicts, for every tree -/

theorem eval_not {Flow : Type} (sem : Sem Flow) (f : Flow) (t : Ast) : eval sem (.not t) f = !eval sem t f := by
  simp [eval]

theorem eval_and_all {Flow : Type} (sem : Sem Flow) (f : Flow) (l : List Ast) :
    eval sem (.and l) f = l.all (fun t => eval sem t f) := by
  simp [eval, evalAll_eq]

theorem eval_or_any {Flow : Type} (sem : Sem Flow) (f : Flow) (l : List Ast) :
    eval sem (.or l) f = l.any (fun t => eval sem t f) := by
  simp [eval, evalAny_eq]

/-- `eval` is the homomorphic extension of the leaf valuation: the verdict of a tree is the value of the Boolean
formula it stands for under "leaf ↦ its own verdict". -/
theorem eval_hom {Flow : Type} (sem : Sem Flow) (f : Flow) (t : Ast) :
    eval sem t f = evalV (fun a => eval sem a f) t :=
  eval_evalV sem f t

/-- The verdict depends on the leaves only through their verdicts: two engines (and two flows) that agree on every
leaf of `t` agree on `t`. -/
theorem eval_congr {Flow Flow' : Type} (sem : Sem Flow) (sem' : Sem Flow') (f : Flow) (f' : Flow') (t : Ast)
    (h : ∀ a ∈ leaves t, eval sem a f = eval sem' a f') : eval sem t f = eval sem' t f' := by
  rw [eval_hom sem f t, eval_hom sem' f' t]
  exact evalV_congr _ _ t h

theorem eval_double_neg {Flow : Type} (sem : Sem Flow) (f : Flow) (t : Ast) :
    eval sem (.not (.not t)) f = eval sem t f := by
  simp [eval]

/-- De Morgan -/
theorem eval_de_morgan {Flow : Type} (sem : Sem Flow) (f : Flow) (l : List Ast) :
    eval sem (.not (.and l)) f = eval sem (.or (l.map .not)) f ∧
    eval sem (.not (.or l)) f = eval sem (.and (l.map .not)) f := by
  rw [eval_not, eval_not, eval_and_all, eval_or_any, eval_or_any, eval_and_all]
  constructor
  · induction l with
    | nil => simp
    | cons t l ih => simp [eval, Bool.not_and, ih]
  · induction l with
    | nil => simp
    | cons t l ih => simp [eval, Bool.not_or, ih]

/-- Flattening: a conjunction directly inside a conjunction (a disjunction inside a disjunction) may be spliced in. -/
theorem eval_flatten {Flow : Type} (sem : Sem Flow) (f : Flow) (pre xs post : List Ast) :
    eval sem (.and (pre ++ .and xs :: post)) f = eval sem (.and (pre ++ xs ++ post)) f ∧
    eval sem (.or (pre ++ .or xs :: post)) f = eval sem (.or (pre ++ xs ++ post)) f := by
  simp [eval_and_all, eval_or_any, List.all_append, List.any_append, Bool.and_assoc, Bool.or_assoc]

/-- `And [And xs, y] ≡ And (xs ++ [y])` -/
theorem eval_and_nested {Flow : Type} (sem : Sem Flow) (f : Flow) (xs : List Ast) (y : Ast) :
    eval sem (.and [.and xs, y]) f = eval sem (.and (xs ++ [y])) f := by
  have := (eval_flatten sem f [] xs [y]).1
  simpa using this

/-- Commutativity: the verdict of a conjunction / disjunction does not depend on the order of its members. -/
theorem eval_perm {Flow : Type} (sem : Sem Flow) (f : Flow) (l l' : List Ast) (h : l.Perm l') :
    eval sem (.and l) f = eval sem (.and l') f ∧ eval sem (.or l) f = eval sem (.or l') f := by
  rw [eval_and_all, eval_and_all, eval_or_any, eval_or_any]
  exact ⟨perm_all _ h, perm_any _ h⟩

/-- The implicit-conjunction wrapper is absorbed: `FAnd` of one term is that term (the parser never builds it, and it
would not matter), the empty conjunction is true, the empty disjunction false, and members peel off. -/
theorem eval_wrapper {Flow : Type} (sem : Sem Flow) (f : Flow) (t : Ast) (l : List Ast) :
    eval sem (.and [t]) f = eval sem t f ∧ eval sem (.or [t]) f = eval sem t f ∧
    eval sem (.and []) f = true ∧ eval sem (.or []) f = false ∧
    eval sem (.and (t :: l)) f = (eval sem t f && eval sem (.and l) f) ∧
    eval sem (.or (t :: l)) f = (eval sem t f || eval sem (.or l) f) := by
  simp [eval_and_all, eval_or_any]

/-- a juxtaposed conjunction and the `&`-conjunction of the same members are the same tree, hence the same verdict;
wrapping the members of a run in one more conjunction changes nothing either -/
theorem eval_juxt_absorb {Flow : Type} (sem : Sem Flow) (f : Flow) (l : List Ast) :
    eval sem (.and [.and l]) f = eval sem (.and l) f := by
  simp [eval_and_all]

/-- non-vacuity of `eval_congr`: the leaves of a tree are what one expects -/
example : leaves (.or [.and [.not (.unary ['q']), .int ['c'] 7], .rex ['u'] ['x']])
    = [.unary ['q'], .int ['c'] 7, .rex ['u'] ['x']] := rfl

/-! ### the body operators answer on every flow, whatever the Content-Encoding -/

/-- What ~b/~bq/~bs search, case by case: nothing for a streamed body; the bytes as received without a
Content-Encoding; the decoded bytes when the decoder succeeds; the bytes AS RECEIVED when it fails.
CLAUSE MAP: the first three conjuncts are `rfl` restatements of `searched`, the last two unfold one `if`/`match`; that
`searched` is what `get_content(strict=False)` does is carried by the `bd` tie (every HTTP message of the pool).  The
statements with content are `body_searched_some` (a decoder failure never takes the body away) and `bodyLeaf_total`. -/
theorem body_searched (dec : Str → Bytes → Option Bytes) (raw : Bytes) (c : Str) (hc : c ≠ []) :
    searched dec ⟨none, some c⟩ = none ∧
    searched dec ⟨some raw, none⟩ = some raw ∧
    searched dec ⟨some raw, some []⟩ = some raw ∧
    (∀ d, dec c raw = some d → searched dec ⟨some raw, some c⟩ = some d) ∧
    (dec c raw = none → searched dec ⟨some raw, some c⟩ = some raw) := by
  refine ⟨rfl, rfl, rfl, fun d hd => ?_, fun hd => ?_⟩ <;> simp [searched, hc, hd]

/-- A message with a body always gives the operator something to search - a decoder failure never takes the body away. -/
theorem body_searched_some (dec : Str → Bytes → Option Bytes) (raw : Bytes) (ce : Option Str) :
    ∃ b, searched dec ⟨some raw, ce⟩ = some b ∧ (b = raw ∨ ∃ c, ce = some c ∧ dec c raw = some b) := by
  cases ce with
  | none => exact ⟨raw, rfl, Or.inl rfl⟩
  | some c =>
    by_cases hc : c = []
    · exact ⟨raw, by simp [searched, hc], Or.inl rfl⟩
    · cases hd : dec c raw with
      | none => exact ⟨raw, by simp [searched, hc, hd], Or.inl rfl⟩
      | some d => exact ⟨d, by simp [searched, hc, hd], Or.inr ⟨c, rfl, hd⟩⟩

/-- The leaf verdict is total and is the search on the raw bytes when the coding cannot be applied, on the decoded
bytes when it can. -/
theorem bodyLeaf_total (search : Bytes → Bool) (dec : Str → Bytes → Option Bytes) (raw : Bytes) (c : Str) (hc : c ≠ []) :
    (dec c raw = none → bodyLeaf search dec [⟨some raw, some c⟩] = search raw) ∧
    (∀ d, dec c raw = some d → bodyLeaf search dec [⟨some raw, some c⟩] = search d) ∧
    bodyLeaf search dec [⟨none, some c⟩] = false ∧
    (∀ ms, bodyLeaf search dec ms = true ∨ bodyLeaf search dec ms = false) := by
  refine ⟨fun hd => ?_, fun d hd => ?_, by simp [bodyLeaf, searched], fun ms => ?_⟩
  · simp [bodyLeaf, searched, hc, hd]
  · simp [bodyLeaf, searched, hc, hd]
  · cases bodyLeaf search dec ms <;> simp

/-- Every tree has a verdict on every flow: evaluation never fails, whatever the leaves are.  (True by typing - `eval` is
a total Bool-valued function; stated only because the statement says "for every flow its verdict …".  That the REAL
filter call yields a Boolean on every flow is the oracle clause "raised".) -/
theorem eval_total {Flow : Type} (sem : Sem Flow) (t : Ast) (f : Flow) : eval sem t f = true ∨ eval sem t f = false := by
  cases eval sem t f <;> simp

/-- a decoder that refuses everything: the operators then search exactly what was received -/
example : bodyLeaf (fun b => b == [104, 105]) (fun _ _ => none) [⟨some [104, 105], some ['g', 'z', 'i', 'p']⟩] = true := by
  decide

/-! ### which part of a flow each operator reads (Model/C42_Leaf.lean), and with which flags -/

/-- "regular expressions are case-insensitive Python regexes": every regex operator of the table hands its pattern to
the engine with IGNORECASE; MULTILINE exactly for ~h ~hq ~hs ~meta ~comment, DOTALL exactly for ~b ~bq ~bs; a bytes
pattern exactly for the operators that search bytes (pinned against the table regenerated from flowfilter.py). -/
theorem rex_flags_pinned : ∀ c ∈ Gen.rexCodes, ∀ a,
    (specOf c a).pattern = a ∧ (specOf c a).ignorecase = true ∧
    (specOf c a).multiline = [['h'], ['h', 'q'], ['h', 's'], ['m', 'e', 't', 'a'], ['c', 'o', 'm', 'm', 'e', 'n', 't']].contains c ∧
    (specOf c a).dotall = [['b'], ['b', 'q'], ['b', 's']].contains c ∧
    (specOf c a).bin = ![['d'], ['d', 's', 't'], ['s', 'r', 'c'], ['u'], ['m', 'e', 't', 'a'], ['m', 'a', 'r', 'k', 'e', 'r'],
                          ['c', 'o', 'm', 'm', 'e', 'n', 't']].contains c := by
  have h : ∀ c ∈ Gen.rexCodes,
      Gen.ignoreCase = true ∧
      Gen.rexMultiline.contains c = [['h'], ['h', 'q'], ['h', 's'], ['m', 'e', 't', 'a'], ['c', 'o', 'm', 'm', 'e', 'n', 't']].contains c ∧
      Gen.rexDotall.contains c = [['b'], ['b', 'q'], ['b', 's']].contains c ∧
      Gen.rexBin.contains c = ![['d'], ['d', 's', 't'], ['s', 'r', 'c'], ['u'], ['m', 'e', 't', 'a'], ['m', 'a', 'r', 'k', 'e', 'r'],
                          ['c', 'o', 'm', 'm', 'e', 'n', 't']].contains c := by decide +kernel
  intro c hc a
  obtain ⟨h1, h2, h3, h4⟩ := h c hc
  exact ⟨rfl, h1, h2, h3, h4⟩

private theorem spec_family (a : Str) :
    specOf ['b', 'q'] a = specOf ['b'] a ∧ specOf ['b', 's'] a = specOf ['b'] a ∧
    specOf ['h', 'q'] a = specOf ['h'] a ∧ specOf ['h', 's'] a = specOf ['h'] a ∧
    specOf ['t', 'q'] a = specOf ['t'] a ∧ specOf ['t', 's'] a = specOf ['t'] a := by
  have h : (Gen.rexBin.contains ['b', 'q'] = Gen.rexBin.contains ['b'] ∧ Gen.rexMultiline.contains ['b', 'q'] = Gen.rexMultiline.contains ['b'] ∧ Gen.rexDotall.contains ['b', 'q'] = Gen.rexDotall.contains ['b']) ∧
      (Gen.rexBin.contains ['b', 's'] = Gen.rexBin.contains ['b'] ∧ Gen.rexMultiline.contains ['b', 's'] = Gen.rexMultiline.contains ['b'] ∧ Gen.rexDotall.contains ['b', 's'] = Gen.rexDotall.contains ['b']) ∧
      (Gen.rexBin.contains ['h', 'q'] = Gen.rexBin.contains ['h'] ∧ Gen.rexMultiline.contains ['h', 'q'] = Gen.rexMultiline.contains ['h'] ∧ Gen.rexDotall.contains ['h', 'q'] = Gen.rexDotall.contains ['h']) ∧
      (Gen.rexBin.contains ['h', 's'] = Gen.rexBin.contains ['h'] ∧ Gen.rexMultiline.contains ['h', 's'] = Gen.rexMultiline.contains ['h'] ∧ Gen.rexDotall.contains ['h', 's'] = Gen.rexDotall.contains ['h']) ∧
      (Gen.rexBin.contains ['t', 'q'] = Gen.rexBin.contains ['t'] ∧ Gen.rexMultiline.contains ['t', 'q'] = Gen.rexMultiline.contains ['t'] ∧ Gen.rexDotall.contains ['t', 'q'] = Gen.rexDotall.contains ['t']) ∧
      (Gen.rexBin.contains ['t', 's'] = Gen.rexBin.contains ['t'] ∧ Gen.rexMultiline.contains ['t', 's'] = Gen.rexMultiline.contains ['t'] ∧ Gen.rexDotall.contains ['t', 's'] = Gen.rexDotall.contains ['t']) := by
    decide +kernel
  obtain ⟨⟨a1, a2, a3⟩, ⟨b1, b2, b3⟩, ⟨c1, c2, c3⟩, ⟨d1, d2, d3⟩, ⟨e1, e2, e3⟩, ⟨f1, f2, f3⟩⟩ := h
  refine ⟨?_, ?_, ?_, ?_, ?_, ?_⟩ <;> simp only [specOf, a1, a2, a3, b1, b2, b3, c1, c2, c3, d1, d2, d3, e1, e2, e3, f1, f2, f3]

/-- CLAUSE MAP, not an independent result: the first three conjuncts hold by `rfl` - they spell out what `docSem` is
(a regex leaf is "the regex, compiled with the operator's flags, matches one of the parts of the flow the operator
reads", `~c n` is the status test, a unary operator is `unaryV`); the last three are `eval_not` / `eval_and_all` /
`eval_or_any`.  That `leafReads` / `specOf` / `unaryV` / `intV` are what the CODE does is carried by the `lv` tie (every
operator on every pool flow, predicted vs real) - and what they imply is in `rex_flags_pinned`, `only_http`,
`only_gating`, `both_sides_split`, `body_ops_http`, `unary_table`. -/
theorem doc_eval (search : RxSpec → Bytes → Bool) (dec : Str → Bytes → Option Bytes) (f : FlowView) :
    (∀ c a, eval (docSem search dec) (.rex c a) f = (leafReads dec c f).any (search (specOf c a))) ∧
    (∀ c, eval (docSem search dec) (.unary c) f = unaryV search c f) ∧
    (∀ c n, eval (docSem search dec) (.int c n) f = intV c n f) ∧
    (∀ t, eval (docSem search dec) (.not t) f = !eval (docSem search dec) t f) ∧
    (∀ l, eval (docSem search dec) (.and l) f = l.all (fun t => eval (docSem search dec) t f)) ∧
    (∀ l, eval (docSem search dec) (.or l) f = l.any (fun t => eval (docSem search dec) t f)) :=
  ⟨fun _ _ => rfl, fun _ => rfl, fun _ _ => rfl, fun t => eval_not _ f t, fun l => eval_and_all _ f l, fun l => eval_or_any _ f l⟩

/-- The whole statement in one: a documented rendering of a tree is accepted and its verdict on every flow is the
table's reading of that tree - whatever the regex engine and the content decoder answer. -/
theorem parse_render_documented (compiles : Str → Str → Bool) (t : Ast) (s : Str)
    (h : Renders t s) (hc : argsOk compiles t = true) :
    ∃ t', parse compiles s = some t' ∧
      ∀ (search : RxSpec → Bytes → Bool) (dec : Str → Bytes → Option Bytes) (f : FlowView),
        eval (docSem search dec) t' f = eval (docSem search dec) t f := by
  obtain ⟨t', h1, h2⟩ := parse_render compiles t s h hc
  exact ⟨t', h1, fun search dec f => h2 FlowView (docSem search dec) f⟩

/-- `@only(http.HTTPFlow)`: on a flow that is not an HTTP flow the header, content-type, method, domain, status, asset
and websocket operators are false - no subject is read at all. -/
theorem only_http (search : RxSpec → Bytes → Bool) (dec : Str → Bytes → Option Bytes) (f : FlowView)
    (h : f.kind ≠ FKind.http) (a : Str) (n : Nat) :
    leafReads dec ['t'] f = [] ∧ leafReads dec ['t', 'q'] f = [] ∧ leafReads dec ['t', 's'] f = [] ∧
    leafReads dec ['h'] f = [] ∧ leafReads dec ['h', 'q'] f = [] ∧ leafReads dec ['h', 's'] f = [] ∧
    leafReads dec ['m'] f = [] ∧ leafReads dec ['d'] f = [] ∧
    rexV search dec ['h'] a f = false ∧ rexV search dec ['m'] a f = false ∧ rexV search dec ['d'] a f = false ∧
    rexV search dec ['t'] a f = false ∧
    intV ['c'] n f = false ∧ unaryV search ['a'] f = false ∧
    unaryV search ['w', 'e', 'b', 's', 'o', 'c', 'k', 'e', 't'] f = false ∧ unaryV search ['h', 't', 't', 'p'] f = false := by
  have hh : isHttp f = false := by simp [isHttp, h]
  simp [leafReads, rexV, intV, unaryV, hh]

/-- `@only(HTTPFlow, DNSFlow)` for ~u ~q ~s, `@only(HTTP, TCP, UDP, DNS)` for the body operators: false elsewhere. -/
theorem only_gating (search : RxSpec → Bytes → Bool) (dec : Str → Bytes → Option Bytes) (f : FlowView) (a : Str) :
    (f.kind ≠ FKind.http → f.kind ≠ FKind.dns →
      rexV search dec ['u'] a f = false ∧ unaryV search ['q'] f = false ∧ unaryV search ['s'] f = false) ∧
    (f.kind = FKind.other →
      rexV search dec ['b'] a f = false ∧ rexV search dec ['b', 'q'] a f = false ∧ rexV search dec ['b', 's'] a f = false) := by
  constructor
  · intro h1 h2
    have hh : isHttp f = false := by simp [isHttp, h1]
    have hd : isDns f = false := by simp [isDns, h2]
    simp [leafReads, rexV, unaryV, hh, hd]
  · intro h
    simp [leafReads, rexV, isHttp, isStream, isDns, h]

private theorem any_filter_split {α : Type} (l : List α) (p q : α → Bool) :
    l.any q = ((l.filter p).any q || (l.filter (fun x => !p x)).any q) := by
  induction l with
  | nil => rfl
  | cons x l ih =>
    cases hp : p x <;> simp [List.filter, hp, ih, Bool.or_assoc, Bool.or_left_comm]

private theorem wsPart_split (f : FlowView) (q : Bytes → Bool) :
    (wsPart f (fun _ => true)).any q = ((wsPart f (·.fromClient)).any q || (wsPart f (fun m => !m.fromClient)).any q) := by
  unfold wsPart
  cases f.ws with
  | none => rfl
  | some l =>
    have := any_filter_split l (·.fromClient) (fun m => q m.content)
    simpa [List.any_map, Function.comp_def] using this

private theorem msgPart_split (f : FlowView) (q : Bytes → Bool) :
    (msgPart f (fun _ => true)).any q = ((msgPart f (·.fromClient)).any q || (msgPart f (fun m => !m.fromClient)).any q) := by
  unfold msgPart
  have := any_filter_split f.msgs (·.fromClient) (fun m => q m.content)
  simpa [List.any_map, Function.comp_def] using this

/-- ~b = ~bq ∨ ~bs on every flow (HTTP bodies and websocket messages, TCP/UDP messages split by direction, DNS
request/response text), ~h = ~hq ∨ ~hs, ~t = ~tq ∨ ~ts. -/
theorem both_sides_split (search : RxSpec → Bytes → Bool) (dec : Str → Bytes → Option Bytes) (f : FlowView) (a : Str) :
    rexV search dec ['b'] a f = (rexV search dec ['b', 'q'] a f || rexV search dec ['b', 's'] a f) ∧
    rexV search dec ['h'] a f = (rexV search dec ['h', 'q'] a f || rexV search dec ['h', 's'] a f) ∧
    rexV search dec ['t'] a f = (rexV search dec ['t', 'q'] a f || rexV search dec ['t', 's'] a f) := by
  obtain ⟨s1, s2, s3, s4, s5, s6⟩ := spec_family a
  refine ⟨?_, ?_, ?_⟩
  · simp only [rexV, s1, s2]
    by_cases h1 : isHttp f = true
    · simp only [leafReads, h1, if_true, List.any_append]
      rw [wsPart_split f]
      simp [Bool.or_assoc, Bool.or_left_comm, Bool.or_comm]
    · by_cases h2 : isStream f = true
      · simp only [leafReads, h1, h2, if_true, if_false]
        simpa using msgPart_split f (search (specOf ['b'] a))
      · by_cases h3 : isDns f = true
        · simp [leafReads, h1, h2, h3, List.any_append]
        · simp [leafReads, h1, h2, h3]
  · simp only [rexV, s3, s4]
    by_cases h1 : isHttp f = true <;> simp [leafReads, h1, List.any_append]
  · simp only [rexV, s5, s6]
    by_cases h1 : isHttp f = true <;> simp [leafReads, h1, List.any_append]

/-- ~q is "no response yet" and ~s "has a response": complementary on HTTP and DNS flows; ~replay is ~replayq or
~replays whenever `is_replay` is one of None / "request" / "response"; ~all holds of every flow. -/
theorem unary_table (search : RxSpec → Bytes → Bool) (f : FlowView) :
    ((f.kind = FKind.http ∨ f.kind = FKind.dns) → unaryV search ['q'] f = !unaryV search ['s'] f) ∧
    (f.replay ≠ Replay.other → unaryV search ['r', 'e', 'p', 'l', 'a', 'y'] f =
        (unaryV search ['r', 'e', 'p', 'l', 'a', 'y', 'q'] f || unaryV search ['r', 'e', 'p', 'l', 'a', 'y', 's'] f)) ∧
    unaryV search ['a', 'l', 'l'] f = true ∧
    (unaryV search ['t', 'c', 'p'] f = true → unaryV search ['h', 't', 't', 'p'] f = false ∧ unaryV search ['u', 'd', 'p'] f = false ∧
        unaryV search ['d', 'n', 's'] f = false) := by
  refine ⟨fun h => ?_, fun h => ?_, by simp [unaryV], fun h => ?_⟩
  · rcases h with h | h <;> simp [unaryV, isHttp, isDns, h]
  · cases hr : f.replay <;> simp_all [unaryV]
  · have : f.kind = FKind.tcp := by simpa [unaryV] using h
    simp [unaryV, isHttp, isDns, this]

/-- the flow kinds really are told apart: a DNS flow without response satisfies ~q and nothing HTTP-only -/
example : let f : FlowView := { kind := .dns, req := none, resp := none, method := [], host := [], prettyHost := [], prettyUrl := [],
                                status := 0, ws := none, msgs := [], dnsReq := some [1], dnsResp := none, dnsQName := some [100],
                                src := none, dst := none, metaText := [], marked := [], comment := [], error := false, replay := .none }
    unaryV (fun _ _ => true) ['q'] f = true ∧ leafReads (fun _ _ => none) ['u'] f = [[100]] ∧
    leafReads (fun _ _ => none) ['b'] f = [[1]] ∧ leafReads (fun _ _ => none) ['m'] f = [] := by
  decide

/-- The body operators on an HTTP flow without websocket data are the `bodyLeaf` of round 5 over the request and/or
the response message: ~bq reads the request body, ~bs the response body, ~b both - each through `searched`
(decoded when the Content-Encoding can be applied, as received when it cannot, nothing when streamed). -/
theorem body_ops_http (search : RxSpec → Bytes → Bool) (dec : Str → Bytes → Option Bytes) (f : FlowView) (a : Str)
    (hk : f.kind = FKind.http) (hw : f.ws = none) (rq rs : HMsg) (hq : f.req = some rq) (hs : f.resp = some rs) :
    rexV search dec ['b', 'q'] a f = bodyLeaf (search (specOf ['b', 'q'] a)) dec [rq.body] ∧
    rexV search dec ['b', 's'] a f = bodyLeaf (search (specOf ['b', 's'] a)) dec [rs.body] ∧
    rexV search dec ['b'] a f = bodyLeaf (search (specOf ['b'] a)) dec [rq.body, rs.body] := by
  have hh : isHttp f = true := by simp [isHttp, hk]
  cases h1 : searched dec rq.body <;> cases h2 : searched dec rs.body <;>
    simp [rexV, leafReads, hh, wsPart, hw, hq, hs, bodySubj, bodyLeaf, h1, h2]

/-! ### the fuel is immaterial -/

/-- Any fuel larger than the text gives the same parse: `pExpr` is one function, the fuel only makes the recursion
through parentheses structural. -/
theorem parse_fuel_independent (s : Str) (n m : Nat) (hn : s.length < n) (hm : s.length < m) :
    pExpr n s = pExpr m s :=
  pExpr_fuel s.length n m hn hm s (Nat.le_refl _)

/-- `parseStruct` (which uses fuel length+1) is the parse with any larger fuel. -/
theorem parseStruct_any_fuel (s : Str) (n : Nat) (hn : s.length < n) :
    parseStruct s = (pExpr n s).bind (fun p => if skipWs p.2 = [] then some p.1 else none) := by
  unfold parseStruct
  rw [parse_fuel_independent s (s.length + 1) n (by omega) hn]
  cases pExpr n s with
  | none => rfl
  | some p => obtain ⟨t, r⟩ := p; rfl

/-- Every parser of the model returns a suffix no longer than its input (the loops' fuel `rest.length` can therefore
never run out before the text does). -/
theorem parse_consumes (n : Nat) (s : Str) (t : Ast) (r : Str) (h : pExpr n s = some (t, r)) : r.length ≤ s.length :=
  pExpr_shrinks n s t r h

/-! ### audit round 6 (cross-audit by b-c36): the precedence theorems instantiated on concrete operands — their hypotheses
    (WF, level ≤ 1, compiling arguments) hold together, and the parsed tree is the one the statement names -/
private def aQ : C := .atom [] (.unary ['q'])
private def aS : C := .atom [] (.unary ['s'])
private def aC : C := .atom [] (.int ['c'] [' '] ['2', '0', '0'])
private def aH : C := .atom [] (.rex ['h'] [' '] (.quoted '\'' [.raw 'x', .raw ' ', .raw 'y']))
private def okAll : Str → Str → Bool := fun _ _ => true

example : aQ.WF ∧ aS.WF ∧ aC.WF ∧ aH.WF := by
  simp [aQ, aS, aC, aH, C.WF, AtomC.WF, Arg.WF, ItemsWF, QItem.WF, AllWs, AllDigit]
  decide
example : aQ.level ≤ 1 ∧ aC.level ≤ 1 ∧ aH.level ≤ 1 := by decide
example : argsOk okAll aQ.ast = true ∧ argsOk okAll aC.ast = true ∧ argsOk okAll aH.ast = true := by decide +kernel
-- `!~q &~c 200` : (not q) and c, never not (q and c)
example : parse okAll ('!' :: aQ.render ++ ([' '] ++ '&' :: aC.render))
    = some (.and [.not (.unary ['q']), .int ['c'] 200]) := by rfl
-- `~q &~s |~h 'x y'` : (q and s) or h;   `~q |~s &~h 'x y'` : q or (s and h)
example : parse okAll (aQ.render ++ ([' '] ++ '&' :: aS.render) ++ ([' '] ++ '|' :: aH.render))
    = some (.or [.and [.unary ['q'], .unary ['s']], .rex ['h'] ['x', ' ', 'y']]) := by rfl
example : parse okAll (aQ.render ++ ([' '] ++ '|' :: (aS.render ++ ([' '] ++ '&' :: aH.render))))
    = some (.or [.unary ['q'], .and [.unary ['s'], .rex ['h'] ['x', ' ', 'y']]]) := by rfl
-- juxtaposition is outermost: `~q ~s |~c 200` : q and (s or c)
example : parse okAll (aQ.render ++ ([' '] ++ (aS.render ++ ([' '] ++ '|' :: aC.render))))
    = some (.and [.unary ['q'], .or [.unary ['s'], .int ['c'] 200]]) := by rfl
-- and the verdicts differ from the wrong reading on a valuation: q = false, c = true:  (!q & c) = true but !(q & c) … also true;
-- q = true, c = false separates them: (!q & c) = false, !(q & c) = true
example : eval (Flow := Unit) ⟨fun c _ => c == ['q'], fun _ _ _ => false, fun _ _ _ => false⟩
      (.and [.not (.unary ['q']), .int ['c'] 200]) ()
    ≠ eval (Flow := Unit) ⟨fun c _ => c == ['q'], fun _ _ _ => false, fun _ _ _ => false⟩
      (.not (.and [.unary ['q'], .int ['c'] 200])) () := by decide +kernel

end MitmVerif.Props.C42
