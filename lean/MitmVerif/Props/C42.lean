/-
  C42 — filter expressions mean what the documented grammar says.

  `Renders t s` (Model/C42_Spec.lean): `s` is one of the documented ways of writing the tree `t` — any white space
  in front of any token, redundant parentheses anywhere, a conjunction by `&` or by juxtaposition, arguments
  unquoted or quoted with escapes, leading zeros.  `parse compiles s` (Model/C42.lean) is the model of
  `flowfilter.parse` (pyparsing grammar transcribed; `none` = ValueError); `eval sem t f` is the verdict of the
  tree on a flow, the leaves' verdicts `sem` and the regex compiler `compiles` being parameters.

  Every theorem is for ALL trees, layouts, flows, regex engines: induction over the concrete syntax
  (Lemmas/C42.lean, `main` / `mainL`), no bounds.
-/
import MitmVerif.Lemmas.C42
namespace MitmVerif.Props.C42
open MitmVerif.C42

private theorem allWs_cond {w : Str} (hw : AllWs w) (b : Bool) : Cond 4 b w := by
  have hs := skipWs_allWs hw
  have hcl : Closed w := Or.inl hs
  refine ⟨⟨?_, fun _ => ?_⟩, fun _ => closed_noOp hcl _ (by decide), fun _ => closed_noOp hcl _ (by decide), fun _ => hcl⟩
  · cases w with
    | nil => trivial
    | cons c w => exact Or.inl hw.1
  · cases w with
    | nil => trivial
    | cons c w => exact Or.inl hw.1

private theorem level_le_four (e : C) : e.level ≤ 4 := by
  cases e with
  | atom _ _ => simp [C.level]
  | group _ _ _ => simp [C.level]
  | not _ _ => simp [C.level]
  | chain k _ _ => exact (kind_level k).2

/-- Every documented way of writing a tree is read back as exactly that tree (class of every node, n-ary nesting,
arguments after unquoting, numbers), before regexes are compiled. -/
theorem parse_render_struct (t : Ast) (s : Str) (h : Renders t s) : parseStruct s = some t := by
  obtain ⟨e, w, he, hw, rfl, rfl⟩ := h
  have := atLevel e he (main e he) 4 (e.render ++ w).length w (level_le_four e) (Nat.le_refl _)
    (by simp) (allWs_cond hw _)
  have h' : pExpr ((e.render ++ w).length + 1) (e.render ++ w) = some (e.ast, w) := this
  unfold parseStruct
  rw [h']
  simp [skipWs_allWs hw]

/-- `parse_render` at full strength: a documented rendering of a tree whose regexes compile is accepted and the
result IS that tree. -/
theorem parse_render_exact (compiles : Str → Str → Bool) (t : Ast) (s : Str)
    (h : Renders t s) (hc : argsOk compiles t = true) : parse compiles s = some t := by
  simp [parse, parse_render_struct t s h, hc]

/-- The property: every expression built from the documented operators is accepted, and on every flow its verdict
is the documented one (that of the tree that was written down), whatever the leaves answer. -/
theorem parse_render (compiles : Str → Str → Bool) (t : Ast) (s : Str)
    (h : Renders t s) (hc : argsOk compiles t = true) :
    ∃ t', parse compiles s = some t' ∧
      ∀ (Flow : Type) (sem : Sem Flow) (f : Flow), eval sem t' f = eval sem t f :=
  ⟨t, parse_render_exact compiles t s h hc, fun _ _ _ => rfl⟩

/-- The only renderings of documented expressions that are refused are those with a regex that does not compile
(`_Rex.__init__` raises ValueError). -/
theorem parse_render_uncompilable (compiles : Str → Str → Bool) (t : Ast) (s : Str)
    (h : Renders t s) (hc : argsOk compiles t = false) : parse compiles s = none := by
  simp [parse, parse_render_struct t s h, hc]

/-- The documented meaning of the composite nodes: `!` negates, a conjunction holds iff all members hold,
a disjunction iff some member holds. -/
theorem eval_documented {Flow : Type} (sem : Sem Flow) (f : Flow) :
    (∀ t, eval sem (.not t) f = !eval sem t f) ∧
    (∀ l, eval sem (.and l) f = l.all (fun t => eval sem t f)) ∧
    (∀ l, eval sem (.or l) f = l.any (fun t => eval sem t f)) := by
  refine ⟨fun t => by simp [eval], fun l => ?_, fun l => ?_⟩
  · have : ∀ l : List Ast, evalAll sem l f = l.all (fun t => eval sem t f) := by
      intro l
      induction l with
      | nil => simp [evalAll]
      | cons t l ih => simp [evalAll, ih]
    simp [eval, this]
  · have : ∀ l : List Ast, evalAny sem l f = l.any (fun t => eval sem t f) := by
      intro l
      induction l with
      | nil => simp [evalAny]
      | cons t l ih => simp [evalAny, ih]
    simp [eval, this]

/-- one blank -/
private def sp : Str := [' ']
private theorem sp_ws : AllWs sp := ⟨by decide, trivial⟩

private theorem chain2_wf (kd : Kind) (a b : C) (ha : a.WF) (hb : b.WF) (la : a.level < kd.level) (lb : b.level < kd.level) :
    (C.chain kd a (.cons sp b .nil)).WF := by
  simp only [C.WF, CL.WF, CL.isNil]
  exact ⟨la, ha, trivial, sp_ws, fun _ => by simp [sp], lb, hb, trivial⟩

/-- `!` binds tighter than `&`:  `!x & y`  is  (not x) and y  — never  not (x and y). -/
theorem not_tighter_than_and (compiles : Str → Str → Bool) (x y : C) (hx : x.WF) (hy : y.WF)
    (lx : x.level ≤ 1) (ly : y.level ≤ 1)
    (cx : argsOk compiles x.ast = true) (cy : argsOk compiles y.ast = true) :
    ∃ t', parse compiles ('!' :: x.render ++ (sp ++ '&' :: y.render)) = some t' ∧
      ∀ (Flow : Type) (sem : Sem Flow) (f : Flow),
        eval sem t' f = (!eval sem x.ast f && eval sem y.ast f) := by
  have hn : (C.not [] x).WF := by simp only [C.WF]; exact ⟨trivial, lx, hx⟩
  have hwf := chain2_wf .and (.not [] x) y hn hy (by simp [C.level, Kind.level]) (by simp [Kind.level]; omega)
  have hr : Renders (.and [.not x.ast, y.ast]) ('!' :: x.render ++ (sp ++ '&' :: y.render)) :=
    ⟨_, [], hwf, trivial, by simp [C.ast, CL.asts, Kind.mk], by simp [C.render, CL.render, Kind.opStr]⟩
  refine ⟨_, parse_render_exact compiles _ _ hr (by simp [argsOk, argsOkL, cx, cy]), fun _ sem f => ?_⟩
  simp [eval, evalAll]

/-- `&` binds tighter than `|`:  `x & y | z`  is  (x and y) or z,  and  `x | y & z`  is  x or (y and z). -/
theorem and_tighter_than_or (compiles : Str → Str → Bool) (x y z : C) (hx : x.WF) (hy : y.WF) (hz : z.WF)
    (lx : x.level ≤ 1) (ly : y.level ≤ 1) (lz : z.level ≤ 1)
    (cx : argsOk compiles x.ast = true) (cy : argsOk compiles y.ast = true) (cz : argsOk compiles z.ast = true) :
    (∃ t', parse compiles (x.render ++ (sp ++ '&' :: y.render) ++ (sp ++ '|' :: z.render)) = some t' ∧
      ∀ (Flow : Type) (sem : Sem Flow) (f : Flow),
        eval sem t' f = ((eval sem x.ast f && eval sem y.ast f) || eval sem z.ast f)) ∧
    (∃ t', parse compiles (x.render ++ (sp ++ '|' :: (y.render ++ (sp ++ '&' :: z.render)))) = some t' ∧
      ∀ (Flow : Type) (sem : Sem Flow) (f : Flow),
        eval sem t' f = (eval sem x.ast f || (eval sem y.ast f && eval sem z.ast f))) := by
  have hxy := chain2_wf .and x y hx hy (by simp [Kind.level]; omega) (by simp [Kind.level]; omega)
  have hyz := chain2_wf .and y z hy hz (by simp [Kind.level]; omega) (by simp [Kind.level]; omega)
  have h1 := chain2_wf .or (.chain .and x (.cons sp y .nil)) z hxy hz (by simp [C.level, Kind.level]) (by simp [Kind.level]; omega)
  have h2 := chain2_wf .or x (.chain .and y (.cons sp z .nil)) hx hyz (by simp [Kind.level]; omega) (by simp [C.level, Kind.level])
  have r1 : Renders (.or [.and [x.ast, y.ast], z.ast]) (x.render ++ (sp ++ '&' :: y.render) ++ (sp ++ '|' :: z.render)) :=
    ⟨_, [], h1, trivial, by simp [C.ast, CL.asts, Kind.mk], by simp [C.render, CL.render, Kind.opStr]⟩
  have r2 : Renders (.or [x.ast, .and [y.ast, z.ast]]) (x.render ++ (sp ++ '|' :: (y.render ++ (sp ++ '&' :: z.render)))) :=
    ⟨_, [], h2, trivial, by simp [C.ast, CL.asts, Kind.mk], by simp [C.render, CL.render, Kind.opStr]⟩
  refine ⟨⟨_, parse_render_exact compiles _ _ r1 (by simp [argsOk, argsOkL, cx, cy, cz]), fun _ sem f => ?_⟩,
          ⟨_, parse_render_exact compiles _ _ r2 (by simp [argsOk, argsOkL, cx, cy, cz]), fun _ sem f => ?_⟩⟩
  · simp [eval, evalAll, evalAny]
  · simp [eval, evalAll, evalAny]

/-- Juxtaposition is the loosest conjunction ("the default binary operator is &", outermost):
`x y | z`  is  x and (y or z);  `x | y z`  is  (x or y) and z — also inside parentheses. -/
theorem juxtaposition_loosest (compiles : Str → Str → Bool) (x y z : C) (hx : x.WF) (hy : y.WF) (hz : z.WF)
    (lx : x.level ≤ 1) (ly : y.level ≤ 1) (lz : z.level ≤ 1)
    (cx : argsOk compiles x.ast = true) (cy : argsOk compiles y.ast = true) (cz : argsOk compiles z.ast = true) :
    (∃ t', parse compiles (x.render ++ (sp ++ (y.render ++ (sp ++ '|' :: z.render)))) = some t' ∧
      ∀ (Flow : Type) (sem : Sem Flow) (f : Flow),
        eval sem t' f = (eval sem x.ast f && (eval sem y.ast f || eval sem z.ast f))) ∧
    (∃ t', parse compiles ('(' :: (x.render ++ (sp ++ '|' :: y.render) ++ (sp ++ z.render)) ++ [')']) = some t' ∧
      ∀ (Flow : Type) (sem : Sem Flow) (f : Flow),
        eval sem t' f = ((eval sem x.ast f || eval sem y.ast f) && eval sem z.ast f)) := by
  have hyz := chain2_wf .or y z hy hz (by simp [Kind.level]; omega) (by simp [Kind.level]; omega)
  have hxy := chain2_wf .or x y hx hy (by simp [Kind.level]; omega) (by simp [Kind.level]; omega)
  have h1 := chain2_wf .juxt x (.chain .or y (.cons sp z .nil)) hx hyz (by simp [Kind.level]; omega) (by simp [C.level, Kind.level])
  have h2 := chain2_wf .juxt (.chain .or x (.cons sp y .nil)) z hxy hz (by simp [C.level, Kind.level]) (by simp [Kind.level]; omega)
  have h2g : (C.group [] (.chain .juxt (.chain .or x (.cons sp y .nil)) (.cons sp z .nil)) []).WF := by
    simp only [C.WF]; exact ⟨trivial, trivial, by simpa only [C.WF] using h2⟩
  have r1 : Renders (.and [x.ast, .or [y.ast, z.ast]]) (x.render ++ (sp ++ (y.render ++ (sp ++ '|' :: z.render)))) :=
    ⟨_, [], h1, trivial, by simp [C.ast, CL.asts, Kind.mk], by simp [C.render, CL.render, Kind.opStr]⟩
  have r2 : Renders (.and [.or [x.ast, y.ast], z.ast])
      ('(' :: (x.render ++ (sp ++ '|' :: y.render) ++ (sp ++ z.render)) ++ [')']) :=
    ⟨_, [], h2g, trivial, by simp [C.ast, CL.asts, Kind.mk], by simp [C.render, CL.render, Kind.opStr]⟩
  refine ⟨⟨_, parse_render_exact compiles _ _ r1 (by simp [argsOk, argsOkL, cx, cy, cz]), fun _ sem f => ?_⟩,
          ⟨_, parse_render_exact compiles _ _ r2 (by simp [argsOk, argsOkL, cx, cy, cz]), fun _ sem f => ?_⟩⟩
  · simp [eval, evalAll, evalAny]
  · simp [eval, evalAll, evalAny]

/-! ### non-vacuity -/

/-- a concrete rendering with odd spacing, a redundant group, a quoted argument with escapes and a naked regex
containing `|`:   `!~q &( ~h "a\"b\tc"  a|b )` -/
private def ex1 : C :=
  .chain .and (.not [] (.atom [] (.unary ['q'])))
    (.cons [' '] (.group [] (.chain .juxt
        (.atom [' '] (.rex ['h'] [' '] (.quoted '"' [.raw 'a', .esc '"', .raw 'b', .esc 't', .raw 'c'])))
        (.cons [' ', ' '] (.atom [] (.bare (.word ['a', '|', 'b']))) .nil)) [' ']) .nil)

example : ex1.WF := by
  simp [ex1, C.WF, CL.WF, CL.isNil, AtomC.WF, Arg.WF, ItemsWF, QItem.WF, AllWs, AllWordCh, C.level, Kind.level,
    C.endsWord, AtomC.endsWord, Arg.isWord, notOpStart, Arg.render]
  decide

example : String.ofList ex1.render = "!~q &( ~h \"a\\\"b\\tc\"  a|b )" := by decide +kernel

example : ex1.ast = .and [.not (.unary ['q']), .and [.rex ['h'] ['a', '"', 'b', '\t', 'c'], .rex ['u'] ['a', '|', 'b']]] := rfl

/-- the model parser does refuse things, and juxtaposition really differs from `|`-precedence -/
example : parseStruct "(~q".toList = none := by decide +kernel
example : parseStruct "~q)".toList = none := by decide +kernel
example : parseStruct "~u".toList = none := by decide +kernel
example : parseStruct "a|b".toList = some (.rex ['u'] ['a', '|', 'b']) := by rfl
example : parseStruct "a | b c".toList
    = some (.and [.or [.rex ['u'] ['a'], .rex ['u'] ['b']], .rex ['u'] ['c']]) := by rfl
/-- a regex that does not compile makes an otherwise fine expression invalid -/
example : parse (fun _ a => a != ['[']) "~q & [".toList = none := by decide +kernel

end MitmVerif.Props.C42
