/-
  C42 — filter expressions mean what the documented grammar says.

  `Renders t s` (Model/C42_Spec.lean): `s` is one of the documented ways of writing the tree `t` — any white space
  in front of any token, redundant parentheses anywhere, a conjunction by `&` or by juxtaposition, arguments
  unquoted or quoted with escapes, leading zeros.  `parse compiles s` (Model/C42.lean) is the model of
  `flowfilter.parse` (pyparsing grammar transcribed; `none` = ValueError); `eval sem t f` is the verdict of the
  tree on a flow, the leaves' verdicts `sem` and the regex compiler `compiles` being parameters.

  Every theorem is for ALL trees, layouts, flows, regex engines: induction over the concrete syntax
  (Lemmas/C42.lean, `main` / `mainL`), no bounds.
-/
import MitmVerif.Lemmas.C42
import MitmVerif.Lemmas.C42Print
import MitmVerif.Model.C42_Body
namespace MitmVerif.Props.C42
open MitmVerif.C42

private theorem allWs_cond {w : Str} (hw : AllWs w) (b : Bool) : Cond 4 b w := by
  have hs := skipWs_allWs hw
  have hcl : Closed w := Or.inl hs
  refine ⟨⟨?_, fun _ => ?_⟩, fun _ => closed_noOp hcl _ (by decide), fun _ => closed_noOp hcl _ (by decide), fun _ => hcl⟩
  · cases w with
    | nil => trivial
    | cons c w => exact Or.inl hw.1
  · cases w with
    | nil => trivial
    | cons c w => exact Or.inl hw.1

private theorem level_le_four (e : C) : e.level ≤ 4 := by
  cases e with
  | atom _ _ => simp [C.level]
  | group _ _ _ => simp [C.level]
  | not _ _ => simp [C.level]
  | chain k _ _ => exact (kind_level k).2

/-- Every documented way of writing a tree is read back as exactly that tree (class of every node, n-ary nesting,
arguments after unquoting, numbers), before regexes are compiled. -/
theorem parse_render_struct (t : Ast) (s : Str) (h : Renders t s) : parseStruct s = some t := by
  obtain ⟨e, w, he, hw, rfl, rfl⟩ := h
  have := atLevel e he (main e he) 4 (e.render ++ w).length w (level_le_four e) (Nat.le_refl _)
    (by simp) (allWs_cond hw _)
  have h' : pExpr ((e.render ++ w).length + 1) (e.render ++ w) = some (e.ast, w) := this
  unfold parseStruct
  rw [h']
  simp [skipWs_allWs hw]

/-- `parse_render` at full strength: a documented rendering of a tree whose regexes compile is accepted and the
result IS that tree. -/
theorem parse_render_exact (compiles : Str → Str → Bool) (t : Ast) (s : Str)
    (h : Renders t s) (hc : argsOk compiles t = true) : parse compiles s = some t := by
  simp [parse, parse_render_struct t s h, hc]

/-- The property: every expression built from the documented operators is accepted, and on every flow its verdict
is the documented one (that of the tree that was written down), whatever the leaves answer. -/
theorem parse_render (compiles : Str → Str → Bool) (t : Ast) (s : Str)
    (h : Renders t s) (hc : argsOk compiles t = true) :
    ∃ t', parse compiles s = some t' ∧
      ∀ (Flow : Type) (sem : Sem Flow) (f : Flow), eval sem t' f = eval sem t f :=
  ⟨t, parse_render_exact compiles t s h hc, fun _ _ _ => rfl⟩

/-- The only renderings of documented expressions that are refused are those with a regex that does not compile
(`_Rex.__init__` raises ValueError). -/
theorem parse_render_uncompilable (compiles : Str → Str → Bool) (t : Ast) (s : Str)
    (h : Renders t s) (hc : argsOk compiles t = false) : parse compiles s = none := by
  simp [parse, parse_render_struct t s h, hc]

/-- The documented meaning of the composite nodes: `!` negates, a conjunction holds iff all members hold,
a disjunction iff some member holds. -/
theorem eval_documented {Flow : Type} (sem : Sem Flow) (f : Flow) :
    (∀ t, eval sem (.not t) f = !eval sem t f) ∧
    (∀ l, eval sem (.and l) f = l.all (fun t => eval sem t f)) ∧
    (∀ l, eval sem (.or l) f = l.any (fun t => eval sem t f)) := by
  refine ⟨fun t => by simp [eval], fun l => ?_, fun l => ?_⟩
  · have : ∀ l : List Ast, evalAll sem l f = l.all (fun t => eval sem t f) := by
      intro l
      induction l with
      | nil => simp [evalAll]
      | cons t l ih => simp [evalAll, ih]
    simp [eval, this]
  · have : ∀ l : List Ast, evalAny sem l f = l.any (fun t => eval sem t f) := by
      intro l
      induction l with
      | nil => simp [evalAny]
      | cons t l ih => simp [evalAny, ih]
    simp [eval, this]

/-- one blank -/
private def sp : Str := [' ']
private theorem sp_ws : AllWs sp := ⟨by decide, trivial⟩

private theorem chain2_wf (kd : Kind) (a b : C) (ha : a.WF) (hb : b.WF) (la : a.level < kd.level) (lb : b.level < kd.level) :
    (C.chain kd a (.cons sp b .nil)).WF := by
  simp only [C.WF, CL.WF, CL.isNil]
  exact ⟨la, ha, trivial, sp_ws, fun _ => by simp [sp], lb, hb, trivial⟩

/-- `!` binds tighter than `&`:  `!x & y`  is  (not x) and y  — never  not (x and y). -/
theorem not_tighter_than_and (compiles : Str → Str → Bool) (x y : C) (hx : x.WF) (hy : y.WF)
    (lx : x.level ≤ 1) (ly : y.level ≤ 1)
    (cx : argsOk compiles x.ast = true) (cy : argsOk compiles y.ast = true) :
    ∃ t', parse compiles ('!' :: x.render ++ (sp ++ '&' :: y.render)) = some t' ∧
      ∀ (Flow : Type) (sem : Sem Flow) (f : Flow),
        eval sem t' f = (!eval sem x.ast f && eval sem y.ast f) := by
  have hn : (C.not [] x).WF := by simp only [C.WF]; exact ⟨trivial, lx, hx⟩
  have hwf := chain2_wf .and (.not [] x) y hn hy (by simp [C.level, Kind.level]) (by simp [Kind.level]; omega)
  have hr : Renders (.and [.not x.ast, y.ast]) ('!' :: x.render ++ (sp ++ '&' :: y.render)) :=
    ⟨_, [], hwf, trivial, by simp [C.ast, CL.asts, Kind.mk], by simp [C.render, CL.render, Kind.opStr]⟩
  refine ⟨_, parse_render_exact compiles _ _ hr (by simp [argsOk, argsOkL, cx, cy]), fun _ sem f => ?_⟩
  simp [eval, evalAll]

/-- `&` binds tighter than `|`:  `x & y | z`  is  (x and y) or z,  and  `x | y & z`  is  x or (y and z). -/
theorem and_tighter_than_or (compiles : Str → Str → Bool) (x y z : C) (hx : x.WF) (hy : y.WF) (hz : z.WF)
    (lx : x.level ≤ 1) (ly : y.level ≤ 1) (lz : z.level ≤ 1)
    (cx : argsOk compiles x.ast = true) (cy : argsOk compiles y.ast = true) (cz : argsOk compiles z.ast = true) :
    (∃ t', parse compiles (x.render ++ (sp ++ '&' :: y.render) ++ (sp ++ '|' :: z.render)) = some t' ∧
      ∀ (Flow : Type) (sem : Sem Flow) (f : Flow),
        eval sem t' f = ((eval sem x.ast f && eval sem y.ast f) || eval sem z.ast f)) ∧
    (∃ t', parse compiles (x.render ++ (sp ++ '|' :: (y.render ++ (sp ++ '&' :: z.render)))) = some t' ∧
      ∀ (Flow : Type) (sem : Sem Flow) (f : Flow),
        eval sem t' f = (eval sem x.ast f || (eval sem y.ast f && eval sem z.ast f))) := by
  have hxy := chain2_wf .and x y hx hy (by simp [Kind.level]; omega) (by simp [Kind.level]; omega)
  have hyz := chain2_wf .and y z hy hz (by simp [Kind.level]; omega) (by simp [Kind.level]; omega)
  have h1 := chain2_wf .or (.chain .and x (.cons sp y .nil)) z hxy hz (by simp [C.level, Kind.level]) (by simp [Kind.level]; omega)
  have h2 := chain2_wf .or x (.chain .and y (.cons sp z .nil)) hx hyz (by simp [Kind.level]; omega) (by simp [C.level, Kind.level])
  have r1 : Renders (.or [.and [x.ast, y.ast], z.ast]) (x.render ++ (sp ++ '&' :: y.render) ++ (sp ++ '|' :: z.render)) :=
    ⟨_, [], h1, trivial, by simp [C.ast, CL.asts, Kind.mk], by simp [C.render, CL.render, Kind.opStr]⟩
  have r2 : Renders (.or [x.ast, .and [y.ast, z.ast]]) (x.render ++ (sp ++ '|' :: (y.render ++ (sp ++ '&' :: z.render)))) :=
    ⟨_, [], h2, trivial, by simp [C.ast, CL.asts, Kind.mk], by simp [C.render, CL.render, Kind.opStr]⟩
  refine ⟨⟨_, parse_render_exact compiles _ _ r1 (by simp [argsOk, argsOkL, cx, cy, cz]), fun _ sem f => ?_⟩,
          ⟨_, parse_render_exact compiles _ _ r2 (by simp [argsOk, argsOkL, cx, cy, cz]), fun _ sem f => ?_⟩⟩
  · simp [eval, evalAll, evalAny]
  · simp [eval, evalAll, evalAny]

/-- Juxtaposition is the loosest conjunction ("the default binary operator is &", outermost):
`x y | z`  is  x and (y or z);  `x | y z`  is  (x or y) and z — also inside parentheses. -/
theorem juxtaposition_loosest (compiles : Str → Str → Bool) (x y z : C) (hx : x.WF) (hy : y.WF) (hz : z.WF)
    (lx : x.level ≤ 1) (ly : y.level ≤ 1) (lz : z.level ≤ 1)
    (cx : argsOk compiles x.ast = true) (cy : argsOk compiles y.ast = true) (cz : argsOk compiles z.ast = true) :
    (∃ t', parse compiles (x.render ++ (sp ++ (y.render ++ (sp ++ '|' :: z.render)))) = some t' ∧
      ∀ (Flow : Type) (sem : Sem Flow) (f : Flow),
        eval sem t' f = (eval sem x.ast f && (eval sem y.ast f || eval sem z.ast f))) ∧
    (∃ t', parse compiles ('(' :: (x.render ++ (sp ++ '|' :: y.render) ++ (sp ++ z.render)) ++ [')']) = some t' ∧
      ∀ (Flow : Type) (sem : Sem Flow) (f : Flow),
        eval sem t' f = ((eval sem x.ast f || eval sem y.ast f) && eval sem z.ast f)) := by
  have hyz := chain2_wf .or y z hy hz (by simp [Kind.level]; omega) (by simp [Kind.level]; omega)
  have hxy := chain2_wf .or x y hx hy (by simp [Kind.level]; omega) (by simp [Kind.level]; omega)
  have h1 := chain2_wf .juxt x (.chain .or y (.cons sp z .nil)) hx hyz (by simp [Kind.level]; omega) (by simp [C.level, Kind.level])
  have h2 := chain2_wf .juxt (.chain .or x (.cons sp y .nil)) z hxy hz (by simp [C.level, Kind.level]) (by simp [Kind.level]; omega)
  have h2g : (C.group [] (.chain .juxt (.chain .or x (.cons sp y .nil)) (.cons sp z .nil)) []).WF := by
    simp only [C.WF]; exact ⟨trivial, trivial, by simpa only [C.WF] using h2⟩
  have r1 : Renders (.and [x.ast, .or [y.ast, z.ast]]) (x.render ++ (sp ++ (y.render ++ (sp ++ '|' :: z.render)))) :=
    ⟨_, [], h1, trivial, by simp [C.ast, CL.asts, Kind.mk], by simp [C.render, CL.render, Kind.opStr]⟩
  have r2 : Renders (.and [.or [x.ast, y.ast], z.ast])
      ('(' :: (x.render ++ (sp ++ '|' :: y.render) ++ (sp ++ z.render)) ++ [')']) :=
    ⟨_, [], h2g, trivial, by simp [C.ast, CL.asts, Kind.mk], by simp [C.render, CL.render, Kind.opStr]⟩
  refine ⟨⟨_, parse_render_exact compiles _ _ r1 (by simp [argsOk, argsOkL, cx, cy, cz]), fun _ sem f => ?_⟩,
          ⟨_, parse_render_exact compiles _ _ r2 (by simp [argsOk, argsOkL, cx, cy, cz]), fun _ sem f => ?_⟩⟩
  · simp [eval, evalAll, evalAny]
  · simp [eval, evalAll, evalAny]

/-! ### non-vacuity -/

/-- a concrete rendering with odd spacing, a redundant group, a quoted argument with escapes and a naked regex
containing `|`:   `!~q &( ~h "a\"b\tc"  a|b )` -/
private def ex1 : C :=
  .chain .and (.not [] (.atom [] (.unary ['q'])))
    (.cons [' '] (.group [] (.chain .juxt
        (.atom [' '] (.rex ['h'] [' '] (.quoted '"' [.raw 'a', .esc '"', .raw 'b', .esc 't', .raw 'c'])))
        (.cons [' ', ' '] (.atom [] (.bare (.word ['a', '|', 'b']))) .nil)) [' ']) .nil)

example : ex1.WF := by
  simp [ex1, C.WF, CL.WF, CL.isNil, AtomC.WF, Arg.WF, ItemsWF, QItem.WF, AllWs, AllWordCh, C.level, Kind.level,
    C.endsWord, AtomC.endsWord, Arg.isWord, notOpStart, Arg.render]
  decide

example : String.ofList ex1.render = "!~q &( ~h \"a\\\"b\\tc\"  a|b )" := by decide +kernel

example : ex1.ast = .and [.not (.unary ['q']), .and [.rex ['h'] ['a', '"', 'b', '\t', 'c'], .rex ['u'] ['a', '|', 'b']]] := rfl

/-- the model parser does refuse things, and juxtaposition really differs from `|`-precedence -/
example : parseStruct "(~q".toList = none := by decide +kernel
example : parseStruct "~q)".toList = none := by decide +kernel
example : parseStruct "~u".toList = none := by decide +kernel
example : parseStruct "a|b".toList = some (.rex ['u'] ['a', '|', 'b']) := by rfl
example : parseStruct "a | b c".toList
    = some (.and [.or [.rex ['u'] ['a'], .rex ['u'] ['b']], .rex ['u'] ['c']]) := by rfl
/-- a regex that does not compile makes an otherwise fine expression invalid -/
example : parse (fun _ a => a != ['[']) "~q & [".toList = none := by decide +kernel

/-! ### the canonical printer: parse ∘ print = id on everything the grammar can express -/

/-- The canonical text of an expressible tree is one of the documented ways of writing it. -/
theorem print_renders (t : Ast) (h : Printable t) : Renders t (print t) := by
  obtain ⟨a, _, c⟩ := pr_ok t h 3 [] (by decide) (Nat.le_refl _) trivial
  exact ⟨pr 3 [] t, [], a, trivial, c, by simp [print]⟩

/-- parse ∘ print = id: for EVERY expressible tree (every operator code of the generated tables, every argument
string - empty, with quotes, backslashes, white space, parentheses, `~` - every number, any nesting of `!`, `&`, `|`)
the printed text is read back as exactly that tree. -/
theorem parse_print (t : Ast) (h : Printable t) : parseStruct (print t) = some t :=
  parse_render_struct t (print t) (print_renders t h)

/-- … and `flowfilter.parse` accepts it whenever its regexes compile. -/
theorem parse_print_compiles (compiles : Str → Str → Bool) (t : Ast) (h : Printable t)
    (hc : argsOk compiles t = true) : parse compiles (print t) = some t :=
  parse_render_exact compiles t (print t) (print_renders t h) hc

/-- `Printable` is exactly what the grammar can express: a tree is the parse of some text iff its codes come from the
tables and every conjunction/disjunction has at least two members. -/
theorem printable_iff_parsable (t : Ast) : Printable t ↔ ∃ s, parseStruct s = some t :=
  ⟨fun h => ⟨print t, parse_print t h⟩, fun ⟨s, h⟩ => parseStruct_printable s t h⟩

/-- The trees outside `Printable` (an unknown code, `FAnd`/`FOr` with fewer than two members, anywhere inside) are
never produced by the parser, whatever the text. -/
theorem not_printable_unparsable (t : Ast) (h : ¬ Printable t) (s : Str) : parseStruct s ≠ some t :=
  fun hs => h (parseStruct_printable s t hs)

/-- print ∘ parse is a normal form: whatever text was accepted, printing its tree and parsing again gives the same
tree (so `print (parse s)` is a canonical spelling of `s`). -/
theorem print_parse_normal (s : Str) (t : Ast) (h : parseStruct s = some t) : parseStruct (print t) = some t :=
  parse_print t (parseStruct_printable s t h)

theorem print_parse_normal_compiles (compiles : Str → Str → Bool) (s : Str) (t : Ast) (h : parse compiles s = some t) :
    parse compiles (print t) = some t := by
  unfold parse at h
  cases hp : parseStruct s with
  | none => simp [hp] at h
  | some t' =>
    simp only [hp] at h
    by_cases hc : argsOk compiles t' = true
    · simp [hc] at h
      subst h
      exact parse_print_compiles compiles t' (parseStruct_printable s t' hp) hc
    · simp [hc] at h

example : ¬ Printable (.and [.unary ['q']]) := by simp [Printable]
example : ¬ Printable (.or []) := by simp [Printable]
example : ¬ Printable (.not (.unary ['x', 'y'])) := by simp [Printable]; decide
example : String.ofList (print (.or [.and [.not (.rex ['u'] ['a', ' ', '"', '\\']), .int ['c'] 200], .rex ['b'] [],
    .not (.or [.unary ['q'], .rex ['h'] ['x', '|', 'y']])]))
    = "!~u \"a \\\"\\\\\" & ~c 200 | ~b \"\" | !(~q | ~h x|y)" := by decide +kernel

/-! ### evaluation is the Boolean algebra of the leaf verdicts, for every tree -/

theorem eval_not {Flow : Type} (sem : Sem Flow) (f : Flow) (t : Ast) : eval sem (.not t) f = !eval sem t f := by
  simp [eval]

theorem eval_and_all {Flow : Type} (sem : Sem Flow) (f : Flow) (l : List Ast) :
    eval sem (.and l) f = l.all (fun t => eval sem t f) := by
  simp [eval, evalAll_eq]

theorem eval_or_any {Flow : Type} (sem : Sem Flow) (f : Flow) (l : List Ast) :
    eval sem (.or l) f = l.any (fun t => eval sem t f) := by
  simp [eval, evalAny_eq]

/-- `eval` is the homomorphic extension of the leaf valuation: the verdict of a tree is the value of the Boolean
formula it stands for under "leaf ↦ its own verdict". -/
theorem eval_hom {Flow : Type} (sem : Sem Flow) (f : Flow) (t : Ast) :
    eval sem t f = evalV (fun a => eval sem a f) t :=
  eval_evalV sem f t

/-- The verdict depends on the leaves only through their verdicts: two engines (and two flows) that agree on every
leaf of `t` agree on `t`. -/
theorem eval_congr {Flow Flow' : Type} (sem : Sem Flow) (sem' : Sem Flow') (f : Flow) (f' : Flow') (t : Ast)
    (h : ∀ a ∈ leaves t, eval sem a f = eval sem' a f') : eval sem t f = eval sem' t f' := by
  rw [eval_hom sem f t, eval_hom sem' f' t]
  exact evalV_congr _ _ t h

theorem eval_double_neg {Flow : Type} (sem : Sem Flow) (f : Flow) (t : Ast) :
    eval sem (.not (.not t)) f = eval sem t f := by
  simp [eval]

/-- De Morgan -/
theorem eval_de_morgan {Flow : Type} (sem : Sem Flow) (f : Flow) (l : List Ast) :
    eval sem (.not (.and l)) f = eval sem (.or (l.map .not)) f ∧
    eval sem (.not (.or l)) f = eval sem (.and (l.map .not)) f := by
  rw [eval_not, eval_not, eval_and_all, eval_or_any, eval_or_any, eval_and_all]
  constructor
  · induction l with
    | nil => simp
    | cons t l ih => simp [eval, Bool.not_and, ih]
  · induction l with
    | nil => simp
    | cons t l ih => simp [eval, Bool.not_or, ih]

/-- Flattening: a conjunction directly inside a conjunction (a disjunction inside a disjunction) may be spliced in. -/
theorem eval_flatten {Flow : Type} (sem : Sem Flow) (f : Flow) (pre xs post : List Ast) :
    eval sem (.and (pre ++ .and xs :: post)) f = eval sem (.and (pre ++ xs ++ post)) f ∧
    eval sem (.or (pre ++ .or xs :: post)) f = eval sem (.or (pre ++ xs ++ post)) f := by
  simp [eval_and_all, eval_or_any, List.all_append, List.any_append, Bool.and_assoc, Bool.or_assoc]

/-- `And [And xs, y] ≡ And (xs ++ [y])` -/
theorem eval_and_nested {Flow : Type} (sem : Sem Flow) (f : Flow) (xs : List Ast) (y : Ast) :
    eval sem (.and [.and xs, y]) f = eval sem (.and (xs ++ [y])) f := by
  have := (eval_flatten sem f [] xs [y]).1
  simpa using this

/-- Commutativity: the verdict of a conjunction / disjunction does not depend on the order of its members. -/
theorem eval_perm {Flow : Type} (sem : Sem Flow) (f : Flow) (l l' : List Ast) (h : l.Perm l') :
    eval sem (.and l) f = eval sem (.and l') f ∧ eval sem (.or l) f = eval sem (.or l') f := by
  rw [eval_and_all, eval_and_all, eval_or_any, eval_or_any]
  exact ⟨perm_all _ h, perm_any _ h⟩

/-- The implicit-conjunction wrapper is absorbed: `FAnd` of one term is that term (the parser never builds it, and it
would not matter), the empty conjunction is true, the empty disjunction false, and members peel off. -/
theorem eval_wrapper {Flow : Type} (sem : Sem Flow) (f : Flow) (t : Ast) (l : List Ast) :
    eval sem (.and [t]) f = eval sem t f ∧ eval sem (.or [t]) f = eval sem t f ∧
    eval sem (.and []) f = true ∧ eval sem (.or []) f = false ∧
    eval sem (.and (t :: l)) f = (eval sem t f && eval sem (.and l) f) ∧
    eval sem (.or (t :: l)) f = (eval sem t f || eval sem (.or l) f) := by
  simp [eval_and_all, eval_or_any]

/-- a juxtaposed conjunction and the `&`-conjunction of the same members are the same tree, hence the same verdict;
wrapping the members of a run in one more conjunction changes nothing either -/
theorem eval_juxt_absorb {Flow : Type} (sem : Sem Flow) (f : Flow) (l : List Ast) :
    eval sem (.and [.and l]) f = eval sem (.and l) f := by
  simp [eval_and_all]

/-- non-vacuity of `eval_congr`: the leaves of a tree are what one expects -/
example : leaves (.or [.and [.not (.unary ['q']), .int ['c'] 7], .rex ['u'] ['x']])
    = [.unary ['q'], .int ['c'] 7, .rex ['u'] ['x']] := rfl

/-! ### the body operators answer on every flow, whatever the Content-Encoding -/

/-- What ~b/~bq/~bs search, case by case: nothing for a streamed body; the bytes as received without a
Content-Encoding; the decoded bytes when the decoder succeeds; the bytes AS RECEIVED when it fails. -/
theorem body_searched (dec : Str → Bytes → Option Bytes) (raw : Bytes) (c : Str) (hc : c ≠ []) :
    searched dec ⟨none, some c⟩ = none ∧
    searched dec ⟨some raw, none⟩ = some raw ∧
    searched dec ⟨some raw, some []⟩ = some raw ∧
    (∀ d, dec c raw = some d → searched dec ⟨some raw, some c⟩ = some d) ∧
    (dec c raw = none → searched dec ⟨some raw, some c⟩ = some raw) := by
  refine ⟨rfl, rfl, rfl, fun d hd => ?_, fun hd => ?_⟩ <;> simp [searched, hc, hd]

/-- A message with a body always gives the operator something to search - a decoder failure never takes the body away. -/
theorem body_searched_some (dec : Str → Bytes → Option Bytes) (raw : Bytes) (ce : Option Str) :
    ∃ b, searched dec ⟨some raw, ce⟩ = some b ∧ (b = raw ∨ ∃ c, ce = some c ∧ dec c raw = some b) := by
  cases ce with
  | none => exact ⟨raw, rfl, Or.inl rfl⟩
  | some c =>
    by_cases hc : c = []
    · exact ⟨raw, by simp [searched, hc], Or.inl rfl⟩
    · cases hd : dec c raw with
      | none => exact ⟨raw, by simp [searched, hc, hd], Or.inl rfl⟩
      | some d => exact ⟨d, by simp [searched, hc, hd], Or.inr ⟨c, rfl, hd⟩⟩

/-- The leaf verdict is total and is the search on the raw bytes when the coding cannot be applied, on the decoded
bytes when it can. -/
theorem bodyLeaf_total (search : Bytes → Bool) (dec : Str → Bytes → Option Bytes) (raw : Bytes) (c : Str) (hc : c ≠ []) :
    (dec c raw = none → bodyLeaf search dec [⟨some raw, some c⟩] = search raw) ∧
    (∀ d, dec c raw = some d → bodyLeaf search dec [⟨some raw, some c⟩] = search d) ∧
    bodyLeaf search dec [⟨none, some c⟩] = false ∧
    (∀ ms, bodyLeaf search dec ms = true ∨ bodyLeaf search dec ms = false) := by
  refine ⟨fun hd => ?_, fun d hd => ?_, by simp [bodyLeaf, searched], fun ms => ?_⟩
  · simp [bodyLeaf, searched, hc, hd]
  · simp [bodyLeaf, searched, hc, hd]
  · cases bodyLeaf search dec ms <;> simp

/-- Every tree has a verdict on every flow: evaluation never fails, whatever the leaves are. -/
theorem eval_total {Flow : Type} (sem : Sem Flow) (t : Ast) (f : Flow) : eval sem t f = true ∨ eval sem t f = false := by
  cases eval sem t f <;> simp

/-- a decoder that refuses everything: the operators then search exactly what was received -/
example : bodyLeaf (fun b => b == [104, 105]) (fun _ _ => none) [⟨some [104, 105], some ['g', 'z', 'i', 'p']⟩] = true := by
  decide

end MitmVerif.Props.C42
