/-
  C43 — property theorems for the model of `mitmproxy/addons/view.py` (View / Focus / Settings / _OrderKey).

  `run ops` is the state after ANY sequence of operations (add / update with new attributes / remove / clear /
  clear-unmarked / `mutate` = change of a flow that is NOT reported to the view / set_filter / set_order / set_reversed / toggle_marked / focus-follow / go / next / prev /
  focus assignment / settings write) applied to a fresh view; `step s op` is one more operation, its signal
  trace in `trace`.  `shown s` is `list(view)`.

  * `view_eq_sorted_filter`   listed => stored; a stored flow whose last change the view has seen is listed iff it
                              passes the filter (and is marked in marked-only mode); those flows are sorted by the
                              current key of the selected order, descending when reversed
  * `view_eq_sorted_filter_current`  with no unreported change pending: list(view) is a permutation of the matching
                              stored flows, sorted (`stale_nil_of_reported`: always so without `mutate`)
  * `each_once`               no flow is listed twice
  * `focus_in_view_or_empty`  the focus is a listed flow; it is None only when nothing is listed
  * `settings_subset_store`   only stored flows have a settings entry
  * `signals_match_changes`   add/remove/update/store-remove signals are sent exactly for the corresponding changes
                              (or a refresh signal covers a wholesale change); `update_is_announced`
  * `never_crashes`           no KeyError/IndexError/ValueError is raised from inside the view
  * `rank_is_order_embedding`, `view_sorted_by_real_keys`   the map from real keys to naturals as a theorem, and the
                              sortedness by generated keys for histories given by the flows' data, without hypothesis
  * `real_keys_total_preorder`, `view_sorted_by_generated_keys`   the four `generate` functions as code (`genKey`),
                              Python's `<=` on their values is a total preorder, and the list is sorted by them
  * `sorted_list_is_stable_sort`, `refilter_is_stable_sort_of_store`, `set_order_is_stable_sort_of_view`,
    `view_is_sort_when_keys_distinct`   the refinement to "filter the store, then stable sort": exact after a re-filter
                              / re-order, and exact always when keys are pairwise different (ties otherwise keep the
                              order of insertion, which depends on the history)
-/
import MitmVerif.Lemmas.C43e
import MitmVerif.Lemmas.C43f
import MitmVerif.Lemmas.C43h
set_option linter.unusedSectionVars false
set_option linter.unusedSimpArgs false
set_option linter.unusedVariables false
namespace MitmVerif.Props.C43
open MitmVerif MitmVerif.C43

/-- the flows that were changed behind the view's back (`mutate`) in a way that changed their visibility or their key
    under the selected order, and have not been re-evaluated since: a flow is current again after its own add / update /
    settings write, all flows are after clear, clear-unmarked, set_filter or toggle_marked (`dirtyStep`) -/
def stale (ops : List Op) : List Nat := (runD ops).2

private theorem sorted_current {s : VS} {D : List Nat} (h : Good s D) :
    (s.view.filter (fun g => decide (g ∉ D))).Pairwise (fun a b => gen s a ≤ gen s b) := by
  have hs : SortedBy (ck s) (s.view.filter (fun g => decide (g ∉ D))) :=
    List.Pairwise.sublist List.filter_sublist h.core.sorted
  apply sortedBy_congr _ hs
  intro a ha
  have ha' := List.mem_filter.mp ha
  obtain ⟨k, h1, h2⟩ := h.core.cached a ha'.1
  simp only [ck, h1, Option.getD_some]
  exact h2 (by simpa using ha'.2)

private theorem filter_all {l D : List Nat} (hD : D = []) : l.filter (fun g => decide (g ∉ D)) = l := by
  subst hD; simp

/-- **the view is the sorted filter** — after ANY operation sequence, including changes of flows that are not
    reported to the view:
    1. every listed flow is stored (so a removed / cleared flow is gone whatever happened to its key);
    2. a stored flow whose last change the view has seen (`∉ stale`) is listed iff it matches the current filter
       (and is marked while marked-only is on);
    3. among those flows the list is sorted by the current key of the selected order, descending when reversed. -/
theorem view_eq_sorted_filter (ops : List Op) :
    let s := run ops
    (∀ g, g ∈ shown s → g ∈ s.store) ∧
    (∀ g, g ∈ s.store → g ∉ stale ops → (g ∈ shown s ↔ visible s g = true)) ∧
    (if s.reversed then ((shown s).filter (fun g => decide (g ∉ stale ops))).Pairwise (fun a b => gen s b ≤ gen s a)
     else ((shown s).filter (fun g => decide (g ∉ stale ops))).Pairwise (fun a b => gen s a ≤ gen s b)) := by
  intro s
  have h : Good s (stale ops) := good_run ops
  have hsort := sorted_current h
  unfold shown
  cases hr : s.reversed with
  | true =>
    simp only [if_true, List.mem_reverse]
    refine ⟨h.core.viewSub, fun g hg hx => h.core.vis g hg hx, ?_⟩
    rw [List.filter_reverse]
    exact List.pairwise_reverse.mpr hsort
  | false =>
    simp only [Bool.false_eq_true, if_false]
    exact ⟨h.core.viewSub, fun g hg hx => h.core.vis g hg hx, hsort⟩

/-- … and when every change has been reported (`stale ops = []`, e.g. no `mutate` since the last re-filter, or each
    followed by the flow's `update`) this is the full statement: `list(view)` is a permutation of the matching stored
    flows, sorted by the selected order, reversed when requested. -/
theorem view_eq_sorted_filter_current (ops : List Op) (hcur : stale ops = []) :
    let s := run ops
    (shown s).Perm (s.store.filter (fun f => visible s f)) ∧
    (if s.reversed then (shown s).Pairwise (fun a b => gen s b ≤ gen s a)
     else (shown s).Pairwise (fun a b => gen s a ≤ gen s b)) := by
  intro s
  have h : Good s (stale ops) := good_run ops
  have hmem : ∀ g, g ∈ s.view ↔ g ∈ s.store.filter (fun f => visible s f) := by
    intro g
    rw [List.mem_filter]
    constructor
    · intro hg; exact ⟨h.core.viewSub g hg, (h.core.vis g (h.core.viewSub g hg) (by simp [hcur])).mp hg⟩
    · intro ⟨h1, h2⟩; exact (h.core.vis g h1 (by simp [hcur])).mpr h2
  have hperm : s.view.Perm (s.store.filter (fun f => visible s f)) :=
    (List.perm_ext_iff_of_nodup h.core.viewNodup (h.core.storeNodup.filter _)).mpr hmem
  have hsort := sorted_current h
  rw [filter_all hcur] at hsort
  unfold shown
  cases hr : s.reversed with
  | true =>
    simp only [if_true]
    exact ⟨(List.reverse_perm _).trans hperm, List.pairwise_reverse.mpr hsort⟩
  | false =>
    simp only [Bool.false_eq_true, if_false]
    exact ⟨hperm, hsort⟩

/-- histories without unreported changes have no stale flows -/
theorem stale_nil_of_reported (ops : List Op) (h : ∀ f a, Op.mutate f a ∉ ops) : stale ops = [] := by
  unfold stale runD
  have key : ∀ (ops : List Op) (p : VS × List Nat), p.2 = [] → (∀ f a, Op.mutate f a ∉ ops) →
      (ops.foldl (fun p op => (step p.1 op, dirtyStep p.1 p.2 op)) p).2 = [] := by
    intro ops
    induction ops with
    | nil => intro p hp _; exact hp
    | cons o os ih =>
      intro p hp hno
      simp only [List.foldl_cons]
      apply ih
      · show dirtyStep p.1 p.2 o = []
        rw [hp]
        cases o with
        | mutate f a => exact absurd (List.mem_cons_self ..) (hno f a)
        | add f a => simp only [dirtyStep]; split <;> simp
        | setval f => simp only [dirtyStep]; split <;> simp
        | _ => simp [dirtyStep]
      · intro f a hm; exact hno f a (List.mem_cons_of_mem _ hm)
  exact key ops (init, []) rfl h

/-- **each once**: no flow is listed twice -/
theorem each_once (ops : List Op) : (shown (run ops)).Nodup := by
  have h : Good (run ops) (stale ops) := good_run ops
  unfold shown
  split
  · exact (List.reverse_perm _).nodup_iff.mpr h.core.viewNodup
  · exact h.core.viewNodup

/-- **focus in view or empty**: the focus is always one of the listed flows; there is no focus only when
    nothing is listed -/
theorem focus_in_view_or_empty (ops : List Op) :
    match (run ops).focus with
    | none => shown (run ops) = []
    | some f => f ∈ shown (run ops) := by
  have h : Good (run ops) (stale ops) := good_run ops
  have hf := h.focus
  unfold FocusOK at hf
  unfold shown
  cases hfc : (run ops).focus with
  | none =>
    rw [hfc] at hf
    simp only
    split <;> simp [hf]
  | some f =>
    rw [hfc] at hf
    simp only
    split
    · exact List.mem_reverse.mpr hf
    · exact hf

/-- **settings ⊆ store**: per-flow settings (including the cached sort keys) exist only for stored flows -/
theorem settings_subset_store (ops : List Op) : ∀ g, g ∈ (run ops).settings → g ∈ (run ops).store :=
  (good_run ops).settings

/-- **never crashes**: none of the internal lookups (`settings[f][key]`, `view[idx]`, the focus setter's membership
    test) can fail -/
theorem never_crashes (ops : List Op) : (run ops).crash = false := (good_run ops).nocrash

/-- what the signals of one operation must say about it; `s` before, `s'` after -/
structure SigOK (s s' : VS) : Prop where
  /-- `sig_view_add(f)` only for a flow that was not listed and now is -/
  vadd : ∀ f, .vadd f ∈ s'.trace → f ∉ s.view ∧ f ∈ s'.view
  /-- `sig_view_remove(f, i)` only for a flow that was listed at index `i` and is no longer -/
  vrm : ∀ f i, .vrm f i ∈ s'.trace → f ∈ s.view ∧ i = s.view.idxOf f ∧ f ∉ s'.view
  /-- `sig_view_update(f)` only for a flow listed before and after -/
  vupd : ∀ f, .vupd f ∈ s'.trace → f ∈ s.view ∧ f ∈ s'.view
  /-- `sig_store_remove(f)` only for a flow that was stored and is no longer -/
  srm : ∀ f, .srm f ∈ s'.trace → f ∈ s.store ∧ f ∉ s'.store
  /-- every flow that entered the list is announced (individually or by a refresh) -/
  entered : ∀ f, f ∈ s'.view → f ∉ s.view → .vadd f ∈ s'.trace ∨ .vrefresh ∈ s'.trace
  /-- every flow that left the list is announced -/
  left : ∀ f, f ∈ s.view → f ∉ s'.view → (∃ i, .vrm f i ∈ s'.trace) ∨ .vrefresh ∈ s'.trace
  /-- every flow that left the store is announced -/
  unstored : ∀ f, f ∈ s.store → f ∉ s'.store → .srm f ∈ s'.trace ∨ .srefresh ∈ s'.trace

private theorem in_trace {s : VS} {x : Sig} (h : x ∈ sigs s) : x ∈ s.trace := ((mem_sigs s x).mp h).1

private theorem sigOK_of_shape {s s' : VS} {D : List Nat} (hg : Good s D) (sh : Shape s s') : SigOK s s' := by
  have toSigs : ∀ x : Sig, x ≠ .fchange → x ∈ s'.trace → x ∈ sigs s' := fun x hx h => (mem_sigs s' x).mpr ⟨h, hx⟩
  have nd := hg.core.viewNodup
  have snd := hg.core.storeNodup
  rcases sh with ⟨a, b, c⟩ | ⟨g, a, b, c, d⟩ | ⟨g, a, b, c, d⟩ | ⟨g, a, b, c, d⟩ | ⟨g, a, b, c, d, e⟩ | ⟨g, a, b, c, d, e⟩ | a
  · -- quiet
    refine ⟨?_, ?_, ?_, ?_, ?_, ?_, ?_⟩
    · intro f h; have := toSigs _ (by simp) h; rw [a] at this; simp at this
    · intro f i h; have := toSigs _ (by simp) h; rw [a] at this; simp at this
    · intro f h; have := toSigs _ (by simp) h; rw [a] at this; simp at this
    · intro f h; have := toSigs _ (by simp) h; rw [a] at this; simp at this
    · intro f h1 h2; exact absurd ((b f).mp h1) h2
    · intro f h1 h2; exact absurd ((b f).mpr h1) h2
    · intro f h1 h2; exact absurd (c f h1) h2
  · -- enter g
    have hin : Sig.vadd g ∈ s'.trace := in_trace (by rw [a]; simp)
    refine ⟨?_, ?_, ?_, ?_, ?_, ?_, ?_⟩
    · intro f h
      have := toSigs _ (by simp) h; rw [a] at this
      have hfg : f = g := by simpa using this
      subst hfg; exact ⟨b, (c f).mpr (Or.inl rfl)⟩
    · intro f i h; have := toSigs _ (by simp) h; rw [a] at this; simp at this
    · intro f h; have := toSigs _ (by simp) h; rw [a] at this; simp at this
    · intro f h; have := toSigs _ (by simp) h; rw [a] at this; simp at this
    · intro f h1 h2
      rcases (c f).mp h1 with h | h
      · subst h; exact Or.inl hin
      · exact absurd h h2
    · intro f h1 h2; exact absurd ((c f).mpr (Or.inr h1)) h2
    · intro f h1 h2; exact absurd (d f h1) h2
  · -- leave g
    have hin : Sig.vrm g (s.view.idxOf g) ∈ s'.trace := in_trace (by rw [a]; simp)
    have hnot : g ∉ s'.view := by rw [c]; exact fun hm => ((List.Nodup.mem_erase_iff nd).mp hm).1 rfl
    refine ⟨?_, ?_, ?_, ?_, ?_, ?_, ?_⟩
    · intro f h; have := toSigs _ (by simp) h; rw [a] at this; simp at this
    · intro f i h
      have := toSigs _ (by simp) h; rw [a] at this
      have hfg : f = g ∧ i = s.view.idxOf g := by simpa using this
      obtain ⟨h1, h2⟩ := hfg
      subst h1; exact ⟨b, h2, hnot⟩
    · intro f h; have := toSigs _ (by simp) h; rw [a] at this; simp at this
    · intro f h; have := toSigs _ (by simp) h; rw [a] at this; simp at this
    · intro f h1 h2; rw [c] at h1; exact absurd (List.mem_of_mem_erase h1) h2
    · intro f h1 h2
      by_cases hfg : f = g
      · subst hfg; exact Or.inl ⟨_, hin⟩
      · exfalso; apply h2; rw [c]; exact (List.mem_erase_of_ne hfg).mpr h1
    · intro f h1 h2; rw [d] at h2; exact absurd h1 h2
  · -- upd g
    refine ⟨?_, ?_, ?_, ?_, ?_, ?_, ?_⟩
    · intro f h; have := toSigs _ (by simp) h; rcases a with a | a <;> rw [a] at this <;> simp at this
    · intro f i h; have := toSigs _ (by simp) h; rcases a with a | a <;> rw [a] at this <;> simp at this
    · intro f h
      have := toSigs _ (by simp) h
      have hfg : f = g := by rcases a with a | a <;> rw [a] at this <;> simpa using this
      subst hfg; exact ⟨b, (c f).mpr b⟩
    · intro f h; have := toSigs _ (by simp) h; rcases a with a | a <;> rw [a] at this <;> simp at this
    · intro f h1 h2; exact absurd ((c f).mp h1) h2
    · intro f h1 h2; exact absurd ((c f).mpr h1) h2
    · intro f h1 h2; rw [d] at h2; exact absurd h1 h2
  · -- removeShown g
    have hin1 : Sig.vrm g (s.view.idxOf g) ∈ s'.trace := in_trace (by rw [a]; simp)
    have hin2 : Sig.srm g ∈ s'.trace := in_trace (by rw [a]; simp)
    have hnot : g ∉ s'.view := by rw [c]; exact fun hm => ((List.Nodup.mem_erase_iff nd).mp hm).1 rfl
    have hnots : g ∉ s'.store := by rw [d]; exact fun hm => ((List.Nodup.mem_erase_iff snd).mp hm).1 rfl
    refine ⟨?_, ?_, ?_, ?_, ?_, ?_, ?_⟩
    · intro f h; have := toSigs _ (by simp) h; rw [a] at this; simp at this
    · intro f i h
      have := toSigs _ (by simp) h; rw [a] at this
      have hfg : f = g ∧ i = s.view.idxOf g := by simpa using this
      obtain ⟨h1, h2⟩ := hfg
      subst h1; exact ⟨b, h2, hnot⟩
    · intro f h; have := toSigs _ (by simp) h; rw [a] at this; simp at this
    · intro f h
      have := toSigs _ (by simp) h; rw [a] at this
      have hfg : f = g := by simpa using this
      subst hfg; exact ⟨e, hnots⟩
    · intro f h1 h2; rw [c] at h1; exact absurd (List.mem_of_mem_erase h1) h2
    · intro f h1 h2
      by_cases hfg : f = g
      · subst hfg; exact Or.inl ⟨_, hin1⟩
      · exfalso; apply h2; rw [c]; exact (List.mem_erase_of_ne hfg).mpr h1
    · intro f h1 h2
      by_cases hfg : f = g
      · subst hfg; exact Or.inl hin2
      · exfalso; apply h2; rw [d]; exact (List.mem_erase_of_ne hfg).mpr h1
  · -- removeHidden g
    have hin2 : Sig.srm g ∈ s'.trace := in_trace (by rw [a]; simp)
    have hnots : g ∉ s'.store := by rw [d]; exact fun hm => ((List.Nodup.mem_erase_iff snd).mp hm).1 rfl
    refine ⟨?_, ?_, ?_, ?_, ?_, ?_, ?_⟩
    · intro f h; have := toSigs _ (by simp) h; rw [a] at this; simp at this
    · intro f i h; have := toSigs _ (by simp) h; rw [a] at this; simp at this
    · intro f h; have := toSigs _ (by simp) h; rw [a] at this; simp at this
    · intro f h
      have := toSigs _ (by simp) h; rw [a] at this
      have hfg : f = g := by simpa using this
      subst hfg; exact ⟨e, hnots⟩
    · intro f h1 h2; rw [c] at h1; exact absurd h1 h2
    · intro f h1 h2; rw [c] at h2; exact absurd h1 h2
    · intro f h1 h2
      by_cases hfg : f = g
      · subst hfg; exact Or.inl hin2
      · exfalso; apply h2; rw [d]; exact (List.mem_erase_of_ne hfg).mpr h1
  · -- wholesale
    have hR : Sig.vrefresh ∈ s'.trace := by
      rcases a with ⟨a, _⟩ | a <;> exact in_trace (by rw [a]; simp)
    refine ⟨?_, ?_, ?_, ?_, fun _ _ _ => Or.inr hR, fun _ _ _ => Or.inr hR, ?_⟩
    · intro f h; have := toSigs _ (by simp) h; rcases a with ⟨a, _⟩ | a <;> rw [a] at this <;> simp at this
    · intro f i h; have := toSigs _ (by simp) h; rcases a with ⟨a, _⟩ | a <;> rw [a] at this <;> simp at this
    · intro f h; have := toSigs _ (by simp) h; rcases a with ⟨a, _⟩ | a <;> rw [a] at this <;> simp at this
    · intro f h; have := toSigs _ (by simp) h; rcases a with ⟨a, _⟩ | a <;> rw [a] at this <;> simp at this
    · intro f h1 h2
      rcases a with ⟨_, a2⟩ | a
      · rw [a2] at h2; exact absurd h1 h2
      · exact Or.inr (in_trace (by rw [a]; simp))

/-- **signals match changes**: after any history, the add / remove / update / store-remove signals sent by the next
    operation are exactly justified by what it changed, and every change of the list or the store is announced -/
theorem signals_match_changes (ops : List Op) (op : Op) : SigOK (run ops) (step (run ops) op) :=
  sigOK_of_shape (good_run ops) (step_spec (good_run ops) op).2

/-- an `update` (or a settings write, which triggers the update hook) of a flow that is listed before and after
    is announced by `sig_view_update` -/
theorem update_is_announced (ops : List Op) (f : Nat) :
    (∀ a, f ∈ (run ops).view → f ∈ (step (run ops) (.update f a)).view →
        .vupd f ∈ (step (run ops) (.update f a)).trace) ∧
    (f ∈ (run ops).view → f ∈ (step (run ops) (.setval f)).view →
        .vupd f ∈ (step (run ops) (.setval f)).trace) :=
  ⟨fun a => step_update_announced (good_run ops) f a, step_setval_announced (good_run ops) f⟩

/-! ### refinement: the sorted list against "filter, then stable sort" -/

/-- **the sorted list is a stable sort**: inserting the elements of `l` one after the other at `bisect_right` of their
    key (`insertAll`, the model of `SortedListWithKey.add`/`update`) yields a permutation of `l` that is sorted by the
    key and in which elements with equal keys keep the order they had in `l`. -/
theorem sorted_list_is_stable_sort (k : Nat → Nat) (l : List Nat) :
    (insertAll k l).Perm l ∧ (insertAll k l).Pairwise (fun a b => k a ≤ k b) ∧
    ∀ c, (insertAll k l).filter (fun y => decide (k y = c)) = l.filter (fun y => decide (k y = c)) :=
  ⟨insertAll_perm k l, insertAll_sorted k l, fun c => insertAll_stable k c l⟩

/-- **a re-filter is exactly "filter the store, then stable sort"**: after any history, right after `set_filter`,
    `toggle_marked` or `clear_not_marked` the underlying list equals the stable sort, by the current keys of the
    selected order, of the stored flows (in store order) that match. -/
theorem refilter_is_stable_sort_of_store (ops : List Op) (op : Op)
    (hop : (∃ k, op = .setFilter k) ∨ op = .toggleMarked ∨ op = .clearUnmarked) :
    let s' := step (run ops) op
    s'.view = insertAll (gen s') (s'.store.filter (fun g => visible s' g)) := by
  intro s'
  have h : Good (run ops) (stale ops) := good_run ops
  let s0 : VS := { (run ops) with trace := [], err := false }
  rcases hop with ⟨k, hk⟩ | hk | hk
  · subst hk
    exact refilter_view (s := { s0 with filt := k }) h.core.storeNodup
  · subst hk
    exact refilter_view (s := { s0 with showMarked := !s0.showMarked }) h.core.storeNodup
  · subst hk
    exact refilter_view (s := { s0 with store := s0.store.filter (fun f => (s0.attrs f).marked) })
      (h.core.storeNodup.filter _)

/-- **a change of order is exactly a stable re-sort**: the new list is the stable sort of the old list by the current
    keys of the new order. -/
theorem set_order_is_stable_sort_of_view (ops : List Op) (sl : Nat) (hsl : 1 ≤ sl ∧ sl ≤ 4) :
    let s' := step (run ops) (.setOrder sl)
    s'.view = insertAll (gen s') (run ops).view := by
  intro s'
  have : s' = opSetOrder { (run ops) with trace := [], err := false } sl := by
    show apply _ (.setOrder sl) = _
    simp only [apply, hsl, and_self, if_true]
  rw [this]
  exact setOrder_view sl

/-- **with pairwise different keys the list is THE sorted filter**: when no unreported change is pending and the
    matching stored flows have pairwise different keys, `list(view)` is exactly the sort of the filtered store
    (reversed when requested) — whatever the history was. -/
theorem view_is_sort_when_keys_distinct (ops : List Op) (hcur : stale ops = [])
    (hinj : ∀ a b, a ∈ (run ops).store → b ∈ (run ops).store → visible (run ops) a = true → visible (run ops) b = true →
      gen (run ops) a = gen (run ops) b → a = b) :
    let s := run ops
    let sorted := insertAll (gen s) (s.store.filter (fun g => visible s g))
    shown s = if s.reversed then sorted.reverse else sorted := by
  intro s sorted
  have hv := view_eq_sorted_filter_current ops hcur
  have h : Good s (stale ops) := good_run ops
  have hperm : s.view.Perm (s.store.filter (fun g => visible s g)) := by
    have := hv.1
    unfold shown at this
    split at this
    · exact (List.reverse_perm _).symm.trans this
    · exact this
  have hsort : SortedBy (gen s) s.view := by
    have := sorted_current h
    rw [filter_all hcur] at this
    exact this
  have heq : s.view = sorted := by
    apply sorted_perm_unique _ hsort (insertAll_sorted _ _) (hperm.trans (insertAll_perm _ _).symm)
    intro a b ha hb hab
    have ha' := List.mem_filter.mp (hperm.mem_iff.mp ha)
    have hb' := List.mem_filter.mp (hperm.mem_iff.mp hb)
    exact hinj a b ha'.1 hb'.1 ha'.2 hb'.2 hab
  unfold shown
  rw [heq]

/-! ### the real sort keys -/

/-- **the order on the real keys**: within one order all generated keys are of one kind (numbers for time and size,
    strings for method and url), and on keys of one kind Python's `<=` (`SortKey.le`: numeric, resp. byte-wise
    lexicographic on the UTF-8 encodings = by code point) is total, transitive and antisymmetric — so "sorted by the
    selected order" is well defined for flows of every type. -/
theorem real_keys_total_preorder (slot : Nat) (d1 d2 d3 : FlowData) :
    (genKey slot d1).isNum = (genKey slot d2).isNum ∧
    ((genKey slot d1).le (genKey slot d2) = true ∨ (genKey slot d2).le (genKey slot d1) = true) ∧
    ((genKey slot d1).le (genKey slot d2) = true → (genKey slot d2).le (genKey slot d3) = true →
      (genKey slot d1).le (genKey slot d3) = true) ∧
    ((genKey slot d1).le (genKey slot d2) = true → (genKey slot d2).le (genKey slot d1) = true →
      genKey slot d1 = genKey slot d2) := by
  have hk : (genKey slot d1).isNum = (genKey slot d2).isNum := by rw [genKey_kind, genKey_kind]
  exact ⟨hk, SortKey.le_total _ _ hk, SortKey.le_trans _ _ _, SortKey.le_antisymm _ _⟩

/-- **sorted by the generated keys**: let `data f` be what the key generators read of flow `f`.  If the naturals
    handed to the view model are an order-preserving image of the generated keys of the flows whose last change the
    view has seen, then after any history those flows are listed in the order of their generated keys (`SortKey.le`,
    i.e. Python's `<=` on `generate(f)`), descending when reversed. -/
theorem view_sorted_by_generated_keys (ops : List Op) (data : Nat → FlowData)
    (hrank : ∀ a b, a ∈ (run ops).view → b ∈ (run ops).view → a ∉ stale ops → b ∉ stale ops →
      gen (run ops) a ≤ gen (run ops) b →
      (genKey (run ops).slot (data a)).le (genKey (run ops).slot (data b)) = true) :
    let s := run ops
    let cur := (shown s).filter (fun g => decide (g ∉ stale ops))
    if s.reversed then cur.Pairwise (fun a b => (genKey s.slot (data b)).le (genKey s.slot (data a)) = true)
    else cur.Pairwise (fun a b => (genKey s.slot (data a)).le (genKey s.slot (data b)) = true) := by
  intro s cur
  have h : Good s (stale ops) := good_run ops
  have hs := sorted_current h
  have hs' : (s.view.filter (fun g => decide (g ∉ stale ops))).Pairwise
      (fun a b => (genKey s.slot (data a)).le (genKey s.slot (data b)) = true) := by
    apply List.Pairwise.imp_of_mem _ hs
    intro a b ha hb hab
    have ha' := List.mem_filter.mp ha
    have hb' := List.mem_filter.mp hb
    exact hrank a b ha'.1 hb'.1 (by simpa using ha'.2) (by simpa using hb'.2) hab
  simp only [cur, shown]
  cases hr : s.reversed with
  | true =>
    simp only [if_true]
    rw [List.filter_reverse]
    exact List.pairwise_reverse.mpr hs'
  | false =>
    simp only [Bool.false_eq_true, if_false]
    exact hs'

/-- **an order-preserving map from the real keys to naturals exists**: the rank of a key among the keys occurring in the
    history (`rankIn K`: how many occurring keys are strictly smaller).  For occurring keys of one kind it preserves and
    reflects Python's `<=`. -/
theorem rank_is_order_embedding (K : List SortKey) (a b : SortKey) (hk : a.isNum = b.isNum) (hb : b ∈ K) :
    rankIn K a ≤ rankIn K b ↔ a.le b = true :=
  ⟨rankIn_reflects K a b hk hb, rankIn_preserves K a b⟩

/-- **sorted by the generated keys — without a hypothesis about the naturals**: take ANY history whose operations
    describe the flows by what the key generators read of them (`ROp`: `mutate` / `add` / `update` carry a `FlowData`).
    Feed the view model the ranks of the generated keys (`toOp (rankIn (keysOf rops))`, which is what the harness does).
    Then the listed flows whose last change the view has seen are in the order of their GENERATED keys
    (`genKey slot (live data)`, compared with Python's `<=`), descending when reversed.  `view_sorted_by_generated_keys`
    needed the order-preservation of the map as a hypothesis; here it is derived. -/
theorem view_sorted_by_real_keys (rops : List ROp) :
    let rank := rankIn (keysOf rops)
    let ops := rops.map (toOp rank)
    let s := run ops
    let data := (rrun rank rops).2
    let cur := (shown s).filter (fun g => decide (g ∉ stale ops))
    if s.reversed then cur.Pairwise (fun a b => (genKey s.slot (data b)).le (genKey s.slot (data a)) = true)
    else cur.Pairwise (fun a b => (genKey s.slot (data a)).le (genKey s.slot (data b)) = true) := by
  intro rank ops s data cur
  have hsync : Synced rank (keysOf rops) s data := by
    have := synced_rrun rank (keysOf rops) rops (fun k hk => hk)
    rw [rrun_fst] at this
    exact this
  have h : Good s (stale ops) := good_run ops
  apply view_sorted_by_generated_keys ops data
  intro a b ha hb _ _ hab
  have hsa := hsync a (h.core.viewSub a ha)
  have hsb := hsync b (h.core.viewSub b hb)
  have ha' : gen s a = rank (genKey s.slot (data a)) := hsa.1 s.slot
  have hb' : gen s b = rank (genKey s.slot (data b)) := hsb.1 s.slot
  rw [ha', hb'] at hab
  exact rankIn_reflects (keysOf rops) _ _ (by rw [genKey_kind, genKey_kind]) (hsb.2 s.slot) hab

/-! ### the model is not vacuous: the two recorded defect scenarios, now correct -/

private def aU : Attr := ⟨1, 0, 0, 10, false, [false]⟩      -- unmarked, size 10
private def aM : Attr := ⟨0, 0, 0, 20, true, [true]⟩        -- marked, size 20
private def aBig : Attr := ⟨1, 0, 0, 100, false, [false]⟩   -- the first flow grown to size 100

/-- F-C43a: in marked-only mode a new unmarked flow is not listed -/
example : shown (run [.add 0 aM, .toggleMarked, .add 1 aU]) = [0] := by decide
/-- … and an update that removes the mark removes the flow from the list, with a remove signal -/
example : (run [.add 0 aM, .toggleMarked, .update 0 aU]).trace.contains (.vrm 0 0) = true := by decide
/-- F-C43b: size order, switch to time, grow a flow, switch back: sorted by the current sizes -/
example : shown (run [.add 0 aU, .add 1 aM, .setOrder 4, .setOrder 1, .update 0 aBig, .setOrder 4]) = [1, 0] := by decide
example : shown (run [.add 0 aU, .add 1 aM, .setOrder 4, .setReversed true]) = [1, 0] := by decide
/-- the seeded defect c43-1: size order, the flow grows without an update, the user removes it — it is gone from
    the list and from the focus, and the removal is announced at its index -/
example : shown (run [.setOrder 4, .add 0 aU, .add 1 aM, .focus 0, .mutate 0 aBig, .remove 0]) = [1] := by decide
example : (run [.setOrder 4, .add 0 aU, .add 1 aM, .focus 0, .mutate 0 aBig, .remove 0]).focus = some 1 := by decide
example : (run [.setOrder 4, .add 0 aU, .add 1 aM, .focus 0, .mutate 0 aBig, .remove 0]).trace.contains (.vrm 0 0) = true := by decide
example : stale [.setOrder 4, .add 0 aU, .mutate 0 aBig, .add 1 aM] = [0] := by decide
/-- … under the time order the growth of the flow changes neither its key nor its visibility: it is not stale -/
example : stale [.add 0 aU, .mutate 0 aBig, .add 1 aM] = [] := by decide
example : stale [.setOrder 4, .add 0 aU, .mutate 0 aBig, .update 0 aBig] = [] := by decide
/-- a history in terms of the real flow data: two HTTP flows with methods POST and GET, ordered by method -/
example : shown (run ([ROp.add 0 (.http 0 [80, 79, 83, 84] [] none none) false [], ROp.add 1 (.http 1 [71, 69, 84] [] none none) false [],
    ROp.setOrder 2].map (toOp (rankIn (keysOf [ROp.add 0 (.http 0 [80, 79, 83, 84] [] none none) false [],
      ROp.add 1 (.http 1 [71, 69, 84] [] none none) false [], ROp.setOrder 2]))))) = [1, 0] := by decide
/-- the key generators on flows of every type -/
example : genKey 2 (.dns 0 7 none none) = .str [79, 80, 67, 79, 68, 69, 40, 55, 41] := by decide
example : genKey 2 (.stream 0 false [] []) = .str [85, 68, 80] := by decide
example : genKey 4 (.http 0 [] [] (some 3) (some (some 4))) = .num 7 ∧ genKey 4 (.http 0 [] [] none (some none)) = .num 0 := by decide
example : (SortKey.str [71, 69, 84]).le (.str [73, 81, 85, 69, 82, 89]) = true ∧
    (SortKey.str [98]).le (.str [97, 58, 56, 48]) = false := by decide
/-- ties keep store order after a re-filter; an update that moves a key away and back re-inserts behind its equals -/
private def aT : Attr := ⟨1, 0, 0, 10, false, [true]⟩
private def aT2 : Attr := ⟨2, 0, 0, 10, false, [true]⟩
example : shown (run [.add 0 aT, .add 1 aT, .setFilter 0]) = [0, 1] := by decide
example : shown (run [.add 0 aT, .add 1 aT, .update 0 aT2, .update 0 aT]) = [1, 0] := by decide
example : shown (run [.add 0 aT, .add 1 aT, .update 0 aT2, .update 0 aT, .setFilter 0]) = [0, 1] := by decide
/-- the focus follows removals -/
example : (run [.add 0 aU, .add 1 aM, .remove 1]).focus = some 0 := by decide
example : (run [.add 0 aU, .remove 0]).focus = none := by decide

/-! ### audit round 6: non-vacuity witnesses for the hypotheses of the conditional theorems (added by the auditor) -/
-- `view_eq_sorted_filter_current` / `view_is_sort_when_keys_distinct`: a 3-flow history under the size order, reversed,
-- with an update in between: nothing stale, pairwise different keys, and the list is the reversed sort
private def opsW : List Op := [.add 0 aU, .add 1 aM, .add 2 aBig, .setOrder 4, .update 0 aT2, .setReversed true]
example : stale opsW = [] := by decide
example : ∀ a ∈ (run opsW).store, ∀ b ∈ (run opsW).store, visible (run opsW) a = true → visible (run opsW) b = true →
    gen (run opsW) a = gen (run opsW) b → a = b := by decide
example : shown (run opsW) = [2, 1, 0] ∧ (run opsW).focus = some 0 := by decide
example : shown (run opsW) = (insertAll (gen (run opsW)) ((run opsW).store.filter (fun g => visible (run opsW) g))).reverse :=
  view_is_sort_when_keys_distinct opsW (by decide) (by
    intro a b ha hb
    have h : ∀ a ∈ (run opsW).store, ∀ b ∈ (run opsW).store, visible (run opsW) a = true → visible (run opsW) b = true →
        gen (run opsW) a = gen (run opsW) b → a = b := by decide
    exact h a ha b hb)
-- `update_is_announced`: the premises hold (listed before and after) and the update signal is in the trace
example : 0 ∈ (run [.add 0 aU, .add 1 aM]).view ∧ 0 ∈ (step (run [.add 0 aU, .add 1 aM]) (.update 0 aBig)).view ∧
    (step (run [.add 0 aU, .add 1 aM]) (.update 0 aBig)).trace.contains (.vupd 0) = true := by decide
-- `refilter_is_stable_sort_of_store` on a history with a tie and a hidden flow (filter 1 hides flow 0 and 2)
example : (step (run [.add 0 aU, .add 1 aM, .add 2 aBig, .setOrder 4]) (.setFilter 1)).view = [1] ∧
    (step (run [.add 0 aT, .add 1 aT, .add 2 aT2]) .toggleMarked).view = [] := by decide
-- `rank_is_order_embedding`: keys of one kind, `b` occurring; both sides of the equivalence true, and both false
example : rankIn [.num 3, .num 1, .num 2] (.num 2) ≤ rankIn [.num 3, .num 1, .num 2] (.num 3) ∧
    (SortKey.num 2).le (.num 3) = true ∧
    ¬ (rankIn [.num 3, .num 1, .num 2] (.num 3) ≤ rankIn [.num 3, .num 1, .num 2] (.num 2)) ∧
    (SortKey.num 3).le (.num 2) = false := by decide
-- the signal clauses are not trivially true: removing the focused first flow of two sends remove(0, idx 1: time order lists flow 1 first), a focus
-- change, and the store-remove signal, in this order
example : (step (run [.add 0 aU, .add 1 aM]) (.remove 0)).trace = [.fchange, .vrm 0 1, .srm 0] := by decide

end MitmVerif.Props.C43
