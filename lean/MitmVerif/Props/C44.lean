/-
  C44 — property theorems about the OptManager model (Model/C44.lean).
  * `typed_always`                         : every state reached by ANY history, and every state shown to a listener
                                             on the way, holds only values of the declared types
  * `rejected_update_restores_everything`  : an update-family operation that fails (TypeError / OptionsError) leaves
                                             every option exactly as it was
  * `rejected_update_listeners_see_restored_state_partial` (+ `_counterexample`, F-C44c)
  * `accepted_update_notifies_assigned_names`
  * `config_roundtrip_nondefault` (any YAML with parse ∘ dump = some) (+ `_partial`/`_counterexample` for U+0085, F-C44b)
-/
import MitmVerif.Model.C44
namespace MitmVerif.Props.C44
open MitmVerif MitmVerif.C44

/-- every option holds a default and a current value of its declared type -/
def TypedStore (s : Store) : Prop :=
  ∀ p ∈ s, typeOk p.2.ty p.2.dflt = true ∧ typeOk p.2.ty p.2.cur = true

def KeysNodup (s : Store) : Prop := (s.map (·.1)).Nodup

/-! ### store lemmas -/

private theorem setVal_keys (s : Store) (k : Name) (v : Val) : (setVal s k v).map (·.1) = s.map (·.1) := by
  unfold setVal
  rw [List.map_map]
  congr 1
  funext p
  simp only [Function.comp]
  split <;> rfl

private theorem typed_setVal (s : Store) (k : Name) (v : Val) (h : TypedStore s)
    (hv : ∀ p ∈ s, p.1 = k → typeOk p.2.ty v = true) : TypedStore (setVal s k v) := by
  intro q hq
  simp only [setVal, List.mem_map] at hq
  obtain ⟨p, hp, rfl⟩ := hq
  by_cases hk : (p.1 == k) = true
  · simp only [hk, if_true]
    exact ⟨(h p hp).1, hv p hp (by simpa using hk)⟩
  · simp only [hk]
    exact h p hp

private theorem allTyped_setVal (s : Store) (k : Name) (v : Val) (kvs : List (Name × Val)) :
    allTyped (setVal s k v) kvs = allTyped s kvs := by
  unfold allTyped setVal
  congr 1
  funext kv
  rw [List.all_map]
  congr 1
  funext p
  simp only [Function.comp]
  split <;> rfl

private theorem typed_assign (kvs : List (Name × Val)) : ∀ (s : Store), TypedStore s → allTyped s kvs = true →
    TypedStore (assign s kvs) := by
  induction kvs with
  | nil => intro s h _; exact h
  | cons kv r ih =>
    intro s h ha
    simp only [assign]
    have ha' : (s.all fun p => p.1 != kv.1 || typeOk p.2.ty kv.2) = true ∧ allTyped s r = true := by
      simpa [allTyped] using ha
    apply ih
    · apply typed_setVal _ _ _ h
      intro p hp hk
      have := (List.all_eq_true.mp ha'.1) p hp
      simpa [hk] using this
    · rw [allTyped_setVal]; exact ha'.2

private theorem assign_keys (kvs : List (Name × Val)) : ∀ s : Store, (assign s kvs).map (·.1) = s.map (·.1) := by
  induction kvs with
  | nil => intro s; rfl
  | cons kv r ih => intro s; simp only [assign]; rw [ih, setVal_keys]

private theorem mem_insertOpt (s : Store) (k : Name) (o : Opt) (q : Name × Opt) (hq : q ∈ insertOpt s k o) :
    q = (k, o) ∨ q ∈ s := by
  induction s with
  | nil => simp [insertOpt] at hq; exact Or.inl hq
  | cons p r ih =>
    simp only [insertOpt] at hq
    split at hq
    · rcases List.mem_cons.mp hq with h | h
      · exact Or.inl h
      · exact Or.inr (List.mem_cons_of_mem _ h)
    · rcases List.mem_cons.mp hq with h | h
      · exact Or.inr (h ▸ List.mem_cons_self)
      · rcases ih h with h' | h'
        · exact Or.inl h'
        · exact Or.inr (List.mem_cons_of_mem _ h')

private theorem insertOpt_keys_mem (s : Store) (k : Name) (o : Opt) (n : Name)
    (hn : n ∈ (insertOpt s k o).map (·.1)) : n = k ∨ n ∈ s.map (·.1) := by
  obtain ⟨q, hq, rfl⟩ := List.mem_map.mp hn
  rcases mem_insertOpt s k o q hq with h | h
  · exact Or.inl (by rw [h])
  · exact Or.inr (List.mem_map.mpr ⟨q, h, rfl⟩)

private theorem nodup_insertOpt (s : Store) (k : Name) (o : Opt) (h : KeysNodup s) : KeysNodup (insertOpt s k o) := by
  induction s with
  | nil => simp [insertOpt, KeysNodup]
  | cons p r ih =>
    simp only [KeysNodup, List.map_cons, List.nodup_cons] at h
    simp only [insertOpt]
    split
    · rename_i hk
      have hk' : p.1 = k := by simpa using hk
      simp only [KeysNodup, List.map_cons, List.nodup_cons]
      exact ⟨hk' ▸ h.1, h.2⟩
    · rename_i hk
      have hk' : ¬ p.1 = k := by simpa using hk
      simp only [KeysNodup, List.map_cons, List.nodup_cons]
      refine ⟨?_, ih h.2⟩
      intro hm
      rcases insertOpt_keys_mem r k o p.1 hm with h1 | h1
      · exact hk' h1
      · exact h.1 h1

/-! ### notification lemmas -/

private theorem notify_mem (s : Store) (u : List Name) (ls : List Listener) :
    ∀ ob ∈ (notify s u ls).1, ob.seen = s ∧ ob.updated = u ∧ ∃ l ∈ ls, l.id = ob.who ∧ concerned l u = true := by
  induction ls with
  | nil => intro ob h; simp [notify] at h
  | cons l r ih =>
    intro ob h
    simp only [notify] at h
    split at h
    · rename_i hc
      split at h
      · simp only [List.mem_singleton] at h
        subst h
        exact ⟨rfl, rfl, l, List.mem_cons_self, rfl, hc⟩
      · rcases List.mem_cons.mp h with h | h
        · subst h
          exact ⟨rfl, rfl, l, List.mem_cons_self, rfl, hc⟩
        · obtain ⟨a, b, l', hl', c⟩ := ih ob h
          exact ⟨a, b, l', List.mem_cons_of_mem _ hl', c⟩
    · obtain ⟨a, b, l', hl', c⟩ := ih ob h
      exact ⟨a, b, l', List.mem_cons_of_mem _ hl', c⟩

/-- a `changed.send` that nobody interrupts calls exactly the concerned listeners, in order -/
private theorem notify_delivered (s : Store) (u : List Name) (ls : List Listener) (h : (notify s u ls).2 = false) :
    (notify s u ls).1 = (ls.filter (concerned · u)).map (fun l => (⟨l.id, s, u⟩ : Obs)) := by
  induction ls with
  | nil => rfl
  | cons l r ih =>
    simp only [notify] at h ⊢
    by_cases hc : concerned l u = true
    · simp only [hc, if_true] at h ⊢
      by_cases hr : l.rejects s u = true
      · simp [hr] at h
      · simp only [hr] at h ⊢
        simp [hc, ih h]
    · simp only [hc] at h ⊢
      simp [hc, ih h]

/-! ### `typed_always` -/

/-- what one operation guarantees: the new store is typed with distinct names, and so is everything a listener saw -/
private def Good (r : Res) : Prop :=
  TypedStore r.st.opts ∧ KeysNodup r.st.opts ∧ ∀ ob ∈ r.obs, TypedStore ob.seen

private theorem good_updateKnown (st : St) (kw : List (Name × Val)) (h : TypedStore st.opts) (hn : KeysNodup st.opts) :
    Good (updateKnown st kw) := by
  unfold updateKnown
  simp only
  split
  · exact ⟨h, hn, by simp⟩
  · split
    · exact ⟨h, hn, by simp⟩
    · rename_i _ hall
      have hall' : allTyped st.opts (kw.filter fun kv => hasKey st.opts kv.1) = true := by simpa using hall
      have hnew := typed_assign _ st.opts h hall'
      have hkn : KeysNodup (assign st.opts (kw.filter fun kv => hasKey st.opts kv.1)) := by
        unfold KeysNodup; rw [assign_keys]; exact hn
      split
      · refine ⟨hnew, hkn, ?_⟩
        intro ob hob
        rw [(notify_mem _ _ _ ob hob).1]; exact hnew
      · refine ⟨h, hn, ?_⟩
        intro ob hob
        rcases List.mem_append.mp hob with hob | hob
        · rw [(notify_mem _ _ _ ob hob).1]; exact hnew
        · rw [(notify_mem _ _ _ ob hob).1]; exact h

private theorem update_st (st : St) (kw : List (Name × Val)) :
    (update st kw).st = (updateKnown st kw).st ∧ (update st kw).obs = (updateKnown st kw).obs := by
  unfold update; simp only; split <;> exact ⟨rfl, rfl⟩

private theorem good_update (st : St) (kw : List (Name × Val)) (h : TypedStore st.opts) (hn : KeysNodup st.opts) :
    Good (update st kw) := by
  have := good_updateKnown st kw h hn
  unfold Good at *
  rw [(update_st st kw).1, (update_st st kw).2]; exact this

private theorem updateDefer_opts (st : St) (kw : List (Name × Val)) :
    (updateDefer st kw).st.opts = (updateKnown st kw).st.opts ∧ (updateDefer st kw).obs = (updateKnown st kw).obs ∧
    (updateDefer st kw).out = (updateKnown st kw).out := by
  unfold updateDefer; simp only; split <;> exact ⟨rfl, rfl, rfl⟩

private theorem good_updateDefer (st : St) (kw : List (Name × Val)) (h : TypedStore st.opts) (hn : KeysNodup st.opts) :
    Good (updateDefer st kw) := by
  have := good_updateKnown st kw h hn
  unfold Good at *
  rw [(updateDefer_opts st kw).1, (updateDefer_opts st kw).2.1]; exact this

private theorem typed_insertOpt (s : Store) (n : Name) (ty : Ty) (d : Val) (h : TypedStore s) (hd : typeOk ty d = true) :
    TypedStore (insertOpt s n ⟨ty, d, d⟩) := by
  intro q hq
  rcases mem_insertOpt s n _ q hq with hq | hq
  · subst hq; exact ⟨hd, hd⟩
  · exact h q hq

private theorem good_addOption (st : St) (n : Name) (ty : Ty) (d : Val) (h : TypedStore st.opts) (hn : KeysNodup st.opts) :
    Good (addOption st n ty d) := by
  unfold addOption
  split
  · exact ⟨h, hn, by simp⟩
  · rename_i hd
    have hd' : typeOk ty d = true := by simpa using hd
    have hnew := typed_insertOpt st.opts n ty d h hd'
    refine ⟨hnew, nodup_insertOpt _ _ _ hn, ?_⟩
    intro ob hob
    rw [(notify_mem _ _ _ ob hob).1]; exact hnew

private theorem good_reset (st : St) (h : TypedStore st.opts) (hn : KeysNodup st.opts) : Good (reset st) := by
  unfold reset
  have hnew : TypedStore (st.opts.map fun p => (p.1, { p.2 with cur := p.2.dflt })) := by
    intro q hq
    obtain ⟨p, hp, rfl⟩ := List.mem_map.mp hq
    exact ⟨(h p hp).1, (h p hp).1⟩
  refine ⟨hnew, ?_, ?_⟩
  · simp only [KeysNodup, List.map_map]
    exact hn
  · intro ob hob
    rw [(notify_mem _ _ _ ob hob).1]; exact hnew

private theorem good_subscribe (st : St) (l : Listener) (h : TypedStore st.opts) (hn : KeysNodup st.opts) :
    Good (subscribe st l) := by
  unfold subscribe
  split
  · split <;> exact ⟨h, hn, by simp⟩
  · exact ⟨h, hn, by simp⟩

private theorem good_setSpecs (st : St) (specs : List (Name × Option PyStr)) (defer : Bool)
    (h : TypedStore st.opts) (hn : KeysNodup st.opts) : Good (setSpecs st specs defer) := by
  unfold setSpecs
  simp only
  split
  · exact ⟨h, hn, by simp⟩
  · split
    · exact good_update _ _ h hn
    · split
      · exact ⟨h, hn, by simp⟩
      · exact good_update _ _ h hn

private theorem good_processDeferred (st : St) (h : TypedStore st.opts) (hn : KeysNodup st.opts) :
    Good (processDeferred st) := by
  unfold processDeferred
  split
  · exact ⟨h, hn, by simp⟩
  · rename_i upd _
    have := good_update st upd h hn
    simp only
    split
    · exact this
    · exact this

private theorem good_merge (st : St) (kvs : List (Name × Val)) (h : TypedStore st.opts) (hn : KeysNodup st.opts) :
    Good (merge st kvs) := by
  unfold merge
  split
  · exact ⟨h, hn, by simp⟩
  · exact good_update st _ h hn

private theorem good_step (st : St) (op : Op) (h : TypedStore st.opts) (hn : KeysNodup st.opts) : Good (step st op) := by
  cases op with
  | addOption n ty d => exact good_addOption st n ty d h hn
  | subscribe l => exact good_subscribe st l h hn
  | update kw => exact good_update st kw h hn
  | updateKnown kw => exact good_updateKnown st kw h hn
  | updateDefer kw => exact good_updateDefer st kw h hn
  | set specs defer => exact good_setSpecs st specs defer h hn
  | processDeferred => exact good_processDeferred st h hn
  | reset => exact good_reset st h hn
  | merge kvs => exact good_merge st kvs h hn
  | load env cwd data =>
    simp only [step, load]
    split
    · exact good_updateDefer st _ h hn
    · split
      · exact ⟨h, hn, by simp⟩
      · exact good_updateDefer st _ h hn

private theorem good_runFrom (ops : List Op) : ∀ st : St, TypedStore st.opts → KeysNodup st.opts →
    TypedStore (runFrom st ops).1.opts ∧ KeysNodup (runFrom st ops).1.opts ∧ ∀ ob ∈ (runFrom st ops).2, TypedStore ob.seen := by
  induction ops with
  | nil => intro st h hn; exact ⟨h, hn, by simp [runFrom]⟩
  | cons op r ih =>
    intro st h hn
    obtain ⟨g1, g2, g3⟩ := good_step st op h hn
    obtain ⟨i1, i2, i3⟩ := ih (step st op).st g1 g2
    refine ⟨i1, i2, ?_⟩
    intro ob hob
    simp only [runFrom] at hob
    rcases List.mem_append.mp hob with hob | hob
    · exact g3 ob hob
    · exact i3 ob hob

private theorem inv_run (ops : List Op) :
    TypedStore (run ops).1.opts ∧ KeysNodup (run ops).1.opts ∧ ∀ ob ∈ (run ops).2, TypedStore ob.seen :=
  good_runFrom ops St.empty (by intro p hp; simp [St.empty] at hp) (by simp [St.empty, KeysNodup])

/-- **typed_always.** After ANY history of operations (declarations, listeners with arbitrary verdict functions,
    updates with arbitrary values incl. ill-typed ones, `set` specs, deferred options, reset) every option holds a
    default and a current value of its declared type — and so did every state any listener was shown on the way. -/
theorem typed_always (ops : List Op) :
    TypedStore (run ops).1.opts ∧ ∀ ob ∈ (run ops).2, TypedStore ob.seen :=
  ⟨(inv_run ops).1, (inv_run ops).2.2⟩

example : TypedStore (run [.addOption 0 .int (.a (.i 0)), .update [(0, .a (.i 5))]]).1.opts := (typed_always _).1
/-- the model does reject: an ill-typed value is refused, an ill-typed default is refused -/
example : (updateKnown ⟨[(0, ⟨.int, .a (.i 0), .a (.i 0)⟩)], [], [], []⟩ [(0, .a (.s [0x78]))]).out = .typeError := by decide
example : (addOption St.empty 0 .seqStr (.seq [.s [], .i 1])).out = .typeError := by decide

/-! ### rejected updates -/

/-- the operations that go through `update_known` -/
def isUpdateOp : Op → Bool
  | .update _ | .updateKnown _ | .updateDefer _ | .set _ _ | .processDeferred | .merge _ => true
  | _ => false

private theorem updateKnown_rejected (st : St) (kw : List (Name × Val)) (h : (updateKnown st kw).out ≠ .ok) :
    (updateKnown st kw).st = st := by
  unfold updateKnown at h ⊢
  simp only at h ⊢
  split
  · rfl
  · split
    · rfl
    · split
      · rename_i h1 h2 h3
        simp [h1, h2, h3] at h
      · rfl

private theorem updateKnown_out (st : St) (kw : List (Name × Val)) :
    (updateKnown st kw).out = .ok ∨ (updateKnown st kw).out = .typeError ∨ (updateKnown st kw).out = .optionsError := by
  unfold updateKnown
  simp only
  split
  · exact Or.inl rfl
  · split
    · exact Or.inr (Or.inl rfl)
    · split
      · exact Or.inl rfl
      · exact Or.inr (Or.inr rfl)

private theorem update_rejected (st : St) (kw : List (Name × Val))
    (h : (update st kw).out = .typeError ∨ (update st kw).out = .optionsError) : (update st kw).st = st := by
  rw [(update_st st kw).1]
  apply updateKnown_rejected
  intro hok
  unfold update at h
  simp only [hok] at h
  split at h <;> simp_all

private theorem setSpecs_rejected (st : St) (specs : List (Name × Option PyStr)) (defer : Bool)
    (h : (setSpecs st specs defer).out = .typeError ∨ (setSpecs st specs defer).out = .optionsError) :
    (setSpecs st specs defer).st.opts = st.opts := by
  unfold setSpecs at h ⊢
  simp only at h ⊢
  cases hp : parseAll st.opts (groupSpecs specs) with
  | none => rfl
  | some processed =>
    simp only [hp] at h ⊢
    cases defer with
    | true =>
      simp only [if_true] at h ⊢
      rw [update_rejected _ _ h]
    | false =>
      simp only [Bool.false_eq_true, if_false] at h ⊢
      by_cases hu : (!(List.filter (fun p => !hasKey st.opts p.fst) (groupSpecs specs)).isEmpty) = true
      · simp only [hu, if_true]
      · simp only [hu, Bool.false_eq_true, ↓reduceIte] at h ⊢
        rw [update_rejected _ _ h]

private theorem processDeferred_rejected (st : St)
    (h : (processDeferred st).out = .typeError ∨ (processDeferred st).out = .optionsError) :
    (processDeferred st).st.opts = st.opts := by
  unfold processDeferred at h ⊢
  cases hp : deferredValues st.opts st.deferred with
  | none => rfl
  | some upd =>
    simp only [hp] at h ⊢
    by_cases hok : ((update st upd).out == .ok) = true
    · have hok' : (update st upd).out = .ok := by simpa using hok
      simp only [hok, if_true] at h
      rcases h with h | h <;> simp [hok'] at h
    · simp only [hok, Bool.false_eq_true, ↓reduceIte] at h ⊢
      rw [update_rejected _ _ h]

/-- **rejected_update_restores_everything.** Whatever the history before it, an update-family operation
    (`update`, `__setattr__`, `update_known`, `update_defer`, `set`, `process_deferred`) that is rejected — by the type
    check (TypeError) or by any listener (OptionsError), including a listener that rejects the rollback notification
    as well — leaves every option exactly as it was (names, types, defaults and values), for ALL listener functions. -/
theorem rejected_update_restores_everything (st : St) (op : Op) (hop : isUpdateOp op = true)
    (h : (step st op).out = .typeError ∨ (step st op).out = .optionsError) :
    (step st op).st.opts = st.opts := by
  cases op with
  | addOption n ty d => simp [isUpdateOp] at hop
  | subscribe l => simp [isUpdateOp] at hop
  | reset => simp [isUpdateOp] at hop
  | load env cwd data => simp [isUpdateOp] at hop
  | merge kvs =>
    simp only [step, merge] at h ⊢
    cases hm : mergeVals st.opts kvs with
    | error e => rfl
    | ok toset => simp only [hm] at h ⊢; rw [update_rejected _ _ h]
  | update kw => simp only [step] at h ⊢; rw [update_rejected st kw h]
  | updateKnown kw =>
    simp only [step] at h ⊢
    rw [updateKnown_rejected st kw (by rcases h with h | h <;> simp [h])]
  | updateDefer kw =>
    simp only [step] at h ⊢
    rw [(updateDefer_opts st kw).1]
    rw [(updateDefer_opts st kw).2.2] at h
    rw [updateKnown_rejected st kw (by rcases h with h | h <;> simp [h])]
  | set specs defer => exact setSpecs_rejected st specs defer h
  | processDeferred => exact processDeferred_rejected st h

/-- the same at the anchored mechanism: a failing `update_known` returns the identical state (options, deferred
    options and listeners) -/
theorem rejected_update_known_restores_state (st : St) (kw : List (Name × Val))
    (h : (updateKnown st kw).out ≠ .ok) : (updateKnown st kw).st = st :=
  updateKnown_rejected st kw h

/-- a listener rejecting `a = 5`: the update is refused and nothing changed -/
example :
    let st : St := ⟨[(0, ⟨.int, .a (.i 0), .a (.i 0)⟩), (1, ⟨.int, .a (.i 0), .a (.i 0)⟩)], [], [],
      [⟨1, none, fun s _ => (lookup s 0).any (fun o => pyEq o.cur (.a (.i 5))), fun _ _ => none⟩]⟩
    (step st (.update [(1, .a (.i 9)), (0, .a (.i 5))])).out = .optionsError ∧
    (step st (.update [(1, .a (.i 9)), (0, .a (.i 5))])).st.opts = st.opts := by decide

/-- the state a listener saw last during one operation -/
def lastSeen (obs : List Obs) (who : Nat) : Option Store :=
  (obs.reverse.find? (·.who == who)).map (·.seen)

/-- the rollback notification (`changed.send` after restoring the snapshot) was delivered to everybody -/
def rollbackDelivered (st : St) (kw : List (Name × Val)) : Bool :=
  !(notify st.opts ((kw.filter fun kv => hasKey st.opts kv.1).map (·.1)) st.listeners).2

/-- full statement (FALSE for the code as it is, see the counterexample): after a rejected update every listener
    that was called ends up having seen the restored state -/
def ListenersSeeRestoredState : Prop :=
  ∀ (st : St) (kw : List (Name × Val)), (updateKnown st kw).out ≠ .ok →
    ∀ ob ∈ (updateKnown st kw).obs, lastSeen (updateKnown st kw).obs ob.who = some st.opts

private theorem lastSeen_append (a b : List Obs) (who : Nat) (s : Store)
    (hb : ∀ ob ∈ b, ob.seen = s) (hex : ∃ ob ∈ b, ob.who = who) : lastSeen (a ++ b) who = some s := by
  unfold lastSeen
  rw [List.reverse_append, List.find?_append]
  obtain ⟨ob, hob, hw⟩ := hex
  have hsome : (b.reverse.find? (·.who == who)).isSome = true := by
    rw [List.find?_isSome]
    exact ⟨ob, List.mem_reverse.mpr hob, by simp [hw]⟩
  obtain ⟨x, hx⟩ := Option.isSome_iff_exists.mp hsome
  rw [hx]
  simp only [Option.some_or, Option.map_some]
  have hxm : x ∈ b := List.mem_reverse.mp (List.mem_of_find?_eq_some hx)
  rw [hb x hxm]

/-- **rejected_update_…_listeners_see_restored_state (partial).** For ALL states, listener functions and
    arguments: if the update is rejected and the rollback notification is delivered completely, every listener
    that was called during the update has, as its last view, exactly the restored (= previous) option state. -/
theorem rejected_update_listeners_see_restored_state_partial (st : St) (kw : List (Name × Val))
    (h : (updateKnown st kw).out ≠ .ok) (hd : rollbackDelivered st kw = true) :
    (updateKnown st kw).st = st ∧
    ∀ ob ∈ (updateKnown st kw).obs, lastSeen (updateKnown st kw).obs ob.who = some st.opts := by
  refine ⟨updateKnown_rejected st kw h, ?_⟩
  unfold rollbackDelivered at hd
  unfold updateKnown at h ⊢
  simp only at h ⊢
  split
  · intro ob hob; simp at hob
  · split
    · intro ob hob; simp at hob
    · split
      · rename_i h1 h2 h3
        simp [h1, h2, h3] at h
      · intro ob hob
        simp only at hob
        have hd' : (notify st.opts ((kw.filter fun kv => hasKey st.opts kv.1).map (·.1)) st.listeners).2 = false := by
          simpa using hd
        have hdel := notify_delivered _ _ _ hd'
        apply lastSeen_append
        · intro ob' hob'
          exact (notify_mem _ _ _ ob' hob').1
        · -- the listener of `ob` is concerned, hence it is called again by the delivered rollback notification
          have hl : ∃ l ∈ st.listeners, l.id = ob.who ∧
              concerned l ((kw.filter fun kv => hasKey st.opts kv.1).map (·.1)) = true := by
            rcases List.mem_append.mp hob with hob | hob
            · exact (notify_mem _ _ _ ob hob).2.2
            · exact (notify_mem _ _ _ ob hob).2.2
          obtain ⟨l, hl, hid, hc⟩ := hl
          rw [hdel]
          refine ⟨⟨l.id, st.opts, (kw.filter fun kv => hasKey st.opts kv.1).map (·.1)⟩, ?_, hid⟩
          exact List.mem_map.mpr ⟨l, List.mem_filter.mpr ⟨hl, hc⟩, rfl⟩

/-- F-C44c witness: listener 1 accepts `a = 5` but rejects the default `a = 0`; listener 2 rejects `a = 5`.
    `update(a=5)`: 1 sees 5, 2 sees 5 and raises; rollback: 1 sees 0 and raises — 2 is never told. -/
def cexState : St :=
  ⟨[(0, ⟨.int, .a (.i 0), .a (.i 0)⟩)], [], [],
   [⟨1, none, fun s _ => (lookup s 0).any (fun o => pyEq o.cur (.a (.i 0))), fun _ _ => none⟩,
    ⟨2, none, fun s _ => (lookup s 0).any (fun o => pyEq o.cur (.a (.i 5))), fun _ _ => none⟩]⟩

theorem rejected_update_listeners_see_restored_state_counterexample : ¬ ListenersSeeRestoredState := by
  intro h
  have h1 := h cexState [(0, .a (.i 5))] (by decide) ⟨2, [(0, ⟨.int, .a (.i 0), .a (.i 5)⟩)], [0]⟩ (by decide)
  revert h1
  decide

/-- the guard of the partial theorem is satisfiable with a real rejection (listener 2 alone) -/
example :
    let st : St := { cexState with direct := cexState.direct.drop 1 }
    (updateKnown st [(0, .a (.i 5))]).out = .optionsError ∧ rollbackDelivered st [(0, .a (.i 5))] = true ∧
    lastSeen (updateKnown st [(0, .a (.i 5))]).obs 2 = some st.opts := by decide

/-! ### accepted updates -/

/-- the value an update assigns to option `n` (the last pair for that name), if any -/
def finalVal : List (Name × Val) → Name → Option Val
  | [], _ => none
  | kv :: r, n =>
    match finalVal r n with
    | some v => some v
    | none => if kv.1 == n then some kv.2 else none

private theorem assign_eq (kvs : List (Name × Val)) : ∀ s : Store,
    assign s kvs = s.map fun p => (p.1, { p.2 with cur := (finalVal kvs p.1).getD p.2.cur }) := by
  induction kvs with
  | nil =>
    intro s
    simp only [assign, finalVal, Option.getD_none]
    exact (List.map_id' s).symm
  | cons kv r ih =>
    intro s
    simp only [assign]
    rw [ih, setVal, List.map_map]
    apply List.map_congr_left
    intro p _
    simp only [Function.comp, finalVal]
    by_cases hk : p.1 = kv.1
    · have e1 : (p.1 == kv.1) = true := by rw [beq_iff_eq]; exact hk
      have e2 : (kv.1 == p.1) = true := by rw [beq_iff_eq]; exact hk.symm
      rw [if_pos e1]
      cases hf : finalVal r p.1 <;> simp [hf, e2]
    · have e1 : ¬ (p.1 == kv.1) = true := by rw [beq_iff_eq]; exact hk
      have e2 : ¬ (kv.1 == p.1) = true := by rw [beq_iff_eq]; exact fun h => hk h.symm
      rw [if_neg e1]
      cases hf : finalVal r p.1 <;> simp [hf, e2]

/-- **accepted_update_notifies_assigned_names.** For ALL states, listener functions and arguments: if `update_known`
    succeeds, then (1) the new options are the old ones with exactly the known names re-assigned (last value wins),
    (2) when at least one name was assigned, exactly the listeners concerned by those names (subscribers whose name
    set meets them, and every receiver connected to `changed`) were each called once, in order, with the names of the
    assigned options and with the new state in view; nobody else was called; (3) the unknown pairs are returned. -/
theorem accepted_update_notifies_assigned_names (st : St) (kw : List (Name × Val))
    (h : (updateKnown st kw).out = .ok) :
    let known := kw.filter fun kv => hasKey st.opts kv.1
    let names := known.map (·.1)
    let new := (updateKnown st kw).st.opts
    new = (st.opts.map fun p => (p.1, { p.2 with cur := (finalVal known p.1).getD p.2.cur })) ∧
    (updateKnown st kw).obs =
      (if known.isEmpty then [] else (st.listeners.filter (concerned · names)).map fun l => (⟨l.id, new, names⟩ : Obs)) ∧
    (updateKnown st kw).unknown = kw.filter (fun kv => !hasKey st.opts kv.1) := by
  unfold updateKnown at h ⊢
  simp only at h ⊢
  split
  · rename_i h1
    refine ⟨?_, by simp [h1], rfl⟩
    have : (kw.filter fun kv => hasKey st.opts kv.1) = [] := by simpa using h1
    rw [this]
    simp only [finalVal, Option.getD_none]
    exact (List.map_id' st.opts).symm
  · rename_i h1
    split
    · rename_i h2; simp [h1, h2] at h
    · split
      · rename_i h3
        refine ⟨assign_eq _ _, ?_, rfl⟩
        simp only [h1]
        have h3' : (notify (assign st.opts (kw.filter fun kv => hasKey st.opts kv.1))
            ((kw.filter fun kv => hasKey st.opts kv.1).map (·.1)) st.listeners).2 = false := by simpa using h3
        simpa using notify_delivered _ _ _ h3'
      · rename_i h2 h3; simp [h1, h2, h3] at h

/-- `update` (and `__setattr__`) differ from `update_known` only in reporting unknown names with KeyError afterwards -/
theorem update_is_update_known (st : St) (kw : List (Name × Val)) :
    (update st kw).st = (updateKnown st kw).st ∧ (update st kw).obs = (updateKnown st kw).obs ∧
    ((update st kw).out = .keyError → (updateKnown st kw).out = .ok) := by
  refine ⟨(update_st st kw).1, (update_st st kw).2, ?_⟩
  unfold update
  simp only
  split
  · rename_i hc; intro _; simp only [Bool.and_eq_true, beq_iff_eq] at hc; exact hc.1
  · intro hk
    have := updateKnown_out st kw
    rcases this with h | h | h <;> simp [h] at hk ⊢

example :
    let st : St := ⟨[(0, ⟨.int, .a (.i 0), .a (.i 0)⟩), (1, ⟨.str, .a (.s []), .a (.s [])⟩)], [],
      [⟨7, some [1], fun _ _ => false, fun _ _ => none⟩], [⟨8, none, fun _ _ => false, fun _ _ => none⟩]⟩
    (updateKnown st [(0, .a (.i 5)), (9, .a .none)]).out = .ok ∧
    (updateKnown st [(0, .a (.i 5)), (9, .a .none)]).obs.map (·.who) = [8] := by decide

/-! ### config round trip -/

/-- the options after save→load: every non-default value reproduced, the others at their default -/
def reproduced (s : Store) : Store :=
  s.map fun p => (p.1, { p.2 with cur := if p.2.hasChanged then p.2.cur else p.2.dflt })

/-- "saving to a config file and loading that file into fresh options reproduces every non-default value" -/
def Reproduces (s : Store) (r : Option Res) : Prop :=
  ∃ x, r = some x ∧ x.out = .ok ∧ x.st.opts = reproduced s ∧ ∀ p ∈ s, p.2.hasChanged = true → p ∈ x.st.opts

private theorem nodup_keys_eq (s : Store) (hn : KeysNodup s) (p q : Name × Opt) (hp : p ∈ s) (hq : q ∈ s)
    (h : p.1 = q.1) : p = q := by
  induction s with
  | nil => simp at hp
  | cons a t ih =>
    simp only [KeysNodup, List.map_cons, List.nodup_cons] at hn
    rcases List.mem_cons.mp hp with hp | hp <;> rcases List.mem_cons.mp hq with hq | hq
    · rw [hp, hq]
    · exfalso; apply hn.1; rw [← hp, h]; exact List.mem_map.mpr ⟨q, hq, rfl⟩
    · exfalso; apply hn.1; rw [← hq, ← h]; exact List.mem_map.mpr ⟨p, hp, rfl⟩
    · exact ih hn.2 hp hq

private theorem mem_saveData (s : Store) (kv : Name × Val) (h : kv ∈ saveData s) :
    ∃ p ∈ s, p.2.hasChanged = true ∧ kv = (p.1, p.2.cur) := by
  unfold saveData at h
  obtain ⟨p, hp, hpe⟩ := List.mem_filterMap.mp h
  by_cases hc : p.2.hasChanged = true
  · simp only [hc, if_true, Option.some.injEq] at hpe
    exact ⟨p, hp, hc, hpe.symm⟩
  · simp [hc] at hpe

private theorem finalVal_none (kvs : List (Name × Val)) (n : Name) (h : n ∉ kvs.map (·.1)) : finalVal kvs n = none := by
  induction kvs with
  | nil => rfl
  | cons kv r ih =>
    simp only [List.map_cons, List.mem_cons, not_or] at h
    simp only [finalVal, ih h.2]
    have : ¬ (kv.1 == n) = true := by rw [beq_iff_eq]; exact fun e => h.1 e.symm
    simp [this]

private theorem finalVal_saveData (s : Store) (hn : KeysNodup s) :
    ∀ p ∈ s, finalVal (saveData s) p.1 = if p.2.hasChanged then some p.2.cur else none := by
  induction s with
  | nil => intro p hp; simp at hp
  | cons q t ih =>
    have hn' := hn
    simp only [KeysNodup, List.map_cons, List.nodup_cons] at hn'
    have hq_none : finalVal (saveData t) q.1 = none := by
      apply finalVal_none
      intro hm
      obtain ⟨kv, hkv, hk⟩ := List.mem_map.mp hm
      obtain ⟨p, hp, _, rfl⟩ := mem_saveData t kv hkv
      exact hn'.1 (List.mem_map.mpr ⟨p, hp, hk⟩)
    intro p hp
    rcases List.mem_cons.mp hp with hp | hp
    · subst hp
      by_cases hc : p.2.hasChanged = true
      · simp [saveData, List.filterMap_cons, hc, finalVal] at hq_none ⊢
        simp [saveData, hq_none]
      · simp [saveData, List.filterMap_cons, hc] at hq_none ⊢
        simp [saveData, hq_none]
    · have hne : ¬ (q.1 == p.1) = true := by
        rw [beq_iff_eq]; intro e
        exact hn'.1 (e ▸ List.mem_map.mpr ⟨p, hp, rfl⟩)
      have ihp := ih hn'.2 p hp
      by_cases hc : q.2.hasChanged = true
      · have : saveData (q :: t) = (q.1, q.2.cur) :: saveData t := by simp [saveData, List.filterMap_cons, hc]
        rw [this]
        simp only [finalVal, ihp, hne]
        split <;> simp_all
      · have : saveData (q :: t) = saveData t := by simp [saveData, List.filterMap_cons, hc]
        rw [this]; exact ihp

private theorem updateKnown_typeError (st : St) (kw : List (Name × Val)) (h : (updateKnown st kw).out = .typeError) :
    allTyped st.opts (kw.filter fun kv => hasKey st.opts kv.1) = false := by
  unfold updateKnown at h
  simp only at h
  split at h
  · simp at h
  · split at h
    · rename_i h2; simpa using h2
    · split at h <;> simp at h

private theorem updateKnown_optionsError (st : St) (kw : List (Name × Val)) (h : (updateKnown st kw).out = .optionsError) :
    st.listeners ≠ [] := by
  intro hl
  unfold updateKnown at h
  simp only [hl, notify] at h
  split at h
  · simp at h
  · split at h <;> simp at h

/-- loading exactly the saved data into fresh options is accepted and reproduces every non-default value -/
private theorem load_saveData (s : Store) (ht : TypedStore s) (hn : KeysNodup s) :
    (updateDefer (fresh s) (saveData s)).out = .ok ∧ (updateDefer (fresh s) (saveData s)).st.opts = reproduced s := by
  rw [(updateDefer_opts _ _).1, (updateDefer_opts _ _).2.2]
  have hkeys : ∀ kv ∈ saveData s, hasKey (fresh s).opts kv.1 = true := by
    intro kv hkv
    obtain ⟨p, hp, _, rfl⟩ := mem_saveData s kv hkv
    simp only [hasKey, fresh, List.any_map, List.any_eq_true]
    exact ⟨p, hp, by simp⟩
  have hknown : (saveData s).filter (fun kv => hasKey (fresh s).opts kv.1) = saveData s :=
    List.filter_eq_self.mpr hkeys
  have htyped : allTyped (fresh s).opts (saveData s) = true := by
    simp only [allTyped, List.all_eq_true]
    intro kv hkv q hq
    obtain ⟨p, hp, _, rfl⟩ := mem_saveData s kv hkv
    simp only [fresh, List.mem_map] at hq
    obtain ⟨p', hp', rfl⟩ := hq
    by_cases hk : p'.1 = p.1
    · have := nodup_keys_eq s hn p' p hp' hp hk
      subst this
      simp [(ht p' hp').2]
    · simp [hk]
  have hok : (updateKnown (fresh s) (saveData s)).out = .ok := by
    rcases updateKnown_out (fresh s) (saveData s) with h | h | h
    · exact h
    · have := updateKnown_typeError _ _ h
      rw [hknown, htyped] at this; cases this
    · exact absurd rfl (updateKnown_optionsError _ _ h)
  refine ⟨hok, ?_⟩
  have hacc := (accepted_update_notifies_assigned_names (fresh s) (saveData s) hok).1
  simp only at hacc
  rw [hacc, hknown]
  simp only [fresh, reproduced, List.map_map]
  apply List.map_congr_left
  intro p hp
  simp only [Function.comp, finalVal_saveData s hn p hp]
  by_cases hc : p.2.hasChanged = true <;> simp [hc]

private theorem reproduces_of_parse {Text : Type} (Y : Yaml Text) (s : Store) (ht : TypedStore s) (hn : KeysNodup s)
    (hlaw : Y.parse (Y.dump (saveData s)) = some (saveData s)) : Reproduces s (saveLoad Y s) := by
  obtain ⟨hok, hopts⟩ := load_saveData s ht hn
  refine ⟨updateDefer (fresh s) (saveData s), by simp [saveLoad, hlaw], hok, hopts, ?_⟩
  intro p hp hc
  rw [hopts]
  exact List.mem_map.mpr ⟨p, hp, by simp [hc]⟩

/-- **config_roundtrip_nondefault.** For ANY history of operations and any YAML library obeying
    `parse (dump d) = some d`: serialising the options reached into a new config file and loading that text into
    fresh options (same declarations) is accepted and yields options in which every non-default value is reproduced
    exactly (and every other option is at its default). The type check of `load` passes because of `typed_always`. -/
theorem config_roundtrip_nondefault {Text : Type} (Y : Yaml Text) (law : ∀ d, Y.parse (Y.dump d) = some d)
    (ops : List Op) : Reproduces (run ops).1.opts (saveLoad Y (run ops).1.opts) :=
  reproduces_of_parse Y _ (inv_run ops).1 (inv_run ops).2.1 (law _)

/-- what the real library (ruamel.yaml) satisfies: the law for data without U+0085 in any string -/
def NelLaw {Text : Type} (Y : Yaml Text) : Prop :=
  ∀ d : List (Name × Val), (∀ kv ∈ d, kv.2.nelFree = true) → Y.parse (Y.dump d) = some d

/-- **config_roundtrip_nondefault (partial, F-C44b).** With a YAML library that is only known to round-trip
    NEL-free data, the statement holds for every history whose non-default values contain no U+0085. -/
theorem config_roundtrip_nondefault_partial {Text : Type} (Y : Yaml Text) (law : NelLaw Y) (ops : List Op)
    (hg : ∀ p ∈ (run ops).1.opts, p.2.hasChanged = true → p.2.cur.nelFree = true) :
    Reproduces (run ops).1.opts (saveLoad Y (run ops).1.opts) := by
  apply reproduces_of_parse Y _ (inv_run ops).1 (inv_run ops).2.1
  apply law
  intro kv hkv
  obtain ⟨p, hp, hc, rfl⟩ := mem_saveData _ kv hkv
  exact hg p hp hc

/-- a library that obeys `NelLaw` and behaves like ruamel.yaml on U+0085: the string does not come back -/
def nelYaml : Yaml (List (Name × Val)) :=
  ⟨id, fun d => some (d.map fun kv => (kv.1, if kv.2.nelFree then kv.2 else .a (.s [0x20])))⟩

private theorem nelYaml_law : NelLaw nelYaml := by
  intro d hd
  simp only [nelYaml, id, Option.some.injEq]
  conv => rhs; rw [← List.map_id' d]
  apply List.map_congr_left
  intro kv hkv
  simp [hd kv hkv]

def nelOps : List Op := [.addOption 0 .str (.a (.s [0x64])), .update [(0, .a (.s [0xc2, 0x85]))]]

/-- without the guard the statement is not provable from `NelLaw`: `s = "\x85"` is lost (F-C44b) -/
theorem config_roundtrip_nondefault_counterexample :
    ¬ (∀ (Y : Yaml (List (Name × Val))), NelLaw Y → ∀ ops : List Op,
        Reproduces (run ops).1.opts (saveLoad Y (run ops).1.opts)) := by
  intro h
  obtain ⟨x, hx, _, _, hm⟩ := h nelYaml nelYaml_law nelOps
  have hs : (run nelOps).1.opts = [(0, ⟨.str, .a (.s [0x64]), .a (.s [0xc2, 0x85])⟩)] := by decide
  rw [hs] at hx hm
  have hx' : x = updateDefer (fresh [(0, ⟨.str, .a (.s [0x64]), .a (.s [0xc2, 0x85])⟩)]) [(0, .a (.s [0x20]))] := by
    have : saveLoad nelYaml [(0, ⟨.str, .a (.s [0x64]), .a (.s [0xc2, 0x85])⟩)] =
        some (updateDefer (fresh [(0, ⟨.str, .a (.s [0x64]), .a (.s [0xc2, 0x85])⟩)]) [(0, .a (.s [0x20]))]) := by
      rfl
    rw [this] at hx
    exact (Option.some.inj hx).symm
  have hmem := hm (0, ⟨.str, .a (.s [0x64]), .a (.s [0xc2, 0x85])⟩) (by simp) (by decide)
  rw [hx'] at hmem
  revert hmem
  decide

/-- the hypotheses of the round-trip theorems are satisfiable, and the theorem says something: `b = True` comes back -/
example : Reproduces (run [.addOption 0 .bool (.a (.b false)), .update [(0, .a (.b true))]]).1.opts
    (saveLoad (⟨id, some⟩ : Yaml _) (run [.addOption 0 .bool (.a (.b false)), .update [(0, .a (.b true))]]).1.opts) :=
  config_roundtrip_nondefault _ (fun _ => rfl) _

/-! ### listener-issued (nested) updates -/

/-- no listener ever issues an update itself -/
def Passive (ls : List Listener) : Prop := ∀ l ∈ ls, ∀ s u, l.act s u = none

private theorem notifyW_passive (nested : Store → List (Name × Val) → NRes) (u : List Name) (s : Store)
    (ls : List Listener) (h : Passive ls) : notifyW nested u s ls = (s, (notify s u ls).1, (notify s u ls).2) := by
  induction ls with
  | nil => rfl
  | cons l r ih =>
    have hr : Passive r := fun x hx => h x (List.mem_cons_of_mem _ hx)
    simp only [notifyW, notify, h l List.mem_cons_self s u, ih hr]
    split
    · split <;> rfl
    · rfl

private theorem updateKnownN_passive (st : St) (kw : List (Name × Val)) (h : Passive st.listeners) :
    updateKnownN st kw = updateKnown st kw := by
  unfold updateKnownN updateKnown coreUpdate withOpts
  simp only [notifyW_passive _ _ _ _ h]
  split
  · rfl
  · split
    · rfl
    · split <;> rfl

/-- **nested_model_agrees_with_flat.** The model with listener-issued updates (the one the correspondence run
    executes) coincides with the flat model of the theorems above on every state whose listeners only accept or
    reject: each operation gives the identical result. -/
theorem nested_model_agrees_with_flat (st : St) (op : Op) (h : Passive st.listeners) : stepN st op = step st op := by
  have huk : ∀ (st' : St), st'.listeners = st.listeners → ∀ kw, updateKnownN st' kw = updateKnown st' kw :=
    fun st' e kw => updateKnownN_passive st' kw (e ▸ h)
  have hu : ∀ (st' : St), st'.listeners = st.listeners → ∀ kw, updateN st' kw = update st' kw := by
    intro st' e kw; unfold updateN update; rw [huk st' e]
  cases op with
  | addOption n ty d =>
    simp only [stepN, step, addOptionN, addOption, notifyW_passive _ _ _ _ h]
  | subscribe l => rfl
  | update kw => exact hu st rfl kw
  | updateKnown kw => exact huk st rfl kw
  | updateDefer kw => simp only [stepN, step, updateDeferN, updateDefer, huk st rfl]
  | set specs defer =>
    simp only [stepN, step, setSpecsN, setSpecs]
    split
    · rfl
    · rw [hu st rfl]
      split
      · refine hu _ ?_ _; rfl
      · rfl
  | processDeferred => simp only [stepN, step, processDeferredN, processDeferred, hu st rfl]
  | reset => simp only [stepN, step, resetN, reset, notifyW_passive _ _ _ _ h]
  | merge kvs =>
    simp only [stepN, step, mergeN, merge]
    split
    · rfl
    · exact hu st rfl _
  | load env cwd data =>
    simp only [stepN, step, loadN, load, updateDeferN, updateDefer, huk st rfl]

/-- nobody reacts to the rollback notification `u` on store `s` by issuing an update -/
def quiet (u : List Name) (s : Store) (ls : List Listener) : Bool :=
  ls.all fun l => !concerned l u || l.rejects s u || (l.act s u).isNone

private theorem notifyW_quiet (nested : Store → List (Name × Val) → NRes) (u : List Name) (s : Store)
    (ls : List Listener) (h : quiet u s ls = true) : (notifyW nested u s ls).1 = s := by
  induction ls with
  | nil => rfl
  | cons l r ih =>
    simp only [quiet, List.all_cons, Bool.and_eq_true] at h
    have ihr := ih (by simpa [quiet] using h.2)
    simp only [notifyW]
    by_cases hc : concerned l u = true
    · simp only [hc, if_true]
      by_cases hr : l.rejects s u = true
      · simp [hr]
      · have ha : l.act s u = none := by
          have h0 := h.1
          have hr' : l.rejects s u = false := by simpa using hr
          rw [hc, hr'] at h0
          cases hact : l.act s u with
          | none => rfl
          | some kw => rw [hact] at h0; simp at h0
        simp only [hr, Bool.false_eq_true, if_false, ha]
        exact ihr
    · simp only [hc, Bool.false_eq_true, if_false]
      exact ihr

/-- **nested_rejected_update_restores_everything.** With listeners that issue updates of other options from inside
    their handlers (to any depth, successful or themselves rejected): when the outer `update_known` is rejected,
    the options the rollback notification starts from are exactly the previous ones — every assignment of the aborted
    transaction, including all nested ones, is discarded; and if no listener reacts to that notification by issuing
    yet another update, the operation ends with every option at its previous value. -/
theorem nested_rejected_update_restores_everything (nested : Store → List (Name × Val) → NRes) (ls : List Listener)
    (s : Store) (kw : List (Name × Val)) (h : (coreUpdate nested ls s kw).out ≠ .ok) :
    (coreUpdate nested ls s kw).opts = (notifyW nested ((kw.filter fun kv => hasKey s kv.1).map (·.1)) s ls).1 ∨
      (coreUpdate nested ls s kw).opts = s := by
  unfold coreUpdate at h ⊢
  simp only at h ⊢
  split
  · exact Or.inr rfl
  · split
    · exact Or.inr rfl
    · split
      · rename_i h1 h2 h3; simp [h1, h2, h3] at h
      · exact Or.inl rfl

theorem nested_rejected_update_restores_everything_quiet (st : St) (kw : List (Name × Val))
    (h : (updateKnownN st kw).out ≠ .ok)
    (hq : quiet ((kw.filter fun kv => hasKey st.opts kv.1).map (·.1)) st.opts st.listeners = true) :
    (updateKnownN st kw).st.opts = st.opts := by
  have := nested_rejected_update_restores_everything (nestedAt maxDepth st.listeners) st.listeners st.opts kw h
  simp only [updateKnownN, withOpts] at h ⊢
  rcases this with e | e
  · rw [e]; exact notifyW_quiet _ _ _ _ hq
  · exact e

/-- the seeded scenario: listener 1 reacts to `a = 5` by `update(b = 5)`, listener 3 rejects `a = 5` -/
def nestedState : St :=
  ⟨[(0, ⟨.int, .a (.i 0), .a (.i 0)⟩), (1, ⟨.int, .a (.i 0), .a (.i 0)⟩)], [],
   [⟨1, some [0], fun _ _ => false, fun s _ => if (lookup s 0).any (fun o => pyEq o.cur (.a (.i 5))) then some [(1, .a (.i 5))] else none⟩,
    ⟨3, some [0], fun s _ => (lookup s 0).any (fun o => pyEq o.cur (.a (.i 5))), fun _ _ => none⟩], []⟩

example : (updateKnownN nestedState [(0, .a (.i 5))]).out = .optionsError ∧
    (updateKnownN nestedState [(0, .a (.i 5))]).st.opts = nestedState.opts ∧
    ((updateKnownN nestedState [(0, .a (.i 5))]).obs.map fun ob => (ob.who, ob.seen.map fun p => p.2.cur)) =
      [(1, [.a (.i 5), .a (.i 0)]), (3, [.a (.i 5), .a (.i 5)]), (1, [.a (.i 0), .a (.i 0)]), (3, [.a (.i 0), .a (.i 0)])] := by
  decide

/-! typedness with nested updates -/

private def NGood (r : NRes) : Prop :=
  TypedStore r.opts ∧ KeysNodup r.opts ∧ ∀ ob ∈ r.obs, TypedStore ob.seen

private def NestedGood (nested : Store → List (Name × Val) → NRes) : Prop :=
  ∀ s kw, TypedStore s → KeysNodup s → NGood (nested s kw)

private theorem notifyW_good (nested : Store → List (Name × Val) → NRes) (hn : NestedGood nested) (u : List Name)
    (ls : List Listener) : ∀ s, TypedStore s → KeysNodup s →
    TypedStore (notifyW nested u s ls).1 ∧ KeysNodup (notifyW nested u s ls).1 ∧
      ∀ ob ∈ (notifyW nested u s ls).2.1, TypedStore ob.seen := by
  induction ls with
  | nil => intro s h1 h2; exact ⟨h1, h2, by simp [notifyW]⟩
  | cons l r ih =>
    intro s h1 h2
    simp only [notifyW]
    split
    · split
      · exact ⟨h1, h2, by intro ob hob; simp only [List.mem_singleton] at hob; subst hob; exact h1⟩
      · split
        · obtain ⟨a, b, c⟩ := ih s h1 h2
          refine ⟨a, b, ?_⟩
          intro ob hob
          rcases List.mem_cons.mp hob with e | e
          · subst e; exact h1
          · exact c ob e
        · rename_i kw _
          obtain ⟨n1, n2, n3⟩ := hn s kw h1 h2
          split
          · refine ⟨n1, n2, ?_⟩
            intro ob hob
            rcases List.mem_cons.mp hob with e | e
            · subst e; exact h1
            · exact n3 ob e
          · obtain ⟨a, b, c⟩ := ih _ n1 n2
            refine ⟨a, b, ?_⟩
            intro ob hob
            rcases List.mem_cons.mp hob with e | e
            · subst e; exact h1
            · rcases List.mem_append.mp e with e | e
              · exact n3 ob e
              · exact c ob e
    · exact ih s h1 h2

private theorem coreUpdate_good (nested : Store → List (Name × Val) → NRes) (hn : NestedGood nested)
    (ls : List Listener) (s : Store) (kw : List (Name × Val)) (h1 : TypedStore s) (h2 : KeysNodup s) :
    NGood (coreUpdate nested ls s kw) := by
  unfold coreUpdate
  simp only
  split
  · exact ⟨h1, h2, by simp⟩
  · split
    · exact ⟨h1, h2, by simp⟩
    · rename_i _ hall
      have hall' : allTyped s (kw.filter fun kv => hasKey s kv.1) = true := by simpa using hall
      have hnew := typed_assign _ s h1 hall'
      have hkn : KeysNodup (assign s (kw.filter fun kv => hasKey s kv.1)) := by
        unfold KeysNodup; rw [assign_keys]; exact h2
      obtain ⟨a1, b1, c1⟩ := notifyW_good nested hn ((kw.filter fun kv => hasKey s kv.1).map (·.1)) ls _ hnew hkn
      split
      · exact ⟨a1, b1, c1⟩
      · obtain ⟨a2, b2, c2⟩ := notifyW_good nested hn ((kw.filter fun kv => hasKey s kv.1).map (·.1)) ls _ h1 h2
        refine ⟨a2, b2, ?_⟩
        intro ob hob
        rcases List.mem_append.mp hob with e | e
        · exact c1 ob e
        · exact c2 ob e

private theorem nestedAt_good (ls : List Listener) : ∀ d, NestedGood (nestedAt d ls) := by
  intro d
  induction d with
  | zero => intro s kw h1 h2; exact ⟨h1, h2, by simp [nestedAt]⟩
  | succ d ih =>
    intro s kw h1 h2
    have := coreUpdate_good (fun s' kw' => nestedAt d ls s' kw') ih ls s kw h1 h2
    simp only [nestedAt, keyErr]
    split <;> exact this

private theorem good_updateKnownN (st : St) (kw : List (Name × Val)) (h : TypedStore st.opts) (hn : KeysNodup st.opts) :
    Good (updateKnownN st kw) :=
  coreUpdate_good _ (nestedAt_good st.listeners maxDepth) st.listeners st.opts kw h hn

private theorem good_updateN (st : St) (kw : List (Name × Val)) (h : TypedStore st.opts) (hn : KeysNodup st.opts) :
    Good (updateN st kw) := by
  have := good_updateKnownN st kw h hn
  unfold updateN; simp only; split <;> exact this

private theorem good_stepN (st : St) (op : Op) (h : TypedStore st.opts) (hn : KeysNodup st.opts) : Good (stepN st op) := by
  cases op with
  | addOption n ty d =>
    simp only [stepN, addOptionN]
    split
    · exact ⟨h, hn, by simp⟩
    · rename_i hd
      have hd' : typeOk ty d = true := by simpa using hd
      exact notifyW_good _ (nestedAt_good st.listeners maxDepth) [n] st.listeners _
        (typed_insertOpt st.opts n ty d h hd') (nodup_insertOpt _ _ _ hn)
  | subscribe l => exact good_subscribe st l h hn
  | update kw => exact good_updateN st kw h hn
  | updateKnown kw => exact good_updateKnownN st kw h hn
  | updateDefer kw =>
    have := good_updateKnownN st kw h hn
    simp only [stepN, updateDeferN]; split <;> exact this
  | set specs defer =>
    simp only [stepN, setSpecsN]
    split
    · exact ⟨h, hn, by simp⟩
    · split
      · exact good_updateN _ _ h hn
      · split
        · exact ⟨h, hn, by simp⟩
        · exact good_updateN _ _ h hn
  | processDeferred =>
    simp only [stepN, processDeferredN]
    split
    · exact ⟨h, hn, by simp⟩
    · rename_i upd _
      have := good_updateN st upd h hn
      split <;> exact this
  | reset =>
    simp only [stepN, resetN]
    have hnew : TypedStore (st.opts.map fun p => (p.1, { p.2 with cur := p.2.dflt })) := by
      intro q hq
      obtain ⟨p, hp, rfl⟩ := List.mem_map.mp hq
      exact ⟨(h p hp).1, (h p hp).1⟩
    have hk : KeysNodup (st.opts.map fun p => (p.1, { p.2 with cur := p.2.dflt })) := by
      simp only [KeysNodup, List.map_map]; exact hn
    exact notifyW_good _ (nestedAt_good st.listeners maxDepth) _ st.listeners _ hnew hk
  | merge kvs =>
    simp only [stepN, mergeN]
    split
    · exact ⟨h, hn, by simp⟩
    · exact good_updateN st _ h hn
  | load env cwd data =>
    have hud : ∀ d, Good (updateDeferN st d) := by
      intro d
      have := good_updateKnownN st d h hn
      simp only [updateDeferN]; split <;> exact this
    simp only [stepN, loadN]
    split
    · exact hud _
    · split
      · exact ⟨h, hn, by simp⟩
      · exact hud _

private theorem good_runFromN (ops : List Op) : ∀ st : St, TypedStore st.opts → KeysNodup st.opts →
    TypedStore (runFromN st ops).1.opts ∧ ∀ ob ∈ (runFromN st ops).2, TypedStore ob.seen := by
  induction ops with
  | nil => intro st h _; exact ⟨h, by simp [runFromN]⟩
  | cons op r ih =>
    intro st h hn
    obtain ⟨g1, g2, g3⟩ := good_stepN st op h hn
    obtain ⟨i1, i3⟩ := ih (stepN st op).st g1 g2
    refine ⟨i1, ?_⟩
    intro ob hob
    simp only [runFromN] at hob
    rcases List.mem_append.mp hob with hob | hob
    · exact g3 ob hob
    · exact i3 ob hob

/-- **typed_always_nested.** `typed_always` for the model with listener-issued nested updates: after ANY history,
    with listeners that accept, reject or update other options from inside their handlers (nested to the model's depth
    bound), every option holds values of its declared type, and so did every state shown to any listener at any depth. -/
theorem typed_always_nested (ops : List Op) :
    TypedStore (runN ops).1.opts ∧ ∀ ob ∈ (runN ops).2, TypedStore ob.seen :=
  good_runFromN ops St.empty (by intro p hp; simp [St.empty] at hp) (by simp [St.empty, KeysNodup])

private theorem nodup_runFromN (ops : List Op) : ∀ st : St, TypedStore st.opts → KeysNodup st.opts →
    KeysNodup (runFromN st ops).1.opts := by
  induction ops with
  | nil => intro st _ hn; exact hn
  | cons op r ih =>
    intro st h hn
    obtain ⟨g1, g2, _⟩ := good_stepN st op h hn
    exact ih (stepN st op).st g1 g2

private theorem inv_runN (ops : List Op) : TypedStore (runN ops).1.opts ∧ KeysNodup (runN ops).1.opts :=
  ⟨(typed_always_nested ops).1,
   nodup_runFromN ops St.empty (by intro p hp; simp [St.empty] at hp) (by simp [St.empty, KeysNodup])⟩

/-! ### `set` specs: the typed parsing of value strings -/

/-- whatever `_parse_setval` returns is of the option's declared type — for EVERY value string -/
theorem parse_setval_typed (o : Opt) (vs : List PyStr) (v : Val) (h : parseSetval o vs = some v) :
    typeOk o.ty v = true := by
  obtain ⟨ty, d, c⟩ := o
  unfold parseSetval at h
  cases ty <;> simp only [reduceCtorEq, if_false, if_true] at h
  all_goals try (split at h; · cases h)
  · -- bool
    cases hv : vs.head? with
    | none => simp only [hv] at h; cases h; rfl
    | some s0 =>
      simp only [hv] at h
      split at h
      · cases h; rfl
      · split at h
        · cases h; rfl
        · split at h
          · cases h; rfl
          · cases h
  · -- str
    cases hv : vs.head? with
    | none => simp [hv] at h
    | some s0 => simp only [hv, Option.map_some, Option.some.injEq] at h; subst h; rfl
  · -- int
    cases hv : vs.head? with
    | none => simp [hv] at h
    | some s0 =>
      simp only [hv] at h
      split at h
      · cases h
      · cases hp : pyInt s0 with
        | none => simp [hp] at h
        | some n => simp only [hp, Option.map_some, Option.some.injEq] at h; subst h; rfl
  · -- optStr
    cases hv : vs.head? <;> simp only [hv, Option.some.injEq] at h <;> subst h <;> rfl
  · -- optInt
    cases hv : vs.head? with
    | none => simp only [hv, Option.some.injEq] at h; subst h; rfl
    | some s0 =>
      simp only [hv] at h
      split at h
      · cases h; rfl
      · cases hp : pyInt s0 with
        | none => simp [hp] at h
        | some n => simp only [hp, Option.map_some, Option.some.injEq] at h; subst h; rfl
  · -- seqStr
    cases h
    simp [typeOk, List.all_map, Atom.isStr]

private theorem lookup_mem (s : Store) (n : Name) (o : Opt) (h : lookup s n = some o) : (n, o) ∈ s := by
  unfold lookup at h
  cases hf : s.find? (fun p => p.1 == n) with
  | none => simp [hf] at h
  | some p =>
    simp only [hf, Option.map_some, Option.some.injEq] at h
    have hm := List.mem_of_find?_eq_some hf
    have hk := List.find?_some hf
    have : p.1 = n := by simpa using hk
    rw [← this, ← h]; exact hm

private theorem parseAll_typed (s : Store) (g : List (Name × List PyStr)) :
    ∀ processed, parseAll s g = some processed →
      ∀ kv ∈ processed, ∃ o, lookup s kv.1 = some o ∧ typeOk o.ty kv.2 = true := by
  induction g with
  | nil => intro p h kv hkv; simp only [parseAll, Option.some.injEq] at h; subst h; simp at hkv
  | cons a r ih =>
    intro p h kv hkv
    obtain ⟨n, vs⟩ := a
    simp only [parseAll] at h
    cases hl : lookup s n with
    | none => simp only [hl] at h; exact ih p h kv hkv
    | some o =>
      simp only [hl] at h
      cases hv : parseSetval o vs with
      | none => simp [hv] at h
      | some v =>
        cases hr : parseAll s r with
        | none => simp [hv, hr] at h
        | some rest =>
          simp only [hv, hr, Option.some.injEq] at h
          subst h
          rcases List.mem_cons.mp hkv with e | e
          · subst e; exact ⟨o, hl, parse_setval_typed o vs v hv⟩
          · exact ih rest hr kv e

private theorem allTyped_of_lookup (s : Store) (hn : KeysNodup s) (kvs : List (Name × Val))
    (h : ∀ kv ∈ kvs, ∃ o, lookup s kv.1 = some o ∧ typeOk o.ty kv.2 = true) : allTyped s kvs = true := by
  simp only [allTyped, List.all_eq_true]
  intro kv hkv p hp
  obtain ⟨o, hl, ht⟩ := h kv hkv
  by_cases hk : p.1 = kv.1
  · have := nodup_keys_eq s hn p (kv.1, o) hp (lookup_mem s kv.1 o hl) hk
    subst this; simp [ht]
  · simp [hk]

private theorem coreUpdate_typeError (nested : Store → List (Name × Val) → NRes) (ls : List Listener) (s : Store)
    (kw : List (Name × Val)) (h : (coreUpdate nested ls s kw).out = .typeError) :
    allTyped s (kw.filter fun kv => hasKey s kv.1) = false := by
  unfold coreUpdate at h
  simp only at h
  split at h
  · simp at h
  · split at h
    · rename_i h2; simpa using h2
    · split at h <;> simp at h

private theorem updateN_not_typeError (st : St) (kw : List (Name × Val)) (hn : KeysNodup st.opts)
    (h : ∀ kv ∈ kw, ∃ o, lookup st.opts kv.1 = some o ∧ typeOk o.ty kv.2 = true) : (updateN st kw).out ≠ .typeError := by
  intro he
  have hk : (updateKnownN st kw).out = .typeError := by
    unfold updateN at he
    simp only at he
    split at he
    · cases he
    · exact he
  have := coreUpdate_typeError _ _ _ _ hk
  rw [allTyped_of_lookup st.opts hn _ (fun kv hkv => h kv (List.mem_filter.mp hkv).1)] at this
  cases this

/-- **set_never_type_error.** After ANY history (nested listener updates included), `set` with ANY specs — any
    value strings, known and unknown names, deferring or not — never fails with a TypeError: every value it assigns was
    produced by the typed parsing and is of the declared type (it can only be refused with OptionsError). -/
theorem set_never_type_error (ops : List Op) (specs : List (Name × Option PyStr)) (defer : Bool) :
    (stepN (runN ops).1 (.set specs defer)).out ≠ .typeError := by
  obtain ⟨_, hn⟩ := inv_runN ops
  simp only [stepN, setSpecsN]
  cases hp : parseAll (runN ops).1.opts (groupSpecs specs) with
  | none => simp
  | some processed =>
    have ht := parseAll_typed _ _ processed hp
    simp only
    split
    · exact updateN_not_typeError _ processed hn ht
    · split
      · simp
      · exact updateN_not_typeError _ processed hn ht

/-- `toggle` flips a bool option -/
theorem set_bool_toggle (o : Opt) (x : Bool) (hty : o.ty = .bool) (hc : o.cur = .a (.b x)) :
    parseSetval o [strToggle] = some (.a (.b (!x))) := by
  obtain ⟨ty, d, c⟩ := o
  simp only at hty hc
  subst hty; subst hc
  simp [parseSetval, truthy]

/-- a sequence option collects all the values given for it, in order (none: it is cleared) -/
theorem set_sequence_collects (o : Opt) (hty : o.ty = .seqStr) (vs : List PyStr) :
    parseSetval o vs = some (.seq (vs.map fun v => Atom.s (utf8 v))) := by
  simp [parseSetval, hty]

/-- a bare name: clears a sequence, sets a bool, resets an optional option to None, is refused for str / int -/
theorem set_bare_name (o : Opt) :
    parseSetval o [] = (match o.ty with
      | .seqStr => some (.seq [])
      | .bool => some (.a (.b true))
      | .optStr => some (.a .none)
      | .optInt => some (.a .none)
      | .str => none
      | .int => none) := by
  obtain ⟨ty, d, c⟩ := o
  cases ty <;> simp [parseSetval]

/-- several values for a scalar option are refused -/
theorem set_scalar_multiple_refused (o : Opt) (hty : o.ty ≠ .seqStr) (a b : PyStr) (r : List PyStr) :
    parseSetval o (a :: b :: r) = none := by
  simp [parseSetval, hty]

/-- Python's `int()` as transcribed: surrounding whitespace of any script, sign, digits of any script, single `_` -/
example : pyInt [32, 43, 49, 95, 48, 0x3000] = some 10 := by decide
example : pyInt [0x663, 0x664] = some 34 := by decide
example : pyInt [45, 48] = some 0 := by decide
example : pyInt [0x1c, 53] = none ∧ pyInt [49, 95, 95, 48] = none ∧ pyInt [95, 49] = none ∧ pyInt [43, 32, 53] = none ∧
    pyInt [] = none ∧ pyInt [49, 32, 50] = none ∧ pyInt [53, 0] = none := by decide
example : groupSpecs [(3, some [97]), (4, none), (3, some [98])] = [(3, [[97], [98]]), (4, [])] := by decide

/-! ### rejected updates with nested listener updates: what listeners end up seeing -/

/-- full statement (FALSE, F-C44c / F-C44d): after a rejected update — whatever listeners did from inside their
    handlers — every listener that was called ends up having seen the final option state -/
def NestedListenersSeeFinalState : Prop :=
  ∀ (st : St) (kw : List (Name × Val)), (updateKnownN st kw).out ≠ .ok →
    ∀ ob ∈ (updateKnownN st kw).obs, lastSeen (updateKnownN st kw).obs ob.who = some (updateKnownN st kw).st.opts

private theorem notifyW_quiet_delivered (nested : Store → List (Name × Val) → NRes) (u : List Name) (s : Store)
    (ls : List Listener) (hq : quiet u s ls = true) (hd : (notifyW nested u s ls).2.2 = false) :
    notifyW nested u s ls = (s, (ls.filter (concerned · u)).map (fun l => (⟨l.id, s, u⟩ : Obs)), false) := by
  induction ls with
  | nil => rfl
  | cons l r ih =>
    simp only [quiet, List.all_cons, Bool.and_eq_true] at hq
    have hqr : quiet u s r = true := by simpa [quiet] using hq.2
    simp only [notifyW] at hd ⊢
    by_cases hc : concerned l u = true
    · simp only [hc, if_true] at hd ⊢
      by_cases hr : l.rejects s u = true
      · simp [hr] at hd
      · have hr' : l.rejects s u = false := by simpa using hr
        have ha : l.act s u = none := by
          have h0 := hq.1
          rw [hc, hr'] at h0
          cases hact : l.act s u with
          | none => rfl
          | some kw => rw [hact] at h0; simp at h0
        simp only [hr, Bool.false_eq_true, if_false, ha] at hd ⊢
        rw [ih hqr hd]
        simp [hc]
    · simp only [hc, Bool.false_eq_true, if_false] at hd ⊢
      rw [ih hqr hd]
      simp [hc]

/-- **nested_rejected_update_listeners_see_restored_state (partial).** For ALL states — hence after every history —
    with listeners that may issue nested updates: if `update_known` is rejected, nobody reacts to the rollback
    notification by another update (`quiet`) and that notification is delivered completely, then every option is
    at its previous value AND every listener that is concerned by the names of the outer update — whatever it was
    shown in between, at any nesting depth — has the restored state as its last view. A TypeError notifies nobody. -/
theorem nested_rejected_update_listeners_see_restored_state_partial (st : St) (kw : List (Name × Val))
    (h : (updateKnownN st kw).out ≠ .ok)
    (hq : quiet ((kw.filter fun kv => hasKey st.opts kv.1).map (·.1)) st.opts st.listeners = true)
    (hd : (notifyW (nestedAt maxDepth st.listeners) ((kw.filter fun kv => hasKey st.opts kv.1).map (·.1)) st.opts
      st.listeners).2.2 = false) :
    (updateKnownN st kw).st.opts = st.opts ∧
    ((updateKnownN st kw).out = .typeError → (updateKnownN st kw).obs = []) ∧
    ∀ ob ∈ (updateKnownN st kw).obs,
      (∃ l ∈ st.listeners, l.id = ob.who ∧ concerned l ((kw.filter fun kv => hasKey st.opts kv.1).map (·.1)) = true) →
      lastSeen (updateKnownN st kw).obs ob.who = some st.opts := by
  refine ⟨nested_rejected_update_restores_everything_quiet st kw h hq, ?_, ?_⟩
  · intro hte
    simp only [updateKnownN, withOpts, coreUpdate] at hte ⊢
    split
    · rfl
    · split
      · rfl
      · rename_i h1 h2
        simp only [h1, h2, Bool.false_eq_true, if_false] at hte
        split at hte <;> cases hte
  · have hdel := notifyW_quiet_delivered _ _ _ _ hq hd
    simp only [updateKnownN, withOpts, coreUpdate] at h ⊢
    split
    · intro ob hob; simp at hob
    · split
      · intro ob hob; simp at hob
      · split
        · rename_i h1 h2 h3; simp [h1, h2, h3] at h
        · intro ob _ hl
          obtain ⟨l, hlm, hid, hc⟩ := hl
          simp only [hdel]
          apply lastSeen_append
          · intro ob' hob'
            obtain ⟨l', _, rfl⟩ := List.mem_map.mp hob'
            rfl
          · exact ⟨⟨l.id, st.opts, _⟩, List.mem_map.mpr ⟨l, List.mem_filter.mpr ⟨hlm, hc⟩, rfl⟩, hid⟩

/-- F-C44d witness: listener 1 (on a) sets b when a = 5, listener 2 watches b only, listener 3 (on a) rejects a = 5 -/
def nestedWatchState : St :=
  ⟨[(0, ⟨.int, .a (.i 0), .a (.i 0)⟩), (1, ⟨.int, .a (.i 0), .a (.i 0)⟩)], [],
   [⟨1, some [0], fun _ _ => false, fun s _ => if (lookup s 0).any (fun o => pyEq o.cur (.a (.i 5))) then some [(1, .a (.i 5))] else none⟩,
    ⟨2, some [1], fun _ _ => false, fun _ _ => none⟩,
    ⟨3, some [0], fun s _ => (lookup s 0).any (fun o => pyEq o.cur (.a (.i 5))), fun _ _ => none⟩], []⟩

theorem nested_rejected_update_listeners_see_restored_state_counterexample : ¬ NestedListenersSeeFinalState := by
  intro h
  have h1 := h nestedWatchState [(0, .a (.i 5))] (by decide)
    ⟨2, [(0, ⟨.int, .a (.i 0), .a (.i 5)⟩), (1, ⟨.int, .a (.i 0), .a (.i 5)⟩)], [1]⟩ (by decide)
  revert h1
  decide

/-- the guards of the partial theorem hold in the witness state (the rollback notification is quiet and delivered):
    the counterexample is exactly the listener that is not concerned by the outer names -/
example :
    quiet [0] nestedWatchState.opts nestedWatchState.listeners = true ∧
    (notifyW (nestedAt maxDepth nestedWatchState.listeners) [0] nestedWatchState.opts nestedWatchState.listeners).2.2 = false ∧
    (updateKnownN nestedWatchState [(0, .a (.i 5))]).st.opts = nestedWatchState.opts ∧
    lastSeen (updateKnownN nestedWatchState [(0, .a (.i 5))]).obs 1 = some nestedWatchState.opts := by decide

/-- **nested_rejected_update_over_histories.** The same for the state reached by ANY history of operations. -/
theorem nested_rejected_update_over_histories (ops : List Op) (kw : List (Name × Val))
    (h : (stepN (runN ops).1 (.updateKnown kw)).out ≠ .ok)
    (hq : quiet ((kw.filter fun kv => hasKey (runN ops).1.opts kv.1).map (·.1)) (runN ops).1.opts (runN ops).1.listeners = true) :
    (stepN (runN ops).1 (.updateKnown kw)).st.opts = (runN ops).1.opts ∧
    TypedStore (stepN (runN ops).1 (.updateKnown kw)).st.opts :=
  ⟨nested_rejected_update_restores_everything_quiet _ kw h hq,
   (good_stepN _ _ (inv_runN ops).1 (inv_runN ops).2).1⟩

/-! ### deferred options -/

/-- **deferred_spec_is_parsed_when_declared.** `set(name=v, defer=True)` for a not yet declared option, then its
    declaration (any type, any typed default), then `process_deferred()`: for EVERY value string `v` the option ends
    up holding exactly what the typed parsing of `v` yields for the declared type and the deferred entry is gone —
    or, when the string is not acceptable for that type, `process_deferred` is refused with OptionsError, the option
    keeps its default and the entry stays deferred. -/
theorem deferred_spec_is_parsed_when_declared (n : Name) (v : PyStr) (ty : Ty) (d : Val) (hd : typeOk ty d = true) :
    let st1 := (stepN St.empty (.set [(n, some v)] true)).st
    let st2 := (stepN st1 (.addOption n ty d)).st
    let r := stepN st2 .processDeferred
    st1.deferred.map (·.1) = [n] ∧ st2.opts = [(n, ⟨ty, d, d⟩)] ∧
    (match parseSetval ⟨ty, d, d⟩ [v] with
     | some x => r.out = .ok ∧ r.st.opts = [(n, ⟨ty, d, x⟩)] ∧ r.st.deferred.map (·.1) = []
     | none => r.out = .optionsError ∧ r.st.opts = [(n, ⟨ty, d, d⟩)] ∧ r.st.deferred.map (·.1) = [n]) := by
  have h1 : (stepN St.empty (.set [(n, some v)] true)).st = ⟨[], [(n, .unconv [v])], [], []⟩ := by
    simp [stepN, setSpecsN, groupSpecs, parseAll, lookup, St.empty, dictSet, dictUpdate, hasKey, updateN, updateKnownN,
      coreUpdate, withOpts]
  have h2 : (stepN ⟨[], [(n, .unconv [v])], [], []⟩ (.addOption n ty d)).st =
      ⟨[(n, ⟨ty, d, d⟩)], [(n, .unconv [v])], [], []⟩ := by
    simp [stepN, addOptionN, hd, insertOpt, St.listeners, notifyW]
  simp only [h1, h2]
  refine ⟨by first | rfl | trivial, by first | rfl | trivial, ?_⟩
  cases hp : parseSetval ⟨ty, d, d⟩ [v] with
  | none =>
    simp [stepN, processDeferredN, deferredValues, lookup, hp]
  | some x =>
    have hx : typeOk ty x = true := parse_setval_typed ⟨ty, d, d⟩ [v] x hp
    simp [stepN, processDeferredN, deferredValues, lookup, hp, updateN, updateKnownN, coreUpdate, withOpts, hasKey,
      allTyped, hx, assign, setVal, St.listeners, notifyW]

example : (stepN (stepN (stepN St.empty (.set [(7, some [32, 0x663, 95, 0x664])] true)).st (.addOption 7 .optInt (.a .none))).st
    .processDeferred).st.opts = [(7, ⟨.optInt, .a .none, .a (.i 34)⟩)] := by decide

/-! ### config-file paths (`relative_path`) -/

/-- an absolute script path is taken as it is (in pathlib's normal form), whatever the config file's directory,
    the working directory and the environment are -/
theorem relative_path_of_absolute (home : Option PyStr) (pw : PyStr → Option PyStr) (cwd rel path : PyStr)
    (h : (parsePath path).root.isEmpty = false) :
    relativePath home pw cwd rel path = .ok (parsePath path) := by
  simp [relativePath, pExpandUser, pAbsolute, pjoin, h]

/-- a relative script path without `~` is appended to the (absolute) directory of the config file -/
theorem relative_path_of_plain (home : Option PyStr) (pw : PyStr → Option PyStr) (cwd rel path : PyStr)
    (hp : (parsePath path).root.isEmpty = true) (ht : ∀ f ∈ (parsePath path).parts.head?, f.head? ≠ some 126)
    (hr : (parsePath rel).root.isEmpty = false) :
    relativePath home pw cwd rel path = .ok ⟨(parsePath rel).root, (parsePath rel).parts ++ (parsePath path).parts⟩ := by
  have hex : pExpandUser home pw (parsePath path) = .ok (parsePath path) := by
    unfold pExpandUser
    simp only [hp, Bool.not_true, Bool.false_eq_true, if_false]
    cases hparts : (parsePath path).parts with
    | nil => rfl
    | cons f t =>
      have := ht f (by simp [hparts])
      simp [this]
  simp [relativePath, hex, pAbsolute, pjoin, hp, hr]

private theorem pAbsolute_root (cwd : PyStr) (q : PPath) (hc : (parsePath cwd).root.isEmpty = false) :
    (pAbsolute cwd q).root.isEmpty = false := by
  unfold pAbsolute pjoin
  by_cases hq : q.root.isEmpty = true
  · simp [hq, hc]
  · simp [hq]

/-- **relative_path_is_absolute.** Whenever `relative_path` returns (no undeterminable home, no NUL user name) and
    the working directory is absolute, the result is an absolute path — for every config directory, script path and
    environment: the `scripts` entries `load` produces never depend on where the process is started later. -/
theorem relative_path_is_absolute (home : Option PyStr) (pw : PyStr → Option PyStr) (cwd rel path : PyStr) (r : PPath)
    (hc : (parsePath cwd).root.isEmpty = false) (h : relativePath home pw cwd rel path = .ok r) :
    r.root.isEmpty = false := by
  unfold relativePath at h
  simp only at h
  cases h1 : pExpandUser home pw (parsePath path) with
  | error e => simp [h1] at h
  | ok e1 =>
    simp only [h1] at h
    split at h
    · cases h
    · rename_i e2 _
      simp only [Except.ok.injEq] at h
      subst h
      exact pAbsolute_root cwd _ hc

example : (relativePath (some [47, 104]) (fun _ => none) [47, 119] [47, 101, 116, 99] [126, 47, 97]).toOption.map PPath.str =
    some [47, 104, 47, 97] := by decide
example : (match relativePath none (fun _ => none) [47, 119] [99] [126, 117, 47, 97] with
    | .error e => some e | .ok _ => none) = some .runtime ∧
    (relativePath none (fun _ => none) [47, 119] [99] [97, 47, 46, 47, 47, 98]).toOption.map PPath.str =
      some [47, 119, 47, 99, 47, 97, 47, 98] := by decide

/-! ### `merge`: Sequence values are appended -/

private theorem mergeVals_spec (s : Store) (kvs toset : List (Name × Val)) (h : mergeVals s kvs = .ok toset) :
    ∀ kv ∈ toset, (∃ v, (kv.1, v) ∈ kvs ∧ kv.2 = v ∧ (∀ xs, v ≠ .seq xs) ∧ v ≠ .a .none) ∨
      (∃ xs o cur, (kv.1, Val.seq xs) ∈ kvs ∧ lookup s kv.1 = some o ∧ o.cur = .seq cur ∧ kv.2 = .seq (cur ++ xs)) := by
  induction kvs generalizing toset with
  | nil => intro kv hkv; simp only [mergeVals, Except.ok.injEq] at h; subst h; simp at hkv
  | cons a r ih =>
    obtain ⟨k, v⟩ := a
    intro kv hkv
    have lift : ∀ t, mergeVals s r = .ok t → kv ∈ t →
        (∃ v', (kv.1, v') ∈ (k, v) :: r ∧ kv.2 = v' ∧ (∀ xs, v' ≠ .seq xs) ∧ v' ≠ .a .none) ∨
        (∃ xs o cur, (kv.1, Val.seq xs) ∈ (k, v) :: r ∧ lookup s kv.1 = some o ∧ o.cur = .seq cur ∧ kv.2 = .seq (cur ++ xs)) := by
      intro t ht hm
      rcases ih t ht kv hm with ⟨v', h1, h2⟩ | ⟨xs, o, cur, h1, h2⟩
      · exact Or.inl ⟨v', List.mem_cons_of_mem _ h1, h2⟩
      · exact Or.inr ⟨xs, o, cur, List.mem_cons_of_mem _ h1, h2⟩
    cases v with
    | seq xs =>
      simp only [mergeVals] at h
      cases hl : lookup s k with
      | none => simp [hl] at h
      | some o =>
        simp only [hl] at h
        cases hc : o.cur with
        | a x => simp [hc] at h
        | seq cur =>
          simp only [hc] at h
          cases hr : mergeVals s r with
          | error e => simp [hr, Except.map] at h
          | ok t =>
            simp only [hr, Except.map, Except.ok.injEq] at h
            subst h
            rcases List.mem_cons.mp hkv with e | e
            · subst e; exact Or.inr ⟨xs, o, cur, List.mem_cons_self, hl, hc, rfl⟩
            · exact lift t hr e
    | a x =>
      cases x with
      | none => simp only [mergeVals] at h; exact lift toset h hkv
      | b y | s y | i y =>
        simp only [mergeVals] at h
        cases hr : mergeVals s r with
        | error e => simp [hr, Except.map] at h
        | ok t =>
          simp only [hr, Except.map, Except.ok.injEq] at h
          subst h
          rcases List.mem_cons.mp hkv with e | e
          · subst e; exact Or.inl ⟨_, List.mem_cons_self, rfl, by intro xs; simp, by simp⟩
          · exact lift t hr e
      | other =>
        simp only [mergeVals] at h
        cases hr : mergeVals s r with
        | error e => simp [hr, Except.map] at h
        | ok t =>
          simp only [hr, Except.map, Except.ok.injEq] at h
          subst h
          rcases List.mem_cons.mp hkv with e | e
          · subst e; exact Or.inl ⟨_, List.mem_cons_self, rfl, by intro xs; simp, by simp⟩
          · exact lift t hr e

/-- **merge_appends_sequences.** What `merge` hands to `update`: every None is dropped, every scalar is passed as
    given, and every list is the option's CURRENT list followed by the given one (a list for an option whose current
    value is not a list is a TypeError, for an unknown option an AttributeError — nothing is updated then). -/
theorem merge_appends_sequences (st : St) (kvs : List (Name × Val)) :
    (∃ toset, mergeVals st.opts kvs = .ok toset ∧ mergeN st kvs = updateN st toset ∧
      ∀ kv ∈ toset, (∃ v, (kv.1, v) ∈ kvs ∧ kv.2 = v ∧ (∀ xs, v ≠ .seq xs) ∧ v ≠ .a .none) ∨
        (∃ xs o cur, (kv.1, Val.seq xs) ∈ kvs ∧ lookup st.opts kv.1 = some o ∧ o.cur = .seq cur ∧ kv.2 = .seq (cur ++ xs))) ∨
    (∃ e, mergeVals st.opts kvs = .error e ∧ (mergeN st kvs).st = st ∧ (mergeN st kvs).obs = []) := by
  cases h : mergeVals st.opts kvs with
  | error e => exact Or.inr ⟨e, rfl, by simp [mergeN, h], by simp [mergeN, h]⟩
  | ok toset => exact Or.inl ⟨toset, rfl, by simp [mergeN, h], mergeVals_spec st.opts kvs toset h⟩

example :
    let st : St := ⟨[(0, ⟨.seqStr, .seq [], .seq [.s [97]]⟩), (1, ⟨.int, .a (.i 0), .a (.i 0)⟩)], [], [], []⟩
    (mergeN st [(0, .seq [.s [98]]), (1, .a .none)]).st.opts = [(0, ⟨.seqStr, .seq [], .seq [.s [97], .s [98]]⟩), (1, ⟨.int, .a (.i 0), .a (.i 0)⟩)] ∧
    (mergeN st [(1, .seq [])]).out = .typeError ∧ (mergeN st [(5, .seq [])]).out = .attributeError := by decide

/-! ### `load(opts, text, cwd)` -/

/-- without a config directory `load` is `update_defer` of the parsed data -/
theorem load_without_cwd (env : PathEnv) (st : St) (data : List (Name × Val)) :
    loadN env st none data = updateDeferN st data := rfl

private theorem relOne_absolute (env : PathEnv) (dir path : PyStr) (x : Atom)
    (hc : (parsePath env.getcwd).root.isEmpty = false) (h : relOne env dir path = .ok x) :
    ∃ p : PPath, p.root.isEmpty = false ∧ x = .s (utf8 p.str) := by
  unfold relOne at h
  cases hr : relativePath env.home env.pw env.getcwd dir path with
  | error e => cases e <;> simp [hr] at h
  | ok p =>
    simp only [hr, Except.ok.injEq] at h
    exact ⟨p, relative_path_is_absolute _ _ _ _ _ p hc hr, h.symm⟩

private theorem relAll_absolute (env : PathEnv) (dir : PyStr) (hc : (parsePath env.getcwd).root.isEmpty = false) :
    ∀ (xs ys : List Atom), relAll env dir xs = .ok ys →
      ys.length = xs.length ∧ ∀ y ∈ ys, ∃ p : PPath, p.root.isEmpty = false ∧ y = .s (utf8 p.str) := by
  intro xs
  induction xs with
  | nil => intro ys h; simp only [relAll, Except.ok.injEq] at h; subst h; simp
  | cons a r ih =>
    intro ys h
    cases a with
    | s b =>
      simp only [relAll] at h
      cases h1 : relOne env dir (MitmVerif.C35.native b) with
      | error e => simp [h1] at h
      | ok x =>
        simp only [h1] at h
        cases h2 : relAll env dir r with
        | error e => simp [h2, Except.map] at h
        | ok t =>
          simp only [h2, Except.map, Except.ok.injEq] at h
          subst h
          obtain ⟨hl, hall⟩ := ih t h2
          refine ⟨by simp [hl], ?_⟩
          intro y hy
          rcases List.mem_cons.mp hy with e | e
          · subst e; exact relOne_absolute env dir _ _ hc h1
          · exact hall y e
    | b _ => simp [relAll] at h
    | i _ => simp [relAll] at h
    | none => simp [relAll] at h
    | other => simp [relAll] at h

/-- **load_makes_scripts_absolute.** For every environment with an absolute working directory, every config
    directory and every parsed config whose `scripts` entry is a list: if the rewriting `load(…, cwd)` applies goes
    through, the data handed to `update_defer` is the parsed data with `scripts` replaced by a list of the same length
    whose entries are all absolute paths (in pathlib's normal form); everything else is untouched. A non-str entry is
    a TypeError, an undeterminable `~user` a RuntimeError, a NUL in a user name a ValueError — and then nothing at all
    is loaded. -/
theorem load_makes_scripts_absolute (env : PathEnv) (dir : PyStr) (data : List (Name × Val)) (xs : List Atom)
    (hc : (parsePath env.getcwd).root.isEmpty = false)
    (hs : (data.find? (·.1 == scriptsName)).map (·.2) = some (.seq xs)) :
    (∃ ys, rewriteScripts env dir data = .ok (dictReplace data scriptsName (.seq ys)) ∧ ys.length = xs.length ∧
        ∀ y ∈ ys, ∃ p : PPath, p.root.isEmpty = false ∧ y = .s (utf8 p.str)) ∨
    (∃ e, rewriteScripts env dir data = .error e ∧ ∀ st, (loadN env st (some dir) data).st = st ∧
        (loadN env st (some dir) data).obs = []) := by
  unfold rewriteScripts
  simp only [hs]
  cases hr : relAll env dir xs with
  | error e =>
    refine Or.inr ⟨e, by simp [Except.map], ?_⟩
    intro st
    simp [loadN, rewriteScripts, hs, hr, Except.map]
  | ok ys =>
    obtain ⟨hl, hall⟩ := relAll_absolute env dir hc xs ys hr
    exact Or.inl ⟨ys, by simp [Except.map], hl, hall⟩

/-- a config without a `scripts` entry (or with `scripts: null`) is loaded as it is -/
theorem load_without_scripts (env : PathEnv) (dir : PyStr) (data : List (Name × Val))
    (hs : (data.find? (·.1 == scriptsName)).map (·.2) = none ∨ (data.find? (·.1 == scriptsName)).map (·.2) = some (.a .none)) :
    rewriteScripts env dir data = .ok data := by
  unfold rewriteScripts
  rcases hs with h | h <;> simp [h]

/-! ### round-6 cross-audit: non-vacuity witnesses (appended by the auditor; no theorem above is changed) -/

/-- the state reached by a real history with an ACTING listener (1: on a = 5 sets b = 5) and a rejecting one (3) -/
def auditOps : List Op :=
  [.addOption 0 .int (.a (.i 0)), .addOption 1 .int (.a (.i 0)),
   .subscribe ⟨1, some [0], fun _ _ => false,
     fun s _ => if (lookup s 0).any (fun o => pyEq o.cur (.a (.i 5))) then some [(1, .a (.i 5))] else none⟩,
   .subscribe ⟨3, some [0], fun s _ => (lookup s 0).any (fun o => pyEq o.cur (.a (.i 5))), fun _ _ => none⟩,
   .update [(0, .a (.i 4))]]

/-- `nested_rejected_update_over_histories`: both hypotheses hold after that history (a real OptionsError, a quiet
    rollback notification), and the accepted update before it really changed the store -/
example :
    (stepN (runN auditOps).1 (.updateKnown [(0, .a (.i 5))])).out = .optionsError ∧
    quiet (([(0, Val.a (.i 5))].filter fun kv => hasKey (runN auditOps).1.opts kv.1).map (·.1)) (runN auditOps).1.opts
      (runN auditOps).1.listeners = true ∧
    (runN auditOps).1.opts.map (fun p => p.2.cur) = [.a (.i 4), .a (.i 0)] := by decide

/-- `nested_rejected_update_restores_everything_quiet`: hypotheses on the seeded scenario (nested assignment of b discarded) -/
example :
    (updateKnownN nestedState [(0, .a (.i 5))]).out ≠ .ok ∧
    quiet (([(0, Val.a (.i 5))].filter fun kv => hasKey nestedState.opts kv.1).map (·.1)) nestedState.opts nestedState.listeners = true := by
  decide

/-- `rejected_update_restores_everything` on the other update-family operations: a `set` whose value string is refused
    for the type (OptionsError), a `set` rejected by a listener, an ill-typed `update_defer`, a `merge` of a list into a scalar -/
example :
    let st : St := ⟨[(0, ⟨.int, .a (.i 0), .a (.i 7)⟩), (1, ⟨.bool, .a (.b false), .a (.b false)⟩)], [], [],
      [⟨1, none, fun s _ => (lookup s 1).any (fun o => pyEq o.cur (.a (.b true))), fun _ _ => none⟩]⟩
    isUpdateOp (.set [(0, some [120])] false) = true ∧ (step st (.set [(0, some [120])] false)).out = .optionsError ∧
    (step st (.set [(1, none), (0, some [57])] false)).out = .optionsError ∧
    (step st (.set [(1, none), (0, some [57])] false)).st.opts = st.opts ∧
    (step st (.updateDefer [(0, .a (.s [120])), (9, .a .none)])).out = .typeError ∧
    (step st (.merge [(0, .seq [.s [97]])])).out = .typeError := by decide

/-- `nested_model_agrees_with_flat`: `Passive` holds for listeners that only accept or reject (here: the F-C44c state) -/
example : Passive cexState.listeners := by
  intro l hl s u
  simp [cexState, St.listeners] at hl
  rcases hl with rfl | rfl <;> rfl

/-- … and fails for an acting listener, on which the two models really differ (what listener 3 is shown: b = 5 vs b = 0) -/
example :
    ((stepN nestedState (.update [(0, .a (.i 5))])).obs.map fun ob => ob.seen.map fun p => p.2.cur) ≠
    ((step nestedState (.update [(0, .a (.i 5))])).obs.map fun ob => ob.seen.map fun p => p.2.cur) := by decide

/-- `config_roundtrip_nondefault_partial`: the guard and `NelLaw` are satisfiable together on a history with YAML-special
    words, a newline, non-ASCII text, a sequence and an optional int set to None and back -/
def auditCfgOps : List Op :=
  [.addOption 0 .str (.a (.s [])), .addOption 1 .seqStr (.seq []), .addOption 2 .optInt (.a .none), .addOption 3 .bool (.a (.b true)),
   .update [(0, .a (.s [0x6e, 0x75, 0x6c, 0x6c])), (1, .seq [.s [0x79, 0x65, 0x73], .s [0x61, 0x0a, 0x27, 0x22], .s [0xc3, 0xa9]]),
            (2, .a (.i (-3))), (3, .a (.b false))]]

example : Reproduces (run auditCfgOps).1.opts (saveLoad nelYaml (run auditCfgOps).1.opts) :=
  config_roundtrip_nondefault_partial nelYaml nelYaml_law auditCfgOps (by decide)

example : (saveData (run auditCfgOps).1.opts).length = 4 := by decide

/-- the round trip ALSO holds for histories of the nested model (the one the driver executes): same proof, from the
    invariants of `runN` — stated here as a checked instance because no named theorem says it -/
example {Text : Type} (Y : Yaml Text) (law : ∀ d, Y.parse (Y.dump d) = some d) (ops : List Op) :
    Reproduces (runN ops).1.opts (saveLoad Y (runN ops).1.opts) :=
  reproduces_of_parse Y _ (inv_runN ops).1 (inv_runN ops).2 (law _)

/-- `parse_setval_typed` / `set_never_type_error`: value strings that parse (Arabic-Indic digits with an underscore and
    surrounding blanks, `toggle`) and one that is refused -/
example : parseSetval ⟨.optInt, .a .none, .a .none⟩ [[32, 0x663, 95, 0x664, 32]] = some (.a (.i 34)) ∧
    parseSetval ⟨.bool, .a (.b false), .a (.b true)⟩ [strToggle] = some (.a (.b false)) ∧
    parseSetval ⟨.int, .a (.i 0), .a (.i 0)⟩ [[49, 95, 95, 48]] = none := by decide

/-- `load_makes_scripts_absolute`: hypotheses and the first alternative on a config with three script entries -/
example :
    let env : PathEnv := ⟨some [47, 104], fun _ => none, [47, 119]⟩
    let data : List (Name × Val) := [(0, .a (.i 1)), (scriptsName, .seq [.s [97, 46, 112, 121], .s [126, 47, 98], .s [47, 120]])]
    (parsePath env.getcwd).root.isEmpty = false ∧
    (rewriteScripts env [47, 99, 102, 103] data).toOption =
      some [(0, .a (.i 1)), (scriptsName, .seq [.s [47, 99, 102, 103, 47, 97, 46, 112, 121], .s [47, 104, 47, 98], .s [47, 120]])] := by
  decide +kernel

/-- … and the second alternative: a non-str entry is a TypeError and nothing is loaded -/
example :
    let env : PathEnv := ⟨some [47, 104], fun _ => none, [47, 119]⟩
    (loadN env nestedState (some [47, 99]) [(scriptsName, .seq [.s [97], .i 1])]).out = .typeError ∧
    (loadN env nestedState (some [47, 99]) [(scriptsName, .seq [.s [97], .i 1])]).st.opts = nestedState.opts := by decide +kernel

/-- `relative_path_of_plain`: its three hypotheses on `sub/a.py` relative to `/etc/mitm` -/
example : (parsePath [115, 117, 98, 47, 97]).root.isEmpty = true ∧
    (∀ f ∈ (parsePath [115, 117, 98, 47, 97]).parts.head?, f.head? ≠ some 126) ∧
    (parsePath [47, 101, 116, 99]).root.isEmpty = false := by decide

/-! ### round-6 owner fixes: the save/load and accepted-update clauses for the model the driver executes (`runN`) -/

/-- **config_roundtrip_nondefault_nested.** `config_roundtrip_nondefault` for the NESTED model, i.e. for every store the
    tied model reaches — histories whose listeners issue updates of their own included: for any YAML library obeying
    `parse (dump d) = some d`, saving the options and loading that text into fresh options is accepted and reproduces every
    non-default value. (`saveLoad` itself involves no listener: fresh options have none.) -/
theorem config_roundtrip_nondefault_nested {Text : Type} (Y : Yaml Text) (law : ∀ d, Y.parse (Y.dump d) = some d)
    (ops : List Op) : Reproduces (runN ops).1.opts (saveLoad Y (runN ops).1.opts) :=
  reproduces_of_parse Y _ (inv_runN ops).1 (inv_runN ops).2 (law _)

/-- **config_roundtrip_nondefault_nested (partial, F-C44b).** The NEL-guarded variant for the nested model. -/
theorem config_roundtrip_nondefault_nested_partial {Text : Type} (Y : Yaml Text) (law : NelLaw Y) (ops : List Op)
    (hg : ∀ p ∈ (runN ops).1.opts, p.2.hasChanged = true → p.2.cur.nelFree = true) :
    Reproduces (runN ops).1.opts (saveLoad Y (runN ops).1.opts) := by
  apply reproduces_of_parse Y _ (inv_runN ops).1 (inv_runN ops).2
  apply law
  intro kv hkv
  obtain ⟨p, hp, hc, rfl⟩ := mem_saveData _ kv hkv
  exact hg p hp hc

private theorem notifyW_calls_concerned (nested : Store → List (Name × Val) → NRes) (u : List Name) (ls : List Listener) :
    ∀ s, (notifyW nested u s ls).2.2 = false →
      ∀ l ∈ ls, concerned l u = true → ∃ ob ∈ (notifyW nested u s ls).2.1, ob.who = l.id ∧ ob.updated = u := by
  induction ls with
  | nil => intro s _ l hl; simp at hl
  | cons a r ih =>
    intro s hd l hl hc
    simp only [notifyW] at hd ⊢
    by_cases hca : concerned a u = true
    · simp only [hca, if_true] at hd ⊢
      by_cases hr : a.rejects s u = true
      · simp [hr] at hd
      · simp only [hr, Bool.false_eq_true, if_false] at hd ⊢
        cases hact : a.act s u with
        | none =>
          simp only [hact] at hd ⊢
          rcases List.mem_cons.mp hl with e | e
          · subst e; exact ⟨⟨l.id, s, u⟩, List.mem_cons_self, rfl, rfl⟩
          · obtain ⟨ob, hob, h1, h2⟩ := ih s hd l e hc
            exact ⟨ob, List.mem_cons_of_mem _ hob, h1, h2⟩
        | some kw =>
          simp only [hact] at hd ⊢
          by_cases hn : ((nested s kw).out == Outcome.optionsError) = true
          · simp [hn] at hd
          · simp only [hn, Bool.false_eq_true, if_false] at hd ⊢
            rcases List.mem_cons.mp hl with e | e
            · subst e; exact ⟨⟨l.id, s, u⟩, List.mem_cons_self, rfl, rfl⟩
            · obtain ⟨ob, hob, h1, h2⟩ := ih _ hd l e hc
              exact ⟨ob, List.mem_cons_of_mem _ (List.mem_append_right _ hob), h1, h2⟩
    · simp only [hca, Bool.false_eq_true, if_false] at hd ⊢
      rcases List.mem_cons.mp hl with e | e
      · subst e; exact absurd hc hca
      · exact ih s hd l e hc

/-- **accepted_update_notifies_assigned_names_nested.** The clause "an accepted update notifies listeners with the names
    of the assigned options" for the model the driver executes, with listeners that may issue nested updates from inside
    their handlers: if `update_known` is accepted and assigns at least one option, EVERY listener concerned by the assigned
    names (subscribers whose name set meets them, every receiver connected to `changed`) is called with exactly those names;
    the unknown pairs are returned; with no known name nobody is called and nothing changes. (What each listener is shown
    is the store as threaded through the handlers before it; for listeners that only accept or reject it is the assigned
    state — `accepted_update_notifies_assigned_names` via `nested_model_agrees_with_flat`.) -/
theorem accepted_update_notifies_assigned_names_nested (st : St) (kw : List (Name × Val))
    (h : (updateKnownN st kw).out = .ok) :
    let known := kw.filter fun kv => hasKey st.opts kv.1
    let names := known.map (·.1)
    (updateKnownN st kw).unknown = kw.filter (fun kv => !hasKey st.opts kv.1) ∧
    (known = [] → (updateKnownN st kw).st = st ∧ (updateKnownN st kw).obs = []) ∧
    (known ≠ [] → ∀ l ∈ st.listeners, concerned l names = true →
        ∃ ob ∈ (updateKnownN st kw).obs, ob.who = l.id ∧ ob.updated = names) := by
  simp only [updateKnownN, withOpts, coreUpdate] at h ⊢
  split
  · rename_i h1
    have hk : (kw.filter fun kv => hasKey st.opts kv.1) = [] := by simpa using h1
    exact ⟨rfl, fun _ => ⟨rfl, rfl⟩, fun hne => absurd hk hne⟩
  · rename_i h1
    have hk : (kw.filter fun kv => hasKey st.opts kv.1) ≠ [] := by simpa using h1
    split
    · rename_i h2; simp [h1, h2] at h
    · split
      · rename_i h3
        refine ⟨rfl, fun he => absurd he hk, fun _ l hl hc => ?_⟩
        have hd : (notifyW (nestedAt maxDepth st.listeners) ((kw.filter fun kv => hasKey st.opts kv.1).map (·.1))
            (assign st.opts (kw.filter fun kv => hasKey st.opts kv.1)) st.listeners).2.2 = false := by simpa using h3
        exact notifyW_calls_concerned _ _ _ _ hd l hl hc
      · rename_i h2 h3; simp [h1, h2, h3] at h

-- the acting listener of the seeded scenario and a watcher: the accepted update of `a` calls both listeners on `a` with [a]
example :
    let st : St := { nestedWatchState with subs := nestedWatchState.subs.take 2 }
    (updateKnownN st [(0, .a (.i 5))]).out = .ok ∧
    (updateKnownN st [(0, .a (.i 5))]).obs.map (fun ob => (ob.who, ob.updated)) = [(1, [0]), (2, [1])] := by decide

end MitmVerif.Props.C44
