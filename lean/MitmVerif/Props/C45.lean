/-
  C45 — property theorems about the command-line model (Model/C45.lean).
  * `lexer_loses_nothing`                       : the tokens of a line concatenate to the line (all lines)
  * `lexer_merge_splits_at_unquoted_ws`         : gluing touching argument tokens gives exactly the pieces between
                                                  unquoted whitespace (all lines)
  * `lexer_splits_at_unquoted_ws_partial`       : if no two argument tokens touch, the arguments are exactly those pieces
  * `lexer_splits_at_unquoted_ws_counterexample`: `x foo"bar baz"` — the full statement is false (F-C45c)
  * `arg_unchanged_partial`                     : any number of quoted arguments arrive unchanged through `execute`
                                                  (verbatim parameters: not both quote characters; `str`: no backslash)
  * `arg_unchanged_counterexample_backslash` (F-C45b), `arg_unchanged_counterexample_both_quotes` (F-C45a)
-/
import MitmVerif.Model.C45
namespace MitmVerif.Props.C45
open MitmVerif.C45

/-! ### the lexer loses nothing -/

private theorem lexM_concat (s : Str) : ∀ m : Mode, (lexM m s).1 ++ (lexM m s).2.flatten = s := by
  induction s with
  | nil => intro m; simp [lexM]
  | cons c r ih =>
    intro m
    cases m with
    | none => simp only [lexM]; simpa using ih (modeOf c)
    | quoted q =>
      simp only [lexM]
      split
      · have := ih .none
        simp only [lexM] at this ⊢
        cases r with
        | nil => simp [lexM]
        | cons d r' => simp only [lexM] at this ⊢; simpa using this
      · simpa using ih (.quoted q)
    | ws =>
      simp only [lexM]
      split
      · simpa using ih .ws
      · simpa using ih (modeOf c)
    | bare =>
      simp only [lexM]
      split
      · simpa using ih .bare
      · simpa using ih (modeOf c)

/-- **lexer_loses_nothing.** For every line, concatenating the tokens gives back the line. -/
theorem lexer_loses_nothing (s : Str) : (lex s).flatten = s := by
  have := lexM_concat s .none
  cases s with
  | nil => simp [lex, lexM]
  | cons c r => simp only [lex, lexM] at this ⊢; simpa using this

/-! ### splitting at unquoted whitespace -/

private def ne (t : Str) : Bool := !t.isEmpty

/-- same current piece, same later pieces up to empty ones -/
private def E (x y : Str × List Str) : Prop := x.1 = y.1 ∧ x.2.filter ne = y.2.filter ne

private theorem lexM_ws_all (s : Str) : (lexM .ws s).1.all isWs = true := by
  induction s with
  | nil => simp [lexM]
  | cons c r ih =>
    simp only [lexM]
    split
    · rename_i h; simp [h, ih]
    · simp

private theorem lexM_none_eq (c : Nat) (r : Str) :
    lexM .none (c :: r) = ([], (c :: (lexM (modeOf c) r).1) :: (lexM (modeOf c) r).2) := by
  simp [lexM]

private theorem spaceTok_cons_false (c : Nat) (t : Str) (h : isWs c = false) : isSpaceTok (c :: t) = false := by
  simp [isSpaceTok, h]

private structure P (s : Str) : Prop where
  pn : E (mergeGo (lexM .none s).2) (refGo none s)
  pb : E ((lexM .bare s).1 ++ (mergeGo (lexM .bare s).2).1, (mergeGo (lexM .bare s).2).2) (refGo none s)
  pq : ∀ q, E ((lexM (.quoted q) s).1 ++ (mergeGo (lexM (.quoted q) s).2).1, (mergeGo (lexM (.quoted q) s).2).2)
    (refGo (some q) s)
  pw : ((mergeGo (lexM .ws s).2).1 :: (mergeGo (lexM .ws s).2).2).filter ne =
    ((refGo none s).1 :: (refGo none s).2).filter ne

private theorem filter_ne_nil (L : List Str) : List.filter ne ([] :: L) = List.filter ne L := by
  simp [List.filter_cons, ne]

private theorem filter_ne_cons (t : Str) (L : List Str) (h : t ≠ []) : List.filter ne (t :: L) = t :: List.filter ne L := by
  cases t with
  | nil => exact absurd rfl h
  | cons a r => simp [List.filter_cons, ne]

private theorem filter_ne_of_E {x y : Str × List Str} (h : E x y) :
    (x.1 :: x.2).filter ne = (y.1 :: y.2).filter ne := by
  obtain ⟨h1, h2⟩ := h
  simp only [List.filter_cons, h1, h2]

private theorem P_all (s : Str) : P s := by
  induction s with
  | nil => exact ⟨by simp [E, lexM, mergeGo, refGo], by simp [E, lexM, mergeGo, refGo],
      by intro q; simp [E, lexM, mergeGo, refGo], by simp [lexM, mergeGo, refGo]⟩
  | cons c r ih =>
    -- the claim for mode `none` first; the other modes fall back on it when a new token starts at `c`
    have hnone' : E (mergeGo ((c :: (lexM (modeOf c) r).1) :: (lexM (modeOf c) r).2)) (refGo none (c :: r)) := by
      by_cases hw : isWs c = true
      · have hm : modeOf c = .ws := by
          have hq : isQuote c = false := by
            simp only [isWs, isQuote] at hw ⊢
            simp only [Bool.or_eq_true, beq_iff_eq] at hw
            rcases hw with ((h | h) | h) | h <;> simp [h]
          simp [modeOf, hq, hw]
        rw [hm]
        have hsp : isSpaceTok (c :: (lexM .ws r).1) = true := by
          simp [isSpaceTok, hw, lexM_ws_all r]
        simp only [mergeGo, hsp, if_true, refGo, hw]
        exact ⟨rfl, ih.pw⟩
      · have hw' : isWs c = false := by simpa using hw
        by_cases hq : isQuote c = true
        · have hm : modeOf c = .quoted c := by simp [modeOf, hq]
          rw [hm]
          simp only [mergeGo, spaceTok_cons_false c _ hw', refGo, hw', hq, if_true, Bool.false_eq_true, if_false,
            List.cons_append]
          obtain ⟨h1, h2⟩ := ih.pq c
          exact ⟨congrArg (List.cons c) h1, h2⟩
        · have hq' : isQuote c = false := by simpa using hq
          have hm : modeOf c = .bare := by simp [modeOf, hq', hw']
          rw [hm]
          simp only [mergeGo, spaceTok_cons_false c _ hw', refGo, hw', hq', Bool.false_eq_true, if_false,
            List.cons_append]
          obtain ⟨h1, h2⟩ := ih.pb
          exact ⟨congrArg (List.cons c) h1, h2⟩
    have hnone : E (mergeGo (lexM .none (c :: r)).2) (refGo none (c :: r)) := by
      rw [lexM_none_eq]; exact hnone'
    refine ⟨hnone, ?_, ?_, ?_⟩
    · -- bare
      simp only [lexM]
      by_cases hs : special c = true
      · simp only [hs, Bool.not_true, Bool.false_eq_true, if_false, List.nil_append]
        exact hnone'
      · have hs' : special c = false := by simpa using hs
        have hq : isQuote c = false := by simp only [special, Bool.or_eq_false_iff] at hs'; exact hs'.1
        have hw : isWs c = false := by simp only [special, Bool.or_eq_false_iff] at hs'; exact hs'.2
        simp only [hs', Bool.not_false, if_true, refGo, hw, hq, Bool.false_eq_true, if_false, List.cons_append]
        obtain ⟨h1, h2⟩ := ih.pb
        exact ⟨congrArg (List.cons c) h1, h2⟩
    · -- quoted
      intro q
      simp only [lexM, refGo]
      by_cases hc : (c == q) = true
      · simp only [hc, if_true, List.cons_append, List.nil_append]
        obtain ⟨h1, h2⟩ := ih.pn
        exact ⟨congrArg (List.cons c) h1, h2⟩
      · simp only [hc, Bool.false_eq_true, if_false, List.cons_append]
        obtain ⟨h1, h2⟩ := ih.pq q
        exact ⟨congrArg (List.cons c) h1, h2⟩
    · -- ws
      simp only [lexM]
      by_cases hw : isWs c = true
      · simp only [hw, if_true, refGo]
        rw [filter_ne_nil]
        exact ih.pw
      · simp only [hw, Bool.false_eq_true, if_false]
        exact filter_ne_of_E hnone'

/-- **lexer_merge_splits_at_unquoted_ws.** For EVERY line: the lexer never splits inside quotes and never keeps
    unquoted whitespace inside an argument — gluing the argument tokens that touch each other gives exactly the
    pieces of the line that lie between unquoted whitespace. (The lexer additionally cuts where a quoted string
    starts or ends in the middle of such a piece; that is F-C45c.) -/
theorem lexer_merge_splits_at_unquoted_ws (s : Str) : mergeAdjacent (lex s) = refSplit s := by
  have := filter_ne_of_E (P_all s).pn
  simp only [mergeAdjacent, refSplit, lex]
  exact this

private theorem lexM_tokens_ne (s : Str) : ∀ m : Mode, ∀ t ∈ (lexM m s).2, t ≠ [] := by
  induction s with
  | nil => intro m t h; simp [lexM] at h
  | cons c r ih =>
    intro m t h
    cases m with
    | none =>
      simp only [lexM, List.mem_cons] at h
      rcases h with h | h
      · simp [h]
      · exact ih _ t h
    | quoted q =>
      simp only [lexM] at h
      split at h
      · exact ih _ t h
      · exact ih _ t h
    | ws =>
      simp only [lexM] at h
      split at h
      · exact ih _ t h
      · simp only [List.mem_cons] at h
        rcases h with h | h
        · simp [h]
        · exact ih _ t h
    | bare =>
      simp only [lexM] at h
      split at h
      · exact ih _ t h
      · simp only [List.mem_cons] at h
        rcases h with h | h
        · simp [h]
        · exact ih _ t h

private theorem mergeAdjacent_space (t : Str) (ts : List Str) (h : isSpaceTok t = true) :
    mergeAdjacent (t :: ts) = mergeAdjacent ts := by
  simp only [mergeAdjacent, mergeGo, h, if_true]
  exact filter_ne_nil _

private theorem mergeAdjacent_arg_space (t b : Str) (r : List Str) (ht : isSpaceTok t = false) (hne : t ≠ [])
    (hb : isSpaceTok b = true) : mergeAdjacent (t :: b :: r) = t :: mergeAdjacent (b :: r) := by
  simp only [mergeAdjacent, mergeGo, ht, hb, if_true, Bool.false_eq_true, if_false, List.append_nil]
  show List.filter ne (t :: _) = t :: List.filter ne ([] :: _)
  rw [filter_ne_cons t _ hne, filter_ne_nil]

private theorem merge_of_noAdjacent (toks : List Str) (hne : ∀ t ∈ toks, t ≠ []) (h : noAdjacent toks = true) :
    mergeAdjacent toks = toks.filter (fun t => !isSpaceTok t) := by
  induction toks with
  | nil => simp [mergeAdjacent, mergeGo]
  | cons t ts ih =>
    have hne' : ∀ t ∈ ts, t ≠ [] := fun x hx => hne x (List.mem_cons_of_mem _ hx)
    have hts : noAdjacent ts = true := by
      cases ts with
      | nil => rfl
      | cons b r => simp only [noAdjacent, Bool.and_eq_true] at h; exact h.2
    have ih' := ih hne' hts
    by_cases hsp : isSpaceTok t = true
    · rw [mergeAdjacent_space t ts hsp, ih']
      simp [List.filter_cons, hsp]
    · have hsp' : isSpaceTok t = false := by simpa using hsp
      have htne : t ≠ [] := hne t List.mem_cons_self
      cases ts with
      | nil =>
        simp only [mergeAdjacent, mergeGo, hsp', Bool.false_eq_true, if_false, List.append_nil]
        show List.filter ne [t] = _
        rw [filter_ne_cons t _ htne]
        simp [List.filter_cons, hsp']
      | cons b r =>
        have hb : isSpaceTok b = true := by
          simp only [noAdjacent, Bool.and_eq_true, Bool.or_eq_true] at h
          rcases h.1 with h1 | h1
          · rw [hsp'] at h1; cases h1
          · exact h1
        rw [mergeAdjacent_arg_space t b r hsp' htne hb, ih']
        simp [List.filter_cons, hsp']

/-- full statement (FALSE for the code as it is): the arguments are exactly the pieces between unquoted whitespace -/
def SplitsExactlyAtUnquotedWs : Prop := ∀ s : Str, argTokens s = refSplit s

/-- **lexer_splits_at_unquoted_ws (partial).** For every line in which no two argument tokens touch, the arguments
    of the command line are split exactly at unquoted whitespace. -/
theorem lexer_splits_at_unquoted_ws_partial (s : Str) (h : noAdjacent (lex s) = true) : argTokens s = refSplit s := by
  rw [← lexer_merge_splits_at_unquoted_ws, merge_of_noAdjacent (lex s) (lexM_tokens_ne s .none) h]
  rfl

/-- `x foo"bar baz"` -/
def adjLine : Str := [120, 32, 102, 111, 111, 34, 98, 97, 114, 32, 98, 97, 122, 34]

/-- F-C45c: `x foo"bar baz"` is lexed into `x`, `foo`, `"bar baz"` although only one unquoted blank separates pieces -/
theorem lexer_splits_at_unquoted_ws_counterexample : ¬ SplitsExactlyAtUnquotedWs := by
  intro h
  have := h adjLine
  revert this
  decide

example : noAdjacent (lex [120, 32, 34, 98, 32, 99, 34, 32, 39, 100]) = true ∧
    argTokens [120, 32, 34, 98, 32, 99, 34, 32, 39, 100] = [[120], [34, 98, 32, 99, 34], [39, 100]] := by decide

/-! ### arguments arrive unchanged -/

/-- a command name as it is typed: non-empty, no quote characters, no whitespace -/
def bareWord (w : Str) : Prop := w ≠ [] ∧ w.all (fun c => !special c) = true

/-- the guard of the partial theorem: what the quoting rule can carry for this kind of parameter -/
def argOk : ArgTy → Str → Bool
  | .verbatim, a => !(a.contains 34 && a.contains 39)     -- not both quote characters (F-C45a)
  | .str, a => !a.contains 92                              -- no backslash (F-C45b)

/-- the two shapes `quote` produces -/
private def IsTok (t : Str) : Prop :=
  (t ≠ [] ∧ t.all (fun c => !special c) = true) ∨
  (∃ q body, isQuote q = true ∧ t = q :: (body ++ [q]) ∧ body.all (fun c => c != q) = true)

private theorem quote_not_ws (q : Nat) (h : isQuote q = true) : isWs q = false := by
  simp only [isQuote, Bool.or_eq_true, beq_iff_eq] at h
  rcases h with h | h <;> simp [h, isWs]

private theorem lexM_bare_run (w rest : Str) (hw : w.all (fun c => !special c) = true) :
    lexM .bare (w ++ rest) = (w ++ (lexM .bare rest).1, (lexM .bare rest).2) := by
  induction w with
  | nil => simp
  | cons c w ih =>
    simp only [List.all_cons, Bool.and_eq_true] at hw
    simp only [List.cons_append, lexM, hw.1, if_true, ih hw.2]

private theorem lexM_bare_stop (rest : Str) (h : rest = [] ∨ ∃ r, rest = 32 :: r) :
    lexM .bare rest = ([], lex rest) := by
  rcases h with h | ⟨r, h⟩
  · subst h; simp [lexM, lex]
  · subst h
    have : special 32 = true := by decide
    simp [lexM, lex, this]

private theorem lexM_quoted_run (q : Nat) (body rest : Str) (hb : body.all (fun c => c != q) = true) :
    lexM (.quoted q) (body ++ q :: rest) = (body ++ [q], lex rest) := by
  induction body with
  | nil => simp [lexM, lex]
  | cons c b ih =>
    simp only [List.all_cons, Bool.and_eq_true] at hb
    have hc : (c == q) = false := by simpa using hb.1
    simp only [List.cons_append, lexM, hc, Bool.false_eq_true, if_false, ih hb.2]

private theorem lex_tok (t rest : Str) (ht : IsTok t) (hr : rest = [] ∨ ∃ r, rest = 32 :: r) :
    lex (t ++ rest) = t :: lex rest := by
  rcases ht with ⟨hne, hall⟩ | ⟨q, body, hq, rfl, hb⟩
  · cases t with
    | nil => exact absurd rfl hne
    | cons c w =>
      simp only [List.all_cons, Bool.and_eq_true] at hall
      have hs : special c = false := by simpa using hall.1
      have hm : modeOf c = .bare := by
        simp only [special, Bool.or_eq_false_iff] at hs
        simp [modeOf, hs.1, hs.2]
      simp only [lex, List.cons_append, lexM_none_eq, hm, lexM_bare_run w rest hall.2, lexM_bare_stop rest hr,
        List.append_nil]
  · have hm : modeOf q = .quoted q := by simp [modeOf, hq]
    have : (q :: (body ++ [q])) ++ rest = q :: (body ++ q :: rest) := by simp
    rw [this]
    simp only [lex, lexM_none_eq, hm, lexM_quoted_run q body rest hb]

private theorem tok_head (t : Str) (ht : IsTok t) : ∃ c r, t = c :: r ∧ isWs c = false := by
  rcases ht with ⟨hne, hall⟩ | ⟨q, body, hq, rfl, _⟩
  · cases t with
    | nil => exact absurd rfl hne
    | cons c w =>
      simp only [List.all_cons, Bool.and_eq_true] at hall
      have hs : special c = false := by simpa using hall.1
      simp only [special, Bool.or_eq_false_iff] at hs
      exact ⟨c, w, rfl, hs.2⟩
  · exact ⟨q, body ++ [q], rfl, quote_not_ws q hq⟩

private theorem lex_space (X : Str) (hx : ∃ c r, X = c :: r ∧ isWs c = false) : lex (32 :: X) = [32] :: lex X := by
  obtain ⟨c, r, rfl, hc⟩ := hx
  have hm : modeOf 32 = .ws := by decide
  simp only [lex, lexM_none_eq, hm]
  simp [lexM, hc]

private theorem tok_not_space (t : Str) (ht : IsTok t) : isSpaceTok t = false := by
  obtain ⟨c, r, rfl, hc⟩ := tok_head t ht
  exact spaceTok_cons_false c r hc

private theorem not_contains_all (a : Str) (q : Nat) (h : a.contains q = false) : a.all (fun c => c != q) = true := by
  induction a with
  | nil => rfl
  | cons c r ih =>
    simp only [List.contains_cons, Bool.or_eq_false_iff] at h
    simp only [List.all_cons, Bool.and_eq_true]
    refine ⟨?_, ih h.2⟩
    have : (q == c) = false := h.1
    simp only [bne_iff_ne, ne_eq]
    intro e; subst e; simp at this

/-- `"` ↦ `\x22` -/
private def escq (c : Nat) : Str := if c == 34 then [92, 120, 50, 50] else [c]

private theorem escq_no_dq (a : Str) : (a.flatMap escq).all (fun c => c != 34) = true := by
  induction a with
  | nil => rfl
  | cons c r ih =>
    simp only [List.flatMap_cons, List.all_append, Bool.and_eq_true]
    refine ⟨?_, ih⟩
    unfold escq
    by_cases hc : (c == 34) = true
    · simp [hc]
    · simp only [hc, Bool.false_eq_true, if_false, List.all_cons, List.all_nil, Bool.and_true]
      simpa using hc

private theorem quote_cases (a : Str) :
    (quote a = a ∧ a ≠ [] ∧ a.all (fun c => !special c) = true) ∨
    (a.contains 34 = false ∧ quote a = 34 :: (a ++ [34])) ∨
    (a.contains 34 = true ∧ a.contains 39 = false ∧ quote a = 39 :: (a ++ [39])) ∨
    (a.contains 34 = true ∧ a.contains 39 = true ∧ quote a = 34 :: (a.flatMap escq ++ [34])) := by
  unfold quote
  by_cases h1 : (!a.isEmpty && a.all (fun c => !special c)) = true
  · left
    simp only [h1, if_true, true_and]
    simp only [Bool.and_eq_true, Bool.not_eq_true', List.isEmpty_eq_false_iff] at h1
    exact h1
  · right
    simp only [h1, Bool.false_eq_true, if_false]
    by_cases h2 : a.contains 34 = true
    · right
      by_cases h3 : a.contains 39 = true
      · right
        refine ⟨h2, h3, ?_⟩
        simp only [h2, h3, Bool.not_true, Bool.false_eq_true, if_false]
        rfl
      · left
        have h3' : a.contains 39 = false := by simpa using h3
        refine ⟨h2, h3', ?_⟩
        simp only [h2, h3', Bool.not_true, Bool.not_false, Bool.false_eq_true, if_false, if_true]
    · left
      have h2' : a.contains 34 = false := by simpa using h2
      refine ⟨h2', ?_⟩
      simp only [h2', Bool.not_false, if_true]

private theorem quote_isTok (a : Str) : IsTok (quote a) := by
  rcases quote_cases a with ⟨h, hne, hall⟩ | ⟨h, hq⟩ | ⟨_, h, hq⟩ | ⟨_, _, hq⟩
  · rw [h]; exact Or.inl ⟨hne, hall⟩
  · rw [hq]; exact Or.inr ⟨34, a, by decide, rfl, not_contains_all a 34 h⟩
  · rw [hq]; exact Or.inr ⟨39, a, by decide, rfl, not_contains_all a 39 h⟩
  · rw [hq]; exact Or.inr ⟨34, a.flatMap escq, by decide, rfl, escq_no_dq a⟩

private theorem rest_shape (args : List Str) :
    args.flatMap (fun a => 32 :: quote a) = [] ∨ ∃ r, args.flatMap (fun a => 32 :: quote a) = 32 :: r := by
  cases args with
  | nil => exact Or.inl rfl
  | cons a r => exact Or.inr ⟨quote a ++ r.flatMap (fun a => 32 :: quote a), by simp⟩

private theorem lex_args (args : List Str) :
    lex (args.flatMap (fun a => 32 :: quote a)) = args.flatMap (fun a => [[32], quote a]) := by
  induction args with
  | nil => simp [lex, lexM]
  | cons a r ih =>
    simp only [List.flatMap_cons, List.cons_append]
    obtain ⟨c, w, hq, hc⟩ := tok_head (quote a) (quote_isTok a)
    rw [lex_space (quote a ++ r.flatMap (fun a => 32 :: quote a))
      ⟨c, w ++ r.flatMap (fun a => 32 :: quote a), by rw [hq]; rfl, hc⟩]
    rw [lex_tok (quote a) _ (quote_isTok a) (rest_shape r), ih]
    simp

private theorem argTokens_cmdline (cmd : Str) (args : List Str) (hc : bareWord cmd) :
    argTokens (cmdline cmd args) = cmd :: args.map quote := by
  unfold argTokens cmdline
  rw [lex_tok cmd _ (Or.inl hc) (rest_shape args), lex_args]
  have hcs : isSpaceTok cmd = false := tok_not_space cmd (Or.inl hc)
  simp only [List.filter_cons, hcs, Bool.not_false, if_true]
  congr 1
  induction args with
  | nil => rfl
  | cons a r ih =>
    have h32 : isSpaceTok [32] = true := by decide
    simp only [List.flatMap_cons, List.cons_append, List.nil_append, List.filter_cons, h32, Bool.not_true,
      Bool.false_eq_true, if_false, tok_not_space (quote a) (quote_isTok a), Bool.not_false, if_true, List.map_cons, ih]

private theorem unquote_bare (t : Str) (h : t.all (fun c => !special c) = true) : unquote t = t := by
  match t with
  | [] => rfl
  | [_] => rfl
  | a :: b :: r =>
    simp only [List.all_cons, Bool.and_eq_true] at h
    have hs : special a = false := by simpa using h.1
    simp only [special, Bool.or_eq_false_iff] at hs
    simp [unquote, hs.1]

private theorem unquote_quoted (q : Nat) (body : Str) (hq : isQuote q = true) : unquote (q :: (body ++ [q])) = body := by
  cases body with
  | nil => simp [unquote, hq]
  | cons b r =>
    simp only [List.cons_append, unquote, hq, Bool.true_and]
    have h1 : (b :: (r ++ [q])).getLast? = some q := by
      rw [← List.cons_append, List.getLast?_append]; simp
    have h2 : (b :: (r ++ [q])).dropLast = b :: r := by
      rw [← List.cons_append, List.dropLast_concat]
    simp [h1, h2]

private theorem strParseF_plain (db : UniDb) (s : Str) (h : s.contains 92 = false) :
    ∀ f, s.length ≤ f → strParseF db f s = some s := by
  induction s with
  | nil => intro f _; cases f <;> rfl
  | cons c r ih =>
    intro f hf
    simp only [List.contains_cons, Bool.or_eq_false_iff] at h
    cases f with
    | zero => simp at hf
    | succ f =>
      have hc : (c != 92) = true := by
        have : (92 == c) = false := h.1
        simp only [bne_iff_ne, ne_eq]; intro e; subst e; simp at this
      simp only [strParseF, hc, if_true, ih h.2 f (by simpa using hf), Option.map_some]

private theorem escape_x22 (db : UniDb) (rest : Str) : escape db (120 :: 50 :: 50 :: rest) = .ok 34 rest := by
  rfl

private theorem strParseF_escq (db : UniDb) (a : Str) (h : a.contains 92 = false) :
    ∀ f, (a.flatMap escq).length ≤ f → strParseF db f (a.flatMap escq) = some a := by
  induction a with
  | nil => intro f _; cases f <;> rfl
  | cons c r ih =>
    intro f hf
    simp only [List.contains_cons, Bool.or_eq_false_iff] at h
    have hc92 : (c != 92) = true := by
      have : (92 == c) = false := h.1
      simp only [bne_iff_ne, ne_eq]; intro e; subst e; simp at this
    simp only [List.flatMap_cons] at hf ⊢
    by_cases hc : (c == 34) = true
    · have hc' : c = 34 := by simpa using hc
      subst hc'
      have he : escq 34 = [92, 120, 50, 50] := by decide
      rw [he] at hf ⊢
      simp only [List.cons_append, List.nil_append, List.length_cons] at hf ⊢
      cases f with
      | zero => omega
      | succ f =>
        have h92 : ((92 : Nat) != 92) = false := by decide
        simp only [strParseF, h92, Bool.false_eq_true, if_false, escape_x22]
        rw [ih h.2 f (by omega)]
        rfl
    · have he : escq c = [c] := by simp [escq, hc]
      rw [he] at hf ⊢
      simp only [List.cons_append, List.nil_append, List.length_cons] at hf ⊢
      cases f with
      | zero => omega
      | succ f =>
        simp only [strParseF, hc92, if_true]
        rw [ih h.2 f (by omega)]
        rfl

/-- one argument: what the command receives for `quote a` is `a` -/
private theorem deliver_ok (db : UniDb) (ty : ArgTy) (a : Str) (h : argOk ty a = true) :
    parseArg db ty (unquote (quote a)) = some a := by
  rcases quote_cases a with ⟨hq, _, hall⟩ | ⟨_, hq⟩ | ⟨_, _, hq⟩ | ⟨h34, h39, hq⟩
  · rw [hq, unquote_bare a hall]
    cases ty with
    | verbatim => rfl
    | str =>
      have : a.contains 92 = false := by simpa [argOk] using h
      exact strParseF_plain db a this _ (Nat.le_refl _)
  · rw [hq, unquote_quoted 34 a (by decide)]
    cases ty with
    | verbatim => rfl
    | str =>
      have : a.contains 92 = false := by simpa [argOk] using h
      exact strParseF_plain db a this _ (Nat.le_refl _)
  · rw [hq, unquote_quoted 39 a (by decide)]
    cases ty with
    | verbatim => rfl
    | str =>
      have : a.contains 92 = false := by simpa [argOk] using h
      exact strParseF_plain db a this _ (Nat.le_refl _)
  · rw [hq, unquote_quoted 34 _ (by decide)]
    cases ty with
    | verbatim =>
      have : argOk .verbatim a = false := by simp only [argOk, h34, h39]; rfl
      rw [this] at h; cases h
    | str =>
      have : a.contains 92 = false := by simpa [argOk] using h
      exact strParseF_escq db a this _ (Nat.le_refl _)

private theorem collect_map (args : List Str) (f : Str → Option Str) (h : ∀ a ∈ args, f a = some a) :
    collect (args.map f) = some args := by
  induction args with
  | nil => rfl
  | cons a r ih =>
    simp only [List.map_cons, h a List.mem_cons_self, collect,
      ih (fun x hx => h x (List.mem_cons_of_mem _ hx)), Option.map_some]

/-- full statement (FALSE for the code as it is): every string, quoted and placed in a command line, arrives unchanged -/
def ArgsUnchanged : Prop :=
  ∀ (db : UniDb) (cmds : Str → Option ArgTy) (cmd : Str) (ty : ArgTy) (args : List Str),
    bareWord cmd → cmds cmd = some ty → execute db cmds (cmdline cmd args) = .call cmd args

/-- **arg_unchanged (partial).** For every name database, every registered command `cmd` with parameters of kind
    `ty`, and ANY number of argument strings (whitespace of every kind, quotes, unicode, empty strings) that satisfy
    the guard — verbatim parameters: not both quote characters; `str` parameters: no backslash — the command line
    `cmd quote(a₁) … quote(aₙ)` makes `execute` call `cmd` with exactly `a₁ … aₙ`. -/
theorem arg_unchanged_partial (db : UniDb) (cmds : Str → Option ArgTy) (cmd : Str) (ty : ArgTy) (args : List Str)
    (hc : bareWord cmd) (hcmd : cmds cmd = some ty) (hg : ∀ a ∈ args, argOk ty a = true) :
    execute db cmds (cmdline cmd args) = .call cmd args := by
  unfold execute
  rw [argTokens_cmdline cmd args hc]
  simp only [List.map_cons, unquote_bare cmd hc.2, hcmd, List.map_map]
  have := collect_map args (parseArg db ty ∘ unquote ∘ quote) (fun a ha => deliver_ok db ty a (hg a ha))
  rw [this]

private def noDb : UniDb := ⟨fun _ => none⟩

/-- F-C45b: the `str` argument `C:\new` arrives as `C:` + LF + `ew` -/
theorem arg_unchanged_counterexample_backslash : ¬ ArgsUnchanged := by
  intro h
  have := h noDb (fun _ => some .str) [116] .str [[67, 58, 92, 110, 101, 119]] ⟨by decide, by decide⟩ rfl
  revert this
  decide

/-- F-C45a: a verbatim argument holding both quote characters (`'"`) arrives as `'\x22` -/
theorem arg_unchanged_counterexample_both_quotes :
    ¬ (∀ (db : UniDb) (cmds : Str → Option ArgTy) (cmd : Str) (args : List Str),
        bareWord cmd → cmds cmd = some .verbatim → execute db cmds (cmdline cmd args) = .call cmd args) := by
  intro h
  have := h noDb (fun _ => some .verbatim) [116] [[39, 34]] ⟨by decide, by decide⟩ rfl
  revert this
  decide

/-- the guards are satisfiable by non-trivial arguments, and `str` with both quotes does go through -/
example : execute noDb (fun _ => some .str) (cmdline [116] [[97, 32, 39, 34, 9], [], [160]]) =
    .call [116] [[97, 32, 39, 34, 9], [], [160]] :=
  arg_unchanged_partial _ _ _ _ _ ⟨by decide, by decide⟩ rfl (by decide)

/-! ### the quoting rule alone -/

/-- `"` ↦ `\x22`, what `quote` does to a string holding both quote characters -/
def escDq (a : Str) : Str := a.flatMap fun c => if c == 34 then [92, 120, 50, 50] else [c]

/-- **unquote_quote.** For EVERY string that does not hold both quote characters (whitespace of any kind,
    backslashes, one kind of quote, empty, unicode): `unquote (quote a) = a`. -/
theorem unquote_quote (a : Str) (h : ¬ (a.contains 34 = true ∧ a.contains 39 = true)) : unquote (quote a) = a := by
  rcases quote_cases a with ⟨hq, _, hall⟩ | ⟨_, hq⟩ | ⟨_, _, hq⟩ | ⟨h34, h39, _⟩
  · rw [hq]; exact unquote_bare a hall
  · rw [hq]; exact unquote_quoted 34 a (by decide)
  · rw [hq]; exact unquote_quoted 39 a (by decide)
  · exact absurd ⟨h34, h39⟩ h

/-- with both quote characters (the guard of F-C45a) the double quotes come back as the text `\x22` -/
theorem unquote_quote_both (a : Str) (h34 : a.contains 34 = true) (h39 : a.contains 39 = true) :
    unquote (quote a) = escDq a := by
  rcases quote_cases a with ⟨_, _, hall⟩ | ⟨h, _⟩ | ⟨_, h, _⟩ | ⟨_, _, hq⟩
  · -- a bare word holds no quote character
    exfalso
    have hm : 34 ∈ a := by simpa using h34
    have := (List.all_eq_true.mp hall) 34 hm
    revert this; decide
  · rw [h] at h34; cases h34
  · rw [h] at h39; cases h39
  · rw [hq]; exact unquote_quoted 34 _ (by decide)

/-- **str_unescape_unquote_quote.** For EVERY backslash-free string (both quote characters allowed) the `str`
    conversion of the unquoted token gives the string back, with any Unicode name database. -/
theorem str_unescape_unquote_quote (db : UniDb) (a : Str) (h : a.contains 92 = false) :
    strParse db (unquote (quote a)) = some a :=
  deliver_ok db .str a (by simp only [argOk, h]; rfl)

/-! ### every command signature shape -/

private theorem collect_eq_some (l : List (Option Str)) (vs : List Str) : collect l = some vs ↔ l = vs.map some := by
  induction l generalizing vs with
  | nil => cases vs <;> simp [collect]
  | cons a r ih =>
    cases a with
    | none => cases vs <;> simp [collect]
    | some x =>
      cases vs with
      | nil => cases hc : collect r <;> simp [collect, hc]
      | cons v vs =>
        simp only [collect, List.map_cons, List.cons.injEq, Option.some.injEq]
        cases hc : collect r with
        | none =>
          simp only [Option.map_none]
          constructor
          · intro h; cases h
          · intro ⟨_, h2⟩; rw [(ih vs).mpr h2] at hc; cases hc
        | some w =>
          simp only [Option.map_some, Option.some.injEq, List.cons.injEq]
          constructor
          · intro ⟨h1, h2⟩; exact ⟨h1, (ih vs).mp (by rw [hc, h2])⟩
          · intro ⟨h1, h2⟩; rw [(ih vs).mpr h2] at hc; exact ⟨h1, (Option.some.inj hc).symm⟩

/-- `bind`: exactly one type per argument, the positional ones first, then the type of `*rest` -/
theorem bindTys_spec (sig : Sig) (n : Nat) (tys : List ArgTy) (h : bindTys sig n = some tys) :
    tys.length = n ∧ ∀ i, i < n → tys[i]? = tyAt sig i := by
  unfold bindTys at h
  split at h
  · cases h
  · rename_i hlt
    have hge : sig.params.length ≤ n := Nat.le_of_not_lt hlt
    cases hv : sig.varargs with
    | none =>
      simp only [hv] at h
      split at h
      · rename_i he
        have he' : n = sig.params.length := by simpa using he
        cases h
        refine ⟨he'.symm, ?_⟩
        intro i hi
        have : i < sig.params.length := he' ▸ hi
        simp [tyAt, List.getElem?_eq_getElem this]
      · cases h
    | some t =>
      simp only [hv, Option.some.injEq] at h
      subst h
      refine ⟨by simp; omega, ?_⟩
      intro i hi
      by_cases hp : i < sig.params.length
      · simp [tyAt, List.getElem?_append_left hp, List.getElem?_eq_getElem hp]
      · have hp' : sig.params.length ≤ i := Nat.le_of_not_lt hp
        have hnone : sig.params[i]? = none := List.getElem?_eq_none hp'
        simp only [tyAt, hnone, hv]
        rw [List.getElem?_append_right hp']
        simp [List.getElem?_replicate]
        omega

/-- **execute_delivers_typed_tokens.** For EVERY line, name database, command table and signature shape (fixed
    parameters of mixed types, `*rest`, none): if `execute` runs a command, then the line has a first argument token
    whose unquoted text is the command name, the signature binds as many types as there are further argument tokens
    (the positional types, then the `*rest` type), and the values handed to the command are — position by position —
    exactly the typed conversions of the unquoted tokens. Nothing else reaches the command. -/
theorem execute_delivers_typed_tokens (db : UniDb) (cmds : Str → Option Sig) (line name : Str) (vals : List Str)
    (h : executeSig db cmds line = .call name vals) :
    ∃ tok toks sig tys, argTokens line = tok :: toks ∧ name = unquote tok ∧ cmds name = some sig ∧
      bindTys sig toks.length = some tys ∧ vals.length = toks.length ∧
      List.zipWith (parseArg db) tys (toks.map unquote) = vals.map some ∧
      ∀ i, i < toks.length → tys[i]? = tyAt sig i := by
  unfold executeSig at h
  cases ht : argTokens line with
  | nil => simp [ht] at h
  | cons tok toks =>
    simp only [ht, List.map_cons] at h
    cases hc : cmds (unquote tok) with
    | none => simp [hc] at h
    | some sig =>
      simp only [hc, List.length_map] at h
      cases hb : bindTys sig toks.length with
      | none => simp [hb] at h
      | some tys =>
        simp only [hb] at h
        cases hcol : collect (List.zipWith (parseArg db) tys (toks.map unquote)) with
        | none => simp [hcol] at h
        | some as =>
          simp only [hcol, Exec.call.injEq] at h
          obtain ⟨hn, hv⟩ := h
          subst hv
          have hz := (collect_eq_some _ _).mp hcol
          have hspec := bindTys_spec sig toks.length tys hb
          refine ⟨tok, toks, sig, tys, rfl, hn.symm, hn ▸ hc, hb, ?_, hz, hspec.2⟩
          have := congrArg List.length hz
          simp only [List.length_zipWith, List.length_map, hspec.1, Nat.min_self] at this
          exact this.symm

/-- the varargs-only commands of the theorems above are one signature shape among these -/
theorem executeSig_varargs (db : UniDb) (cmds : Str → Option ArgTy) (line : Str) :
    executeSig db (fun n => (cmds n).map fun t => ⟨[], some t⟩) line = execute db cmds line := by
  unfold executeSig execute
  cases (argTokens line).map unquote with
  | nil => rfl
  | cons name args =>
    simp only
    cases cmds name with
    | none => rfl
    | some ty =>
      simp only [Option.map_some, bindTys, List.length_nil, Nat.not_lt_zero, if_false, List.nil_append, Nat.sub_zero]
      have : List.zipWith (parseArg db) (List.replicate args.length ty) args = args.map (parseArg db ty) := by
        induction args with
        | nil => rfl
        | cons a r ih => simp [List.replicate_succ, ih]
      rw [this]

/-- every argument satisfies the guard of the parameter type it meets -/
def argsOk : List ArgTy → List Str → Bool
  | [], [] => true
  | t :: ts, a :: as => argOk t a && argsOk ts as
  | _, _ => false

private theorem collect_zipWith (db : UniDb) : ∀ (tys : List ArgTy) (args : List Str), argsOk tys args = true →
    collect (List.zipWith (parseArg db) tys (args.map (unquote ∘ quote))) = some args := by
  intro tys
  induction tys with
  | nil => intro args h; cases args with
    | nil => rfl
    | cons a r => simp [argsOk] at h
  | cons t ts ih =>
    intro args h
    cases args with
    | nil => simp [argsOk] at h
    | cons a r =>
      simp only [argsOk, Bool.and_eq_true] at h
      simp only [List.map_cons, List.zipWith_cons_cons, Function.comp, deliver_ok db t a h.1, collect]
      rw [ih r h.2]; rfl

/-- **arg_unchanged_sig (partial).** `arg_unchanged_partial` for every signature shape: if the command binds the
    arguments with types `tys` and every argument satisfies the guard of ITS parameter's type (verbatim: not both
    quote characters; `str`: no backslash), the command is called with exactly the given arguments. -/
theorem arg_unchanged_sig_partial (db : UniDb) (cmds : Str → Option Sig) (cmd : Str) (sig : Sig) (tys : List ArgTy)
    (args : List Str) (hc : bareWord cmd) (hcmd : cmds cmd = some sig) (hb : bindTys sig args.length = some tys)
    (hg : argsOk tys args = true) :
    executeSig db cmds (cmdline cmd args) = .call cmd args := by
  unfold executeSig
  rw [argTokens_cmdline cmd args hc]
  simp only [List.map_cons, unquote_bare cmd hc.2, hcmd, List.map_map, List.length_map, hb]
  rw [collect_zipWith db tys args hg]

/-- a call that does not bind is refused before anything is converted, whatever the arguments are -/
theorem arity_mismatch_runs_nothing (db : UniDb) (cmds : Str → Option Sig) (cmd : Str) (sig : Sig) (args : List Str)
    (hc : bareWord cmd) (hcmd : cmds cmd = some sig) (hb : bindTys sig args.length = none) :
    executeSig db cmds (cmdline cmd args) = .arity := by
  unfold executeSig
  rw [argTokens_cmdline cmd args hc]
  simp only [List.map_cons, unquote_bare cmd hc.2, hcmd, List.map_map, List.length_map, hb]

example : executeSig noDb (fun _ => some ⟨[.str, .verbatim], none⟩) (cmdline [116] [[39, 34, 32], [92, 110]]) =
    .call [116] [[39, 34, 32], [92, 110]] :=
  arg_unchanged_sig_partial _ _ _ ⟨[.str, .verbatim], none⟩ [.str, .verbatim] _ ⟨by decide, by decide⟩ rfl rfl
    (by decide)
example : executeSig noDb (fun _ => some ⟨[.str], none⟩) (cmdline [116] [[97], [98]]) = .arity := by decide

/-- **execute_is_a_function_of_the_parse.** `execute(line)` is `executeToks` of the lexer's token list: the command
    receives what the parse of THIS line says, whatever was parsed, completed or executed before (the model has no
    state; the parse cache of the code must behave like none). -/
theorem execute_is_a_function_of_the_parse (db : UniDb) (cmds : Str → Option Sig) (line : Str) :
    executeSig db cmds line = executeToks db cmds (lex line) := rfl

/-! ### every convertible parameter type: int, bool, path beside str and verbatim -/

def liftTy : ArgTy → ArgTyT
  | .str => .str
  | .verbatim => .verbatim

def liftSig (sig : Sig) : SigT := ⟨sig.params.map liftTy, sig.varargs.map liftTy⟩

def liftExec : Exec → ExecT
  | .arity => .arity
  | .noCommand => .noCommand
  | .unknown => .unknown
  | .badArg => .badArg
  | .call n as => .call n (as.map TVal.s)

private theorem parseArgT_lift (db : UniDb) (env : Env) (t : ArgTy) (a : Str) :
    parseArgT db env (liftTy t) a = (parseArg db t a).map TVal.s := by
  cases t <;> rfl

private theorem collectT_lift (db : UniDb) (env : Env) : ∀ (tys : List ArgTy) (args : List Str),
    collectT (List.zipWith (parseArgT db env) (tys.map liftTy) args) =
      (collect (List.zipWith (parseArg db) tys args)).map (List.map TVal.s) := by
  intro tys
  induction tys with
  | nil => intro args; rfl
  | cons t ts ih =>
    intro args
    cases args with
    | nil => rfl
    | cons a r =>
      simp only [List.map_cons, List.zipWith_cons_cons, parseArgT_lift]
      cases hp : parseArg db t a with
      | none => rfl
      | some v =>
        simp only [Option.map_some, collectT, collect, ih r]
        cases collect (List.zipWith (parseArg db) ts r) <;> rfl

private theorem bindTysT_lift (sig : Sig) (n : Nat) :
    bindTysT (liftSig sig) n = (bindTys sig n).map (List.map liftTy) := by
  unfold bindTysT bindTys liftSig
  simp only [List.length_map]
  split
  · rfl
  · cases sig.varargs with
    | none => simp only [Option.map_none]; split <;> rfl
    | some t => simp [List.map_append, List.map_replicate]

/-- **typed_execute_extends_execute.** The execution model with all convertible parameter types coincides with the
    one of the theorems above on every command table that uses `str` / verbatim parameters only: every earlier
    theorem about `executeSig` is a theorem about what the driver runs. -/
theorem typed_execute_extends_execute (db : UniDb) (env : Env) (cmds : Str → Option Sig) (line : Str) :
    executeT db env (fun n => (cmds n).map liftSig) line = liftExec (executeSig db cmds line) := by
  unfold executeT executeSig
  cases (argTokens line).map unquote with
  | nil => rfl
  | cons name args =>
    simp only
    cases cmds name with
    | none => rfl
    | some sig =>
      simp only [Option.map_some, bindTysT_lift]
      cases bindTys sig args.length with
      | none => rfl
      | some tys =>
        simp only [Option.map_some, collectT_lift]
        cases collect (List.zipWith (parseArg db) tys args) <;> rfl

private theorem collectT_eq_some (l : List (Option TVal)) (vs : List TVal) : collectT l = some vs ↔ l = vs.map some := by
  induction l generalizing vs with
  | nil => cases vs <;> simp [collectT]
  | cons a r ih =>
    cases a with
    | none => cases vs <;> simp [collectT]
    | some x =>
      cases vs with
      | nil => cases hc : collectT r <;> simp [collectT, hc]
      | cons v vs =>
        simp only [collectT, List.map_cons, List.cons.injEq, Option.some.injEq]
        cases hc : collectT r with
        | none =>
          simp only [Option.map_none]
          constructor
          · intro h; cases h
          · intro ⟨_, h2⟩; rw [(ih vs).mpr h2] at hc; cases hc
        | some w =>
          simp only [Option.map_some, Option.some.injEq, List.cons.injEq]
          constructor
          · intro ⟨h1, h2⟩; exact ⟨h1, (ih vs).mp (by rw [hc, h2])⟩
          · intro ⟨h1, h2⟩; rw [(ih vs).mpr h2] at hc; exact ⟨h1, (Option.some.inj hc).symm⟩

/-- **execute_delivers_typed_values.** For EVERY line, environment, command table and signature over ALL convertible
    parameter types (str, verbatim, int, bool, path): if a command is run, the values handed to it are — position by
    position — exactly the typed conversions (`int()`, true/false, `expanduser`, escape interpretation, identity) of the
    unquoted argument tokens of the line, one per token. -/
theorem execute_delivers_typed_values (db : UniDb) (env : Env) (cmds : Str → Option SigT) (line name : Str)
    (vals : List TVal) (h : executeT db env cmds line = .call name vals) :
    ∃ tok toks sig tys, argTokens line = tok :: toks ∧ name = unquote tok ∧ cmds name = some sig ∧
      bindTysT sig toks.length = some tys ∧ vals.length = toks.length ∧ tys.length = toks.length ∧
      List.zipWith (parseArgT db env) tys (toks.map unquote) = vals.map some := by
  unfold executeT at h
  cases ht : argTokens line with
  | nil => simp [ht] at h
  | cons tok toks =>
    simp only [ht, List.map_cons] at h
    cases hc : cmds (unquote tok) with
    | none => simp [hc] at h
    | some sig =>
      simp only [hc, List.length_map] at h
      cases hb : bindTysT sig toks.length with
      | none => simp [hb] at h
      | some tys =>
        simp only [hb] at h
        cases hcol : collectT (List.zipWith (parseArgT db env) tys (toks.map unquote)) with
        | none => simp [hcol] at h
        | some as =>
          simp only [hcol, ExecT.call.injEq] at h
          obtain ⟨hn, hv⟩ := h
          subst hv
          have hz := (collectT_eq_some _ _).mp hcol
          have hlen : tys.length = toks.length := by
            unfold bindTysT at hb
            split at hb
            · cases hb
            · rename_i hlt
              cases hv : sig.varargs with
              | none =>
                simp only [hv] at hb
                split at hb
                · rename_i he; cases hb; exact (by simpa using he : toks.length = sig.params.length).symm
                · cases hb
              | some t => simp only [hv, Option.some.injEq] at hb; subst hb; simp; omega
          refine ⟨tok, toks, sig, tys, rfl, hn.symm, hn ▸ hc, hb, ?_, hlen, hz⟩
          have := congrArg List.length hz
          simp only [List.length_zipWith, List.length_map, hlen, Nat.min_self] at this
          exact this.symm

/-- a bool parameter receives True for `true`, False for `false`, and the command is refused for anything else -/
theorem bool_arg_exact (db : UniDb) (env : Env) (s : Str) :
    parseArgT db env .bool s =
      (if s = strTrueC then some (.b true) else if s = strFalseC then some (.b false) else none) := rfl

/-- an int parameter receives Python's `int()` of the text (the transcription shared with the option parser) -/
theorem int_arg_is_python_int (db : UniDb) (env : Env) (s : Str) :
    parseArgT db env .int s = (MitmVerif.C44.pyInt s).map TVal.i := rfl

/-- a path parameter receives every text that does not start with `~` unchanged -/
theorem path_arg_unchanged_without_tilde (db : UniDb) (env : Env) (s : Str) (h : s.head? ≠ some 126) :
    parseArgT db env .path s = some (.s s) := by
  cases s with
  | nil => rfl
  | cons c r =>
    have hc : c ≠ 126 := by intro e; apply h; simp [e]
    simp only [parseArgT, expandUser]
    split
    · rename_i heq; cases heq; exact absurd rfl hc
    · rfl

/-- `~` and `~/rest` are replaced by `$HOME` without its trailing slashes -/
theorem path_arg_home (db : UniDb) (env : Env) (h : Str) (rest : Str) (hh : env.home = some h)
    (hne : rstripSlash h ≠ []) :
    parseArgT db env .path (126 :: 47 :: rest) = some (.s (rstripSlash h ++ 47 :: rest)) := by
  have hx : (rstripSlash h ++ 47 :: rest).isEmpty = false := by
    cases hr : rstripSlash h with
    | nil => exact absurd hr hne
    | cons a b => rfl
  simp [parseArgT, expandUser, spanNot, hh, hx]

/-- **path_arg_roundtrip.** A Path-typed parameter receives `a` for `quote a` whenever `a` neither starts with `~`
    nor holds both quote characters. -/
theorem path_arg_roundtrip (db : UniDb) (env : Env) (a : Str) (h1 : a.head? ≠ some 126)
    (h2 : ¬ (a.contains 34 = true ∧ a.contains 39 = true)) :
    parseArgT db env .path (unquote (quote a)) = some (.s a) := by
  rw [unquote_quote a h2]; exact path_arg_unchanged_without_tilde db env a h1

example : parseArgT noDb ⟨some [47, 104, 47], fun _ => none⟩ .path [126, 47, 120] = some (.s [47, 104, 47, 120]) := by decide
example : parseArgT noDb ⟨none, fun n => if n = [114] then some [47, 114] else none⟩ .path [126, 114, 47, 97] = some (.s [47, 114, 47, 97]) ∧
    parseArgT noDb ⟨none, fun _ => none⟩ .path [126, 120] = some (.s [126, 120]) ∧
    parseArgT noDb ⟨none, fun _ => none⟩ .path [126, 0] = none := by decide
example : executeT noDb ⟨none, fun _ => none⟩ (fun _ => some ⟨[.int, .bool, .path], none⟩)
    [116, 32, 34, 32, 49, 95, 48, 34, 32, 116, 114, 117, 101, 32, 120] = .call [116] [.i 10, .b true, .s [120]] := by decide

private theorem spanNot_eq_spanNotSlash (r : Str) : spanNot 47 r = MitmVerif.C44.spanNotSlash r := by
  induction r with
  | nil => rfl
  | cons c t ih => simp only [spanNot, MitmVerif.C44.spanNotSlash, ih]

/-- the command-argument `expanduser` and the one used for config-file paths (C44) are the same transcription -/
theorem expandUser_agrees_with_optmanager (env : Env) (p : Str) :
    expandUser env p = MitmVerif.C44.expandUserP env.home env.pwHome p := by
  cases p with
  | nil => rfl
  | cons c r =>
    by_cases hc : c = 126
    · subst hc
      simp only [expandUser, MitmVerif.C44.expandUserP, spanNot_eq_spanNotSlash, rstripSlash, MitmVerif.C44.rstripSlashP]
      rfl
    · unfold expandUser MitmVerif.C44.expandUserP
      split
      · rename_i heq; cases heq; exact absurd rfl hc
      · split
        · rename_i heq; cases heq; exact absurd rfl hc
        · rfl

/-! ### the remaining manager-free conversions and parameter defaults -/

/-- a `Sequence[str]` parameter receives the comma-separated pieces, each stripped of surrounding whitespace -/
theorem str_seq_arg (db : UniDb) (env : Env) (s : Str) :
    parseArgT db env .strSeq s = some (.l ((splitComma s).map pyStrip)) := rfl

/-- a cut specification receives the comma-separated pieces as they are -/
theorem cut_spec_arg (db : UniDb) (env : Env) (s : Str) :
    parseArgT db env .cutSpec s = some (.l (splitComma s)) := rfl

/-- a marker: `true` ↦ `:default:`, `false` ↦ the empty marker, an emoji name ↦ itself, anything else is refused -/
theorem marker_arg_exact (db : UniDb) (env : Env) (s : Str) :
    parseArgT db env .marker s =
      (if s = strTrueC then some (.s markerDefault) else if s = strFalseC then some (.s [])
       else if MitmVerif.Gen.C45.emojiNames.contains s then some (.s s) else none) := rfl

/-- a Choice parameter receives the text unchanged exactly when it is one of the options its command offers -/
theorem choice_arg_exact (db : UniDb) (env : Env) (opts : List Str) (s : Str) :
    parseArgT db env (.choice opts) s = (if opts.contains s then some (.s s) else none) := rfl

private theorem splitComma_ne (s : Str) : splitComma s ≠ [] := by
  cases s with
  | nil => simp [splitComma]
  | cons c r =>
    simp only [splitComma]
    split
    · simp
    · split <;> simp

/-- splitting loses nothing: the pieces joined by commas are the text -/
theorem split_comma_join (s : Str) : ((splitComma s).intersperse [44]).flatten = s := by
  induction s with
  | nil => rfl
  | cons c r ih =>
    simp only [splitComma]
    split
    · rename_i hc
      have : c = 44 := by simpa using hc
      subst this
      cases hs : splitComma r with
      | nil => exact absurd hs (splitComma_ne r)
      | cons h t => simp [hs] at ih ⊢; exact ih
    · cases hs : splitComma r with
      | nil => exact absurd hs (splitComma_ne r)
      | cons h t =>
        simp only [hs] at ih ⊢
        cases t with
        | nil => simp at ih ⊢; exact ih
        | cons h2 t2 => simp at ih ⊢; exact ih

def dropDefaults (sig : SigD) : SigT := ⟨sig.params, sig.varargs⟩

/-- **execute_without_defaults.** For command tables without default values the execution model with defaults is
    the typed model of the theorems above. -/
theorem execute_without_defaults (db : UniDb) (env : Env) (cmds : Str → Option SigT) (line : Str) :
    executeD db env (fun n => (cmds n).map fun s => ⟨s.params, [], s.varargs⟩) line = executeT db env cmds line := by
  unfold executeD executeT
  cases (argTokens line).map unquote with
  | nil => rfl
  | cons name args =>
    simp only
    cases cmds name with
    | none => rfl
    | some sig =>
      simp only [Option.map_some]
      have hb : bindD ⟨sig.params, [], sig.varargs⟩ args.length = (bindTysT sig args.length).map fun t => (t, []) := by
        unfold bindD bindTysT
        simp only [List.length_nil, Nat.add_zero, Nat.zero_sub, List.drop_zero]
        by_cases h1 : args.length < sig.params.length
        · simp [h1]
        · simp only [h1, if_false]
          by_cases h2 : args.length ≤ sig.params.length
          · have he : args.length = sig.params.length := by omega
            simp only [h2, if_true, he, List.take_length]
            cases sig.varargs with
            | none => simp
            | some t => simp
          · simp only [h2, if_false]
            have hne : ¬ (args.length == sig.params.length) = true := by simp; omega
            cases sig.varargs with
            | none => simp [hne]
            | some t => simp
      rw [hb]
      cases bindTysT sig args.length with
      | none => rfl
      | some tys =>
        simp only [Option.map_some]
        cases collectT (List.zipWith (parseArgT db env) tys args) with
        | none => rfl
        | some as => simp

/-- **defaults_fill_exactly_the_missing.** When fewer arguments are given than there are positional parameters, the
    given ones are converted with the first types and exactly the LAST missing-many default values are appended:
    the command is always called with one value per positional parameter. -/
theorem defaults_fill_exactly_the_missing (sig : SigD) (n : Nat) (tys : List ArgTyT) (dflts : List TVal)
    (hd : sig.defaults.length ≤ sig.params.length) (hn : n ≤ sig.params.length) (h : bindD sig n = some (tys, dflts)) :
    tys = sig.params.take n ∧ dflts = sig.defaults.drop (sig.defaults.length - (sig.params.length - n)) ∧
    tys.length + dflts.length = sig.params.length := by
  unfold bindD at h
  simp only at h
  split at h
  · cases h
  · rename_i h1
    simp only [hn, if_true, Option.some.injEq, Prod.mk.injEq] at h
    obtain ⟨rfl, rfl⟩ := h
    refine ⟨rfl, rfl, ?_⟩
    simp only [List.length_take, List.length_drop]
    omega

/-- **execute_with_defaults_delivers.** For every line, environment and signature with default values: what the
    command receives is the typed conversions of the unquoted argument tokens, one per token and in order, followed by
    the default values `bind` supplies for the parameters no token was given for — and nothing else. -/
theorem execute_with_defaults_delivers (db : UniDb) (env : Env) (cmds : Str → Option SigD) (line name : Str)
    (vals : List TVal) (h : executeD db env cmds line = .call name vals) :
    ∃ tok toks sig tys dflts conv, argTokens line = tok :: toks ∧ name = unquote tok ∧ cmds name = some sig ∧
      bindD sig toks.length = some (tys, dflts) ∧ vals = conv ++ dflts ∧
      List.zipWith (parseArgT db env) tys (toks.map unquote) = conv.map some := by
  unfold executeD at h
  cases ht : argTokens line with
  | nil => simp [ht] at h
  | cons tok toks =>
    simp only [ht, List.map_cons] at h
    cases hc : cmds (unquote tok) with
    | none => simp [hc] at h
    | some sig =>
      simp only [hc, List.length_map] at h
      cases hb : bindD sig toks.length with
      | none => simp [hb] at h
      | some td =>
        obtain ⟨tys, dflts⟩ := td
        simp only [hb] at h
        cases hcol : collectT (List.zipWith (parseArgT db env) tys (toks.map unquote)) with
        | none => simp [hcol] at h
        | some as =>
          simp only [hcol, ExecT.call.injEq] at h
          obtain ⟨hn, hv⟩ := h
          exact ⟨tok, toks, sig, tys, dflts, as, rfl, hn.symm, hn ▸ hc, hb, hv.symm, (collectT_eq_some _ _).mp hcol⟩

example : executeD noDb ⟨none, fun _ => none⟩ (fun _ => some ⟨[.str, .str, .int], [.s [100], .i 7], none⟩) [116, 32, 120] =
    .call [116] [.s [120], .s [100], .i 7] := by decide
example : executeD noDb ⟨none, fun _ => none⟩ (fun _ => some ⟨[.str, .str, .int], [.s [100], .i 7], none⟩) [116] = .arity := by decide
example : parseArgT noDb ⟨none, fun _ => none⟩ .strSeq [32, 97, 32, 44, 160, 98, 9] = some (.l [[97], [98]]) := by decide
example : parseArgT noDb ⟨none, fun _ => none⟩ (.choice [[97], [98, 32, 99]]) [98, 32, 99] = some (.s [98, 32, 99]) ∧
    parseArgT noDb ⟨none, fun _ => none⟩ (.choice [[97]]) [65] = none := by decide

end MitmVerif.Props.C45

/-! ### round-6 cross-audit: non-vacuity witnesses on non-trivial values (appended by the auditor, examples only) -/
namespace MitmVerif.Props.C45
open MitmVerif.C45

/-- `unquote_quote` on TAB, backslash, single quote, é, blank, € -/
example : unquote (quote [9, 92, 39, 233, 32, 8364]) = [9, 92, 39, 233, 32, 8364] :=
  unquote_quote _ (by decide)

/-- `unquote_quote_both` on `'"\ é`: the text comes back with `\x22` for the double quote, i.e. NOT unchanged -/
example : unquote (quote [39, 34, 92, 32, 233]) = escDq [39, 34, 92, 32, 233] ∧
    unquote (quote [39, 34, 92, 32, 233]) ≠ [39, 34, 92, 32, 233] :=
  ⟨unquote_quote_both _ (by decide) (by decide), by decide⟩

/-- `str_unescape_unquote_quote` with both quote characters, a blank, é and a TAB -/
example : strParse noDb (unquote (quote [39, 34, 32, 233, 9])) = some [39, 34, 32, 233, 9] :=
  str_unescape_unquote_quote noDb _ (by decide)

/-- `arg_unchanged_partial` for verbatim parameters: three arguments — backslash-n, blank, quote, é, TAB / `"\` / empty -/
example : execute noDb (fun _ => some .verbatim) (cmdline [116] [[92, 110, 32, 39, 233, 9], [34, 92], []]) =
    .call [116] [[92, 110, 32, 39, 233, 9], [34, 92], []] :=
  arg_unchanged_partial _ _ _ _ _ ⟨by decide, by decide⟩ rfl (by decide)

/-- the `str` guard of `arg_unchanged_partial` (no backslash) is wider than the class that fails (F-C45b): `\q` is
    excluded by the guard although it arrives unchanged -/
example : argOk .str [92, 113] = false ∧
    execute noDb (fun _ => some .str) (cmdline [116] [[92, 113]]) = .call [116] [[92, 113]] := by decide

/-- hypothesis of `execute_delivers_typed_tokens`: the raw line `t "a b" 'c' d\x41` on `(verbatim, *rest : str)` -/
example : executeSig noDb (fun _ => some ⟨[.verbatim], some .str⟩)
    [116, 32, 34, 97, 32, 98, 34, 32, 39, 99, 39, 32, 100, 92, 120, 52, 49] =
    .call [116] [[97, 32, 98], [99], [100, 65]] := by decide

/-- hypothesis of `bindTys_spec` with positional parameters and `*rest` -/
example : bindTys ⟨[.str, .verbatim], some .str⟩ 4 = some [.str, .verbatim, .str, .str] := by decide

/-- `arity_mismatch_runs_nothing` with three awkward arguments for a one-parameter command -/
example : executeSig noDb (fun _ => some ⟨[.str], none⟩) (cmdline [116] [[97, 32], [39, 34], [233]]) = .arity :=
  arity_mismatch_runs_nothing _ _ _ ⟨[.str], none⟩ _ ⟨by decide, by decide⟩ rfl (by decide)

/-- `lexer_splits_at_unquoted_ws_partial` applied: `x "b c" 'd` (an unterminated quote at the end) -/
example : argTokens [120, 32, 34, 98, 32, 99, 34, 32, 39, 100] = refSplit [120, 32, 34, 98, 32, 99, 34, 32, 39, 100] :=
  lexer_splits_at_unquoted_ws_partial _ (by decide)

/-- `path_arg_roundtrip` on `/ 'é` -/
example : parseArgT noDb ⟨none, fun _ => none⟩ .path (unquote (quote [47, 32, 39, 233])) = some (.s [47, 32, 39, 233]) :=
  path_arg_roundtrip _ _ _ (by decide) (by decide)

/-- hypotheses of `defaults_fill_exactly_the_missing`: one of three parameters given, two defaults -/
example : bindD ⟨[.str, .str, .int], [.s [100], .i 7], none⟩ 1 = some ([.str], [.s [100], .i 7]) := by decide

/-! ### round-6 owner fixes -/

/-! #### (1) the theorems above reach the function the driver executes on ITS command table -/

/-- the command name a line looks up: the unquoted first argument token -/
def lookedUp (line : Str) : Option Str := ((argTokens line).map unquote).head?

/-- execution consults the command table at ONE name only -/
theorem executeD_depends_on_looked_up_name (db : UniDb) (env : Env) (c1 c2 : Str → Option SigD) (line : Str)
    (h : ∀ n, lookedUp line = some n → c1 n = c2 n) : executeD db env c1 line = executeD db env c2 line := by
  unfold executeD
  cases hl : (argTokens line).map unquote with
  | nil => rfl
  | cons name args =>
    have := h name (by simp [lookedUp, hl])
    simp only [this]

/-- a str / verbatim signature without defaults, in the driver's vocabulary -/
def plainOf (s : Sig) : SigD := ⟨s.params.map liftTy, [], s.varargs.map liftTy⟩

/-- **executeD_on_plain_entry.** Pointwise bridge: whenever the entry the line looks up in a `SigD` table is the plain
    image of the entry in a `Sig` table (str / verbatim parameters, no defaults) — whatever the tables contain elsewhere —
    `executeD` on the one is `executeSig` on the other. -/
theorem executeD_on_plain_entry (db : UniDb) (env : Env) (cD : Str → Option SigD) (cS : Str → Option Sig) (line : Str)
    (h : ∀ n, lookedUp line = some n → cD n = (cS n).map plainOf) :
    executeD db env cD line = liftExec (executeSig db cS line) := by
  rw [executeD_depends_on_looked_up_name db env cD (fun n => ((cS n).map liftSig).map fun s => ⟨s.params, [], s.varargs⟩) line
    (by intro n hn; rw [h n hn]; cases cS n <;> rfl)]
  rw [execute_without_defaults db env (fun n => (cS n).map liftSig) line]
  exact typed_execute_extends_execute db env cS line

/-- on the six str / verbatim test commands (and on every unregistered name) the driver's table is the plain image of
    `harnessSigs` -/
theorem harness_table_plain (n : Str) (h : (harnessSigs n).isSome = true ∨ harnessCmds n = none) :
    harnessCmds n = (harnessSigs n).map plainOf := by
  by_cases h1 : n = ascii "t.s"
  · subst h1; rfl
  by_cases h2 : n = ascii "t.v"
  · subst h2; rfl
  by_cases h3 : n = ascii "t.one"
  · subst h3; rfl
  by_cases h4 : n = ascii "t.two"
  · subst h4; rfl
  by_cases h5 : n = ascii "t.mix"
  · subst h5; rfl
  by_cases h6 : n = ascii "t.none"
  · subst h6; rfl
  have hs : harnessSigs n = none := by simp only [harnessSigs, h1, h2, h3, h4, h5, h6, if_false]
  rw [hs] at h ⊢
  rcases h with h | h
  · cases h
  · exact h

/-- **driver_executes_executeSig.** What the driver computes (`executeD db env harnessCmds`) IS `executeSig` of the
    theorems above, for every line whose command is one of t.s, t.v, t.one, t.two, t.mix, t.none or is not registered. -/
theorem driver_executes_executeSig (db : UniDb) (env : Env) (line : Str)
    (h : ∀ n, lookedUp line = some n → (harnessSigs n).isSome = true ∨ harnessCmds n = none) :
    executeD db env harnessCmds line = liftExec (executeSig db harnessSigs line) :=
  executeD_on_plain_entry db env harnessCmds harnessSigs line (fun n hn => harness_table_plain n (h n hn))

private theorem lookedUp_cmdline (cmd : Str) (args : List Str) (hc : bareWord cmd) :
    lookedUp (cmdline cmd args) = some cmd := by
  simp [lookedUp, argTokens_cmdline cmd args hc, unquote_bare cmd hc.2]

/-- **arg_unchanged_on_driver_table (partial).** `arg_unchanged_sig_partial` for the function and the table the driver
    runs against mitmproxy: for each of the str / verbatim test commands, the quoted arguments arrive unchanged (as `str`
    values) under the per-parameter guard. -/
theorem arg_unchanged_on_driver_table (db : UniDb) (env : Env) (cmd : Str) (sig : Sig) (tys : List ArgTy) (args : List Str)
    (hc : bareWord cmd) (hcmd : harnessSigs cmd = some sig) (hb : bindTys sig args.length = some tys)
    (hg : argsOk tys args = true) :
    executeD db env harnessCmds (cmdline cmd args) = .call cmd (args.map TVal.s) := by
  rw [driver_executes_executeSig db env _ (by
    intro n hn
    rw [lookedUp_cmdline cmd args hc] at hn
    cases hn; left; simp [hcmd])]
  rw [arg_unchanged_sig_partial db harnessSigs cmd sig tys args hc hcmd hb hg]
  rfl

example : executeD noDb ⟨none, fun _ => none⟩ harnessCmds (cmdline (ascii "t.two") [[39, 34, 32], [92, 110]]) =
    .call (ascii "t.two") [.s [39, 34, 32], .s [92, 110]] :=
  arg_unchanged_on_driver_table _ _ _ ⟨[.str, .verbatim], none⟩ [.str, .verbatim] _ ⟨by decide, by decide⟩ rfl rfl (by decide)

/-! #### (3) the exact guard for `str` parameters -/

/-- the text a `str` parameter has to interpret for `quote a` -/
def quotedText (a : Str) : Str := if a.contains 34 && a.contains 39 then escDq a else a

/-- exact guard: verbatim — not both quote characters; `str` — the escape-by-escape reading of the quoted text is `a`
    (`\q`, a trailing `\`, `\x4` pass; `\n`, `\x41`, `\N{…}` do not) -/
def argOkX (db : UniDb) : ArgTy → Str → Bool
  | .verbatim, a => !(a.contains 34 && a.contains 39)
  | .str, a => strParse db (quotedText a) == some a

private theorem unquote_quote_text (a : Str) : unquote (quote a) = quotedText a := by
  unfold quotedText
  by_cases h : a.contains 34 = true ∧ a.contains 39 = true
  · simp only [h.1, h.2, Bool.and_self, if_true]; exact unquote_quote_both a h.1 h.2
  · have : (a.contains 34 && a.contains 39) = false := by
      cases h34 : a.contains 34 <;> cases h39 : a.contains 39 <;> simp_all
    simp only [this, Bool.false_eq_true, if_false]; exact unquote_quote a h

private theorem escDq_cons (c : Nat) (r : Str) :
    escDq (c :: r) = (if c == 34 then [92, 120, 50, 50] else [c]) ++ escDq r := by
  simp only [escDq, List.flatMap_cons]

private theorem escDq_length_le (a : Str) : a.length ≤ (escDq a).length := by
  induction a with
  | nil => exact Nat.le_refl _
  | cons c r ih =>
    rw [escDq_cons, List.length_append, List.length_cons]
    split
    · simp only [List.length_cons, List.length_nil]; omega
    · simp only [List.length_cons, List.length_nil]; omega

private theorem escDq_length_lt (a : Str) (h : a.contains 34 = true) : a.length < (escDq a).length := by
  induction a with
  | nil => simp at h
  | cons c r ih =>
    have hle := escDq_length_le r
    rw [escDq_cons, List.length_append, List.length_cons]
    by_cases hc : (c == 34) = true
    · simp only [hc, if_true, List.length_cons, List.length_nil]; omega
    · simp only [hc, Bool.false_eq_true, if_false, List.length_cons, List.length_nil]
      have hr : r.contains 34 = true := by
        simp only [List.contains_cons, Bool.or_eq_true] at h
        rcases h with h | h
        · have : c = 34 := by
            have := h; simp only [beq_iff_eq] at this; exact this.symm
          exact absurd (by simp [this]) hc
        · exact h
      have := ih hr
      omega

/-- **deliver_iff.** For every string and both kinds of parameter: the command receives `a` for `quote a` EXACTLY when
    the guard holds — the guard excludes the defect classes F-C45a / F-C45b and nothing else. -/
theorem deliver_iff (db : UniDb) (ty : ArgTy) (a : Str) :
    parseArg db ty (unquote (quote a)) = some a ↔ argOkX db ty a = true := by
  rw [unquote_quote_text]
  cases ty with
  | str => simp only [parseArg, argOkX, beq_iff_eq]
  | verbatim =>
    simp only [parseArg, argOkX, Option.some.injEq, quotedText]
    cases hb : (a.contains 34 && a.contains 39) with
    | true =>
      simp only [if_true, Bool.not_true, Bool.false_eq_true, iff_false]
      intro e
      have h34 : a.contains 34 = true := by simp only [Bool.and_eq_true] at hb; exact hb.1
      have := escDq_length_lt a h34
      rw [e] at this; omega
    | false => simp

/-- the guard of `arg_unchanged_partial` implies the exact one (it is strictly narrower: it refuses `\q`) -/
theorem argOk_implies_argOkX (db : UniDb) (ty : ArgTy) (a : Str) (h : argOk ty a = true) : argOkX db ty a = true :=
  (deliver_iff db ty a).mp (deliver_ok db ty a h)

/-- **arg_unchanged_exact (partial).** `arg_unchanged_partial` under the exact guard. -/
theorem arg_unchanged_exact_partial (db : UniDb) (cmds : Str → Option ArgTy) (cmd : Str) (ty : ArgTy) (args : List Str)
    (hc : bareWord cmd) (hcmd : cmds cmd = some ty) (hg : ∀ a ∈ args, argOkX db ty a = true) :
    execute db cmds (cmdline cmd args) = .call cmd args := by
  unfold execute
  rw [argTokens_cmdline cmd args hc]
  simp only [List.map_cons, unquote_bare cmd hc.2, hcmd, List.map_map]
  have := collect_map args (parseArg db ty ∘ unquote ∘ quote) (fun a ha => (deliver_iff db ty a).mpr (hg a ha))
  rw [this]

/-- **arg_unchanged_exact_iff.** For ONE argument the guard is exact: the command is called with `a` if and only if the
    guard holds. -/
theorem arg_unchanged_exact_iff (db : UniDb) (cmds : Str → Option ArgTy) (cmd : Str) (ty : ArgTy) (a : Str)
    (hc : bareWord cmd) (hcmd : cmds cmd = some ty) :
    execute db cmds (cmdline cmd [a]) = .call cmd [a] ↔ argOkX db ty a = true := by
  constructor
  · intro h
    unfold execute at h
    rw [argTokens_cmdline cmd [a] hc] at h
    simp only [List.map_cons, List.map_nil, unquote_bare cmd hc.2, hcmd] at h
    apply (deliver_iff db ty a).mp
    cases hp : parseArg db ty (unquote (quote a)) with
    | none => simp [hp, collect] at h
    | some b =>
      simp only [hp, collect, Option.map_some, Exec.call.injEq, List.cons.injEq, and_true, true_and] at h
      rw [h]
  · intro h
    exact arg_unchanged_exact_partial db cmds cmd ty [a] hc hcmd (by intro x hx; simp at hx; subst hx; exact h)

-- `\q`, a trailing backslash and `\x4` are inside the exact guard (and outside the old one); `\n` is outside both
example : argOkX noDb .str [92, 113] = true ∧ argOk .str [92, 113] = false ∧ argOkX noDb .str [116, 92] = true ∧
    argOkX noDb .str [92, 120, 52] = true ∧ argOkX noDb .str [92, 110] = false ∧
    argOkX noDb .str [39, 34, 233] = true ∧ argOkX noDb .verbatim [39, 34] = false := by decide

/-! #### (5) the fuel of `strParse` is adequate: `none` always means a refused escape, never exhausted fuel -/

private theorem takeDots_len : ∀ (n : Nat) (r ds rest : Str), takeDots n r = some (ds, rest) → rest.length ≤ r.length := by
  intro n
  induction n with
  | zero => intro r ds rest h; simp only [takeDots, Option.some.injEq, Prod.mk.injEq] at h; rw [← h.2]; exact Nat.le_refl _
  | succ n ih =>
    intro r ds rest h
    cases r with
    | nil => simp [takeDots] at h
    | cons c t =>
      simp only [takeDots] at h
      split at h
      · cases h
      · cases ht : takeDots n t with
        | none => simp [ht] at h
        | some x =>
          obtain ⟨d, rs⟩ := x
          simp only [ht, Option.map_some, Option.some.injEq, Prod.mk.injEq] at h
          have := ih t d rs ht
          rw [← h.2]; simp only [List.length_cons]; omega

private theorem spanNot_len (stop : Nat) (r : Str) : (spanNot stop r).2.length ≤ r.length := by
  induction r with
  | nil => exact Nat.le_refl _
  | cons c t ih =>
    simp only [spanNot]
    split
    · exact Nat.le_refl _
    · simp only [List.length_cons]; omega

private theorem spanNot_snd_len (stop : Nat) (r a b : Str) (h : spanNot stop r = (a, b)) : b.length ≤ r.length := by
  have := spanNot_len stop r
  rw [h] at this; exact this

private theorem escape_rest_le (db : UniDb) (r : Str) (v : Nat) (rest : Str) (h : escape db r = .ok v rest) :
    rest.length ≤ r.length := by
  cases r with
  | nil => simp [escape] at h
  | cons c t =>
    simp only [escape] at h
    repeat' split at h
    all_goals first
      | (cases h <;> done)
      | (cases h; simp only [List.length_cons]; omega)
      | (cases h; have := takeDots_len _ _ _ _ (by assumption); simp only [List.length_cons] at *; omega)
      | (cases h
         rename_i hsp
         have := spanNot_snd_len _ _ _ _ hsp
         simp only [List.length_cons] at *; omega)

/-- fuel is irrelevant once it covers the text: the result of `strParseF` is the same for every sufficient fuel -/
private theorem strParseF_fuel (db : UniDb) : ∀ (f : Nat) (s : Str) (g : Nat), s.length ≤ f → s.length ≤ g →
    strParseF db f s = strParseF db g s := by
  intro f
  induction f with
  | zero =>
    intro s g hf _
    have : s = [] := by cases s with | nil => rfl | cons _ _ => simp at hf
    subst this
    cases g <;> rfl
  | succ f ih =>
    intro s g hf hg
    cases s with
    | nil => cases g <;> rfl
    | cons c r =>
      cases g with
      | zero => simp at hg
      | succ g =>
        have hf' : r.length ≤ f := by simpa using hf
        have hg' : r.length ≤ g := by simpa using hg
        simp only [strParseF]
        split
        · rw [ih r g hf' hg']
        · cases he : escape db r with
          | noMatch => simp only; rw [ih r g hf' hg']
          | bad => rfl
          | ok v rest =>
            have hl := escape_rest_le db r v rest he
            simp only
            rw [ih rest g (by omega) (by omega)]

/-- **str_parse_fuel_adequate.** `strParse` (fuel = the length of the text) never fails for lack of fuel: more fuel gives
    the same answer, so `none` always means that `unicode-escape` refused an escape sequence. -/
theorem str_parse_fuel_adequate (db : UniDb) (s : Str) (f : Nat) (h : s.length ≤ f) :
    strParseF db f s = strParse db s :=
  strParseF_fuel db f s s.length h (Nat.le_refl _)

/-! #### (6) a console-built line lies in the good class of the splitting theorem -/

private theorem noAdjacent_alternating (args : List Str) : ∀ x : Str,
    noAdjacent (x :: args.flatMap (fun a => [[32], quote a])) = true := by
  induction args with
  | nil => intro x; rfl
  | cons a r ih =>
    intro x
    have h32 : isSpaceTok [32] = true := by decide
    simp only [List.flatMap_cons, List.cons_append, List.nil_append, noAdjacent, h32, Bool.or_true, Bool.true_or,
      Bool.true_and]
    exact ih (quote a)

/-- **cmdline_splits_at_unquoted_ws.** The two halves of the statement meet: for every command word and ANY arguments,
    the line the console builds has no touching argument tokens, so its arguments are exactly the pieces between
    unquoted whitespace — the command and the quoted arguments. -/
theorem cmdline_splits_at_unquoted_ws (cmd : Str) (args : List Str) (hc : bareWord cmd) :
    noAdjacent (lex (cmdline cmd args)) = true ∧
    refSplit (cmdline cmd args) = cmd :: args.map quote := by
  have hl : lex (cmdline cmd args) = cmd :: args.flatMap (fun a => [[32], quote a]) := by
    unfold cmdline
    rw [lex_tok cmd _ (Or.inl hc) (rest_shape args), lex_args]
  have hn : noAdjacent (lex (cmdline cmd args)) = true := by rw [hl]; exact noAdjacent_alternating args cmd
  exact ⟨hn, by rw [← lexer_splits_at_unquoted_ws_partial _ hn, argTokens_cmdline cmd args hc]⟩

end MitmVerif.Props.C45
