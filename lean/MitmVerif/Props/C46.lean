/-
  C46 — property theorems over the regenerated route table `Gen.C46.webRoutes`.
  * `all_methods_wrapped`                     : every implemented method of every `app.handlers` row is wrapped by `_require_auth`
  * `no_credential_403_and_handler_not_run`   : without a valid password/token/cookie no handler body runs, on any route, for
                                                any method, XSRF state and Sec-Fetch-Site value; for an implemented method that
                                                passes the XSRF / cross-site gates the answer is exactly the 403 of `_require_auth`
  * `state_changing_requires_xsrf`            : a non-safe method without a matching XSRF token never reaches a handler
  * `cross_site_refused`                      : a non-safe method marked cross-site (any Sec-Fetch-Site other than
                                                same-origin/none) never reaches a handler, even with valid credentials
  * `websocket_requires_auth`, `no_pre_auth_hooks`, `non_app_routes_are_static` : shape of the table
-/
import MitmVerif.Model.C46
import MitmVerif.Gen.C46
namespace MitmVerif.Props.C46
open MitmVerif.C46 MitmVerif.Gen.C46

private theorem auth_noCred (q : Req) (hq : q.noCredential = true) :
    authDecision q = .s403auth ∨ (q.token = .undecodable ∧ authDecision q = .s400token) := by
  obtain ⟨m, c, b, t, s, x⟩ := q
  cases c <;> cases b <;> cases t <;> simp [Req.noCredential, authDecision] at hq ⊢

private theorem serve_noCred (r : Route) (hw : ∀ m ∈ r.methods, m ∈ r.wrapped) (q : Req)
    (hq : q.noCredential = true) : (serve r q).handlerRan = false := by
  unfold serve
  split; · rfl
  split; · rfl
  split; · rfl
  split; · rfl
  rename_i h4
  have hm : q.method ∈ r.methods := by simpa using h4
  have : r.wrapped.contains q.method = true := by simpa using hw _ hm
  simp only [this, if_true]
  rcases auth_noCred q hq with h | ⟨_, h⟩ <;> simp [h, Outcome.handlerRan]

private theorem serve_noCred_exact (r : Route) (hw : ∀ m ∈ r.methods, m ∈ r.wrapped) (q : Req)
    (hq : q.noCredential = true) (hm : q.method ∈ r.methods) (ho : q.method ≠ .other)
    (hgate : q.method.safe = true ∨ (q.xsrfOk = true ∧ q.sfs ≠ .other)) (ht : q.token ≠ .undecodable) :
    serve r q = .s403auth := by
  have ha : authDecision q = .s403auth := by
    rcases auth_noCred q hq with h | ⟨h, _⟩
    · exact h
    · exact absurd h ht
  rcases hgate with hs | ⟨hx, hsf⟩
  · simp [serve, ho, hs, hm, hw _ hm, ha]
  · simp [serve, ho, hx, hsf, hm, hw _ hm, ha]

/-- every implemented method of every mitmweb handler is wrapped by the authentication requirement -/
theorem all_methods_wrapped : ∀ r ∈ webRoutes, r.appRoute = true → ∀ m ∈ r.methods, m ∈ r.wrapped := by
  decide +kernel

/-- **no credential ⇒ refused, handler not run** — for every route of the table, every method (supported or not), every
    Sec-Fetch-Site value and XSRF state. -/
theorem no_credential_403_and_handler_not_run :
    ∀ r ∈ webRoutes, r.appRoute = true → ∀ q : Req, q.noCredential = true →
      (serve r q).handlerRan = false := by
  intro r hr ha q hq
  exact serve_noCred r (all_methods_wrapped r hr ha) q hq

/-- … and where the method is implemented and the XSRF / cross-site gates are passed (always for GET/HEAD/OPTIONS), the
    answer is exactly the 403 of the authentication wrapper -/
theorem no_credential_is_403 :
    ∀ r ∈ webRoutes, r.appRoute = true → ∀ q : Req, q.noCredential = true → q.method ∈ r.methods → q.method ≠ .other →
      (q.method.safe = true ∨ (q.xsrfOk = true ∧ q.sfs ≠ .other)) → q.token ≠ .undecodable →
      serve r q = .s403auth := by
  intro r hr ha q hq hm ho hg ht
  exact serve_noCred_exact r (all_methods_wrapped r hr ha) q hq hm ho hg ht

/-- a state-changing (non-safe) request without a valid XSRF token never reaches a handler, whatever its credentials -/
theorem state_changing_requires_xsrf (r : Route) (q : Req) (hm : q.method.safe = false) (hx : q.xsrfOk = false) :
    (serve r q).handlerRan = false ∧ (q.method ≠ .other → serve r q = .s403xsrf) := by
  unfold serve
  by_cases ho : q.method = .other
  · simp [ho, Outcome.handlerRan]
  · simp [ho, hm, hx, Outcome.handlerRan]

private theorem sfs_table : ∀ r ∈ webRoutes, r.appRoute = true →
    r.sfsCheck = true ∨ ∀ m ∈ r.methods, m.safe = true := by decide +kernel

/-- a state-changing request that the browser marks as cross-site is refused on every mitmweb route, valid credentials
    and XSRF token notwithstanding -/
theorem cross_site_refused : ∀ r ∈ webRoutes, r.appRoute = true → ∀ q : Req,
    q.method.safe = false → q.sfs = .other → (serve r q).handlerRan = false := by
  intro r hr ha q hm hs
  unfold serve
  split; · rfl
  split; · rfl
  rcases sfs_table r hr ha with h | h
  · simp [h, hm, hs, Outcome.handlerRan]
  · split; · rfl
    split; · rfl
    rename_i h4
    have hmem : q.method ∈ r.methods := by simpa using h4
    have := h _ hmem
    simp [hm] at this

/-- the live-update WebSocket is a GET-only route whose GET is wrapped -/
theorem websocket_requires_auth : ∀ r ∈ webRoutes, r.isWs = true →
    r.methods = [.GET] ∧ .GET ∈ r.wrapped ∧ r.appRoute = true := by decide +kernel

/-- there is at least one WebSocket route in the table (the theorem above is not vacuous) -/
theorem websocket_route_exists : webRoutes.any (fun r => r.isWs) = true := by decide +kernel

/-- no mitmweb handler class overrides a tornado hook that runs before the wrapped method -/
theorem no_pre_auth_hooks : ∀ r ∈ webRoutes, r.appRoute = true → r.preHooks = [] := by decide +kernel

/-- the only rows outside `app.handlers` are tornado's static-file routes (GET/HEAD of bundled assets) -/
theorem non_app_routes_are_static : ∀ r ∈ webRoutes, r.appRoute = false →
    r.handler = "tornado.web.StaticFileHandler" ∧ (∀ m ∈ r.methods, m = .GET ∨ m = .HEAD) ∧
    (r.pattern = "/static/(.*)$" ∨ r.pattern = "/(favicon\\.ico)$" ∨ r.pattern = "/(robots\\.txt)$") := by
  decide +kernel

/-! non-vacuity: valid credentials do reach the handler; the model is not constant -/
example : ∀ r ∈ webRoutes, ∀ m ∈ r.methods,
    (serve r ⟨m, true, .absent, .absent, .sameOrigin, true⟩).handlerRan = true := by decide +kernel
example : authDecision ⟨.GET, false, .absent, .valid, .absent, false⟩ = .run true := by decide
example : authDecision ⟨.GET, false, .invalid, .valid, .absent, false⟩ = .s403auth := by decide
example : (⟨.GET, false, .invalid, .absent, .absent, false⟩ : Req).noCredential = true := by decide

end MitmVerif.Props.C46
