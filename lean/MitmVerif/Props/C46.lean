/-
  C46 — property theorems over the regenerated route table `Gen.C46.webRoutes`.
  * `all_methods_wrapped`                     : every implemented method of every `app.handlers` row is wrapped by `_require_auth`
  * `no_credential_403_and_handler_not_run`   : without a valid password/token/cookie no handler body runs, on any route, for
                                                any method, XSRF state and Sec-Fetch-Site value; for an implemented method that
                                                passes the XSRF / cross-site gates the answer is exactly the 403 of `_require_auth`
  * `state_changing_requires_xsrf`            : a non-safe method without a matching XSRF token never reaches a handler
  * `cross_site_refused`                      : a non-safe method marked cross-site (any Sec-Fetch-Site other than
                                                same-origin/none) never reaches a handler, even with valid credentials
  * `websocket_requires_auth`, `no_pre_auth_hooks`, `non_app_routes_are_static` : shape of the table
-/
import MitmVerif.Model.C46
import MitmVerif.Gen.C46
namespace MitmVerif.Props.C46
open MitmVerif.C46 MitmVerif.Gen.C46

private theorem auth_noCred (q : Req) (hq : q.noCredential = true) :
    authDecision q = .s403auth ∨ (q.token = .undecodable ∧ authDecision q = .s400token) := by
  obtain ⟨m, c, b, t, s, x⟩ := q
  cases c <;> cases b <;> cases t <;> simp [Req.noCredential, authDecision] at hq ⊢

private theorem serve_noCred (r : Route) (hw : ∀ m ∈ r.methods, m ∈ r.wrapped) (q : Req)
    (hq : q.noCredential = true) : (serve r q).handlerRan = false := by
  unfold serve
  split; · rfl
  split; · rfl
  split; · rfl
  split; · rfl
  rename_i h4
  have hm : q.method ∈ r.methods := by simpa using h4
  have : r.wrapped.contains q.method = true := by simpa using hw _ hm
  simp only [this, if_true]
  rcases auth_noCred q hq with h | ⟨_, h⟩ <;> simp [h, Outcome.handlerRan]

private theorem serve_noCred_exact (r : Route) (hw : ∀ m ∈ r.methods, m ∈ r.wrapped) (q : Req)
    (hq : q.noCredential = true) (hm : q.method ∈ r.methods) (ho : q.method ≠ .other)
    (hgate : q.method.safe = true ∨ (q.xsrfOk = true ∧ q.sfs ≠ .other)) (ht : q.token ≠ .undecodable) :
    serve r q = .s403auth := by
  have ha : authDecision q = .s403auth := by
    rcases auth_noCred q hq with h | ⟨h, _⟩
    · exact h
    · exact absurd h ht
  rcases hgate with hs | ⟨hx, hsf⟩
  · simp [serve, ho, hs, hm, hw _ hm, ha]
  · simp [serve, ho, hx, hsf, hm, hw _ hm, ha]

/-- every implemented method of every mitmweb handler is wrapped by the authentication requirement -/
theorem all_methods_wrapped : ∀ r ∈ webRoutes, r.appRoute = true → ∀ m ∈ r.methods, m ∈ r.wrapped := by
  decide +kernel

/-- **no credential ⇒ refused, handler not run** — for every route of the table, every method (supported or not), every
    Sec-Fetch-Site value and XSRF state. -/
theorem no_credential_403_and_handler_not_run :
    ∀ r ∈ webRoutes, r.appRoute = true → ∀ q : Req, q.noCredential = true →
      (serve r q).handlerRan = false := by
  intro r hr ha q hq
  exact serve_noCred r (all_methods_wrapped r hr ha) q hq

/-- … and where the method is implemented and the XSRF / cross-site gates are passed (always for GET/HEAD/OPTIONS), the
    answer is exactly the 403 of the authentication wrapper -/
theorem no_credential_is_403 :
    ∀ r ∈ webRoutes, r.appRoute = true → ∀ q : Req, q.noCredential = true → q.method ∈ r.methods → q.method ≠ .other →
      (q.method.safe = true ∨ (q.xsrfOk = true ∧ q.sfs ≠ .other)) → q.token ≠ .undecodable →
      serve r q = .s403auth := by
  intro r hr ha q hq hm ho hg ht
  exact serve_noCred_exact r (all_methods_wrapped r hr ha) q hq hm ho hg ht

/-- a state-changing (non-safe) request without a valid XSRF token never reaches a handler, whatever its credentials -/
theorem state_changing_requires_xsrf (r : Route) (q : Req) (hm : q.method.safe = false) (hx : q.xsrfOk = false) :
    (serve r q).handlerRan = false ∧ (q.method ≠ .other → serve r q = .s403xsrf) := by
  unfold serve
  by_cases ho : q.method = .other
  · simp [ho, Outcome.handlerRan]
  · simp [ho, hm, hx, Outcome.handlerRan]

private theorem sfs_table : ∀ r ∈ webRoutes, r.appRoute = true →
    r.sfsCheck = true ∨ ∀ m ∈ r.methods, m.safe = true := by decide +kernel

/-- a state-changing request that the browser marks as cross-site is refused on every mitmweb route, valid credentials
    and XSRF token notwithstanding -/
theorem cross_site_refused : ∀ r ∈ webRoutes, r.appRoute = true → ∀ q : Req,
    q.method.safe = false → q.sfs = .other → (serve r q).handlerRan = false := by
  intro r hr ha q hm hs
  unfold serve
  split; · rfl
  split; · rfl
  rcases sfs_table r hr ha with h | h
  · simp [h, hm, hs, Outcome.handlerRan]
  · split; · rfl
    split; · rfl
    rename_i h4
    have hmem : q.method ∈ r.methods := by simpa using h4
    have := h _ hmem
    simp [hm] at this

/-- the live-update WebSocket is a GET-only route whose GET is wrapped -/
theorem websocket_requires_auth : ∀ r ∈ webRoutes, r.isWs = true →
    r.methods = [.GET] ∧ .GET ∈ r.wrapped ∧ r.appRoute = true := by decide +kernel

/-- there is at least one WebSocket route in the table (the theorem above is not vacuous) -/
theorem websocket_route_exists : webRoutes.any (fun r => r.isWs) = true := by decide +kernel

/-- no mitmweb handler class overrides a tornado hook that runs before the wrapped method -/
theorem no_pre_auth_hooks : ∀ r ∈ webRoutes, r.appRoute = true → r.preHooks = [] := by decide +kernel

/-- the only rows outside `app.handlers` are tornado's static-file routes (GET/HEAD of bundled assets) -/
theorem non_app_routes_are_static : ∀ r ∈ webRoutes, r.appRoute = false →
    r.handler = "tornado.web.StaticFileHandler" ∧ (∀ m ∈ r.methods, m = .GET ∨ m = .HEAD) ∧
    (r.pattern = "/static/(.*)$" ∨ r.pattern = "/(favicon\\.ico)$" ∨ r.pattern = "/(robots\\.txt)$") := by
  decide +kernel

/-! non-vacuity: valid credentials do reach the handler; the model is not constant -/
example : ∀ r ∈ webRoutes, ∀ m ∈ r.methods,
    (serve r ⟨m, true, .absent, .absent, .sameOrigin, true⟩).handlerRan = true := by decide +kernel
example : authDecision ⟨.GET, false, .absent, .valid, .absent, false⟩ = .run true := by decide
example : authDecision ⟨.GET, false, .invalid, .valid, .absent, false⟩ = .s403auth := by decide
example : (⟨.GET, false, .invalid, .absent, .absent, false⟩ : Req).noCredential = true := by decide


/-! ## the credential checks as code, over histories of password changes and requests -/

private theorem authC_run (verify : Str → Str → Bool) (σ : Str) (ck : Bool) (q : RawReq)
    (h : (authC verify σ ck q).handlerRan = true) : ck = true ∨ carriesValidPassword verify σ q = true := by
  unfold authC at h
  by_cases hc : ck = true
  · exact Or.inl hc
  · right
    simp only [hc] at h
    unfold carriesValidPassword
    cases he : extractPassword q with
    | none => simp [he, Outcome.handlerRan] at h
    | some pw =>
      simp only [he] at h ⊢
      by_cases hv : isValidPassword verify σ pw = true
      · exact hv
      · simp [hv, Outcome.handlerRan] at h

private theorem serveC_run (verify : Str → Str → Bool) (r : Route) (hw : ∀ m ∈ r.methods, m ∈ r.wrapped)
    (σ : Str) (ck : Bool) (q : RawReq) (h : (serveC verify r σ ck q).handlerRan = true) :
    ck = true ∨ carriesValidPassword verify σ q = true := by
  unfold serveC at h
  split at h; · simp [Outcome.handlerRan] at h
  split at h; · simp [Outcome.handlerRan] at h
  split at h; · simp [Outcome.handlerRan] at h
  split at h; · simp [Outcome.handlerRan] at h
  rename_i h4
  have hm : q.method ∈ r.methods := by simpa using h4
  have : r.wrapped.contains q.method = true := by simpa using hw _ hm
  simp only [this, if_true] at h
  exact authC_run verify σ ck q h

private theorem serveC_setcookie (verify : Str → Str → Bool) (r : Route) (σ : Str) (ck : Bool) (q : RawReq)
    (h : serveC verify r σ ck q = .run true) : carriesValidPassword verify σ q = true := by
  unfold serveC at h
  split at h; · cases h
  split at h; · cases h
  split at h; · cases h
  split at h; · cases h
  split at h
  · unfold authC at h
    split at h; · cases h
    unfold carriesValidPassword
    cases he : extractPassword q with
    | none => simp [he] at h
    | some pw =>
      simp only [he] at h ⊢
      by_cases hv : isValidPassword verify σ pw = true
      · exact hv
      · simp [hv] at h
  · cases h

/-- **no handler body without a credential — every route, method, header text, whatever argon2 says, in any world**:
    on every mitmweb route the handler body runs only if the request presents a session cookie this Application issued
    or the password extracted from its `Authorization` / `token` is accepted by the password configuration in force. -/
theorem handler_needs_credential (verify : Str → Str → Bool) :
    ∀ r ∈ webRoutes, r.appRoute = true → ∀ (w : World) (q : RawReq),
      (serveC verify r w.password (w.cookieOk q) q).handlerRan = true →
      w.cookieOk q = true ∨ carriesValidPassword verify w.password q = true := by
  intro r hr ha w q h
  exact serveC_run verify r (all_methods_wrapped r hr ha) w.password _ q h

/-- **session cookies trace back to a password**: after any history of password changes and requests, every session
    cookie that exists was either there at the start or was issued to a request of the history that carried a password
    valid under the configuration in force at that moment. -/
theorem issued_cookie_provenance (verify : Str → Str → Bool) (hashOk : Str → Bool) :
    ∀ (evs : List Ev) (w0 : World) (c : Nat), c ∈ (runW verify hashOk w0 evs).issued →
      c ∈ w0.issued ∨ ∃ pre r q post, evs = pre ++ Ev.req r q c :: post ∧
        carriesValidPassword verify (runW verify hashOk w0 pre).password q = true := by
  intro evs
  induction evs with
  | nil => intro w0 c h; exact Or.inl h
  | cons e es ih =>
    intro w0 c h
    simp only [runW] at h
    rcases ih _ c h with h1 | ⟨pre, r, q, post, he, hv⟩
    · cases e with
      | setPw v fresh => exact Or.inl (by simpa [stepW] using h1)
      | req r q newId =>
        simp only [stepW] at h1
        by_cases ho : serveC verify r w0.password (w0.cookieOk q) q = .run true
        · simp only [ho, if_true, List.mem_cons] at h1
          rcases h1 with h1 | h1
          · subst h1
            exact Or.inr ⟨[], r, q, es, rfl, by simpa [runW] using serveC_setcookie verify r _ _ q ho⟩
          · exact Or.inl h1
        · simp only [ho, if_false] at h1
          exact Or.inl h1
    · exact Or.inr ⟨e :: pre, r, q, post, by simp [he], by simpa [runW] using hv⟩

/-- **over rotation histories**: start with no session cookie issued; after any history, a request on a mitmweb route
    reaches its handler only if it carries the password of the configuration in force *now*, or a cookie that an
    earlier request of this very history obtained with the password in force *then*. -/
theorem hist_no_credential_no_handler (verify : Str → Str → Bool) (hashOk : Str → Bool) (p0 : Str) :
    ∀ r ∈ webRoutes, r.appRoute = true → ∀ (evs : List Ev) (q : RawReq),
      let w := runW verify hashOk ⟨p0, []⟩ evs
      (serveC verify r w.password (w.cookieOk q) q).handlerRan = true →
      carriesValidPassword verify w.password q = true ∨
      ∃ c pre r' q' post, q.cookie = some c ∧ evs = pre ++ Ev.req r' q' c :: post ∧
        carriesValidPassword verify (runW verify hashOk ⟨p0, []⟩ pre).password q' = true := by
  intro r hr ha evs q w h
  rcases handler_needs_credential verify r hr ha w q h with hck | hpw
  · right
    unfold World.cookieOk at hck
    cases hc : q.cookie with
    | none => simp [hc] at hck
    | some c =>
      simp only [hc] at hck
      have hmem : c ∈ w.issued := by simpa using hck
      rcases issued_cookie_provenance verify hashOk evs ⟨p0, []⟩ c hmem with h0 | ⟨pre, r', q', post, he, hv⟩
      · simp at h0
      · exact ⟨c, pre, r', q', post, rfl, he, hv⟩
  · exact Or.inl hpw

/-- **a rotated plaintext password is revoked at once**: after `web_password` is set to a non-empty plaintext `v`, a
    cookie-less request whose extracted password differs from `v` is refused on every mitmweb route, whatever was valid before -/
theorem rotation_revokes_old_password (verify : Str → Str → Bool) (hashOk : Str → Bool) :
    ∀ r ∈ webRoutes, r.appRoute = true → ∀ (w : World) (v fresh : Str) (q : RawReq) (pw : Str),
      v ≠ [] → v.head? ≠ some 36 → q.cookie = none → extractPassword q = some pw → pw ≠ v →
      let w' := (stepW verify hashOk w (.setPw v fresh)).1
      (serveC verify r w'.password (w'.cookieOk q) q).handlerRan = false := by
  intro r hr ha w v fresh q pw hne hd hck he hneq w'
  have hp : w'.password = v := by
    simp only [w', stepW, configure, hd, if_false]
    cases v with
    | nil => exact absurd rfl hne
    | cons a b => simp
  cases hrun : (serveC verify r w'.password (w'.cookieOk q) q).handlerRan with
  | false => rfl
  | true =>
    rcases handler_needs_credential verify r hr ha w' q hrun with h | h
    · simp [World.cookieOk, hck] at h
    · simp only [carriesValidPassword, he, hp, isValidPassword, hd, if_false] at h
      have hv : v = pw := by simpa using h
      exact absurd hv.symm hneq

/-- the raw-request model refines the abstract one: with the empty password invalid (WebAuth never configures an
    empty plaintext; an argon2 hash of the empty string is the operator's choice), `serveC` is `serve` of the abstraction -/
theorem serveC_eq_serve (verify : Str → Str → Bool) (r : Route) (σ : Str) (ck : Bool) (q : RawReq)
    (h0 : isValidPassword verify σ [] = false) :
    serveC verify r σ ck q = serve r (abstractReq verify σ ck q) := by
  have hauth : authC verify σ ck q = authDecision (abstractReq verify σ ck q) := by
    unfold authC authDecision abstractReq extractPassword
    by_cases hc : ck = true
    · simp [hc]
    · simp only [hc]
      by_cases hh : (headerPassword q).isEmpty = true
      · simp only [hh]
        cases ht : q.token with
        | absent => simp [h0]
        | undecodable => simp
        | text t =>
          by_cases hte : t.isEmpty = true
          · have : t = [] := by simpa using hte
            subst this; simp [h0]
          · by_cases hv : isValidPassword verify σ t = true <;> simp [hte, hv]
      · by_cases hv : isValidPassword verify σ (headerPassword q) = true <;> simp [hh, hv]
  unfold serveC serve
  simp only [hauth]
  rfl

/-! non-vacuity / the wrapper's string handling -/
example : headerPassword ⟨.GET, none, some [66, 101, 97, 114, 101, 114, 32, 112], .absent, .absent, false⟩ = [112] := by decide
example : headerPassword ⟨.GET, none, some [98, 101, 97, 114, 101, 114, 32, 112], .absent, .absent, false⟩ = [] := by decide   -- "bearer p"
example : headerPassword ⟨.GET, none, some [66, 101, 97, 114, 101, 114, 32, 32, 112], .absent, .absent, false⟩ = [32, 112] := by decide
example : extractPassword ⟨.GET, none, some [66, 97, 115, 105, 99, 32, 112], .text [116], .absent, false⟩ = some [116] := by decide
example : configure (fun _ => true) [] [102] = some [102] ∧ configure (fun _ => false) [36, 120] [102] = none := by decide
example : isValidPassword (fun _ _ => false) [112] [112] = true ∧ isValidPassword (fun _ _ => false) [36, 112] [36, 112] = false := by
  decide


/-! ## round 6: the plaintext comparison is exact on the bytes -/

/-- a plaintext / token configuration accepts exactly the configured byte string: no folding, no characters dropped -/
theorem plain_password_exact (verify : Str → Str → Bool) (σ pw : Str) (h : σ.head? ≠ some 36) :
    isValidPassword verify σ pw = true ↔ pw = σ := by
  unfold isValidPassword
  simp only [h, if_false, beq_iff_eq]
  exact ⟨fun e => e.symm, fun e => e.symm⟩

/-- `WebAuth.configure` never leaves an empty plaintext password (an empty option value draws a fresh token) -/
theorem configure_plain_nonempty (hashOk : Str → Bool) (v fresh σ : Str) (hc : configure hashOk v fresh = some σ)
    (hf : fresh ≠ []) : σ ≠ [] := by
  unfold configure at hc
  by_cases hd : v.head? = some 36
  · simp only [hd, if_true] at hc
    by_cases hk : hashOk v = true
    · simp [hk] at hc; subst hc; intro e; simp [e] at hd
    · simp [hk] at hc
  · simp only [hd, if_false] at hc
    by_cases he : v.isEmpty = true
    · simp [he] at hc; subst hc; exact hf
    · simp [he] at hc; subst hc; intro e; simp [e] at he

/-- hence a request without any credential text is refused under every plaintext / token configuration: the empty
    password never matches -/
theorem empty_password_refused (verify : Str → Str → Bool) (σ : Str) (h : σ.head? ≠ some 36) (hne : σ ≠ []) :
    isValidPassword verify σ [] = false := by
  cases hv : isValidPassword verify σ [] with
  | false => rfl
  | true => exact absurd ((plain_password_exact verify σ [] h).mp hv).symm hne

example : isValidPassword (fun _ _ => false) [208, 191] [] = false := by decide      -- "п" (non-ASCII only) vs the empty credential
example : isValidPassword (fun _ _ => false) [116, 111, 107] [116, 111, 107, 195, 169] = false := by decide   -- tok vs tok+é


/-! ## round 5: "without changing any state or disclosing flow data", and the raw Sec-Fetch-Site header -/

/-- **no credential ⇒ no state change, no handler output, no session**: whatever the handler bodies do, a request on a
    mitmweb route that carries no issued cookie and no password valid now leaves the application state as it was, is
    answered by a refusal (never by handler output) and is not given a session cookie. -/
theorem no_credential_no_state_change_no_body {S B : Type} (handler : Route → RawReq → S → S × B)
    (verify : Str → Str → Bool) (hashOk : Str → Bool) :
    ∀ r ∈ webRoutes, r.appRoute = true → ∀ (a : AppW S) (q : RawReq) (newId : Nat),
      Ev.uncredentialed verify a.w (.req r q newId) = true →
      (stepApp handler verify hashOk a (.req r q newId)).1.app = a.app ∧
      (stepApp handler verify hashOk a (.req r q newId)).1.w = a.w ∧
      ∃ out, (stepApp handler verify hashOk a (.req r q newId)).2 = some (out, .refusal) := by
  intro r hr ha a q newId hu
  simp only [Ev.uncredentialed, Bool.and_eq_true, Bool.not_eq_true'] at hu
  have hnr : (serveC verify r a.w.password (a.w.cookieOk q) q).handlerRan = false := by
    cases h : (serveC verify r a.w.password (a.w.cookieOk q) q).handlerRan with
    | false => rfl
    | true =>
      rcases handler_needs_credential verify r hr ha a.w q h with h1 | h1
      · rw [hu.1] at h1; cases h1
      · rw [hu.2] at h1; cases h1
  have hnot : serveC verify r a.w.password (a.w.cookieOk q) q ≠ .run true := by
    intro e; rw [e] at hnr; simp [Outcome.handlerRan] at hnr
  refine ⟨?_, ?_, ?_⟩
  · simp [stepApp, hnr]
  · simp [stepApp, hnr, stepW, hnot]
  · exact ⟨serveC verify r a.w.password (a.w.cookieOk q) q, by simp [stepApp, hnr]⟩

/-- every event of the history is a password change or an uncredentialed request on a mitmweb route (judged in the world
    the history has produced so far) -/
def allUncredentialed (verify : Str → Str → Bool) (hashOk : Str → Bool) : World → List Ev → Prop
  | _, [] => True
  | w, e :: r =>
    e.uncredentialed verify w = true ∧
    (match e with | .req rt _ _ => rt ∈ webRoutes ∧ rt.appRoute = true | .setPw _ _ => True) ∧
    allUncredentialed verify hashOk (stepW verify hashOk w e).1 r

/-- **whole histories**: however often the password is rotated in between, a history of requests none of which carries a
    credential valid at its time never changes the application state, never yields handler output and never creates a session -/
theorem hist_uncredentialed_is_inert {S B : Type} (handler : Route → RawReq → S → S × B)
    (verify : Str → Str → Bool) (hashOk : Str → Bool) :
    ∀ (evs : List Ev) (a : AppW S), allUncredentialed verify hashOk a.w evs →
      (runApp handler verify hashOk a evs).1.app = a.app ∧
      (runApp handler verify hashOk a evs).1.w.issued = a.w.issued ∧
      ∀ x ∈ (runApp handler verify hashOk a evs).2, x.2.isRefusal = true := by
  intro evs
  induction evs with
  | nil => intro a _; simp [runApp]
  | cons e es ih =>
    intro a h
    obtain ⟨hu, hroute, hrest⟩ := h
    cases e with
    | setPw v fresh =>
      have hw : (stepApp handler verify hashOk a (.setPw v fresh)).1.w = (stepW verify hashOk a.w (.setPw v fresh)).1 := rfl
      obtain ⟨h1, h2, h3⟩ := ih (stepApp handler verify hashOk a (.setPw v fresh)).1 (by rw [hw]; exact hrest)
      refine ⟨?_, ?_, ?_⟩
      · simpa [runApp, stepApp] using h1
      · simpa [runApp, stepApp, stepW] using h2
      · intro x hx
        simp only [runApp, stepApp, List.nil_append] at hx
        exact h3 x hx
    | req r q newId =>
      obtain ⟨h1, h2, out, h3⟩ := no_credential_no_state_change_no_body handler verify hashOk r hroute.1 hroute.2 a q newId hu
      have hstep : (stepW verify hashOk a.w (.req r q newId)).1 = a.w := by
        have := h2; simp only [stepApp] at this
        split at this <;> simpa using this
      have hrest' : allUncredentialed verify hashOk (stepApp handler verify hashOk a (.req r q newId)).1.w es := by
        rw [h2]; rw [hstep] at hrest; exact hrest
      obtain ⟨i1, i2, i3⟩ := ih _ hrest'
      refine ⟨?_, ?_, ?_⟩
      · simp only [runApp]; rw [i1, h1]
      · simp only [runApp]; rw [i2, h2]
      · intro x hx
        simp only [runApp, h3, List.singleton_append, List.mem_cons] at hx
        rcases hx with hx | hx
        · subst hx; rfl
        · exact i3 x hx

/-- the Sec-Fetch-Site test on the raw header value: anything but exactly `same-origin` / `none` (case-sensitive) marks a
    non-safe request as cross-site, and such a request never reaches a handler -/
theorem cross_site_refused_raw (verify : Str → Str → Bool) :
    ∀ r ∈ webRoutes, r.appRoute = true → ∀ (σ : Str) (ck : Bool) (q : RawReq) (v : Str),
      q.method.safe = false → q.sfs = sfsOfHeader (some v) →
      v ≠ [115, 97, 109, 101, 45, 111, 114, 105, 103, 105, 110] → v ≠ [110, 111, 110, 101] →
      (serveC verify r σ ck q).handlerRan = false := by
  intro r hr ha σ ck q v hm hs h1 h2
  have hsfs : q.sfs = .other := by rw [hs]; simp [sfsOfHeader, h1, h2]
  unfold serveC
  split; · rfl
  split; · rfl
  rcases sfs_table r hr ha with h | h
  · simp [h, hm, hsfs, Outcome.handlerRan]
  · split; · rfl
    split; · rfl
    rename_i h4
    have hmem : q.method ∈ r.methods := by simpa using h4
    have := h _ hmem
    simp [hm] at this

example : sfsOfHeader (some [83, 97, 109, 101, 45, 79, 114, 105, 103, 105, 110]) = .other := by decide     -- "Same-Origin"
example : sfsOfHeader (some [110, 111, 110, 101]) = .none ∧ sfsOfHeader none = .absent := by decide

/-! ## audit round 6 (cross-audit): non-vacuity witnesses on concrete routes, requests and histories -/

/-- `no_credential_is_403` / `cross_site_refused` / `state_changing_requires_xsrf` on a real row of the table: a POST to `/`
    with a wrong Bearer value is answered 403; with a valid cookie but marked cross-site, or without XSRF token, it is refused -/
example : ∃ r ∈ webRoutes, r.appRoute = true ∧ Method.POST ∈ r.methods ∧
    serve r ⟨.POST, false, .invalid, .absent, .sameOrigin, true⟩ = .s403auth ∧
    serve r ⟨.POST, true, .absent, .absent, .other, true⟩ = .crossSite ∧
    serve r ⟨.POST, true, .absent, .absent, .sameOrigin, false⟩ = .s403xsrf ∧
    serve r ⟨.POST, true, .absent, .absent, .sameOrigin, true⟩ = .run false := by decide +kernel

/-- the WebSocket row: no credential -> 403, token -> handler with a fresh cookie -/
example : ∃ r ∈ webRoutes, r.isWs = true ∧
    serve r ⟨.GET, false, .absent, .absent, .absent, false⟩ = .s403auth ∧
    serve r ⟨.GET, false, .absent, .valid, .absent, false⟩ = .run true := by decide +kernel

/-- `issued_cookie_provenance` / `hist_no_credential_no_handler` / `rotation_revokes_old_password` on a concrete history:
    password "p"; a request with `?token=p` obtains cookie 7; the password is rotated to "q"; the cookie still opens the
    handler (its provenance is the first request), the old token does not, the new one does -/
example : ∃ r ∈ webRoutes, r.appRoute = true ∧
    let v : Str → Str → Bool := fun _ _ => false
    let w := runW v (fun _ => true) ⟨[112], []⟩
      [.req r ⟨.GET, none, none, .text [112], .absent, false⟩ 7, .setPw [113] [102]]
    w.issued = [7] ∧ w.password = [113] ∧
    serveC v r w.password (w.cookieOk ⟨.GET, some 7, none, .absent, .absent, false⟩) ⟨.GET, some 7, none, .absent, .absent, false⟩ = .run false ∧
    serveC v r w.password (w.cookieOk ⟨.GET, none, none, .text [112], .absent, false⟩) ⟨.GET, none, none, .text [112], .absent, false⟩ = .s403auth ∧
    serveC v r w.password (w.cookieOk ⟨.GET, none, none, .text [113], .absent, false⟩) ⟨.GET, none, none, .text [113], .absent, false⟩ = .run true := by
  decide +kernel

/-- `hist_uncredentialed_is_inert`'s hypothesis holds for a non-trivial history (a rotation and two refused requests), and a
    handler that WOULD change the state and disclose data is never reached -/
example : ∃ r ∈ webRoutes, r.appRoute = true ∧
    let v : Str → Str → Bool := fun _ _ => false
    let evs : List Ev := [.req r ⟨.GET, none, some [66, 101, 97, 114, 101, 114, 32, 120], .absent, .absent, false⟩ 1,
                          .setPw [113] [102], .req r ⟨.GET, some 9, none, .text [112], .absent, false⟩ 2]
    Ev.uncredentialed v ⟨[112], []⟩ (.req r ⟨.GET, none, some [66, 101, 97, 114, 101, 114, 32, 120], .absent, .absent, false⟩ 1) = true ∧
    (runApp (S := Nat) (B := Nat) (fun _ _ s => (s + 1, 42)) v (fun _ => true) ⟨⟨[112], []⟩, 0⟩ evs).1.app = 0 ∧
    (runApp (S := Nat) (B := Nat) (fun _ _ s => (s + 1, 42)) v (fun _ => true) ⟨⟨[112], []⟩, 0⟩ evs).2.all (fun x => x.2.isRefusal) = true := by
  decide +kernel
end MitmVerif.Props.C46
