/-
  C47 — property theorems.
  * `put_all_or_nothing`  : for every flow, flow shape, document and setter outcomes, `FlowHandler.put` either
      accepts (the document has no invalid part, the state is the old state with *every* update of the document
      applied in order, and the backup is the earlier backup or else the pre-PUT state) or refuses (the document
      has an invalid part and the flow — state *and* backup — is exactly as it was).
  * `put_refused_iff_invalid` : the split is decided by validity alone.
  * `putOld_setter_error_counterexample`, `putOld_old_backup_counterexample` : the handler before the fix
      violated the statement (F-C47a, F-C47b), on concrete witnesses.
-/
import MitmVerif.Model.C47
import MitmVerif.Model.C47_Conv
import MitmVerif.Props.C40
namespace MitmVerif.Props.C47
open MitmVerif.C47

private theorem runSteps_valid : ∀ (st : List Step) (c : Core), stepsValid st = true →
    runSteps c st = (c ++ stepsEffects st, none) := by
  intro st
  induction st with
  | nil => intro c _; simp [runSteps, stepsEffects]
  | cons s r ih =>
    intro c h
    cases s with
    | eff i => simp [stepsValid] at h; simp [runSteps, stepsEffects, ih _ h]
    | fail => simp [stepsValid] at h

private theorem runSteps_invalid : ∀ (st : List Step) (c : Core), stepsValid st = false →
    ∃ c' e, runSteps c st = (c', some e) := by
  intro st
  induction st with
  | nil => intro c h; simp [stepsValid] at h
  | cons s r ih =>
    intro c h
    cases s with
    | eff i => simp [stepsValid] at h; simpa [runSteps] using ih _ h
    | fail => exact ⟨c, .other, by simp [runSteps]⟩

private theorem runLeaves_valid (known : Key → Bool) : ∀ (ls : List Leaf) (c : Core), leavesValid known ls = true →
    runLeaves known c ls = (c ++ leavesEffects ls, none) := by
  intro ls
  induction ls with
  | nil => intro c _; simp [runLeaves, leavesEffects]
  | cons l r ih =>
    intro c h
    simp [leavesValid] at h
    obtain ⟨⟨hk, hs⟩, hr⟩ := h
    simp [runLeaves, runLeaf, hk, runSteps_valid _ _ hs, ih _ hr, leavesEffects]

private theorem runLeaves_invalid (known : Key → Bool) : ∀ (ls : List Leaf) (c : Core), leavesValid known ls = false →
    ∃ c' e, runLeaves known c ls = (c', some e) := by
  intro ls
  induction ls with
  | nil => intro c h; simp [leavesValid] at h
  | cons l r ih =>
    intro c h
    by_cases hk : known l.key = true
    · by_cases hs : stepsValid l.steps = true
      · have hr : leavesValid known r = false := by
          simp [leavesValid, hk, hs] at h; exact h
        obtain ⟨c', e, he⟩ := ih (c ++ stepsEffects l.steps) hr
        exact ⟨c', e, by simp [runLeaves, runLeaf, hk, runSteps_valid _ _ hs, he]⟩
      · have hs' : stepsValid l.steps = false := by simpa using hs
        obtain ⟨c', e, he⟩ := runSteps_invalid l.steps c hs'
        exact ⟨c', e, by simp [runLeaves, runLeaf, hk, he]⟩
    · exact ⟨c, .api, by simp [runLeaves, runLeaf, hk]⟩

private theorem runTop_valid (k : Kind) (t : Top) (c : Core) (h : t.valid k = true) :
    runTop k c t = (c ++ t.effects, none) := by
  cases t with
  | request sub =>
    cases sub with
    | none => simp [Top.valid] at h
    | some ls =>
      simp [Top.valid] at h
      simp [runTop, h.1, runLeaves_valid _ _ _ h.2, Top.effects]
  | response sub =>
    cases sub with
    | none => simp [Top.valid] at h
    | some ls =>
      simp [Top.valid] at h
      simp [runTop, h.1, runLeaves_valid _ _ _ h.2, Top.effects]
  | marked st => simp [Top.valid] at h; simp [runTop, runSteps_valid _ _ h, Top.effects]
  | comment st => simp [Top.valid] at h; simp [runTop, runSteps_valid _ _ h, Top.effects]
  | unknown => simp [Top.valid] at h

private theorem runTop_invalid (k : Kind) (t : Top) (c : Core) (h : t.valid k = false) :
    ∃ c' e, runTop k c t = (c', some e) := by
  cases t with
  | request sub =>
    by_cases hq : k.hasReq = true
    · cases sub with
      | none => exact ⟨c, .other, by simp [runTop, hq]⟩
      | some ls =>
        have : leavesValid Key.forRequest ls = false := by simpa [Top.valid, hq] using h
        obtain ⟨c', e, he⟩ := runLeaves_invalid _ ls c this
        exact ⟨c', e, by simp [runTop, hq, he]⟩
    · exact ⟨c, .api, by simp [runTop, hq]⟩
  | response sub =>
    by_cases hq : k.hasResp = true
    · cases sub with
      | none => exact ⟨c, .other, by simp [runTop, hq]⟩
      | some ls =>
        have : leavesValid Key.forResponse ls = false := by simpa [Top.valid, hq] using h
        obtain ⟨c', e, he⟩ := runLeaves_invalid _ ls c this
        exact ⟨c', e, by simp [runTop, hq, he]⟩
    · exact ⟨c, .api, by simp [runTop, hq]⟩
  | marked st =>
    have : stepsValid st = false := by simpa [Top.valid] using h
    simpa [runTop] using runSteps_invalid st c this
  | comment st =>
    have : stepsValid st = false := by simpa [Top.valid] using h
    simpa [runTop] using runSteps_invalid st c this
  | unknown => exact ⟨c, .api, by simp [runTop]⟩

private theorem runTops_valid (k : Kind) : ∀ (ts : List Top) (c : Core), topsValid k ts = true →
    runTops k c ts = (c ++ topsEffects ts, none) := by
  intro ts
  induction ts with
  | nil => intro c _; simp [runTops, topsEffects]
  | cons t r ih =>
    intro c h
    simp [topsValid] at h
    simp [runTops, runTop_valid k t c h.1, ih _ h.2, topsEffects]

private theorem runTops_invalid (k : Kind) : ∀ (ts : List Top) (c : Core), topsValid k ts = false →
    ∃ c' e, runTops k c ts = (c', some e) := by
  intro ts
  induction ts with
  | nil => intro c h; simp [topsValid] at h
  | cons t r ih =>
    intro c h
    by_cases ht : t.valid k = true
    · have hr : topsValid k r = false := by simpa [topsValid, ht] using h
      obtain ⟨c', e, he⟩ := ih (c ++ t.effects) hr
      exact ⟨c', e, by simp [runTops, runTop_valid k t c ht, he]⟩
    · have ht' : t.valid k = false := by simpa using ht
      obtain ⟨c', e, he⟩ := runTop_invalid k t c ht'
      exact ⟨c', e, by simp [runTops, he]⟩

private theorem runDoc_valid (k : Kind) (d : Doc) (c : Core) (h : d.valid k = true) :
    runDoc k c d = (c ++ d.effects, none) := by
  cases d with
  | badJson => simp [Doc.valid] at h
  | notObject => simp [Doc.valid] at h
  | obj ts => simpa [runDoc, Doc.effects] using runTops_valid k ts c (by simpa [Doc.valid] using h)

private theorem runDoc_invalid (k : Kind) (d : Doc) (c : Core) (h : d.valid k = false) :
    ∃ c' e, runDoc k c d = (c', some e) := by
  cases d with
  | badJson => exact ⟨c, .api, rfl⟩
  | notObject => exact ⟨c, .other, rfl⟩
  | obj ts => simpa [runDoc] using runTops_invalid k ts c (by simpa [Doc.valid] using h)

private theorem doBackup_cur (σ : Flow) : σ.doBackup.cur = σ.cur := by
  unfold Flow.doBackup; cases σ.backup <;> rfl

private theorem doBackup_backup (σ : Flow) : σ.doBackup.backup = some (σ.backup.getD σ.cur) := by
  unfold Flow.doBackup; cases h : σ.backup <;> simp [h]

/-- **C47.** A PUT either applies the whole document — accepted, state = old state followed by every update of the
    document in order, backup = the backup that existed or else the pre-PUT state — or, when some part is invalid
    (unknown key, key not applicable to this flow, sub-document not an object, a setter that raises, unreadable JSON),
    is refused and leaves the flow, backup included, exactly as it was. -/
theorem put_all_or_nothing (k : Kind) (σ : Flow) (d : Doc) :
    (d.valid k = true ∧ (put k σ d).1 = .ok ∧
        (put k σ d).2 = { cur := σ.cur ++ d.effects, backup := some (σ.backup.getD σ.cur) })
    ∨ (d.valid k = false ∧ (put k σ d).1 = .refused400 ∧ (put k σ d).2 = σ) := by
  by_cases h : d.valid k = true
  · left
    refine ⟨h, ?_⟩
    simp [put, runDoc_valid k d _ h, doBackup_cur, doBackup_backup]
  · right
    have h' : d.valid k = false := by simpa using h
    obtain ⟨c', e, he⟩ := runDoc_invalid k d σ.doBackup.cur h'
    refine ⟨h', ?_⟩
    simp [put, he, Flow.restore]

/-- a PUT is refused exactly when the document has an invalid part; never a third outcome -/
theorem put_refused_iff_invalid (k : Kind) (σ : Flow) (d : Doc) :
    ((put k σ d).1 = .refused400 ↔ d.valid k = false) ∧ (put k σ d).1 ≠ .error500 := by
  rcases put_all_or_nothing k σ d with ⟨hv, hs, _⟩ | ⟨hv, hs, _⟩ <;> simp [hv, hs]

/-- a refused PUT does not even disturb a later `revert`: the revert target is what it was -/
theorem put_refused_keeps_revert_target (k : Kind) (σ : Flow) (d : Doc) (h : (put k σ d).1 ≠ .ok) :
    (put k σ d).2.revert = σ.revert := by
  rcases put_all_or_nothing k σ d with ⟨_, hs, _⟩ | ⟨_, _, hf⟩
  · exact absurd hs h
  · rw [hf]

/-- F-C47a (pre-fix handler): `{"request": {"path": "/x", "port": "abc"}}` — the path effect stays, status 500 -/
theorem putOld_setter_error_counterexample :
    let k : Kind := ⟨true, true⟩
    let σ : Flow := ⟨[], none⟩
    let d : Doc := .obj [.request (some [⟨.path, [.eff 1]⟩, ⟨.port, [.fail]⟩])]
    d.valid k = false ∧ (putOld k σ d).1 = .error500 ∧ (putOld k σ d).2.cur = [1] ∧ (putOld k σ d).2 ≠ σ := by
  decide

/-- F-C47b (pre-fix handler): an edit (effect 1) was accepted earlier, so a backup `[]` exists; a later PUT with an
    unknown key reverts to that *old* backup and discards the earlier edit -/
theorem putOld_old_backup_counterexample :
    let k : Kind := ⟨true, true⟩
    let σ : Flow := ⟨[1], some []⟩
    let d : Doc := .obj [.request (some [⟨.path, [.eff 2]⟩, ⟨.unknown, []⟩])]
    d.valid k = false ∧ (putOld k σ d).1 = .refused400 ∧ (putOld k σ d).2 = ⟨[], none⟩ ∧ (putOld k σ d).2 ≠ σ := by
  decide

/-! non-vacuity: a valid document with effects is accepted and changes the flow; an invalid one with the same
    prefix is refused; the model is not constant -/
example : (put ⟨true, true⟩ ⟨[1], some []⟩ (.obj [.comment [.eff 7], .request (some [⟨.port, [.eff 8]⟩])])) =
    (.ok, ⟨[1, 7, 8], some []⟩) := by decide
example : (put ⟨true, true⟩ ⟨[1], some []⟩ (.obj [.comment [.eff 7], .request (some [⟨.port, [.fail]⟩])])) =
    (.refused400, ⟨[1], some []⟩) := by decide
example : (put ⟨false, false⟩ ⟨[], none⟩ (.obj [.request (some [])])).1 = .refused400 := by decide
example : (put ⟨true, true⟩ ⟨[], none⟩ (.obj [.request (some [⟨.reason, [.eff 1]⟩])])).1 = .refused400 := by decide
example : (put ⟨true, true⟩ ⟨[], none⟩ (.obj [])) = (.ok, ⟨[], some []⟩) := by decide


/-! ## the per-key dispatch: which field every accepted update ends up in -/

/-- the dispatch tables: a key reaches a setter exactly when the handler's `if/elif` chain names it -/
theorem request_keys_dispatch : ∀ k : Key, (reqField k).isSome = k.forRequest := by
  intro k; cases k <;> rfl

theorem response_keys_dispatch : ∀ k : Key, (respField k).isSome = k.forResponse := by
  intro k; cases k <;> rfl

private theorem scalarOps_ids (f : Field) : ∀ st, (scalarOps f st).map (·.2.id) = stepsEffects st := by
  intro st; induction st with
  | nil => rfl
  | cons s r ih => cases s <;> simp only [scalarOps, stepsEffects, List.map_cons, ih] <;> rfl

private theorem addOps_ids (f : Field) : ∀ st, (addOps f st).map (·.2.id) = stepsEffects st := by
  intro st; induction st with
  | nil => rfl
  | cons s r ih => cases s <;> simp only [addOps, stepsEffects, List.map_cons, ih] <;> rfl

private theorem listOps_ids (f : Field) : ∀ st, (listOps f st).map (·.2.id) = stepsEffects st := by
  intro st; induction st with
  | nil => rfl
  | cons s r ih => cases s <;> simp only [listOps, stepsEffects, List.map_cons, ih, addOps_ids] <;> rfl

private theorem leavesOps_ids (field : Key → Option Field) (known : Key → Bool)
    (hk : ∀ k, (field k).isSome = known k) : ∀ ls, leavesValid known ls = true →
    (leavesOps field ls).map (·.2.id) = leavesEffects ls := by
  intro ls; induction ls with
  | nil => intro _; rfl
  | cons l r ih =>
    intro h
    simp [leavesValid] at h
    obtain ⟨⟨hkn, _⟩, hr⟩ := h
    have : (field l.key).isSome = true := by rw [hk]; exact hkn
    obtain ⟨f, hf⟩ := Option.isSome_iff_exists.mp this
    simp only [leavesOps, leafOps, hf, leavesEffects, List.map_append, ih hr]
    by_cases hl : l.key.isList = true <;> simp [hl, listOps_ids, scalarOps_ids]

/-- **the typed writes are exactly the committed effects.** For a valid document, the ids of `Doc.ops` (the writes with
    their target fields) are, in order, the effects that `put` appends to the flow state. -/
theorem ops_ids_eq_effects (k : Kind) (d : Doc) (h : d.valid k = true) : d.ops.map (·.2.id) = d.effects := by
  cases d with
  | badJson => simp [Doc.valid] at h
  | notObject => simp [Doc.valid] at h
  | obj ts =>
    simp only [Doc.valid] at h
    simp only [Doc.ops, Doc.effects]
    induction ts with
    | nil => rfl
    | cons t r ih =>
      simp [topsValid] at h
      simp only [topsOps, topsEffects, List.map_append, ih h.2]
      congr 1
      cases t with
      | request sub =>
        cases sub with
        | none => simp [Top.valid] at h
        | some ls =>
          have := h.1; simp [Top.valid] at this
          exact leavesOps_ids reqField Key.forRequest request_keys_dispatch ls this.2
      | response sub =>
        cases sub with
        | none => simp [Top.valid] at h
        | some ls =>
          have := h.1; simp [Top.valid] at this
          exact leavesOps_ids respField Key.forResponse response_keys_dispatch ls this.2
      | marked st => exact scalarOps_ids _ st
      | comment st => exact scalarOps_ids _ st
      | unknown => simp [Top.valid] at h

/-- the field-level PUT accepts and refuses exactly like the transaction model -/
theorem putF_status (k : Kind) (σ : Flow) (fs : Fields) (d : Doc) : (putF k fs d).1 = (put k σ d).1 := by
  rcases put_all_or_nothing k σ d with ⟨hv, hs, _⟩ | ⟨hv, hs, _⟩ <;> simp [putF, hv, hs]

/-- **atomicity on the fields**: a refused update leaves every field as it was -/
theorem putF_refused_unchanged (k : Kind) (fs : Fields) (d : Doc) (h : (putF k fs d).1 ≠ .ok) :
    (putF k fs d).2 = fs := by
  unfold putF at h ⊢
  by_cases hv : d.valid k = true <;> simp [hv] at h ⊢

private theorem interp_append (fs : Fields) (a b : List (Field × Op)) :
    interp fs (a ++ b) = interp (interp fs a) b := by
  induction a generalizing fs with
  | nil => rfl
  | cons w r ih => simp [interp, ih]

private theorem applyOp_other (fs : Fields) (w : Field × Op) (f : Field) (h : w.1 ≠ f) : applyOp fs w f = fs f := by
  have h' : ¬ f = w.1 := fun e => h e.symm
  unfold applyOp
  cases w.2 with
  | set i => simp [Fields.put, h']
  | clear i => simp [Fields.put, h']
  | add i => cases fs w.1 <;> simp [Fields.put, h']

private theorem interp_untouched (f : Field) : ∀ (ops : List (Field × Op)) (fs : Fields),
    (∀ w ∈ ops, w.1 ≠ f) → interp fs ops f = fs f := by
  intro ops; induction ops with
  | nil => intro fs _; rfl
  | cons w r ih =>
    intro fs h
    simp only [interp]
    rw [ih _ (fun x hx => h x (List.mem_cons_of_mem _ hx)), applyOp_other fs w f (h w List.mem_cons_self)]

/-- ids of the `add`s on field `f` -/
def addsOn (f : Field) : List (Field × Op) → List Nat
  | [] => []
  | (g, .add i) :: r => if g = f then i :: addsOn f r else addsOn f r
  | _ :: r => addsOn f r

private theorem interp_adds (f : Field) : ∀ (ops : List (Field × Op)) (fs : Fields) (l : List Nat),
    fs f = .pairs l → (∀ w ∈ ops, w.1 = f → ∃ i, w.2 = .add i) →
    interp fs ops f = .pairs (l ++ addsOn f ops) := by
  intro ops; induction ops with
  | nil => intro fs l hl _; simp [interp, addsOn, hl]
  | cons w r ih =>
    intro fs l hl h
    obtain ⟨g, op⟩ := w
    by_cases hg : g = f
    · subst hg
      obtain ⟨i, hi⟩ := h (g, op) List.mem_cons_self rfl
      simp only at hi; subst hi
      have hstep : applyOp fs (g, .add i) g = .pairs (l ++ [i]) := by simp [applyOp, hl, Fields.put]
      simp only [interp]
      rw [ih _ (l ++ [i]) hstep (fun x hx => h x (List.mem_cons_of_mem _ hx))]
      simp [addsOn]
    · have hstep : applyOp fs (g, op) f = .pairs l := by rw [applyOp_other fs (g, op) f hg, hl]
      simp only [interp]
      rw [ih _ l hstep (fun x hx => h x (List.mem_cons_of_mem _ hx))]
      cases op <;> simp [addsOn, hg]

/-- an accepted update does not touch a field no key of the document targets -/
theorem putF_untouched (k : Kind) (fs : Fields) (d : Doc) (f : Field) (hv : d.valid k = true)
    (h : ∀ w ∈ d.ops, w.1 ≠ f) : (putF k fs d).2 f = fs f := by
  simp [putF, hv, interp_untouched f d.ops fs h]

/-- **last writer wins (scalar fields)**: after an accepted update a field holds the value of the last key that targets it -/
theorem putF_scalar_last_writer (k : Kind) (fs : Fields) (d : Doc) (f : Field) (i : Nat)
    (pre post : List (Field × Op)) (hv : d.valid k = true) (hd : d.ops = pre ++ (f, .set i) :: post)
    (hpost : ∀ w ∈ post, w.1 ≠ f) : (putF k fs d).2 f = .scalar i := by
  simp only [putF, hv, if_true, hd]
  rw [interp_append]
  simp only [interp]
  rw [interp_untouched f post _ hpost]
  simp [applyOp, Fields.put]

/-- **header lists are replaced as a whole**: after an accepted update a header/trailer field holds exactly the pairs
    added after its last `clear`, in order -/
theorem putF_list_replaced (k : Kind) (fs : Fields) (d : Doc) (f : Field) (c : Nat)
    (pre post : List (Field × Op)) (hv : d.valid k = true) (hd : d.ops = pre ++ (f, .clear c) :: post)
    (hpost : ∀ w ∈ post, w.1 = f → ∃ i, w.2 = .add i) : (putF k fs d).2 f = .pairs (addsOn f post) := by
  simp only [putF, hv, if_true, hd]
  rw [interp_append]
  simp only [interp]
  have h0 : applyOp (interp fs pre) (f, .clear c) f = .pairs [] := by simp [applyOp, Fields.put]
  rw [interp_adds f post _ [] h0 hpost]
  simp

/-! non-vacuity for the dispatch theorems -/
example : (putF ⟨true, true⟩ (fun _ => .orig)
    (.obj [.request (some [⟨.path, [.eff 1]⟩, ⟨.headers, [.eff 2, .eff 3, .eff 4]⟩, ⟨.path, [.eff 5]⟩])])).2 .reqPath = .scalar 5 := by
  decide
example : (putF ⟨true, true⟩ (fun _ => .orig)
    (.obj [.request (some [⟨.headers, [.eff 2, .eff 3, .eff 4]⟩])])).2 .reqHeaders = .pairs [3, 4] := by decide
example : (putF ⟨true, true⟩ (fun _ => .orig)
    (.obj [.request (some [⟨.path, [.eff 1]⟩, ⟨.port, [.fail]⟩])])).2 .reqPath = .orig := by decide
example : reqField .reason = none ∧ respField .method = none ∧ respField .code = some .respCode := by decide


/-! ## round 5: the statement's "malformed port or status code, malformed header list", transcribed; whole sessions -/

/-- `_str_pair` accepts exactly the two-element lists of strings -/
theorem strPair_iff (e : Elem) (a b : C35.PyStr) : strPair e = some (a, b) ↔ e = .seq [.str a, .str b] := by
  constructor
  · intro h
    unfold strPair at h
    split at h
    · cases h; rfl
    · cases h
  · intro h; subst h; rfl

private theorem firstFail_all (l : List Bool) : (firstFail l).all id = l.all id := by
  induction l with
  | nil => rfl
  | cons b r ih => cases b <;> simp [firstFail, ih]

/-- the header loop succeeds entirely iff the value is a list whose every element is a pair of encodable strings
    (or an empty string / empty object, which iterate zero times) -/
theorem headerOutcomes_all_ok_iff (c : Container) :
    (headerOutcomes c).all id = true ↔
      (∃ es, c = .list es ∧ ∀ e ∈ es, addOk e = true) ∨ c = .chars 0 ∨ c = .keys 0 := by
  cases c with
  | list es =>
    simp only [headerOutcomes, List.all_cons, id, Bool.true_and, firstFail_all]
    constructor
    · intro h; left; exact ⟨es, rfl, by simpa using h⟩
    · intro h
      rcases h with ⟨es', he, h⟩ | h | h
      · cases he; simpa using h
      · cases h
      · cases h
  | chars n =>
    by_cases hn : n = 0
    · subst hn; simp [headerOutcomes, firstFail]
    · simp [headerOutcomes, firstFail, hn]
  | keys n =>
    by_cases hn : n = 0
    · subst hn; simp [headerOutcomes, firstFail]
    · simp [headerOutcomes, firstFail, hn]
  | notIterable => simp [headerOutcomes, firstFail]

private theorem mkSteps_valid : ∀ (outs : List Bool) (ids : List Nat), stepsValid (mkSteps ids outs) = outs.all id := by
  intro outs
  induction outs with
  | nil => intro ids; rfl
  | cons o os ih =>
    intro ids
    cases o with
    | false => simp [mkSteps, stepsValid]
    | true => cases ids <;> simp [mkSteps, stepsValid, ih]

private theorem leaves_invalid_of_mem (known : Key → Bool) : ∀ (ls : List Leaf) (l : Leaf), l ∈ ls →
    stepsValid l.steps = false → leavesValid known ls = false := by
  intro ls
  induction ls with
  | nil => intro l h; cases h
  | cons x r ih =>
    intro l hm hs
    rcases List.mem_cons.mp hm with h | h
    · subst h; simp [leavesValid, hs]
    · simp [leavesValid, ih l h hs]

private theorem tops_invalid_of_mem (k : Kind) : ∀ (ts : List Top) (t : Top), t ∈ ts → t.valid k = false →
    topsValid k ts = false := by
  intro ts
  induction ts with
  | nil => intro t h; cases h
  | cons x r ih =>
    intro t hm hv
    rcases List.mem_cons.mp hm with h | h
    · subst h; simp [topsValid, hv]
    · simp [topsValid, ih t h hv]

/-- a document whose request or response part contains a key with a failing setter step is refused and leaves the
    flow — state and backup — exactly as it was, wherever that key stands and whatever valid parts surround it -/
theorem failing_key_leaves_flow_unchanged (k : Kind) (σ : Flow) (tops : List Top) (ls : List Leaf) (l : Leaf)
    (ht : Top.request (some ls) ∈ tops ∨ Top.response (some ls) ∈ tops) (hl : l ∈ ls)
    (hs : stepsValid l.steps = false) :
    (put k σ (.obj tops)).1 = .refused400 ∧ (put k σ (.obj tops)).2 = σ := by
  have hinv : (Doc.obj tops).valid k = false := by
    simp only [Doc.valid]
    rcases ht with h | h
    · exact tops_invalid_of_mem k tops _ h (by simp [Top.valid, leaves_invalid_of_mem _ ls l hl hs])
    · exact tops_invalid_of_mem k tops _ h (by simp [Top.valid, leaves_invalid_of_mem _ ls l hl hs])
  rcases put_all_or_nothing k σ (.obj tops) with ⟨hv, _, _⟩ | ⟨_, h1, h2⟩
  · rw [hinv] at hv; cases hv
  · exact ⟨h1, h2⟩

/-- **malformed header list ⇒ flow exactly as it was**: a `headers` / `trailers` value that is not a list of pairs of
    (encodable) strings — wrong container, an element that is not a two-element list of strings — makes the whole PUT a no-op -/
theorem malformed_header_list_leaves_flow_unchanged (k : Kind) (σ : Flow) (tops : List Top) (ls : List Leaf)
    (key : Key) (ids : List Nat) (c : Container)
    (ht : Top.request (some ls) ∈ tops ∨ Top.response (some ls) ∈ tops) (hl : headersLeaf key ids c ∈ ls)
    (hbad : ¬ ((∃ es, c = .list es ∧ ∀ e ∈ es, addOk e = true) ∨ c = .chars 0 ∨ c = .keys 0)) :
    (put k σ (.obj tops)).1 = .refused400 ∧ (put k σ (.obj tops)).2 = σ := by
  refine failing_key_leaves_flow_unchanged k σ tops ls _ ht hl ?_
  have : (headerOutcomes c).all id = false := by
    cases h : (headerOutcomes c).all id with
    | false => rfl
    | true => exact absurd ((headerOutcomes_all_ok_iff c).mp h) hbad
  simp [headersLeaf, mkSteps_valid, this]

/-- **malformed port or status code ⇒ flow exactly as it was**: a `port` / `code` value on which `int()` does not
    return (null, containers, NaN, ±Infinity, text outside Python's integer grammar) makes the whole PUT a no-op -/
theorem malformed_port_or_code_leaves_flow_unchanged (k : Kind) (σ : Flow) (tops : List Top) (ls : List Leaf)
    (key : Key) (id : Nat) (v : Scalar)
    (ht : Top.request (some ls) ∈ tops ∨ Top.response (some ls) ∈ tops) (hl : intLeaf key id v ∈ ls)
    (hbad : intOk v = false) :
    (put k σ (.obj tops)).1 = .refused400 ∧ (put k σ (.obj tops)).2 = σ := by
  refine failing_key_leaves_flow_unchanged k σ tops ls _ ht hl ?_
  simp [intLeaf, mkSteps_valid, hbad]

/-- **whole sessions**: after any sequence of PUTs the state is the initial state followed by the effects of exactly the
    accepted documents, in order; and a session in which every document is refused leaves the flow — backup included —
    exactly as it was.  (Nothing is stated here about the backup after a MIXED session; per PUT it is given by
    `put_all_or_nothing`: the earlier backup, else the state before the first accepted document.) -/
theorem session_all_or_nothing (k : Kind) : ∀ (docs : List Doc) (σ : Flow),
    (runSession k σ docs).cur = σ.cur ++ sessionEffects k docs ∧
    ((∀ d ∈ docs, d.valid k = false) → runSession k σ docs = σ) := by
  intro docs
  induction docs with
  | nil => intro σ; simp [runSession, sessionEffects]
  | cons d r ih =>
    intro σ
    rcases put_all_or_nothing k σ d with ⟨hv, _, hf⟩ | ⟨hv, _, hf⟩
    · obtain ⟨h1, _⟩ := ih (put k σ d).2
      refine ⟨?_, ?_⟩
      · simp only [runSession, sessionEffects, hv, if_true]
        rw [h1, hf]; simp [List.append_assoc]
      · intro hall
        have := hall d List.mem_cons_self
        rw [hv] at this; cases this
    · obtain ⟨h1, h2⟩ := ih (put k σ d).2
      refine ⟨?_, ?_⟩
      · simp only [runSession, sessionEffects, hv]
        rw [h1, hf]; simp
      · intro hall
        simp only [runSession]
        rw [h2 (fun x hx => hall x (List.mem_cons_of_mem _ hx)), hf]

/-! non-vacuity -/
example : intOk (.float false) = false ∧ intOk .null = false ∧ intOk .bool = true ∧ intOk (.str [52, 50]) = true ∧
    intOk (.str [97, 98, 99]) = false ∧ intOk (.str [32, 55, 32]) = true ∧ intOk (.str []) = false := by decide
example : addOk (.seq [.str [97], .str [98]]) = true ∧ addOk (.seq [.str [97]]) = false ∧
    addOk (.seq [.str [97], .other]) = false ∧ addOk .notSeq = false ∧ addOk (.seq [.str [97], .str [0xD800]]) = false := by decide
example : headerOutcomes (.list [.seq [.str [97], .str [98]], .seq [.str [99]], .seq [.str [97], .str [98]]]) = [true, true, false] := by
  decide
example : headerOutcomes .notIterable = [true, false] ∧ headerOutcomes (.chars 0) = [true] ∧ headerOutcomes (.chars 2) = [true, false] := by
  decide


/-! ## round 5: the roll-back at the level of message OBJECTS (C40's heap of Headers objects) -/

/-- **the roll-back cannot be disturbed by in-place edits.**  `FlowHandler.put` takes `old_state = flow.get_state()` — in
    C40's transcription of `MessageData.get_state` a pure value in which every `Headers` object is serialised — then edits
    the message in place (`headers.clear()`, `headers.add`, `.content = …`, new trailer objects: any list `es` of C40's
    message edits), and on failure calls `set_state(old_state)`, which rebuilds the message with `Message.from_state`.
    Whatever the edits did to the heap, the rebuilt message's state is the snapshot.  (Seed c47-3 — a `get_state` that kept
    the live, empty `Headers` object — is exactly a `get_state` that is not this function.) -/
theorem put_rollback_object_level (h : C40.OHeap) (o : C40.MsgObj) (es : List C40.MsgEdit) :
    (C40.MsgObj.fromState (C40.applyObjs es h o).1 (o.getState h)).2.getState
        (C40.MsgObj.fromState (C40.applyObjs es h o).1 (o.getState h)).1 = o.getState h :=
  (C40.fromState_fresh_roundtrip _ _).1

/-- … and the rebuilt message shares no `Headers` object with anything that existed before the roll-back -/
theorem put_rollback_objects_fresh (h : C40.OHeap) (o : C40.MsgObj) (es : List C40.MsgEdit) :
    ∀ a ∈ (C40.MsgObj.fromState (C40.applyObjs es h o).1 (o.getState h)).2.refs, (C40.applyObjs es h o).1.next ≤ a :=
  (C40.fromState_fresh_roundtrip _ _).2.2.1


/-! the string-field setters, transcribed (tied by the driver op `conv utf8` / `conv latin1`) -/
example : utf8Ok (.str [0xD800, 120]) = false ∧ utf8Ok (.str [0xDCFF]) = true ∧ utf8Ok (.str [233, 0x65E5]) = true ∧ utf8Ok .null = true := by
  decide
example : latin1Ok (.str [233]) = true ∧ latin1Ok (.str [0x65E5]) = false ∧ latin1Ok (.str [0xD800]) = false ∧ latin1Ok .int = true := by decide

/-! ## audit round 6 (cross-audit): non-vacuity witnesses for the theorems that had none -/

/-- `malformed_port_or_code_leaves_flow_unchanged`: a valid comment edit followed by `"port": "a"` — refused, the earlier
    accepted edit (effect 1) and its backup stay, the comment effect 7 is rolled back -/
example : intOk (.str [97]) = false ∧
    put ⟨true, true⟩ ⟨[1], some []⟩ (.obj [.comment [.eff 7], .request (some [⟨.path, [.eff 8]⟩, intLeaf .port 9 (.str [97])])])
      = (.refused400, ⟨[1], some []⟩) := by decide

/-- `malformed_header_list_leaves_flow_unchanged`: the second element is not a pair — the `clear` and the first `add` are undone -/
example : put ⟨true, true⟩ ⟨[], none⟩
    (.obj [.response (some [headersLeaf .headers [3, 4, 5] (.list [.seq [.str [97], .str [98]], .seq [.str [99]]])])])
      = (.refused400, ⟨[], none⟩) := by decide

/-- `failing_key_leaves_flow_unchanged` with the failing key in the middle of valid ones, in the response part -/
example : put ⟨true, true⟩ ⟨[2], none⟩
    (.obj [.marked [.eff 1], .response (some [⟨.code, [.eff 5]⟩, ⟨.reason, [.fail]⟩, ⟨.content, [.eff 6]⟩])]) = (.refused400, ⟨[2], none⟩) := by decide

/-- `session_all_or_nothing` on a session of three documents (accepted, refused, accepted): exactly the accepted effects, in order -/
example : runSession ⟨true, false⟩ ⟨[], none⟩
    [.obj [.request (some [⟨.method, [.eff 1]⟩])], .obj [.request (some [⟨.path, [.eff 2]⟩]), .unknown], .obj [.comment [.eff 3]]]
      = ⟨[1, 3], some []⟩ ∧
    sessionEffects ⟨true, false⟩
      [.obj [.request (some [⟨.method, [.eff 1]⟩])], .obj [.request (some [⟨.path, [.eff 2]⟩]), .unknown], .obj [.comment [.eff 3]]] = [1, 3] := by decide

/-- `put_refused_keeps_revert_target` / `put_refused_iff_invalid` with an existing backup -/
example : (put ⟨true, true⟩ ⟨[1, 2], some [1]⟩ (.obj [.request none])).2.revert = ⟨[1], none⟩ ∧
    (put ⟨true, true⟩ ⟨[1, 2], some [1]⟩ .notObject).1 = .refused400 := by decide
end MitmVerif.Props.C47
