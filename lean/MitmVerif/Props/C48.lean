/-
  C48 — property theorems (exported commands reproduce the request and are shell-safe).

  Shell safety
  * `run_join_quote`        : for ALL argument lists (any bytes), a POSIX reading of
                              `" ".join(shlex.quote(a) for a in args)` is the simple command with exactly `args`
                              — no operator, expansion or second command is exposed.
  * `curl_no_body`, `curl_body_plain`, `curl_body_ctl_bash`, `curl_body_ctl_dash`
                            : the whole curl command line executes one command whose argv is `curlArgs` (+ `-d` value).
  * `curl_executes_curl`    : that command is `curl`.
  * `httpie_no_body`, `httpie_body_plain`, `httpie_body_ctl_bash` : same for httpie (`<<<` here-string, bash).
  Fidelity
  * `argv_encodes_method_url_headers` : curl's reading of that argv gives the request's method, url, the `-H` lines of the
                              popped header set (`--compressed` standing for Accept-Encoding), for ALL requests.
  * `body_exact_partial`    : the `-d` value is the text itself when the text has no C0 control character (any shell), or
                              when the shell's printf knows `\xHH` and the text does not end in a newline.
    `body_exact_counterexample_newline` (F-C48b), `body_exact_counterexample_dash` (F-C48d): the full statement
    `BodyExact` fails on concrete witnesses.
  * `raw_parses_back`       : the raw export of a representable request reads back as the same request.
-/
import MitmVerif.Lemmas.C48Body
import MitmVerif.Lemmas.C48Raw
import MitmVerif.Lemmas.C48Argv
import MitmVerif.Lemmas.C48Chunk
import MitmVerif.Lemmas.C48Url
namespace MitmVerif.Props.C48
open MitmVerif MitmVerif.C48 MitmVerif.C48.Sh MitmVerif.Lemmas.C48

private theorem run_of_steps (hex : Bool) (cmd : Bytes) (s' : St) (ws : List Word)
    (h : steps hex St.init cmd = some s') (hm : s'.mode = .normal) (hf : s'.frame = none)
    (hfin : finish s' = ws.reverse) : run hex cmd = interp ws := by
  unfold run; simp [h, hm, hf, hfin]

/-- **shell safety of the quoting.** Whatever bytes the arguments contain, the joined line is read back as exactly
    those arguments (one simple command, no redirection). -/
theorem run_join_quote (hex : Bool) (args : List Bytes) :
    run hex (joinSp (args.map quote)) = some ⟨args, none⟩ := by
  obtain ⟨s', h, hm, hf, hfin⟩ := steps_join hex args St.init rfl rfl
  rw [run_of_steps hex _ s' (args.map mkWord) h hm (by simpa [St.init] using hf) (by simpa [St.init] using hfin)]
  exact interp_plain args

private theorem run_tail_q (hex : Bool) (args : List Bytes) (x : Bytes) :
    run hex (joinSp (args.map quote) ++ [32, 45, 100, 32] ++ quote x) = some ⟨args ++ [[45, 100], x], none⟩ := by
  obtain ⟨s', h, hm, hf, hfin⟩ := run_tail_quoted hex args [45, 100] ⟨[45, 100], false⟩ (flag_d hex) x
  have h' : steps hex St.init (joinSp (args.map quote) ++ [32, 45, 100, 32] ++ quote x) = some s' := by
    simpa using h
  rw [run_of_steps hex _ s' ((args ++ [[45, 100], x]).map mkWord) h' hm hf (by simp [hfin, mkWord])]
  exact interp_plain _

private theorem run_tail_s (hex : Bool) (args : List Bytes) (fmt out : Bytes) (hp : printfFmt hex fmt = some out)
    (hdash : fmt.head? ≠ some 45) :
    run hex (joinSp (args.map quote) ++ [32, 45, 100, 32] ++ (sSubstOpen ++ quote fmt ++ sSubstClose)) =
      some ⟨args ++ [[45, 100], stripNl out], none⟩ := by
  obtain ⟨s', h, hm, hf, hfin⟩ := run_tail_subst hex args [45, 100] ⟨[45, 100], false⟩ (flag_d hex) fmt out hp hdash
  have h' : steps hex St.init (joinSp (args.map quote) ++ [32, 45, 100, 32] ++
      (sSubstOpen ++ quote fmt ++ sSubstClose)) = some s' := by simpa using h
  rw [run_of_steps hex _ s' ((args ++ [[45, 100], stripNl out]).map mkWord) h' hm hf (by simp [hfin, mkWord])]
  exact interp_plain _

private theorem run_here_q (hex : Bool) (args : List Bytes) (x : Bytes) :
    run hex (joinSp (args.map quote) ++ [32, 60, 60, 60, 32] ++ quote x) = some ⟨args, some (x ++ [10])⟩ := by
  obtain ⟨s', h, hm, hf, hfin⟩ := run_tail_quoted hex args [60, 60, 60] ⟨sHere, true⟩ (flag_here hex) x
  have h' : steps hex St.init (joinSp (args.map quote) ++ [32, 60, 60, 60, 32] ++ quote x) = some s' := by
    simpa using h
  rw [run_of_steps hex _ s' (args.map mkWord ++ [⟨sHere, true⟩, ⟨x, false⟩]) h' hm hf (by simp [hfin])]
  exact interp_here args x

private theorem run_here_s (hex : Bool) (args : List Bytes) (fmt out : Bytes) (hp : printfFmt hex fmt = some out)
    (hdash : fmt.head? ≠ some 45) :
    run hex (joinSp (args.map quote) ++ [32, 60, 60, 60, 32] ++ (sSubstOpen ++ quote fmt ++ sSubstClose)) =
      some ⟨args, some (stripNl out ++ [10])⟩ := by
  obtain ⟨s', h, hm, hf, hfin⟩ := run_tail_subst hex args [60, 60, 60] ⟨sHere, true⟩ (flag_here hex) fmt out hp hdash
  have h' : steps hex St.init (joinSp (args.map quote) ++ [32, 60, 60, 60, 32] ++
      (sSubstOpen ++ quote fmt ++ sSubstClose)) = some s' := by simpa using h
  rw [run_of_steps hex _ s' (args.map mkWord ++ [⟨sHere, true⟩, ⟨stripNl out, false⟩]) h' hm hf (by simp [hfin])]
  exact interp_here args _

private theorem cfc_plain (t : Bytes) (h : hasCtl t = false) : contentForConsole t = quote t := by
  simp [contentForConsole, h]

private theorem cfc_ctl (t : Bytes) (h : hasCtl t = true) :
    contentForConsole t = sSubstOpen ++ quote (escText t) ++ sSubstClose := by
  simp [contentForConsole, h, sSubstOpen, sSubstClose]

/-! ### curl -/

/-- the command that is executed is curl -/
theorem curl_executes_curl (p : Bool) (addr : Option Bytes) (r : Req) :
    (curlArgs p addr r).head? = some [99, 117, 114, 108] := by
  simp [curlArgs]

/-- no body: one simple command, argv = `curlArgs`, in every shell -/
theorem curl_no_body (hex p : Bool) (addr : Option Bytes) (r : Req) (hb : r.body = .none) :
    ∃ cmd, curlCommand p addr r = some cmd ∧ run hex cmd = some ⟨curlArgs p addr r, none⟩ := by
  refine ⟨_, by simp [curlCommand, hb], run_join_quote hex _⟩

/-- text body without C0 control characters: the `-d` value is the text, in every shell -/
theorem curl_body_plain (hex p : Bool) (addr : Option Bytes) (r : Req) (t : Bytes) (hb : r.body = .text t)
    (hc : hasCtl t = false) :
    ∃ cmd, curlCommand p addr r = some cmd ∧
      run hex cmd = some ⟨curlArgs p addr r ++ [[45, 100], t], none⟩ := by
  refine ⟨joinSp ((curlArgs p addr r).map quote) ++ [32, 45, 100, 32] ++ contentForConsole t,
    by simp [curlCommand, hb], ?_⟩
  rw [cfc_plain t hc]
  exact run_tail_q hex _ t

/-- text body with control characters under a printf that knows `\xHH` (bash): the value is the text minus its
    trailing newlines -/
theorem curl_body_ctl_bash (p : Bool) (addr : Option Bytes) (r : Req) (t : Bytes) (hb : r.body = .text t)
    (hc : hasCtl t = true) :
    ∃ cmd, curlCommand p addr r = some cmd ∧
      run true cmd = some ⟨curlArgs p addr r ++ [[45, 100], stripNl t], none⟩ := by
  refine ⟨joinSp ((curlArgs p addr r).map quote) ++ [32, 45, 100, 32] ++ contentForConsole t,
    by simp [curlCommand, hb], ?_⟩
  rw [cfc_ctl t hc]
  exact run_tail_s true _ _ t (printf_escText_hex t) (escText_head t)

/-- … under a printf without `\x` (dash): every control byte arrives spelled `\xHH` -/
theorem curl_body_ctl_dash (p : Bool) (addr : Option Bytes) (r : Req) (t : Bytes) (hb : r.body = .text t)
    (hc : hasCtl t = true) :
    ∃ cmd, curlCommand p addr r = some cmd ∧
      run false cmd = some ⟨curlArgs p addr r ++ [[45, 100], stripNl (t.flatMap dashByte)], none⟩ := by
  refine ⟨joinSp ((curlArgs p addr r).map quote) ++ [32, 45, 100, 32] ++ contentForConsole t,
    by simp [curlCommand, hb], ?_⟩
  rw [cfc_ctl t hc]
  exact run_tail_s false _ _ _ (printf_escText_nohex t) (escText_head t)

/-- the statement "for bodies that are valid text — exactly that body", for a shell `hex` and a text `t` -/
def BodyExact (hex : Bool) (t : Bytes) : Prop :=
  ∀ (p : Bool) (addr : Option Bytes) (r : Req), r.body = .text t →
    ∃ cmd, curlCommand p addr r = some cmd ∧ run hex cmd = some ⟨curlArgs p addr r ++ [[45, 100], t], none⟩

/-- `BodyExact` outside the two recorded defect classes: no C0 control character (any shell), or a `\x`-capable
    printf and no trailing newline -/
theorem body_exact_partial (hex : Bool) (t : Bytes)
    (h : hasCtl t = false ∨ (hex = true ∧ t.getLast? ≠ some 10)) : BodyExact hex t := by
  intro p addr r hb
  by_cases hc : hasCtl t = true
  · rcases h with h | ⟨hh, hl⟩
    · simp [hc] at h
    · subst hh
      obtain ⟨cmd, h1, h2⟩ := curl_body_ctl_bash p addr r t hb hc
      exact ⟨cmd, h1, by rw [h2, stripNl_of_last t hl]⟩
  · exact curl_body_plain hex p addr r t hb (by simpa using hc)

private def wReq (t : Bytes) : Req := ⟨[80, 79, 83, 84], [104], [104], 80, [104, 116, 116, 112, 58, 47, 47, 104, 47], [], .text t⟩

/-- F-C48b: `line\n` under bash arrives as `line` -/
theorem body_exact_counterexample_newline : ¬ BodyExact true [108, 105, 110, 101, 10] := by
  intro h
  obtain ⟨cmd, h1, h2⟩ := h false none (wReq [108, 105, 110, 101, 10]) rfl
  obtain ⟨cmd', h1', h2'⟩ := curl_body_ctl_bash false none (wReq [108, 105, 110, 101, 10]) _ rfl (by decide)
  rw [h1] at h1'
  cases h1'
  rw [h2] at h2'
  revert h2'
  decide

/-- F-C48d: `a\x01b` under a printf without `\x` arrives as the six characters `a\x01b` -/
theorem body_exact_counterexample_dash : ¬ BodyExact false [97, 1, 98] := by
  intro h
  obtain ⟨cmd, h1, h2⟩ := h false none (wReq [97, 1, 98]) rfl
  obtain ⟨cmd', h1', h2'⟩ := curl_body_ctl_dash false none (wReq [97, 1, 98]) _ rfl (by decide)
  rw [h1] at h1'
  cases h1'
  rw [h2] at h2'
  revert h2'
  decide

/-- a body that starts with `-` (fixed in /repo: the dash travels as `\055`) is exact under bash -/
example : BodyExact true [45, 1] := body_exact_partial _ _ (Or.inr ⟨rfl, by decide⟩)

/-! ### what the argv means to curl -/

/-- the `-d VALUE` the exporter appends for a text body, as argv -/
def dataArgs : Option Bytes → List Bytes
  | none => []
  | some v => [sD, v]

/-- **argv encodes method, URL and header set.** For every request whose URL does not start with `-`, and whatever
    value travels with `-d`: curl's reading of the exported argv has the request's method (`-X`; without `-X` curl's own
    default agrees with it), exactly one URL — the request's —, one `-H` line per remaining header in order (plus
    `content-length: 0` for a body-less non-GET request), `--compressed` iff an Accept-Encoding header was present, and
    data iff the request has a body. -/
theorem argv_encodes_method_url_headers (p : Bool) (addr : Option Bytes) (r : Req) (d : Option Bytes)
    (hurl : r.url.head? ≠ some 45) (hd : d.isSome = (r.body != .none)) :
    ∃ c, decodeCurl (curlArgs p addr r ++ dataArgs d) = some c ∧
      c.effMethod = r.method ∧ c.urls = [r.url] ∧ c.data = d ∧
      c.headers = ((popHeaders r.host r.headers).filter (fun h => lname h.1 ≠ sAE)).map headerArg ++
        (if r.method ≠ sGET ∧ r.body = .none then [sCL0] else []) ∧
      c.compressed = (popHeaders r.host r.headers).any (fun h => lname h.1 = sAE) := by
  obtain ⟨rs, hrs⟩ := dec_resolve p addr r
    (curlHeaderArgs (popHeaders r.host r.headers) ++ (methodArgs r ++ r.url :: dataArgs d))
    { globoff := ({} : Curl).globoff || hasGlob r.url, pathAsIs := ({} : Curl).pathAsIs || hasSlashDot r.url }
  have hdec : decodeCurl (curlArgs p addr r ++ dataArgs d) =
      decodeCurlArgs (dataArgs d) .none
        { method := if r.method ≠ sGET then some r.method else if r.body ≠ .none then some sGET else none,
          headers := ((popHeaders r.host r.headers).filter (fun h => lname h.1 ≠ sAE)).map headerArg ++
            (if r.method ≠ sGET ∧ r.body = .none then [sCL0] else []),
          compressed := (popHeaders r.host r.headers).any (fun h => lname h.1 = sAE),
          globoff := hasGlob r.url, pathAsIs := hasSlashDot r.url,
          resolve := rs, data := none, urls := [r.url] } := by
    rw [curlArgs_split]
    simp only [decodeCurl, List.cons_append, List.nil_append, List.append_assoc]
    rw [dec_glob, hrs, dec_headers, dec_method]
    rw [dec_url _ _ _ hurl]
    simp
  rw [hdec]
  cases d with
  | none =>
    have hb : r.body = .none := by
      cases hbb : r.body <;> simp [hbb] at hd ⊢
    simp only [dataArgs, decodeCurlArgs]
    refine ⟨_, rfl, ?_, rfl, rfl, rfl, rfl⟩
    by_cases hm : r.method = sGET
    · simp [Curl.effMethod, hm, hb]
    · simp [Curl.effMethod, hm]
  | some v =>
    have hb : r.body ≠ .none := by
      intro hbb; simp [hbb] at hd
    simp only [dataArgs]
    rw [dec_D]
    simp only [decodeCurlArgs]
    refine ⟨_, rfl, ?_, rfl, rfl, rfl, rfl⟩
    by_cases hm : r.method = sGET
    · simp [Curl.effMethod, hm, hb]
    · simp [Curl.effMethod, hm]

/-- without `-X GET`, a GET request with a body would be sent as POST (the defect fixed in /repo): curl's default -/
example : (({ data := some [120] } : Curl).effMethod) = [80, 79, 83, 84] := by decide

/-! ### httpie -/

theorem httpie_no_body (hex : Bool) (r : Req) (hb : r.body = .none) :
    ∃ cmd, httpieCommand r = some cmd ∧ run hex cmd = some ⟨httpieArgs r, none⟩ := by
  refine ⟨_, by simp [httpieCommand, hb], run_join_quote hex _⟩

theorem httpie_body_plain (hex : Bool) (r : Req) (t : Bytes) (hb : r.body = .text t) (hc : hasCtl t = false) :
    ∃ cmd, httpieCommand r = some cmd ∧ run hex cmd = some ⟨httpieArgs r, some (t ++ [10])⟩ := by
  refine ⟨joinSp ((httpieArgs r).map quote) ++ [32, 60, 60, 60, 32] ++ contentForConsole t,
    by simp [httpieCommand, hb], ?_⟩
  rw [cfc_plain t hc]
  exact run_here_q hex _ t

theorem httpie_body_ctl_bash (r : Req) (t : Bytes) (hb : r.body = .text t) (hc : hasCtl t = true) :
    ∃ cmd, httpieCommand r = some cmd ∧ run true cmd = some ⟨httpieArgs r, some (stripNl t ++ [10])⟩ := by
  refine ⟨joinSp ((httpieArgs r).map quote) ++ [32, 60, 60, 60, 32] ++ contentForConsole t,
    by simp [httpieCommand, hb], ?_⟩
  rw [cfc_ctl t hc]
  exact run_here_s true _ _ t (printf_escText_hex t) (escText_head t)

/-- httpie's argv is `http METHOD URL` followed by one `name: value` item per remaining header -/
theorem httpie_argv_shape (r : Req) :
    httpieArgs r = [104, 116, 116, 112] :: r.method :: r.url :: (popHeaders r.host r.headers).map headerArg := by
  simp [httpieArgs]

/-! ### raw export -/

/-- **the raw export parses back.** For a request HTTP/1 can represent (method/target without SP/CR, version without
    CR, field names without `:`/CR and non-empty, values without CR) the reader recovers exactly the request. -/
theorem raw_parses_back (r : RawReq) (h : WireSafe r) : parseRaw (rawRequest r) = some r :=
  parseRaw_rawRequest r h

/-- on that path `assemble_request` is `rawRequest` -/
theorem assemble_nonchunked (r : RawReq) (h : isChunked r.fields = false) : assembleRequest r = some (rawRequest r) := by
  simp [assembleRequest, h]

/-! non-vacuity -/
example : run true (joinSp ([[99, 117, 114, 108], [36, 40, 105, 100, 41], [39], []].map quote)) =
    some ⟨[[99, 117, 114, 108], [36, 40, 105, 100, 41], [39], []], none⟩ := run_join_quote _ _
example : run true [99, 117, 114, 108, 59, 105, 100] = none := by decide       -- `curl;id` is not read as one command
example : quote [36, 40, 105, 100, 41] = [39, 36, 40, 105, 100, 41, 39] := by decide
example : BodyExact false [53, 48, 37] := body_exact_partial _ _ (Or.inl (by decide))
example : WireSafe ⟨[71, 69, 84], [47], [72, 84, 84, 80, 47, 49, 46, 49], [([104], [118])], [98]⟩ := by decide


/-! ## round 3: every emitted construct, every shell, in one statement; what `pop_headers` removes -/

/-- httpie, text body with control characters, under a printf without `\x` (dash would also need `<<<`; ksh/zsh have
    both): the here-string carries the `\xHH`-spelled text -/
theorem httpie_body_ctl_nohex (r : Req) (t : Bytes) (hb : r.body = .text t) (hc : hasCtl t = true) :
    ∃ cmd, httpieCommand r = some cmd ∧
      run false cmd = some ⟨httpieArgs r, some (stripNl (t.flatMap dashByte) ++ [10])⟩ := by
  refine ⟨joinSp ((httpieArgs r).map quote) ++ [32, 60, 60, 60, 32] ++ contentForConsole t,
    by simp [httpieCommand, hb], ?_⟩
  rw [cfc_ctl t hc]
  exact run_here_s false _ _ _ (printf_escText_nohex t) (escText_head t)

/-- **every curl command line the exporter can emit is one simple command** — for every request, body kind, option
    setting and both printf flavours: the reading succeeds (no construct is left uninterpreted: nothing but the emitted
    quoting reaches the shell), there is no redirection, the argv starts with the `curlArgs` of the request (so with `curl`)
    and continues with nothing or with exactly `-d VALUE`. -/
theorem curl_command_single_command (hex p : Bool) (addr : Option Bytes) (r : Req) (cmd : Bytes)
    (h : curlCommand p addr r = some cmd) :
    ∃ tail, run hex cmd = some ⟨curlArgs p addr r ++ tail, none⟩ ∧ (tail = [] ∨ ∃ v, tail = [[45, 100], v]) := by
  cases hb : r.body with
  | none =>
    obtain ⟨c, h1, h2⟩ := curl_no_body hex p addr r hb
    rw [h] at h1; cases h1
    exact ⟨[], by simpa using h2, Or.inl rfl⟩
  | binary => simp [curlCommand, hb] at h
  | text t =>
    by_cases hc : hasCtl t = true
    · cases hex with
      | true =>
        obtain ⟨c, h1, h2⟩ := curl_body_ctl_bash p addr r t hb hc
        rw [h] at h1; cases h1
        exact ⟨_, h2, Or.inr ⟨_, rfl⟩⟩
      | false =>
        obtain ⟨c, h1, h2⟩ := curl_body_ctl_dash p addr r t hb hc
        rw [h] at h1; cases h1
        exact ⟨_, h2, Or.inr ⟨_, rfl⟩⟩
    · obtain ⟨c, h1, h2⟩ := curl_body_plain hex p addr r t hb (by simpa using hc)
      rw [h] at h1; cases h1
      exact ⟨_, h2, Or.inr ⟨_, rfl⟩⟩

/-- … and likewise every httpie command line: argv is exactly `httpieArgs`, the body (if any) arrives on stdin -/
theorem httpie_command_single_command (hex : Bool) (r : Req) (cmd : Bytes) (h : httpieCommand r = some cmd) :
    ∃ stdin, run hex cmd = some ⟨httpieArgs r, stdin⟩ := by
  cases hb : r.body with
  | none =>
    obtain ⟨c, h1, h2⟩ := httpie_no_body hex r hb
    rw [h] at h1; cases h1
    exact ⟨_, h2⟩
  | binary => simp [httpieCommand, hb] at h
  | text t =>
    by_cases hc : hasCtl t = true
    · cases hex with
      | true =>
        obtain ⟨c, h1, h2⟩ := httpie_body_ctl_bash r t hb hc
        rw [h] at h1; cases h1
        exact ⟨_, h2⟩
      | false =>
        obtain ⟨c, h1, h2⟩ := httpie_body_ctl_nohex r t hb hc
        rw [h] at h1; cases h1
        exact ⟨_, h2⟩
    · obtain ⟨c, h1, h2⟩ := httpie_body_plain hex r t hb (by simpa using hc)
      rw [h] at h1; cases h1
      exact ⟨_, h2⟩

/-- the export is refused exactly for bodies that are not valid text -/
theorem curl_refused_iff_binary (p : Bool) (addr : Option Bytes) (r : Req) :
    curlCommand p addr r = none ↔ r.body = .binary := by
  cases hb : r.body <;> simp [curlCommand, hb]

private def sCL : Bytes := [99, 111, 110, 116, 101, 110, 116, 45, 108, 101, 110, 103, 116, 104]
private def sHost : Bytes := [104, 111, 115, 116]
private def sAuth : Bytes := [58, 97, 117, 116, 104, 111, 114, 105, 116, 121]

private theorem popHeaders_cases (host : Bytes) (hs : List (Bytes × Bytes)) :
    popHeaders host hs = dropName (dropName (dropName hs sCL) sHost) sAuth ∨
    popHeaders host hs = dropName (dropName hs sCL) sHost ∨
    popHeaders host hs = dropName (dropName hs sCL) sAuth ∨
    popHeaders host hs = dropName hs sCL := by
  unfold popHeaders
  by_cases c1 : (getJoined (dropName hs sCL) sHost).getD [] = host
  · by_cases c2 : (getJoined (dropName (dropName hs sCL) sHost) sAuth).getD [] = host
    · left; simp [sCL, sHost, sAuth] at c1 c2 ⊢; simp [c1, c2]
    · right; left; simp [sCL, sHost, sAuth] at c1 c2 ⊢; simp [c1, c2]
  · by_cases c2 : (getJoined (dropName hs sCL) sAuth).getD [] = host
    · right; right; left; simp [sCL, sHost, sAuth] at c1 c2 ⊢; simp [c1, c2]
    · right; right; right; simp [sCL, sHost, sAuth] at c1 c2 ⊢; simp [c1, c2]

private theorem dropName_sublist (hs : List (Bytes × Bytes)) (n : Bytes) : (dropName hs n).Sublist hs := List.filter_sublist

private theorem mem_dropName (hs : List (Bytes × Bytes)) (n : Bytes) (h : Bytes × Bytes) (hm : h ∈ hs) (hn : lname h.1 ≠ n) :
    h ∈ dropName hs n := by simp [dropName, List.mem_filter, hm, hn]

/-- `pop_headers` only removes: the header set it leaves is a sub-list of the request's, in order -/
theorem popHeaders_sublist (host : Bytes) (hs : List (Bytes × Bytes)) : (popHeaders host hs).Sublist hs := by
  rcases popHeaders_cases host hs with h | h | h | h <;> rw [h]
  · exact ((dropName_sublist _ _).trans (dropName_sublist _ _)).trans (dropName_sublist _ _)
  · exact (dropName_sublist _ _).trans (dropName_sublist _ _)
  · exact (dropName_sublist _ _).trans (dropName_sublist _ _)
  · exact dropName_sublist _ _

/-- … and it removes nothing but Content-Length, Host and :authority lines: every other field line survives -/
theorem popHeaders_keeps_others (host : Bytes) (hs : List (Bytes × Bytes)) (h : Bytes × Bytes) (hm : h ∈ hs)
    (h1 : lname h.1 ≠ [99, 111, 110, 116, 101, 110, 116, 45, 108, 101, 110, 103, 116, 104])
    (h2 : lname h.1 ≠ [104, 111, 115, 116]) (h3 : lname h.1 ≠ [58, 97, 117, 116, 104, 111, 114, 105, 116, 121]) :
    h ∈ popHeaders host hs := by
  have a := mem_dropName hs sCL h hm h1
  rcases popHeaders_cases host hs with e | e | e | e <;> rw [e]
  · exact mem_dropName _ _ h (mem_dropName _ _ h a h2) h3
  · exact mem_dropName _ _ h a h2
  · exact mem_dropName _ _ h a h3
  · exact a

example : popHeaders [104] [([72, 111, 115, 116], [104]), ([88], [49]), ([67, 111, 110, 116, 101, 110, 116, 45, 76, 101, 110, 103, 116, 104], [53])]
    = [([88], [49])] := by decide
example : popHeaders [104] [([72, 111, 115, 116], [122])] = [([72, 111, 115, 116], [122])] := by decide


/-- under `Transfer-Encoding: chunked`, `assemble_request` writes the head followed by the chunk-framed content -/
theorem assemble_chunked (r : RawReq) (h : isChunked r.fields = true) :
    assembleRequest r = some (rawRequest { r with body := chunkedBody r.body }) := by
  simp [assembleRequest, h, rawRequest, chunkedBody, List.append_assoc]

/-- **the raw export parses back on the chunked path too**: for a representable request whose headers announce chunked
    transfer coding, reading the head and un-chunking the body recovers exactly the request, for every content. -/
theorem raw_chunked_parses_back (r : RawReq) (hs : WireSafe r) (h : isChunked r.fields = true) :
    ∃ raw, assembleRequest r = some raw ∧ parseRawChunked raw = some r := by
  refine ⟨_, assemble_chunked r h, ?_⟩
  have hs' : WireSafe { r with body := chunkedBody r.body } := by simpa [WireSafe, wireSafe] using hs
  unfold parseRawChunked
  rw [parseRaw_rawRequest _ hs']
  simp only
  rw [parseChunked_chunkedBody r.body _ (by simp [chunkedBody])]
  rfl

example : parseChunked 9 (chunkedBody [97, 98, 99]) = some [97, 98, 99] := by decide
example : chunkedBody [] = [48, 13, 10, 13, 10] := by decide
example : hexNat 255 = [102, 102] ∧ hexNat 0 = [48] ∧ hexNat 4096 = [49, 48, 48, 48] := by decide


/-! ## round 6: the transfer-coding test is case-insensitive -/

private theorem asciiLowerB_idem_fin : ∀ n : Fin 256, asciiLowerB (asciiLowerB (UInt8.ofNat n.val)) = asciiLowerB (UInt8.ofNat n.val) := by
  decide +kernel

private theorem asciiLower_idem (v : Bytes) : asciiLower (asciiLower v) = asciiLower v := by
  unfold asciiLower
  induction v with
  | nil => rfl
  | cons c r ih =>
    have := asciiLowerB_idem_fin ⟨c.toNat, UInt8.toNat_lt c⟩
    simp only [List.map_cons, List.map_map] at ih ⊢
    simp at this
    simp [this, ih]

/-- **`Chunked`, `CHUNKED`, `gzip, Chunked` … frame the body like `chunked`**: whether `assemble_request` chunk-frames a
    request with one Transfer-Encoding line depends only on the lower-cased value (and not on the case of the field name) -/
theorem isChunked_case_insensitive (n v : Bytes) : isChunked [(n, v)] = isChunked [(asciiLower n, asciiLower v)] := by
  unfold isChunked getJoined lname
  by_cases h : asciiLower n = [116, 114, 97, 110, 115, 102, 101, 114, 45, 101, 110, 99, 111, 100, 105, 110, 103]
  · have hn : asciiLower [116, 114, 97, 110, 115, 102, 101, 114, 45, 101, 110, 99, 111, 100, 105, 110, 103] =
        [116, 114, 97, 110, 115, 102, 101, 114, 45, 101, 110, 99, 111, 100, 105, 110, 103] := by decide
    simp [h, hn, asciiLower_idem]
  · simp [h, asciiLower_idem]

example : isChunked [([84, 69], [67, 104, 117, 110, 107, 101, 100])] = false := by decide      -- other field name
example : isChunked [([116, 114, 97, 110, 115, 102, 101, 114, 45, 101, 110, 99, 111, 100, 105, 110, 103], [67, 104, 117, 110, 107, 101, 100])] = true := by
  decide                                                                                          -- "Chunked"
example : isChunked [([84, 114, 97, 110, 115, 102, 101, 114, 45, 69, 110, 99, 111, 100, 105, 110, 103],
    [103, 122, 105, 112, 44, 32, 67, 72, 85, 78, 75, 69, 68])] = true := by decide                 -- Transfer-Encoding: gzip, CHUNKED


/-! ## round 5: the URL argument names the request's host — `url.unparse` (C33's transcription) read back as a client does -/

/-- **the exported URL dials the request's host and port**, for every scheme without a colon, every host a URL can carry
    (non-empty, none of `/ ? # [ ] @`) that is either an IPv6 literal (contains `:`; it is printed in brackets) or contains no
    colon at all, every port and every path that is empty or starts with `/`, `?` or `#`: reading the authority of
    `unparse scheme host port path` the way curl/httpie do gives back exactly `host`, with the port digits unless it is the
    scheme's default port. -/
theorem url_argument_dials_request_host (scheme h path : UStr) (port : Nat)
    (hs : scheme.all (fun c => decide (c ≠ 58)) = true) (hh : hostCarried h = true) (hpath : pathStarts path = true)
    (hv6 : h.contains 58 = true ∨ h.all (fun c => decide (c ≠ 58)) = true) :
    dial (C33.unparse scheme h port path) =
      some (h, if C33.defaultPort scheme = some port then none else some (C33.decDigits port)) :=
  dial_unparse scheme h path port hs hh hpath hv6

/-- an IPv6 literal printed without brackets (what seed c48-5 produced for default ports) is not readable -/
example : dial (C33.S "http://2001:db8::1/path") = none := by decide
example : dial (C33.unparse (C33.S "http") (C33.S "2001:db8::1") 80 (C33.S "/path")) = some (C33.S "2001:db8::1", none) := by decide
example : dial (C33.unparse (C33.S "https") (C33.S "::1") 8443 (C33.S "/")) = some (C33.S "::1", some (C33.S "8443")) := by decide
example : dial (C33.unparse (C33.S "http") (C33.S "example.com") 8080 []) = some (C33.S "example.com", some (C33.S "8080")) := by decide

/-! ## audit round 6 (cross-audit): non-vacuity witnesses on one concrete request -/

private def auditReq : Req :=
  { method := [80, 85, 84], host := [104], prettyHost := [104], port := 80,
    url := [104, 116, 116, 112, 58, 47, 47, 104, 47, 36, 40, 105, 100, 41],      -- http://h/$(id)
    headers := [([88], [39, 59, 114, 109]), ([72, 111, 115, 116], [104])],       -- X: ';rm   Host: h
    body := .text [97, 32, 98] }

/-- `curl_body_plain` / `curl_command_single_command` / `argv_encodes_method_url_headers` on a request with shell
    metacharacters in URL and header value: one command, argv = curl -H "X: ';rm" -X PUT URL -d "a b", read back by the curl
    reader as PUT, that URL, that header, that body (the Host line is popped) -/
example : ∃ cmd, curlCommand false none auditReq = some cmd ∧
    run false cmd = some ⟨curlArgs false none auditReq ++ [[45, 100], [97, 32, 98]], none⟩ ∧
    run true cmd = run false cmd ∧
    (decodeCurl (curlArgs false none auditReq ++ [[45, 100], [97, 32, 98]])).map
      (fun c => (c.effMethod, c.urls, c.headers, c.data)) =
      some ([80, 85, 84], [auditReq.url], [[88, 58, 32, 39, 59, 114, 109]], some [97, 32, 98]) := by
  refine ⟨_, rfl, ?_, ?_, ?_⟩ <;> decide +kernel

/-- `httpie_command_single_command` on the same request (no body): one command whose argv is `httpieArgs` -/
example : ∃ cmd, httpieCommand { auditReq with body := .none } = some cmd ∧
    run true cmd = some ⟨httpieArgs { auditReq with body := .none }, none⟩ := by
  refine ⟨_, rfl, ?_⟩; decide +kernel

/-- `curl_refused_iff_binary`, and a control character makes the two shells differ (the recorded F-C48d class) -/
example : curlCommand false none { auditReq with body := .binary } = none ∧
    hasCtl [97, 1, 98] = true := by decide


/-! ## round 6 owner fixes: every header reaches the wire (empty values), curl's and httpie's reading of a header argument -/

private theorem tw8_app (p : UInt8 → Bool) : ∀ (l : Bytes) (c : UInt8) (r : Bytes), l.all p = true → p c = false →
    (l ++ c :: r).takeWhile p = l ∧ (l ++ c :: r).dropWhile p = c :: r := by
  intro l
  induction l with
  | nil => intro c r _ hc; simp [List.takeWhile, List.dropWhile, hc]
  | cons x xs ih =>
    intro c r hl hc
    simp only [List.all_cons, Bool.and_eq_true] at hl
    obtain ⟨h1, h2⟩ := ih c r hl.2 hc
    simp [List.takeWhile, List.dropWhile, hl.1, h1, h2]

private theorem dw8_nil (p : UInt8 → Bool) : ∀ (l : Bytes), l.dropWhile p = [] → ∀ a ∈ l, p a = true := by
  intro l
  induction l with
  | nil => intro _ a ha; cases ha
  | cons x xs ih =>
    intro h a ha
    by_cases hx : p x = true
    · simp [List.dropWhile, hx] at h
      rcases List.mem_cons.mp ha with e | e
      · rw [e]; exact hx
      · exact ih h a e
    · simp [List.dropWhile, hx] at h

private theorem curlSpace_pyWs : ∀ n : Fin 256, isCurlSpace (UInt8.ofNat n.val) = true → isPyWs (UInt8.ofNat n.val) = true := by
  decide +kernel

/-- **no header is lost on the way to the wire (curl)**: for every header whose name contains neither `:` nor `;`, curl puts
    a line on the wire for the `-H` argument the exporter writes — `name: value` verbatim when the value is not blank,
    `name:` when it is empty or blank (written `name;`). -/
theorem curl_sends_every_header (h : Bytes × Bytes)
    (hc : h.1.all (fun c => c != 58) = true) (hs : h.1.all (fun c => c != 59) = true) :
    sentHeader (headerArg h) =
      some (if h.2.all isPyWs then h.1 ++ [58] else h.1 ++ [58, 32] ++ h.2) := by
  unfold headerArg sentHeader
  by_cases hb : h.2.all isPyWs = true
  · simp only [hb, if_true]
    have hno : (h.1 ++ [59]).contains 58 = false := by
      simp only [List.contains_eq_any_beq, List.any_append, List.any_cons, List.any_nil, Bool.or_false, Bool.or_eq_false_iff]
      refine ⟨?_, by decide⟩
      simp only [List.any_eq_false, beq_iff_eq]
      intro x hx e
      have := (List.all_eq_true.mp hc) x hx
      simp [e] at this
    obtain ⟨t, d⟩ := tw8_app (fun c => c != 59) h.1 59 [] hs (by decide)
    have h58 : (58 : UInt8) ∉ h.1 := by
      intro hm
      have := (List.all_eq_true.mp hc) 58 hm
      simp at this
    simp [hno, t, d, h58]
  · simp only [hb, Bool.false_eq_true, if_false]
    have hyes : (h.1 ++ [58, 32] ++ h.2).contains 58 = true := by simp [List.contains_eq_any_beq]
    obtain ⟨t, d⟩ := tw8_app (fun c => c != 58) h.1 58 (32 :: h.2) hc (by decide)
    have e : h.1 ++ [58, 32] ++ h.2 = h.1 ++ 58 :: 32 :: h.2 := by simp
    have hne : (h.2.dropWhile isCurlSpace) ≠ [] := by
      intro hnil
      have hall : ∀ a ∈ h.2, isCurlSpace a = true := dw8_nil isCurlSpace h.2 hnil
      apply hb
      simp only [List.all_eq_true]
      intro a ha
      have := curlSpace_pyWs ⟨a.toNat, UInt8.toNat_lt a⟩ (by simpa using hall a ha)
      simpa using this
    rw [hyes, e, d]
    simp [List.dropWhile, isCurlSpace, hne]

/-- the defect fixed in /repo (0f1b16ec7): the old form `Name: ` of an empty-valued header is REMOVED by curl -/
theorem old_empty_header_dropped_counterexample :
    sentHeader (headerArgOld ([120, 45, 101], [])) = none ∧ sentHeader (headerArg ([120, 45, 101], [])) = some [120, 45, 101, 58] := by
  decide

example : headerArg ([120], [32, 9]) = [120, 59] ∧ headerArg ([120], [118]) = [120, 58, 32, 118] := by decide
example : sentHeader [88, 59, 105, 100, 59] = none := by decide          -- "X;id;": a name containing ';' is outside the guard


/-- **the URL is taken literally** (fixes in /repo: `--globoff`, `--path-as-is`): whenever the URL contains one of `[ ] { }` — which
    curl would otherwise expand as a URL globbing pattern, requesting `/a` and `/b` for `/{a,b}` — curl's reading of the exported
    argv has `--globoff` set; whenever it contains `/.` (a possible dot segment, which curl would remove: `/a/../b` → `/b`) it has
    `--path-as-is` set; and there is exactly one URL, the request's. -/
theorem curl_url_taken_literally (p : Bool) (addr : Option Bytes) (r : Req) (hurl : r.url.head? ≠ some 45) :
    ∃ c, decodeCurl (curlArgs p addr r) = some c ∧ c.urls = [r.url] ∧ c.globoff = hasGlob r.url ∧
      c.pathAsIs = hasSlashDot r.url := by
  obtain ⟨rs, hrs⟩ := dec_resolve p addr r
    (curlHeaderArgs (popHeaders r.host r.headers) ++ (methodArgs r ++ [r.url]))
    { globoff := ({} : Curl).globoff || hasGlob r.url, pathAsIs := ({} : Curl).pathAsIs || hasSlashDot r.url }
  have h : decodeCurl (curlArgs p addr r) = some
      { method := if r.method ≠ sGET then some r.method else if r.body ≠ .none then some sGET else none,
        headers := ((popHeaders r.host r.headers).filter (fun h => lname h.1 ≠ sAE)).map headerArg ++
          (if r.method ≠ sGET ∧ r.body = .none then [sCL0] else []),
        compressed := (popHeaders r.host r.headers).any (fun h => lname h.1 = sAE),
        globoff := hasGlob r.url, pathAsIs := hasSlashDot r.url, resolve := rs, data := none, urls := [r.url] } := by
    rw [curlArgs_split]
    simp only [decodeCurl, List.cons_append, List.nil_append, List.append_assoc]
    rw [dec_glob, hrs, dec_headers, dec_method, dec_url _ _ _ hurl]
    simp [decodeCurlArgs]
  exact ⟨_, h, rfl, rfl, rfl⟩

/-- before the fix the argv of a request to `/{a,b}` had no `--globoff` -/
example : hasGlob [47, 123, 97, 44, 98, 125] = true ∧ hasGlob [47, 112, 63, 97, 61, 98] = false := by decide
example : hasSlashDot [47, 97, 47, 46, 46, 47, 98] = true ∧ hasSlashDot [104, 116, 116, 112, 58, 47, 47, 104, 46, 120, 47, 112] = false := by decide


/-! ## the httpie clause beyond the argv: request items read by httpie's documented grammar (modelled, untied) -/

/-- **httpie_items_read_back_partial**: for a header whose name contains none of `: = @ ; \` and whose value contains no `\`,
    the item the exporter writes is read by httpie's (documented) item grammar as that header — `Name;` as the header with an
    empty value, otherwise name and value (up to leading blanks).  `_partial`: names/values with item separators or backslashes
    are outside; httpie's own default headers and the METHOD/URL positional rules are not modelled; nothing here is tied to httpie. -/
theorem httpie_items_read_back_partial (h : Bytes × Bytes)
    (hn : h.1.all (fun c => !isItemSep c && c != 92) = true) (hv : h.2.all (fun c => c != 92) = true) :
    httpieItem (headerArg h) =
      if h.2.all isPyWs then .emptyHeader h.1 else .header h.1 (h.2.dropWhile isPyWs) := by
  have hsep : h.1.all (fun c => !isItemSep c) = true := by
    simp only [List.all_eq_true, Bool.and_eq_true] at hn ⊢
    exact fun c hc => (hn c hc).1
  have hbs1 : (92 : UInt8) ∉ h.1 := by
    intro hm
    have := (List.all_eq_true.mp hn) 92 hm
    simp at this
  have hbs2 : (92 : UInt8) ∉ h.2 := by
    intro hm
    have := (List.all_eq_true.mp hv) 92 hm
    simp at this
  unfold headerArg httpieItem
  by_cases hb : h.2.all isPyWs = true
  · simp only [hb, if_true]
    obtain ⟨t, d⟩ := tw8_app (fun c => !isItemSep c) h.1 59 [] hsep (by decide)
    have hno : (h.1 ++ [59]).contains 92 = false := by simp [List.contains_eq_any_beq, hbs1]
    simp [hno, t, d, hbs1]
  · simp only [hb, Bool.false_eq_true, if_false]
    obtain ⟨t, d⟩ := tw8_app (fun c => !isItemSep c) h.1 58 (32 :: h.2) hsep (by decide)
    have e : h.1 ++ [58, 32] ++ h.2 = h.1 ++ 58 :: 32 :: h.2 := by simp
    have hno : (h.1 ++ 58 :: 32 :: h.2).contains 92 = false := by simp [List.contains_eq_any_beq, hbs1, hbs2]
    have hne : h.2.dropWhile isPyWs ≠ [] := by
      intro hnil
      exact hb (by simpa [List.all_eq_true] using dw8_nil isPyWs h.2 hnil)
    rw [e, hno]
    simp only [Bool.false_eq_true, if_false, d, t]
    have h32 : isPyWs 32 = true := by decide
    simp [List.dropWhile, h32, hne]

/-- the defect fixed in /repo (0f1b16ec7), httpie side: the old item `Name: ` UNSETS the header -/
theorem httpie_old_empty_header_counterexample :
    httpieItem (headerArgOld ([120, 45, 101], [])) = .unsetHeader [120, 45, 101] ∧
    httpieItem (headerArg ([120, 45, 101], [])) = .emptyHeader [120, 45, 101] := by decide

example : httpieItem [97, 61, 98, 58, 32, 118] = .other := by decide       -- "a=b: v": read as a data field, outside the guard
example : httpieItem [110, 58, 32, 118] = .header [110] [118] := by decide

end MitmVerif.Props.C48
