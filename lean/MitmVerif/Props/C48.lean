import MitmVerif.Model.C48
namespace MitmVerif.Props.C48
open MitmVerif MitmVerif.C48

theorem quote_empty : Sh.quote [] = [39, 39] := by decide

end MitmVerif.Props.C48
