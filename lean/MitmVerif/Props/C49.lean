/-
  C49 — property theorems.
  * `escaped_has_no_Cc_except_tab_lf_cr` : escape_control_characters(s) contains no Unicode-Cc character other
    than TAB / LF / CR, for every string s          (table by `decide +kernel`, lifted to all strings)
  * `escaped_nokeep_has_no_Cc`           : with keep_spacing=False no Cc character at all
  * `escape_keeps_other_characters`      : code points outside Cc are left unchanged (the model is not constant)
  * `every_echo_path_escaped`            : no piece that reaches `Dumper.echo` is an unformatted run-time value
  * `dumper_output_clean`                : for ALL field values, content views and internally generated texts
    every line any `echo` call site may write is free of Cc characters except TAB / LF / CR (styling frames as sentinels)
-/
import MitmVerif.Model.C49
import MitmVerif.Props.C51
namespace MitmVerif.Props.C49
open MitmVerif MitmVerif.C49 MitmVerif.Gen.C49

/-! ### the escape table -/

private theorem cc_mem_isCc : ∀ c ∈ ccList, isCc c = true := by decide +kernel

private theorem isCc_mem_fin : ∀ n : Fin 160, isCc n.val = true → n.val ∈ ccList := by decide +kernel

/-- the model's `isCc` is exactly membership in the Cc list generated from `unicodedata` -/
theorem isCc_iff_mem_ccList (c : Nat) : isCc c = true ↔ c ∈ ccList := by
  constructor
  · intro h
    by_cases hc : c < 160
    · exact isCc_mem_fin ⟨c, hc⟩ h
    · simp [isCc] at h; omega
  · exact cc_mem_isCc c

/-- every Cc code point has an entry in the regenerated table (so "no entry ⇒ identity" never lets one through) -/
theorem table_covers_cc : ∀ c ∈ ccList, (ctrlTable.lookup c).isSome = true := by decide +kernel

/-- the translate tables have no key beyond the tabulated range -/
theorem table_covers_translate_keys : maxTransKey < 256 ∧ ∀ n : Fin 256, (ctrlTable.lookup n.val).isSome = true := by
  decide +kernel

private theorem table_rows_keep : ∀ e ∈ ctrlTable, ∀ c ∈ e.2.1, isCc c = true → (c = 9 ∨ c = 10 ∨ c = 13) := by
  decide +kernel

private theorem table_rows_nokeep : ∀ e ∈ ctrlTable, ∀ c ∈ e.2.2, isCc c = false := by decide +kernel

private theorem table_rows_identity : ∀ e ∈ ctrlTable, isCc e.1 = false → e.2.1 = [e.1] ∧ e.2.2 = [e.1] := by
  decide +kernel

private theorem lookup_mem {α β : Type} [BEq α] [LawfulBEq α] (l : List (α × β)) (k : α) (v : β)
    (h : l.lookup k = some v) : (k, v) ∈ l := by
  induction l with
  | nil => simp [List.lookup] at h
  | cons x xs ih =>
    obtain ⟨a, b⟩ := x
    simp only [List.lookup] at h
    split at h
    · rename_i heq
      have : k = a := by simpa using heq
      subst this
      cases h; simp
    · exact List.mem_cons_of_mem _ (ih h)

private theorem escCp_keep (cp c : Nat) (hc : c ∈ escCp true cp) (hcc : isCc c = true) :
    c = 9 ∨ c = 10 ∨ c = 13 := by
  unfold escCp at hc
  split at hc
  · rename_i a b hl
    have hm := lookup_mem _ _ _ hl
    exact table_rows_keep _ hm c (by simpa using hc) hcc
  · rename_i hl
    simp at hc; subst hc
    have := table_covers_cc c ((isCc_iff_mem_ccList c).1 hcc)
    simp [hl] at this

private theorem escCp_nokeep (cp c : Nat) (hc : c ∈ escCp false cp) : isCc c = false := by
  unfold escCp at hc
  split at hc
  · rename_i a b hl
    have hm := lookup_mem _ _ _ hl
    exact table_rows_nokeep _ hm c (by simpa using hc)
  · rename_i hl
    simp at hc; subst hc
    cases hcc : isCc c with
    | false => rfl
    | true =>
      have := table_covers_cc c ((isCc_iff_mem_ccList c).1 hcc)
      simp [hl] at this

/-- **C49 (escape function).** For every string, `escape_control_characters(s)` contains no control character
    (Unicode Cc, which includes ESC and the C1 controls) other than TAB, LF and CR. -/
theorem escaped_has_no_Cc_except_tab_lf_cr (s : List Nat) :
    ∀ c ∈ escapeControl true s, c ∈ ccList → (c = 9 ∨ c = 10 ∨ c = 13) := by
  intro c hc hcc
  simp only [escapeControl, List.mem_flatMap] at hc
  obtain ⟨cp, _, hcp⟩ := hc
  exact escCp_keep cp c hcp ((isCc_iff_mem_ccList c).2 hcc)

/-- with `keep_spacing=False` the result has no control character at all -/
theorem escaped_nokeep_has_no_Cc (s : List Nat) : ∀ c ∈ escapeControl false s, c ∉ ccList := by
  intro c hc hcc
  simp only [escapeControl, List.mem_flatMap] at hc
  obtain ⟨cp, _, hcp⟩ := hc
  have := escCp_nokeep cp c hcp
  rw [(isCc_iff_mem_ccList c).2 hcc] at this
  cases this

/-- code points outside Cc are left unchanged: the model is not the constant "." function -/
theorem escape_keeps_other_characters (k : Bool) (cp : Nat) (h : cp ∉ ccList) : escCp k cp = [cp] := by
  have hcc : isCc cp = false := by
    cases hc : isCc cp with
    | false => rfl
    | true => exact absurd ((isCc_iff_mem_ccList cp).1 hc) h
  unfold escCp
  split
  · rename_i a b hl
    have hm := lookup_mem _ _ _ hl
    have := table_rows_identity _ hm hcc
    cases k <;> simp_all
  · rfl

private theorem escapeControl_clean (s : List Nat) : Clean (escapeControl true s) := by
  intro c hc
  cases hcc : isCc c with
  | false => simp [allowed, hcc]
  | true =>
    have := escaped_has_no_Cc_except_tab_lf_cr s c hc ((isCc_iff_mem_ccList c).1 hcc)
    rcases this with rfl | rfl | rfl <;> decide

/-- **Exact behaviour for every input, astral code points and surrogates included** (strings are lists of arbitrary
    naturals): a code point is replaced by "." exactly when it is a Cc control character that is not kept (TAB/LF/CR
    with keep_spacing), and is left unchanged otherwise.  In particular the function does NOT touch Cf format characters
    (soft hyphen, bidi overrides, BOM, tags): see `escape_leaves_Cf_unchanged`. -/
theorem escape_spec (k : Bool) (cp : Nat) :
    escCp k cp = if isCc cp = true ∧ ¬ (k = true ∧ (cp = 9 ∨ cp = 10 ∨ cp = 13)) then [46] else [cp] := by
  by_cases hcc : isCc cp = true
  · have hlt : cp < 160 := by simp [isCc] at hcc; omega
    have key : ∀ n : Fin 160, ∀ k : Bool, isCc n.val = true →
        escCp k n.val = if isCc n.val = true ∧ ¬ (k = true ∧ (n.val = 9 ∨ n.val = 10 ∨ n.val = 13)) then [46] else [n.val] := by
      decide +kernel
    exact key ⟨cp, hlt⟩ k hcc
  · have hf : isCc cp = false := by simpa using hcc
    have := escape_keeps_other_characters k cp (fun h => by rw [(isCc_iff_mem_ccList cp).2 h] at hf; cases hf)
    simp [this, hf]

/-- whole strings: the output is the input with exactly the non-kept Cc characters replaced by "." (same length) -/
theorem escapeControl_spec (k : Bool) (s : List Nat) :
    escapeControl k s = s.map (fun cp => if isCc cp = true ∧ ¬ (k = true ∧ (cp = 9 ∨ cp = 10 ∨ cp = 13)) then 46 else cp) := by
  induction s with
  | nil => rfl
  | cons c rest ih =>
    simp only [escapeControl, List.flatMap_cons, List.map_cons] at ih ⊢
    rw [escape_spec, ih]
    split <;> rfl

/-- Cf format characters (BMP list regenerated from unicodedata) are not control characters for this function: they pass
    through unchanged.  The property statement only speaks of control characters (Cc). -/
theorem escape_leaves_Cf_unchanged : ∀ c ∈ cfListBmp, ∀ k : Bool, escCp k c = [c] ∧ isCc c = false := by decide +kernel

/-! ### the echo-path table -/

/-- the `pretty` formatter: every `return` of `prettify_message` hands out a clean literal or a text that was escaped in the
    statement before (static scan of contentviews/__init__.py; the auto-fallback branch is one of these returns) -/
theorem prettify_returns_escaped : ∀ r ∈ prettifyReturns,
    (r.2 = "lit" ∧ (r.1.toList.map Char.toNat).all allowed = true) ∨ r.2 = "esc" := by decide +kernel

/-- the only call in dumper.py that writes text to a stream is `print(text, file=self.outfp)` inside `Dumper.echo`
    (static scan of every print / .write / click echo / logging call), so `echoLines` covers every terminal write -/
theorem only_echo_writes : ∀ w ∈ writeSites, w = ("echo", "print(text, file=self.outfp)") := by decide +kernel


/-- **C49 (echo paths).** No piece of any text handed to `Dumper.echo` is a run-time value that skipped the
    escaping helpers (static scan of dumper.py, regenerated every run). -/
theorem every_echo_path_escaped : ∀ p ∈ echoPaths, p.2.2 ≠ Fmt.raw := by decide +kernel

/-- the same, stated on the call-site table -/
theorem no_raw_piece : ∀ l ∈ echoLines, ∀ p ∈ l.2, isRaw p = false := by decide +kernel

/-- the literals of dumper.py that reach `echo` contain no control character themselves -/
theorem literals_clean : ∀ l ∈ echoLines, ∀ p ∈ l.2, litClean p = true := by decide +kernel

/-- the two generated tables agree: every non-literal piece of a call site is listed as an echo path -/
theorem echoPaths_complete : ∀ l ∈ echoLines, ∀ p ∈ l.2, pieceListed l.1 p = true := by decide +kernel

private theorem besc_clean (bs : Bytes) : Clean ((C51.enc false false bs).map (·.toNat)) := by
  intro c hc
  simp only [List.mem_map] at hc
  obtain ⟨b, hb, rfl⟩ := hc
  have := MitmVerif.Props.C51.output_no_control false bs b hb
  simp [allowed, isCc]
  omega

private theorem piece_clean (env : Env) (hint : ∀ o, Clean (env.internal o)) (p : Piece)
    (hraw : isRaw p = false) (hlit : litClean p = true) : Clean (renderPiece env p) := by
  cases p with
  | lit cps =>
    intro c hc
    simp only [litClean, List.all_eq_true] at hlit
    exact hlit c hc
  | field o f =>
    cases f with
    | esc => exact escapeControl_clean _
    | besc => exact besc_clean _
    | pretty => exact escapeControl_clean _
    | internal => exact hint o
    | raw => simp [isRaw] at hraw

/-- **C49 (Dumper).** Whatever the flow contains (`env.text`, `env.bytes` arbitrary), whatever the content view
    computes (`env.view` arbitrary), every line that any `echo` call site of dumper.py may write — pieces in any
    order and multiplicity, indentation, line breaks and the SGR frames added by `style` (ESC shown as a non-control
    sentinel) — contains no control character except TAB, LF and CR.  Hypotheses: the texts mitmproxy generates
    from numbers/enums are clean, the sentinel is not a control character. -/
theorem dumper_output_clean (env : Env) (sentinel : Nat) (hs : isCc sentinel = false)
    (hint : ∀ o, Clean (env.internal o)) :
    ∀ l ∈ echoLines, ∀ out, MayEcho env sentinel l.2 out → Clean out := by
  intro l hl out hmay c hc
  rcases hmay c hc with h | rfl | rfl | h
  · simp only [lineChars, List.mem_flatMap] at h
    obtain ⟨p, hp, hcp⟩ := h
    exact piece_clean env hint p (no_raw_piece l hl p hp) (literals_clean l hl p hp) c hcp
  · decide
  · decide
  · simp only [styleChar, Bool.or_eq_true, beq_iff_eq, Bool.and_eq_true, decide_eq_true_eq] at h
    rcases h with (((rfl | rfl) | rfl) | rfl) | ⟨h1, h2⟩
    · simp [allowed, hs]
    · decide
    · decide
    · decide
    · simp [allowed, isCc]; omega

/-- a raw piece would break the statement: with an unescaped field the attacker's ESC reaches the output
    (this is what the unfixed dumper did for the WebSocket path, close reason, DNS names, addresses) -/
theorem raw_piece_counterexample :
    ∃ env : Env, (∀ o, Clean (env.internal o)) ∧
      MayEcho env 0xE000 [.field "f.request.path" .raw] [0x1b, 0x5b] ∧ ¬ Clean [0x1b, 0x5b] := by
  refine ⟨⟨fun _ => [0x1b, 0x5b], fun _ => [], id, fun _ => []⟩, ?_, ?_, by decide⟩
  · intro o c hc; simp at hc
  · intro c hc; left; simpa [lineChars, renderPiece, fmtApply] using hc

-- non-vacuity / sanity (kernel-computed)
example : escapeControl true [0x1b, 0x5b, 0x9b, 0x85, 0x7f, 9, 10, 13, 0x41, 0x2028, 0xe9] =
    [46, 0x5b, 46, 46, 46, 9, 10, 13, 0x41, 0x2028, 0xe9] := by decide +kernel
example : escapeControl false [9, 10, 13, 0x41] = [46, 46, 46, 0x41] := by decide +kernel
example : echoLines.length ≥ 10 ∧ echoPaths.length ≥ 20 := by decide +kernel
example : (Fmt.esc) ∈ echoPaths.map (·.2.2) ∧ Fmt.besc ∈ echoPaths.map (·.2.2) ∧ Fmt.pretty ∈ echoPaths.map (·.2.2) := by
  decide +kernel
-- hypotheses of dumper_output_clean are satisfiable, and MayEcho admits a non-trivial line
example : ∃ env : Env, (∀ o, Clean (env.internal o)) ∧ isCc 0xE000 = false ∧
    MayEcho env 0xE000 [.lit [0x3a, 0x20], .field "x" .esc] [0xE000, 0x5b, 0x31, 0x6d, 46, 0x3a, 10] := by
  refine ⟨⟨fun _ => [0x1b], fun _ => [], id, fun _ => [0x32]⟩, ?_, by decide, ?_⟩
  · intro o c hc; simp at hc; subst hc; decide
  · intro c hc
    simp at hc
    rcases hc with rfl | rfl | rfl | rfl | rfl | rfl | rfl
    · right; right; right; decide
    · right; right; right; decide
    · right; right; right; decide
    · right; right; right; decide
    · left; decide +kernel
    · left; decide +kernel
    · right; right; left; rfl

-- audit round 6 (b-c44): non-vacuity witnesses appended by the cross-auditor
-- the generated tables the table theorems quantify over are not empty
example : ccList.length = 65 ∧ cfListBmp.length ≥ 30 ∧ prettifyReturns.length ≥ 2 ∧ writeSites.length = 1 ∧
    ctrlTable.length ≥ 256 := by decide +kernel
-- a real call site of dumper.py carries attacker text through `esc` …
example : ∃ l ∈ echoLines, l.1 = "websocket_end" ∧ Piece.field "f.websocket.close_reason" Fmt.esc ∈ l.2 := by
  decide +kernel
-- … and `dumper_output_clean` applied to that call site with an attacker close reason `ESC ] 0 ; x BEL`, styled:
example :
    let env : Env := ⟨fun _ => [0x1b, 0x5d, 0x30, 0x3b, 0x78, 0x07], fun _ => [], id, fun _ => [0x31, 0x30, 0x30, 0x30]⟩
    let out := [0xE000, 0x5b, 0x31, 0x6d] ++ escapeControl true (env.text "f.websocket.close_reason") ++ [10]
    ∃ l ∈ echoLines, l.1 = "websocket_end" ∧ MayEcho env 0xE000 l.2 out ∧ Clean out ∧ out.length = 11 := by
  intro env out
  have hex : ∃ l ∈ echoLines, l.1 = "websocket_end" ∧ Piece.field "f.websocket.close_reason" Fmt.esc ∈ l.2 := by
    decide +kernel
  obtain ⟨l, hl, hname, hp⟩ := hex
  have hmay : MayEcho env 0xE000 l.2 out := by
    intro c hc
    simp only [out, List.mem_append, List.mem_cons, List.not_mem_nil, or_false] at hc
    rcases hc with ((rfl | rfl | rfl | rfl) | hc) | rfl
    · right; right; right; decide
    · right; right; right; decide
    · right; right; right; decide
    · right; right; right; decide
    · left
      simp only [lineChars, List.mem_flatMap]
      exact ⟨_, hp, by simpa [renderPiece, fmtApply] using hc⟩
    · right; right; left; rfl
  refine ⟨l, hl, hname, hmay, ?_, by decide +kernel⟩
  exact dumper_output_clean env 0xE000 (by decide)
    (by intro o c hc; simp [env] at hc; rcases hc with rfl | rfl <;> decide) l hl _ hmay

end MitmVerif.Props.C49
