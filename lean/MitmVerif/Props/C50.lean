/-
  C50 — property theorems.
  * `render_text_has_no_Cc`        : whatever the chosen view returns or raises, the text of prettify_message has no
                                     Unicode-Cc character except TAB / LF / CR      (corollary of C49's table theorem)
  * `prettify_returns_escaped`     : every `return` of prettify_message hands out a literal or escaped text (static scan)
  * `sym_roundtrip_*`              : from_str (to_str n) = n for types, classes, op codes, response codes, all n
  * `record_data_roundtrip_partial`: from_json's data = the original rdata when the rdata is representable
  * `dns_json_roundtrip_partial`, `dns_view_roundtrip_partial` : reencode (prettify m) = m with reserved := 0, under the guard
  * counterexamples for the three recorded defects (F-C50a reserved bits, F-C50b undecodable NS/CNAME/PTR/TXT rdata,
    F-C50c U+0085 is altered by the final escaping)
-/
import MitmVerif.Model.C50
import MitmVerif.Model.C50_Https
import MitmVerif.Model.C50_Codecs
import MitmVerif.Lemmas.C35Str
import MitmVerif.Lemmas.C25
import MitmVerif.Lemmas.C22Render
import MitmVerif.Lemmas.C50V6
import MitmVerif.Model.C50_All
import MitmVerif.Props.C49
import Std.Data.String.ToNat
namespace MitmVerif.Props.C50
open MitmVerif MitmVerif.C49 MitmVerif.C50 MitmVerif.Gen.C50

/-! ### rendering -/

private theorem esc_clean (s : List Nat) : Clean (escapeControl true s) := by
  intro c hc
  cases hcc : isCc c with
  | false => simp [allowed, hcc]
  | true =>
    have := MitmVerif.Props.C49.escaped_has_no_Cc_except_tab_lf_cr s c hc
      ((MitmVerif.Props.C49.isCc_iff_mem_ccList c).1 hcc)
    rcases this with rfl | rfl | rfl <;> decide

/-- **C50 (safe rendering).** For any body, metadata and view — whatever text the chosen view returns, or whatever
    it raises, chosen automatically or explicitly — the text returned by `prettify_message` contains no control
    character other than TAB, LF and CR. -/
theorem render_text_has_no_Cc (i : PmIn) : Clean (prettifyText i) := by
  unfold prettifyText
  split
  · decide +kernel
  · split
    · exact esc_clean _
    · split <;> exact esc_clean _

/-- every `return` of `prettify_message` returns a literal or a text that was just escaped (static scan) -/
theorem prettify_returns_escaped : ∀ r ∈ prettifyReturns, r.2 = "lit" ∨ r.2 = "esc" := by decide +kernel

/-- … and the literal returns are clean themselves -/
theorem prettify_literals_clean : ∀ r ∈ prettifyReturns, r.2 = "lit" → Clean (cpsOf r.1) := by decide +kernel

/-! ### symbol names -/

private theorem revLookup_none (tab : List (Nat × String)) (s : List Char)
    (h : ∀ e ∈ tab, e.2.toList ≠ s) : revLookup tab s = none := by
  induction tab with
  | nil => rfl
  | cons e rest ih =>
    obtain ⟨n, name⟩ := e
    simp only [revLookup]
    have h1 := h (n, name) (by simp)
    simp only [ne_eq] at h1
    simp only [h1, if_false]
    exact ih (fun e he => h e (List.mem_cons_of_mem _ he))

private theorem lookup_mem' (tab : List (Nat × String)) (k : Nat) (v : String)
    (h : tab.lookup k = some v) : (k, v) ∈ tab := by
  induction tab with
  | nil => simp [List.lookup] at h
  | cons x xs ih =>
    obtain ⟨a, b⟩ := x
    simp only [List.lookup] at h
    split at h
    · rename_i heq
      have : k = a := by simpa using heq
      subst this; cases h; simp
    · exact List.mem_cons_of_mem _ (ih h)

private theorem removePrefix_append (p l : List Char) : removePrefix p (p ++ l) = l := by
  simp [removePrefix]

private theorem removeSuffix_append (l : List Char) (c : Char) : removeSuffix [c] (l ++ [c]) = l := by
  simp [removeSuffix]

/-- the generic statement: a table whose names are pairwise distinct and contain no '(' round-trips every number -/
private theorem sym_roundtrip (tab : List (Nat × String)) (pre : String)
    (hinj : ∀ e ∈ tab, revLookup tab e.2.toList = some e.1)
    (hparen : ∀ e ∈ tab, '(' ∉ e.2.toList) (n : Nat) :
    fromStr tab pre (toStr tab pre n) = some n := by
  unfold toStr
  split
  · rename_i s hs
    have hm := lookup_mem' tab n s hs
    simp [fromStr, hinj _ hm]
  · have hnone : revLookup tab (pre.toList ++ '(' :: (Nat.repr n).toList ++ [')']) = none := by
      apply revLookup_none
      intro e he heq
      have := hparen e he
      rw [heq] at this
      simp at this
    unfold fromStr
    rw [hnone]
    have e1 : pre.toList ++ '(' :: (Nat.repr n).toList ++ [')'] =
        (pre.toList ++ ['(']) ++ ((Nat.repr n).toList ++ [')']) := by simp
    rw [e1, removePrefix_append, removeSuffix_append]
    have : String.ofList (Nat.repr n).toList = Nat.repr n := by simp; rfl
    rw [this]
    exact Nat.toNat?_repr n

theorem sym_roundtrip_types (n : Nat) : fromStr typeNames "TYPE" (toStr typeNames "TYPE" n) = some n :=
  sym_roundtrip _ _ (by decide +kernel) (by decide +kernel) n
theorem sym_roundtrip_classes (n : Nat) : fromStr classNames "CLASS" (toStr classNames "CLASS" n) = some n :=
  sym_roundtrip _ _ (by decide +kernel) (by decide +kernel) n
theorem sym_roundtrip_opcodes (n : Nat) : fromStr opNames "OPCODE" (toStr opNames "OPCODE" n) = some n :=
  sym_roundtrip _ _ (by decide +kernel) (by decide +kernel) n
theorem sym_roundtrip_rcodes (n : Nat) : fromStr rcodeNames "RCODE" (toStr rcodeNames "RCODE" n) = some n :=
  sym_roundtrip _ _ (by decide +kernel) (by decide +kernel) n

/-! ### record data -/

private theorem hexVal_digit : ∀ n : Fin 16, hexVal (hexDigitN n.val) = some n.val ∧ isWs (hexDigitN n.val) = false ∧
    hexDigitN n.val ≠ 32 := by decide

private theorem byte_recompose_fin : ∀ n : Fin 256, UInt8.ofNat (n.val / 16 * 16 + n.val % 16) = UInt8.ofNat n.val := by
  decide +kernel

private theorem fromhex_hexChars (bs : Bytes) : fromhex (hexChars bs) = some bs := by
  induction bs with
  | nil => simp [hexChars, fromhex]
  | cons b bs ih =>
    have hb : b.toNat < 256 := UInt8.toNat_lt b
    have hhi : b.toNat / 16 < 16 := by omega
    have hlo : b.toNat % 16 < 16 := by omega
    obtain ⟨v1, w1, _⟩ := hexVal_digit ⟨_, hhi⟩
    obtain ⟨v2, _, _⟩ := hexVal_digit ⟨_, hlo⟩
    have hrec := byte_recompose_fin ⟨b.toNat, hb⟩
    have hcons : hexChars (b :: bs) = hexDigitN (b.toNat / 16) :: hexDigitN (b.toNat % 16) :: hexChars bs := by
      simp [hexChars]
    rw [hcons, fromhex]
    simp only at v1 v2 w1 hrec
    simp only [w1, Bool.false_eq_true, if_false, v1, v2]
    have ih' : fromhex (hexChars bs) = some bs := ih
    rw [ih']
    simp [hrec]

private theorem hexChars_no_space (bs : Bytes) : ∀ c ∈ hexChars bs, c ≠ 32 := by
  intro c hc
  simp only [hexChars, List.mem_flatMap] at hc
  obtain ⟨b, _, hcb⟩ := hc
  have hb : b.toNat < 256 := UInt8.toNat_lt b
  have hhi : b.toNat / 16 < 16 := by omega
  have hlo : b.toNat % 16 < 16 := by omega
  simp at hcb
  rcases hcb with rfl | rfl
  · exact (hexVal_digit ⟨_, hhi⟩).2.2
  · exact (hexVal_digit ⟨_, hlo⟩).2.2

private theorem beforeSpParen_self (h : List Nat) (hh : ∀ c ∈ h, c ≠ 32) : beforeSpParen h = h := by
  induction h with
  | nil => rfl
  | cons c rest ih =>
    have hc : c ≠ 32 := hh c (by simp)
    simp only [beforeSpParen, hc, false_and, if_false]
    rw [ih (fun x hx => hh x (List.mem_cons_of_mem _ hx))]

private theorem beforeSpParen_cut (h r : List Nat) (hh : ∀ c ∈ h, c ≠ 32) :
    beforeSpParen (h ++ 32 :: 40 :: r) = h := by
  induction h with
  | nil => simp [beforeSpParen]
  | cons c rest ih =>
    have hc : c ≠ 32 := hh c (by simp)
    simp only [List.cons_append, beforeSpParen, hc, false_and, if_false]
    rw [ih (fun x hx => hh x (List.mem_cons_of_mem _ hx))]

private theorem hexFallback_hexStr (bs : Bytes) : hexFallback (.str (hexStr bs)) = some bs := by
  simp only [hexFallback, hexStr]
  have : removePrefix [48, 120] (48 :: 120 :: hexChars bs) = hexChars bs := by simp [removePrefix]
  rw [this, beforeSpParen_self _ (hexChars_no_space bs), fromhex_hexChars]

private theorem hexFallback_invalidStr (tn : List Nat) (bs : Bytes) :
    hexFallback (.str (invalidStr tn bs)) = some bs := by
  simp only [hexFallback, invalidStr, hexStr, invalidTail]
  have : removePrefix [48, 120] (48 :: 120 :: hexChars bs ++ ([32, 40] ++ cpsOf "invalid " ++ tn ++ cpsOf " data)")) =
      hexChars bs ++ 32 :: 40 :: (cpsOf "invalid " ++ tn ++ cpsOf " data)") := by simp [removePrefix]
  rw [this, beforeSpParen_cut _ _ (hexChars_no_space bs), fromhex_hexChars]

/-- the partial-inverse law of the type-specific codecs and the strictness of the A / AAAA / HTTPS parsers -/
structure CodecLaws (C : Codec) : Prop where
  dec_enc : ∀ t b j, C.dec t b = some j → C.enc t j = some b
  strict_rejects : ∀ t tn b, isStrict t = true → C.enc t (.str (invalidStr tn b)) = none

/-- **C50 (record data).** `from_json(to_json(record)).data = record.data` whenever the record's type has no
    type-specific branch, or its decoder accepts the data, or its parser is strict (A, AAAA, HTTPS). -/
theorem record_data_roundtrip_partial (C : Codec) (L : CodecLaws C) (t : Nat) (data : Bytes)
    (h : isDecoded t = true → ((C.dec t data).isSome = true ∨ isStrict t = true)) :
    let j := dataJson (isDecoded t) (tyNameCps t) data (C.dec t data)
    dataFromJson (isDecoded t) (C.enc t j) j = some data := by
  intro j
  cases hd : isDecoded t with
  | false => simp [j, dataJson, dataFromJson, hd, hexFallback_hexStr]
  | true =>
    cases hdec : C.dec t data with
    | some v =>
      have := L.dec_enc t data v hdec
      simp [j, dataJson, dataFromJson, hd, hdec, this]
    | none =>
      have hs : isStrict t = true := by
        rcases h hd with h1 | h1
        · simp [hdec] at h1
        · exact h1
      have := L.strict_rejects t (tyNameCps t) data hs
      simp [j, dataJson, dataFromJson, hd, hdec, this, hexFallback_invalidStr]

/-- **F-C50b (what the code does instead).** For NS / CNAME / PTR / TXT data the decoder rejects, `_data_json` emits the
    marker string and `from_json` feeds that marker to the type-specific setter: whatever that setter makes of the
    marker text becomes the record data. -/
theorem undecodable_loose_data_reencoded_from_marker (C : Codec) (t : Nat) (data b' : Bytes)
    (hd : isDecoded t = true) (hdec : C.dec t data = none)
    (henc : C.enc t (.str (invalidStr (tyNameCps t) data)) = some b') :
    let j := dataJson (isDecoded t) (tyNameCps t) data (C.dec t data)
    dataFromJson (isDecoded t) (C.enc t j) j = some b' := by
  intro j
  simp [j, dataJson, dataFromJson, hd, hdec, henc]

/-! ### whole messages -/

private theorem mapOpt_map {α β} (f : α → β) (g : β → Option α) (l : List α)
    (h : ∀ a ∈ l, g (f a) = some a) : mapOpt g (l.map f) = some l := by
  induction l with
  | nil => rfl
  | cons a rest ih =>
    simp only [List.map, mapOpt]
    rw [h a (by simp), ih (fun x hx => h x (List.mem_cons_of_mem _ hx))]

private theorem q_roundtrip (q : Question) : qFromJson (qToJson q) = some q := by
  simp [qFromJson, qToJson, sym_roundtrip_types, sym_roundtrip_classes]

private theorem rr_roundtrip (C : Codec) (L : CodecLaws C) (r : RR) (h : Representable C r) :
    rrFromJson C (rrToJson C r) = some r := by
  have hd := record_data_roundtrip_partial C L r.type r.data h
  simp only at hd
  simp [rrFromJson, rrToJson, sym_roundtrip_types, sym_roundtrip_classes, hd]

/-- **C50 (JSON mapping).** `from_json(to_json(m))` is `m` with the reserved bits cleared, if every record is
    representable. -/
theorem dns_json_roundtrip_partial (C : Codec) (L : CodecLaws C) (m : Msg)
    (hrep : ∀ r, (r ∈ m.an ∨ r ∈ m.ns ∨ r ∈ m.ar) → Representable C r) :
    fromJson C (toJson C m) = some { m with z := 0 } := by
  have hq := mapOpt_map qToJson qFromJson m.qs (fun q _ => q_roundtrip q)
  have han := mapOpt_map (rrToJson C) (rrFromJson C) m.an (fun r hr => rr_roundtrip C L r (hrep r (Or.inl hr)))
  have hns := mapOpt_map (rrToJson C) (rrFromJson C) m.ns (fun r hr => rr_roundtrip C L r (hrep r (Or.inr (Or.inl hr))))
  have har := mapOpt_map (rrToJson C) (rrFromJson C) m.ar (fun r hr => rr_roundtrip C L r (hrep r (Or.inr (Or.inr hr))))
  simp [fromJson, toJson, sym_roundtrip_opcodes, sym_roundtrip_rcodes, hq, han, hns, har]

private theorem table_rows_fix : ∀ e ∈ MitmVerif.Gen.C49.ctrlTable, allowed e.1 = true → e.2.1 = [e.1] := by
  decide +kernel

private theorem escCp_clean_id (c : Nat) (h : allowed c = true) : escCp true c = [c] := by
  unfold escCp
  split
  · rename_i a b hl
    have hm : (c, (a, b)) ∈ MitmVerif.Gen.C49.ctrlTable := by
      clear h
      generalize MitmVerif.Gen.C49.ctrlTable = l at hl
      induction l with
      | nil => simp [List.lookup] at hl
      | cons x xs ih =>
        obtain ⟨k, v⟩ := x
        simp only [List.lookup] at hl
        split at hl
        · rename_i heq
          have : c = k := by simpa using heq
          subst this; cases hl; simp
        · exact List.mem_cons_of_mem _ (ih hl)
    have := table_rows_fix _ hm h
    simpa using this
  · rfl

/-- the final escaping of `prettify_message` leaves a clean text unchanged -/
theorem escape_identity_on_clean (s : List Nat) (h : Clean s) : escapeControl true s = s := by
  induction s with
  | nil => rfl
  | cons c rest ih =>
    have hc := escCp_clean_id c (h c (by simp))
    have := ih (fun x hx => h x (List.mem_cons_of_mem _ hx))
    simp only [escapeControl, List.flatMap_cons] at this ⊢
    rw [hc, this]; rfl

/-- **C50 (DNS view round trip), partial.** Re-encoding the unedited DNS-view rendering of `m` gives `m` with the
    reserved bits cleared, provided (i) the YAML text contains no control character other than TAB/LF/CR,
    (ii) YAML load ∘ dump is the identity on this JSON value, (iii) every record is representable.
    The full property (`= some m` without guards) is false: see the three counterexamples below. -/
theorem dns_view_roundtrip_partial (Y : Yaml) (C : Codec) (L : CodecLaws C) (m : Msg)
    (hclean : Clean (Y.dump (toJson C m)))
    (hload : (Y.load (Y.dump (toJson C m))).bind (fromJson C) = fromJson C (toJson C m))
    (hrep : ∀ r, (r ∈ m.an ∨ r ∈ m.ns ∨ r ∈ m.ar) → Representable C r) :
    reencodeDns Y C (prettifyDns Y C m) = some { m with z := 0 } := by
  unfold reencodeDns prettifyDns prettifyText
  simp only [Bool.false_eq_true, if_false]
  rw [escape_identity_on_clean _ hclean, hload]
  exact dns_json_roundtrip_partial C L m hrep

/-- the same with the guard `reserved = 0`: then the result is exactly the original message -/
theorem dns_view_roundtrip_partial' (Y : Yaml) (C : Codec) (L : CodecLaws C) (m : Msg) (hz : m.z = 0)
    (hclean : Clean (Y.dump (toJson C m)))
    (hload : (Y.load (Y.dump (toJson C m))).bind (fromJson C) = fromJson C (toJson C m))
    (hrep : ∀ r, (r ∈ m.an ∨ r ∈ m.ns ∨ r ∈ m.ar) → Representable C r) :
    reencodeDns Y C (prettifyDns Y C m) = some m := by
  have := dns_view_roundtrip_partial Y C L m hclean hload hrep
  rw [this]; cases m; simp_all

/-! ### the recorded defects -/

def msgZ1 : Msg := ⟨42, true, 0, false, false, true, false, 1, 0, [⟨cpsOf "a.b", 1, 1⟩], [], [], []⟩

/-- **F-C50a.** The reserved header bits are lost: for every codec, a query with reserved = 1 comes back with 0. -/
theorem reserved_bits_lost_counterexample (C : Codec) :
    fromJson C (toJson C msgZ1) = some { msgZ1 with z := 0 } ∧ fromJson C (toJson C msgZ1) ≠ some msgZ1 := by
  have h : fromJson C (toJson C msgZ1) = some { msgZ1 with z := 0 } := by
    have hq := mapOpt_map qToJson qFromJson msgZ1.qs (fun q _ => q_roundtrip q)
    simp [fromJson, toJson, sym_roundtrip_opcodes, sym_roundtrip_rcodes, hq]
    simp [msgZ1, mapOpt]
  refine ⟨h, ?_⟩
  rw [h]; decide

/-- **F-C50b.** With a text codec that accepts every string (TXT: `inst.text = d` never raises), undecodable TXT data
    `ff` comes back as the bytes of the marker text, not as `ff`. -/
theorem undecodable_txt_counterexample :
    ∃ C : Codec, C.dec 16 [0xff] = none ∧
      (let j := dataJson (isDecoded 16) (tyNameCps 16) [0xff] (C.dec 16 [0xff])
       dataFromJson (isDecoded 16) (C.enc 16 j) j ≠ some [0xff]) := by
  refine ⟨⟨fun _ _ => none, fun _ j => match j with | .str s => some (s.map UInt8.ofNat) | .obj _ => none⟩, rfl, ?_⟩
  decide +kernel

/-- **F-C50c.** A YAML text containing U+0085 is not clean, and the final escaping of `prettify_message` alters it,
    so `reencode` does not see what the view produced. -/
theorem nel_altered_counterexample :
    ¬ Clean [0x61, 0x85, 0x62] ∧ escapeControl true [0x61, 0x85, 0x62] = [0x61, 46, 0x62] := by
  constructor <;> decide +kernel

-- non-vacuity / sanity
example : prettifyText ⟨false, true, .raised [1, 2], [0x61, 0x1b], cpsOf "JSON"⟩ = [0x61, 46] := by decide +kernel
example : prettifyText ⟨false, false, .text [0x9b, 0x41, 10], [], []⟩ = [46, 0x41, 10] := by decide +kernel
example : toStr typeNames "TYPE" 16 = "TXT".toList ∧ toStr typeNames "TYPE" 4242 = "TYPE(4242)".toList := by decide +kernel
example : revLookup typeNames "nonsense".toList = none ∧ revLookup typeNames "TXT".toList = some 16 := by decide +kernel
example : hexFallback (.str (cpsOf "0x0aff (invalid A data)")) = some [0x0a, 0xff] := by
  simp [hexFallback, cpsOf, removePrefix, beforeSpParen, fromhex, hexVal, isWs]
example : hexFallback (.str (cpsOf "zz")) = none := by
  simp [hexFallback, cpsOf, removePrefix, beforeSpParen, fromhex, hexVal, isWs]
-- the hypotheses of the round-trip theorems are satisfiable (a codec that decodes nothing satisfies the laws)
example : ∃ C : Codec, CodecLaws C ∧ Representable C ⟨[], 99, 1, 0, [1, 2]⟩ :=
  ⟨⟨fun _ _ => none, fun _ _ => none⟩, ⟨(by intro t b j h; cases h), (by intros; rfl)⟩,
    (by intro h; simp [isDecoded, decodedTypes] at h)⟩

end MitmVerif.Props.C50

/-! ### HTTPS / SVCB records: https_records.py transcribed (Model/C50_Https.lean) -/
namespace MitmVerif.Props.C50
open MitmVerif MitmVerif.C50.Https

private theorem enc16_dec16 (a b : UInt8) : enc16 (dec16 a b) = [a, b] := by
  have ha := UInt8.toNat_lt a
  have hb := UInt8.toNat_lt b
  have h1 : (a.toNat * 256 + b.toNat) / 256 = a.toNat := by omega
  have h2 : (a.toNat * 256 + b.toNat) % 256 = b.toNat := by omega
  simp [enc16, dec16, h1, h2]

private theorem dec16_lt (a b : UInt8) : dec16 a b < 65536 := by
  have ha := UInt8.toNat_lt a
  have hb := UInt8.toNat_lt b
  simp only [dec16]; omega

/-- SvcPriority: '!h' unpack followed by '!h' pack gives the two original bytes, for all 65536 values
    (the seeded one-sided '!H' change breaks exactly this lemma's Python counterpart for values ≥ 0x8000) -/
theorem priority_roundtrip (a b : UInt8) : packSigned (toSigned (dec16 a b)) = some [a, b] := by
  have hlt := dec16_lt a b
  have henc := enc16_dec16 a b
  unfold packSigned toSigned
  by_cases h : dec16 a b < 32768
  · simp only [h, if_true]
    have h1 : (-32768 : Int) ≤ (dec16 a b : Int) ∧ (dec16 a b : Int) < 32768 := by omega
    simp only [h1, and_self, if_true]
    have h2 : ((dec16 a b : Int) % 65536).toNat = dec16 a b := by omega
    rw [h2, henc]
  · simp only [h, if_false]
    have h1 : (-32768 : Int) ≤ (dec16 a b : Int) - 65536 ∧ (dec16 a b : Int) - 65536 < 32768 := by omega
    simp only [h1, and_self, if_true]
    have h2 : (((dec16 a b : Int) - 65536) % 65536).toNat = dec16 a b := by omega
    rw [h2, henc]

/-- SvcParams: whatever `_unpack_params` accepts, `_pack_params` writes back byte for byte (order and unknown keys kept) -/
theorem params_roundtrip : ∀ (f : Nat) (l : Bytes) (ps : List (Nat × Bytes)),
    parseParams f l = some ps → packParams ps = some l := by
  intro f
  induction f with
  | zero =>
    intro l ps h
    cases l with
    | nil => simp [parseParams] at h; subst h; rfl
    | cons x xs => simp [parseParams] at h
  | succ f ih =>
    intro l ps h
    match l, h with
    | [], h => simp [parseParams] at h; subst h; rfl
    | [_], h => simp [parseParams] at h
    | [_, _], h => simp [parseParams] at h
    | [_, _, _], h => simp [parseParams] at h
    | a :: b :: c :: d :: rest, h =>
      simp only [parseParams] at h
      split at h
      · rename_i hle
        cases hp : parseParams f (rest.drop (dec16 c d)) with
        | none => simp [hp] at h
        | some ps' =>
          simp only [hp, Option.map_some, Option.some.injEq] at h
          subst h
          have hrec := ih _ _ hp
          have hk := dec16_lt a b
          have hn := dec16_lt c d
          have hlen : (rest.take (dec16 c d)).length = dec16 c d := by simp [List.length_take]; omega
          simp only [packParams, hk, hlen, hn, and_self, if_true, hrec, Option.map_some, enc16_dec16]
          simp [List.take_append_drop]
      · cases h

private theorem lookup_mem_svc (tab : List (Nat × String)) (k : Nat) (v : String)
    (h : tab.lookup k = some v) : (k, v) ∈ tab := by
  induction tab with
  | nil => simp [List.lookup] at h
  | cons x xs ih =>
    obtain ⟨a, b⟩ := x
    simp only [List.lookup] at h
    split at h
    · rename_i heq
      have : k = a := by simpa using heq
      subst this; cases h; simp
    · exact List.mem_cons_of_mem _ (ih h)

/-- JSON keys: name for the keys of SVCParamKeys, number otherwise; `SVCParamKeys[name.upper()]` inverts it -/
theorem svc_key_roundtrip (k : Nat) : keyFromJson (keyToJson k) = some k := by
  unfold keyToJson
  split
  · rename_i s hs
    have hm := lookup_mem_svc _ _ _ hs
    have hinj : ∀ e ∈ Gen.C50.svcKeyNames, nameToKey Gen.C50.svcKeyNames e.2 = some e.1 := by decide +kernel
    simpa [keyFromJson] using hinj _ hm
  · rfl

/-- to_json / from_json of the parameters: values go through bytes_to_escaped_str / escaped_str_to_bytes (C51's theorem) -/
theorem https_json_roundtrip (r : Rec) : fromJson (toJson r) = some r := by
  have hp : ∀ ps : List (Nat × Bytes),
      paramsFromJson (ps.map (fun kv => (keyToJson kv.1, C51.enc false false kv.2))) = some ps := by
    intro ps
    induction ps with
    | nil => rfl
    | cons kv rest ih =>
      obtain ⟨k, v⟩ := kv
      simp only [List.map_cons, paramsFromJson, svc_key_roundtrip, MitmVerif.Props.C51.roundtrip, ih]
  simp [fromJson, toJson, hp]

/-- the law of the domain-name codec: what `unpack_from` consumed is what `pack` writes for the name it returned -/
structure NameLaw (N : NameCodec) : Prop where
  unpack_pack : ∀ b s rest, N.unpackFrom b = some (s, rest) → ∃ w, b = w ++ rest ∧ N.pack s = some w

/-- **C50 (HTTPS/SVCB rdata).** Every HTTPS rdata that `https_records.unpack` accepts is re-encoded byte for byte by
    to_json → from_json → pack: all 65536 SvcPriority values, any TargetName the name codec accepts, SvcParams in any order,
    unknown keys, empty values.  (Rdata it rejects — short data, bad name, truncated or repeated parameter — is covered by
    `record_data_roundtrip_partial`: HTTPS is a strict type and takes the hex fallback.)  So for HTTPS records the guard
    "the decoder accepts the data ⇒ the setter restores it" of `CodecLaws.dec_enc` is a theorem, with the name codec as the
    only parameter. -/
theorem https_reencode_exact (N : NameCodec) (L : NameLaw N) (data : Bytes) (r : Rec)
    (h : unpack N data = some r) : reencode N data = some data := by
  unfold reencode
  rw [h]
  simp only [https_json_roundtrip, Option.bind_some]
  unfold unpack at h
  match data, h with
  | a :: b :: rest, h =>
    simp only at h
    cases hn : N.unpackFrom rest with
    | none => simp [hn] at h
    | some p =>
      obtain ⟨nm, rest'⟩ := p
      simp only [hn] at h
      cases hp : parseParams rest'.length rest' with
      | none => simp [hp] at h
      | some ps =>
        simp only [hp] at h
        split at h
        · cases h
        · simp only [Option.some.injEq] at h
          subst h
          obtain ⟨w, hw, hpack⟩ := L.unpack_pack _ _ _ hn
          have hps := params_roundtrip _ _ _ hp
          simp only [pack, priority_roundtrip, hpack, hps]
          simp [hw]

/-- the decoder does reject something, and the model is not the identity on accepted data by accident: a repeated key -/
example : unpack asciiCodec [0, 1, 0, 0, 3, 0, 2, 1, 0xbb, 0, 3, 0, 2, 0x20, 0xfb] = none := by decide +kernel
example : reencode asciiCodec [0xff, 0xff, 1, 0x61, 0, 0, 3, 0, 2, 1, 0xbb, 0, 1, 0, 3, 2, 0x68, 0x32] =
    some [0xff, 0xff, 1, 0x61, 0, 0, 3, 0, 2, 1, 0xbb, 0, 1, 0, 3, 2, 0x68, 0x32] := by decide +kernel
example : (unpack asciiCodec [0x80, 0, 0]).map (·.pri) = some (-32768) := by decide +kernel

end MitmVerif.Props.C50

/-! ### the TXT and NS/CNAME/PTR codecs as transcriptions (Model/C50_Codecs.lean, over C35's UTF-8 and C25's name codec) -/
namespace MitmVerif.Props.C50
open MitmVerif MitmVerif.C49 MitmVerif.C50 MitmVerif.C50.Codecs

/-- **TXT.** strict UTF-8: whatever `data.decode("utf-8")` accepts, `text.encode("utf-8")` restores (no hypothesis) -/
theorem utf8_dec_enc (b : Bytes) (s : List Nat) (h : utf8Dec b = some s) : utf8Enc s = some b := by
  unfold utf8Dec at h
  split at h
  · cases h
  · rename_i hesc
    cases h
    simp only [utf8Enc, hesc, Bool.false_eq_true, if_false]
    exact MitmVerif.C35.StrLemmas.encode_decF b.length b (Nat.le_refl _)

private theorem scanRaw_inv : ∀ (k : Nat) (s : Bytes), s.length ≤ k → ∀ ls n, C25.scanRaw s = some (ls, n, none) →
    ∃ rest, s = C25.wire ls ++ 0 :: rest ∧ n = (C25.wire ls).length + 1 := by
  intro k
  induction k with
  | zero =>
    intro s hs ls n h
    have : s = [] := List.length_eq_zero_iff.mp (by omega)
    subst this; rw [C25.scanRaw_nil] at h; cases h
  | succ k ih =>
    intro s hs ls n h
    cases s with
    | nil => rw [C25.scanRaw_nil] at h; cases h
    | cons sz rest =>
      rw [C25.scanRaw_cons] at h
      split at h
      · split at h <;> cases h
      · split at h
        · cases h
        · split at h
          · rename_i h0
            cases h
            have : sz = 0 := C25.uint8_eq_zero h0
            subst this
            exact ⟨rest, by simp [C25.wire], by simp [C25.wire]⟩
          · split at h
            · cases h
            · rename_i hnp hn64 hn0 hlen
              cases hr : C25.scanRaw (rest.drop sz.toNat) with
              | none => simp [hr] at h
              | some r =>
                obtain ⟨ls', n', p'⟩ := r
                simp only [hr, Option.some.injEq, Prod.mk.injEq] at h
                obtain ⟨hls, hn, hp⟩ := h
                subst hls hn hp
                have hdl : (rest.drop sz.toNat).length ≤ k := by
                  simp only [List.length_drop, List.length_cons] at hs ⊢; omega
                obtain ⟨rest', hs', hn'⟩ := ih _ hdl _ _ hr
                have hlt : rest.length ≥ sz.toNat := by omega
                have htake : (rest.take sz.toNat).length = sz.toNat := by simp [List.length_take]; omega
                have hsz : UInt8.ofNat (rest.take sz.toNat).length = sz := by rw [htake]; simp
                refine ⟨rest', ?_, ?_⟩
                · rw [C25.wire_cons, hsz]
                  simp only [List.cons_append, List.append_assoc]
                  rw [← hs', List.take_append_drop]
                · rw [C25.wire_cons, hn']
                  simp only [List.length_cons, List.length_append, htake]; omega

private theorem mapLabels_packParts (I : C25.Idna) : ∀ (ls : List Bytes) (ps : List C25.Text),
    (∀ l ∈ ls, l ≠ [] ∧ l.length < 64) → C25.mapLabels I ls = some ps →
    C25.packParts I ps = some (C25.wire ls) ∧ (∀ p ∈ ps, ¬ (46 : UInt8) ∈ p) ∧ ps.length = ls.length := by
  intro ls
  induction ls with
  | nil => intro ps _ h; simp [C25.mapLabels] at h; subst h; simp [C25.packParts, C25.wire]
  | cons l ls ih =>
    intro ps hok h
    simp only [C25.mapLabels] at h
    cases hd : C25.decLabel I l with
    | none => simp [hd] at h
    | some t =>
      cases hm : C25.mapLabels I ls with
      | none => simp [hd, hm] at h
      | some ts =>
        simp only [hd, hm, Option.some.injEq] at h
        subst h
        obtain ⟨hne, hl⟩ := hok l (by simp)
        have henc := C25.decLabel_encPart hd hne hl
        obtain ⟨hp, hdots, hlen⟩ := ih ts (fun x hx => hok x (by simp [hx])) hm
        refine ⟨?_, ?_, by simp [hlen]⟩
        · simp only [C25.packParts, henc, hp, C25.wire_cons]
        · intro p hpmem
          simp only [List.mem_cons] at hpmem
          rcases hpmem with rfl | hpm
          · exact (C25.decLabel_cases hd).1
          · exact hdots p hpm

/-- **NS / CNAME / PTR.** whatever `domain_names.unpack` accepts, `domain_names.pack` restores byte for byte —
    for every `Idna` (no law about Python's idna codec is needed: `_unpack_label_into` keeps only canonical spellings) -/
theorem name_dec_enc (I : C25.Idna) (b : Bytes) (n : C25.Text) (h : unpackPlain I b = some n) :
    C25.packName I n = some b := by
  unfold unpackPlain at h
  cases hs : C25.scanRaw b with
  | none => simp [hs] at h
  | some r =>
    obtain ⟨ls, k, p⟩ := r
    cases p with
    | some t => simp [hs] at h
    | none =>
      simp only [hs] at h
      split at h
      · rename_i hk
        cases hm : C25.mapLabels I ls with
        | none => simp [hm] at h
        | some ps =>
          simp only [hm, Option.map_some, Option.some.injEq] at h
          subst h
          obtain ⟨rest, hb, hk'⟩ := scanRaw_inv b.length b (Nat.le_refl _) ls k hs
          have hrest : rest = [] := by
            have : b.length = (C25.wire ls).length + 1 + rest.length := by rw [hb]; simp; omega
            exact List.length_eq_zero_iff.mp (by omega)
          subst hrest
          have hok := C25.scanRaw_labels_ok b.length b (Nat.le_refl _) ls k none hs
          obtain ⟨hp, hdots, hlen⟩ := mapLabels_packParts I ls ps hok hm
          cases ps with
          | nil =>
            have : ls = [] := List.length_eq_zero_iff.mp (by simpa using hlen.symm)
            subst this
            simp [C25.joinDot, C25.packName, hb, C25.wire]
          | cons p0 prest =>
            have hne : C25.joinDot (p0 :: prest) ≠ [] := by
              have hp0 : p0 ≠ [] := by
                cases ls with
                | nil => simp at hlen
                | cons l0 lrest =>
                  simp only [C25.mapLabels] at hm
                  cases hd : C25.decLabel I l0 with
                  | none => simp [hd] at hm
                  | some t =>
                    cases hm2 : C25.mapLabels I lrest with
                    | none => simp [hd, hm2] at hm
                    | some ts =>
                      simp only [hd, hm2, Option.some.injEq, List.cons.injEq] at hm
                      obtain ⟨rfl, _⟩ := hm
                      exact C25.decLabel_ne_nil hd (hok l0 (by simp)).1
              cases prest with
              | nil => simpa [C25.joinDot] using hp0
              | cons p1 pr => simp [C25.joinDot]
            simp only [C25.packName, hne, if_false]
            rw [C25.splitDot_joinDot (p0 :: prest) (by simp) hdots, hp, hb]
            simp
      · cases h

private theorem bytesOf_textOf (t : C25.Text) : bytesOf (textOf t) = t := by
  induction t with
  | nil => rfl
  | cons c r ih => simp only [textOf, bytesOf, List.map_cons, List.map_map] at ih ⊢; simp [ih]

/-- the codec with TXT and NS/CNAME/PTR transcribed satisfies the codec laws as soon as the remaining types (A, AAAA, HTTPS)
    do: for the four loose types — the ones behind F-C50b — "the decoder accepts ⇒ the setter restores" is a theorem -/
theorem transcribed_codec_laws (I : C25.Idna) (O : Codec) (LO : CodecLaws O) : CodecLaws (realCodec I O) where
  dec_enc := by
    intro t b j h
    simp only [realCodec] at h ⊢
    by_cases h16 : t = 16
    · simp only [h16, if_true] at h ⊢
      cases hd : utf8Dec b with
      | none => simp [hd] at h
      | some s => simp only [hd, Option.map_some, Option.some.injEq] at h; subst h; exact utf8_dec_enc b s hd
    · simp only [h16, if_false] at h ⊢
      by_cases hn : isNameType t = true
      · simp only [hn, if_true] at h ⊢
        cases hd : unpackPlain I b with
        | none => simp [hd] at h
        | some n =>
          simp only [hd, Option.map_some, Option.some.injEq] at h; subst h
          simp only [bytesOf_textOf]; exact name_dec_enc I b n hd
      · simp only [hn, Bool.false_eq_true, if_false] at h ⊢
        exact LO.dec_enc t b j h
  strict_rejects := by
    intro t tn b hs
    have h16 : t ≠ 16 := by intro h; subst h; revert hs; decide
    have hn : isNameType t = false := by
      cases hnt : isNameType t with
      | false => rfl
      | true =>
        simp only [isNameType, Bool.or_eq_true, beq_iff_eq] at hnt
        rcases hnt with (rfl | rfl) | rfl <;> revert hs <;> decide
    simp only [realCodec, h16, if_false, hn, Bool.false_eq_true]
    exact LO.strict_rejects t tn b hs

/-- **C50 (DNS view round trip, TXT/NS/CNAME/PTR codecs transcribed).** As `dns_view_roundtrip_partial`, for the codec
    whose TXT and name parts are the transcriptions: the parameters left are YAML, Python's idna codec for ACE labels
    (no law needed) and the A / AAAA / HTTPS part `O` (HTTPS: `https_reencode_exact`). -/
theorem dns_view_roundtrip_transcribed (Y : Yaml) (I : C25.Idna) (O : Codec) (LO : CodecLaws O) (m : Msg)
    (hclean : Clean (Y.dump (toJson (realCodec I O) m)))
    (hload : (Y.load (Y.dump (toJson (realCodec I O) m))).bind (fromJson (realCodec I O)) =
      fromJson (realCodec I O) (toJson (realCodec I O) m))
    (hrep : ∀ r, (r ∈ m.an ∨ r ∈ m.ns ∨ r ∈ m.ar) → Representable (realCodec I O) r) :
    reencodeDns Y (realCodec I O) (prettifyDns Y (realCodec I O) m) = some { m with z := 0 } :=
  dns_view_roundtrip_partial Y (realCodec I O) (transcribed_codec_laws I O LO) m hclean hload hrep

-- the transcriptions reject something and accept something
example : utf8Dec [0xff] = none ∧ utf8Dec [0x68, 0xc3, 0xa9] = some [0x68, 0xe9] := by decide +kernel
example : utf8Enc [0x68, 0xd800] = none := by decide +kernel

end MitmVerif.Props.C50

/-! ### A records: C22's `parseV4` reads back the dotted quad `str(IPv4Address(data))` produces -/
namespace MitmVerif.Props.C50
open MitmVerif MitmVerif.C49 MitmVerif.C50 MitmVerif.C50.Codecs

private theorem renderOctet_eq (v : Nat) : Codecs.renderOctet v = MitmVerif.Lemmas.C22.renderOctet v := rfl
private theorem dotted_eq (a b c d : Nat) : Codecs.dotted a b c d = MitmVerif.Lemmas.C22.dotted a b c d := rfl

private theorem renderOctet_ascii : ∀ v : Fin 256, ∀ c ∈ Codecs.renderOctet v.val, c.toNat < 128 := by decide +kernel

private theorem dotted_ascii (a b c d : UInt8) : (textOf (Codecs.dotted a.toNat b.toNat c.toNat d.toNat)).all (· < 128) = true := by
  simp only [List.all_eq_true, textOf, List.mem_map, decide_eq_true_eq]
  rintro x ⟨c', hc', rfl⟩
  simp only [Codecs.dotted, List.mem_append, List.mem_cons] at hc'
  have ha := renderOctet_ascii ⟨a.toNat, UInt8.toNat_lt a⟩
  have hb := renderOctet_ascii ⟨b.toNat, UInt8.toNat_lt b⟩
  have hc := renderOctet_ascii ⟨c.toNat, UInt8.toNat_lt c⟩
  have hd := renderOctet_ascii ⟨d.toNat, UInt8.toNat_lt d⟩
  rcases hc' with h | rfl | h | rfl | h | rfl | h
  · exact ha _ h
  · decide
  · exact hb _ h
  · decide
  · exact hc _ h
  · decide
  · exact hd _ h

private theorem be32_quad (a b c d : UInt8) :
    be32 (((a.toNat * 256 + b.toNat) * 256 + c.toNat) * 256 + d.toNat) = [a, b, c, d] := by
  have ha := UInt8.toNat_lt a
  have hb := UInt8.toNat_lt b
  have hc := UInt8.toNat_lt c
  have hd := UInt8.toNat_lt d
  have h1 : (((a.toNat * 256 + b.toNat) * 256 + c.toNat) * 256 + d.toNat) / 16777216 = a.toNat := by omega
  have h2 : (((a.toNat * 256 + b.toNat) * 256 + c.toNat) * 256 + d.toNat) / 65536 % 256 = b.toNat := by omega
  have h3 : (((a.toNat * 256 + b.toNat) * 256 + c.toNat) * 256 + d.toNat) / 256 % 256 = c.toNat := by omega
  have h4 : (((a.toNat * 256 + b.toNat) * 256 + c.toNat) * 256 + d.toNat) % 256 = d.toNat := by omega
  simp [be32, h1, h2, h3, h4]

/-- **A records.** `IPv4Address(str(IPv4Address(data))).packed = data` for every 4-byte rdata, with ipaddress's string
    parser as transcribed in C22 (no hypothesis) -/
theorem ip4_dec_enc (data : Bytes) (s : List Nat) (h : ip4Dec data = some s) : ip4Enc s = some data := by
  unfold ip4Dec at h
  match data, h with
  | [a, b, c, d], h =>
    simp only [Option.some.injEq] at h
    subst h
    have hp := MitmVerif.Lemmas.C22.parseV4_dotted a.toNat b.toNat c.toNat d.toNat
      (UInt8.toNat_lt a) (UInt8.toNat_lt b) (UInt8.toNat_lt c) (UInt8.toNat_lt d)
    have hasc := dotted_ascii a b c d
    rw [dotted_eq] at hasc
    simp only [ip4Enc, bytesOf_textOf, dotted_eq, hp, Option.map_some, be32_quad]
    rw [if_pos hasc]

/-- the marker string "0x… (invalid … data)" is never a dotted quad: `IPv4Address(marker)` raises, so an A record with
    a wrong data length takes the hex fallback (this was an assumed law, `CodecLaws.strict_rejects`, for type A) -/
theorem ip4_rejects_marker (tn : List Nat) (b : Bytes) : ip4Enc (invalidStr tn b) = none := by
  unfold ip4Enc
  split
  · have hshape : ∃ rest, bytesOf (invalidStr tn b) = 0x30 :: 0x78 :: rest := by
      exact ⟨bytesOf (hexChars b ++ invalidTail tn), by simp [invalidStr, hexStr, bytesOf]⟩
    obtain ⟨rest, hr⟩ := hshape
    rw [hr]
    have hsplit : ∃ p ps, C22.splitOn 0x2e (0x30 :: 0x78 :: rest) = (0x30 :: 0x78 :: p) :: ps := by
      cases hs : C22.splitOn 0x2e rest with
      | nil => exact absurd hs (MitmVerif.Lemmas.C22.splitOn_ne_nil _ _)
      | cons p ps => exact ⟨p, ps, by simp [C22.splitOn, hs]⟩
    obtain ⟨p, ps, hsp⟩ := hsplit
    have hoct : C22.parseOctet (0x30 :: 0x78 :: p) = none := by
      simp [C22.parseOctet, C22.isDigit]
    simp only [C22.parseV4, hsp, Option.map_eq_none_iff]
    split
    · rfl
    · split
      · rfl
      · split
        · rename_i heq
          simp only [List.cons.injEq] at heq
          obtain ⟨rfl, _⟩ := heq
          simp [hoct]
        · rfl
  · rfl

/-- the codec with A, TXT and NS/CNAME/PTR transcribed satisfies the codec laws as soon as AAAA and HTTPS do -/
theorem transcribed_codec_laws_A (I : C25.Idna) (O : Codec) (LO : CodecLaws O) : CodecLaws (realCodecA I O) where
  dec_enc := by
    intro t b j h
    simp only [realCodecA] at h ⊢
    by_cases h1 : t = 1
    · simp only [h1, if_true] at h ⊢
      cases hd : ip4Dec b with
      | none => simp [hd] at h
      | some s => simp only [hd, Option.map_some, Option.some.injEq] at h; subst h; exact ip4_dec_enc b s hd
    · simp only [h1, if_false] at h ⊢
      exact (transcribed_codec_laws I O LO).dec_enc t b j h
  strict_rejects := by
    intro t tn b hs
    simp only [realCodecA]
    by_cases h1 : t = 1
    · simp only [h1, if_true]; exact ip4_rejects_marker tn b
    · simp only [h1, if_false]; exact (transcribed_codec_laws I O LO).strict_rejects t tn b hs

/-- **C50 (DNS view round trip, A / TXT / NS / CNAME / PTR codecs transcribed).** The parameters left are YAML, Python's
    idna codec for ACE labels (no law needed) and the AAAA / HTTPS part `O` (HTTPS: `https_reencode_exact`). -/
theorem dns_view_roundtrip_transcribed_A (Y : Yaml) (I : C25.Idna) (O : Codec) (LO : CodecLaws O) (m : Msg)
    (hclean : Clean (Y.dump (toJson (realCodecA I O) m)))
    (hload : (Y.load (Y.dump (toJson (realCodecA I O) m))).bind (fromJson (realCodecA I O)) =
      fromJson (realCodecA I O) (toJson (realCodecA I O) m))
    (hrep : ∀ r, (r ∈ m.an ∨ r ∈ m.ns ∨ r ∈ m.ar) → Representable (realCodecA I O) r) :
    reencodeDns Y (realCodecA I O) (prettifyDns Y (realCodecA I O) m) = some { m with z := 0 } :=
  dns_view_roundtrip_partial Y (realCodecA I O) (transcribed_codec_laws_A I O LO) m hclean hload hrep

example : ip4Dec [192, 0, 2, 1] = some (cpsOf "192.0.2.1") ∧ ip4Dec [1, 2, 3] = none := by decide +kernel

end MitmVerif.Props.C50
/-! ### the symbol texts are clean (they are three of the `internal` pieces of the Dumper model, C49 `dumper_output_clean`'s `hint`) -/
namespace MitmVerif.Props.C50
open MitmVerif MitmVerif.C49 MitmVerif.C50 MitmVerif.Gen.C50

private theorem digit_allowed (c : Char) (h : c.isDigit = true) : allowed c.toNat = true := by
  have h' : 48 ≤ c.toNat ∧ c.toNat ≤ 57 := by
    unfold Char.isDigit at h
    rw [Bool.and_eq_true] at h
    exact ⟨of_decide_eq_true h.1, of_decide_eq_true h.2⟩
  have hcc : isCc c.toNat = false := by
    unfold isCc
    have h1 : ¬ c.toNat < 32 := by omega
    have h3 : ¬ (127 ≤ c.toNat) := by omega
    simp [h1, h3]
  simp [allowed, hcc]

/-- `to_str(n)` of any symbol table whose names and prefix are clean is clean, for every n -/
private theorem toStr_clean (tab : List (Nat × String)) (pre : String)
    (htab : ∀ e ∈ tab, (e.2.toList.map Char.toNat).all allowed = true)
    (hpre : (pre.toList.map Char.toNat).all allowed = true) (n : Nat) :
    Clean ((toStr tab pre n).map Char.toNat) := by
  unfold toStr
  split
  · rename_i s hs
    have hm := lookup_mem' tab n s hs
    have := htab _ hm
    intro c hc
    exact (List.all_eq_true.mp this) c hc
  · intro c hc
    simp only [List.map_append, List.map_cons, List.mem_append, List.mem_cons, List.mem_map, List.map_nil,
      List.not_mem_nil, or_false] at hc
    rcases hc with (⟨ch, hch, hceq⟩ | hceq | ⟨ch, hch, hceq⟩) | hceq
    · subst hceq; exact (List.all_eq_true.mp hpre) _ (List.mem_map.mpr ⟨ch, hch, rfl⟩)
    · subst hceq; decide
    · subst hceq
      have : ch ∈ Nat.toDigits 10 n := by simpa [Nat.repr] using hch
      exact digit_allowed ch (Nat.isDigit_of_mem_toDigits (by omega) (by omega) this)
    · subst hceq; decide

/-- `dns.types.to_str`, `dns.op_codes.to_str`, `response_codes.to_str`, `classes.to_str` never yield a control character,
    whatever number the wire carries: these `internal` texts of the Dumper model need no hypothesis -/
theorem type_text_clean (n : Nat) : Clean ((toStr typeNames "TYPE" n).map Char.toNat) :=
  toStr_clean _ _ (by decide +kernel) (by decide +kernel) n
theorem opcode_text_clean (n : Nat) : Clean ((toStr opNames "OPCODE" n).map Char.toNat) :=
  toStr_clean _ _ (by decide +kernel) (by decide +kernel) n
theorem rcode_text_clean (n : Nat) : Clean ((toStr rcodeNames "RCODE" n).map Char.toNat) :=
  toStr_clean _ _ (by decide +kernel) (by decide +kernel) n
theorem class_text_clean (n : Nat) : Clean ((toStr classNames "CLASS" n).map Char.toNat) :=
  toStr_clean _ _ (by decide +kernel) (by decide +kernel) n

end MitmVerif.Props.C50

/-! ### AAAA records transcribed (Model/C50_V6.lean, read-back proved in Lemmas/C50V6.lean over C21's and C22's lemmas) -/
namespace MitmVerif.Props.C50
open MitmVerif MitmVerif.C49 MitmVerif.C50 MitmVerif.C50.Codecs MitmVerif.Gen.C50

/-- **AAAA.** `IPv6Address(str(IPv6Address(data))).packed = data` for every 16-byte rdata: the writer
    (`_compress_hextets`, leftmost longest zero run) against C22's transcription of the reader, no hypothesis -/
theorem ip6_dec_enc (data : Bytes) (s : List Nat) (h : ip6Dec data = some s) : ip6Enc s = some data :=
  MitmVerif.C50.V6.ip6_dec_enc data s h

/-- the codec laws exactly as `ResourceRecord.from_json` needs them: the marker is only ever built with the record
    type's own name (`CodecLaws.strict_rejects` asks it for every name text) -/
structure CodecLawsT (C : Codec) : Prop where
  dec_enc : ∀ t b j, C.dec t b = some j → C.enc t j = some b
  strict_rejects : ∀ t b, isStrict t = true → C.enc t (.str (invalidStr (tyNameCps t) b)) = none

theorem CodecLaws.toT {C : Codec} (L : CodecLaws C) : CodecLawsT C :=
  ⟨L.dec_enc, fun t b h => L.strict_rejects t (tyNameCps t) b h⟩

theorem record_data_roundtrip_partial_T (C : Codec) (L : CodecLawsT C) (t : Nat) (data : Bytes)
    (h : isDecoded t = true → ((C.dec t data).isSome = true ∨ isStrict t = true)) :
    let j := dataJson (isDecoded t) (tyNameCps t) data (C.dec t data)
    dataFromJson (isDecoded t) (C.enc t j) j = some data := by
  intro j
  cases hd : isDecoded t with
  | false => simp [j, dataJson, dataFromJson, hd, hexFallback_hexStr]
  | true =>
    cases hdec : C.dec t data with
    | some v =>
      have := L.dec_enc t data v hdec
      simp [j, dataJson, dataFromJson, hd, hdec, this]
    | none =>
      have hs : isStrict t = true := by
        rcases h hd with h1 | h1
        · simp [hdec] at h1
        · exact h1
      have := L.strict_rejects t data hs
      simp [j, dataJson, dataFromJson, hd, hdec, this, hexFallback_invalidStr]

private theorem rr_roundtrip_T (C : Codec) (L : CodecLawsT C) (r : RR) (h : Representable C r) :
    rrFromJson C (rrToJson C r) = some r := by
  have hd := record_data_roundtrip_partial_T C L r.type r.data h
  simp only at hd
  simp [rrFromJson, rrToJson, sym_roundtrip_types, sym_roundtrip_classes, hd]

theorem dns_json_roundtrip_partial_T (C : Codec) (L : CodecLawsT C) (m : Msg)
    (hrep : ∀ r, (r ∈ m.an ∨ r ∈ m.ns ∨ r ∈ m.ar) → Representable C r) :
    fromJson C (toJson C m) = some { m with z := 0 } := by
  have hq := mapOpt_map qToJson qFromJson m.qs (fun q _ => q_roundtrip q)
  have han := mapOpt_map (rrToJson C) (rrFromJson C) m.an (fun r hr => rr_roundtrip_T C L r (hrep r (Or.inl hr)))
  have hns := mapOpt_map (rrToJson C) (rrFromJson C) m.ns (fun r hr => rr_roundtrip_T C L r (hrep r (Or.inr (Or.inl hr))))
  have har := mapOpt_map (rrToJson C) (rrFromJson C) m.ar (fun r hr => rr_roundtrip_T C L r (hrep r (Or.inr (Or.inr hr))))
  simp [fromJson, toJson, sym_roundtrip_opcodes, sym_roundtrip_rcodes, hq, han, hns, har]

private theorem hexDigit_not_sep : ∀ n : Fin 16,
    UInt8.ofNat (hexDigitN n.val) ≠ 0x3a ∧ UInt8.ofNat (hexDigitN n.val) ≠ 0x25 ∧ UInt8.ofNat (hexDigitN n.val) ≠ 0x2f := by
  decide

private theorem hexChars_no_sep (b : Bytes) (sep : UInt8) (hs : sep = 0x3a ∨ sep = 0x25 ∨ sep = 0x2f) :
    sep ∉ bytesOf (hexChars b) := by
  intro hmem
  simp only [bytesOf, hexChars, List.mem_map, List.mem_flatMap] at hmem
  obtain ⟨n, ⟨x, _, hn⟩, rfl⟩ := hmem
  have hx := UInt8.toNat_lt x
  have h1 := hexDigit_not_sep ⟨x.toNat / 16, by omega⟩
  have h2 := hexDigit_not_sep ⟨x.toNat % 16, by omega⟩
  simp only [List.mem_cons, List.not_mem_nil, or_false] at hn
  rcases hn with rfl | rfl
  · rcases hs with h | h | h <;> simp_all
  · rcases hs with h | h | h <;> simp_all

private theorem tyName28 : tyNameCps 28 = [65, 65, 65, 65] := by decide +kernel

/-- the marker "0x… (invalid AAAA data)" is not an IPv6 literal: `IPv6Address(marker)` raises, so an AAAA record with a
    wrong data length takes the hex fallback -/
theorem ip6_rejects_marker (b : Bytes) : ip6Enc (invalidStr (tyNameCps 28) b) = none := by
  have hshape : bytesOf (invalidStr (tyNameCps 28) b) =
      0x30 :: 0x78 :: (bytesOf (hexChars b) ++ bytesOf (invalidTail [65, 65, 65, 65])) := by
    simp [invalidStr, hexStr, bytesOf, tyName28]
  have htail : ∀ sep : UInt8, (sep = 0x3a ∨ sep = 0x25 ∨ sep = 0x2f) → sep ∉ bytesOf (invalidTail [65, 65, 65, 65]) := by
    intro sep hs; rcases hs with rfl | rfl | rfl <;> decide
  have hno : ∀ sep : UInt8, (sep = 0x3a ∨ sep = 0x25 ∨ sep = 0x2f) → sep ∉ bytesOf (invalidStr (tyNameCps 28) b) := by
    intro sep hs
    rw [hshape]
    simp only [List.mem_cons, List.mem_append, not_or]
    refine ⟨?_, ?_, hexChars_no_sep b sep hs, htail sep hs⟩
    · rcases hs with rfl | rfl | rfl <;> decide
    · rcases hs with rfl | rfl | rfl <;> decide
  have hpv : C22.parseV6 (bytesOf (invalidStr (tyNameCps 28) b)) = none := by
    have hsl : (bytesOf (invalidStr (tyNameCps 28) b)).contains 0x2f = false := by
      simpa using hno 0x2f (Or.inr (Or.inr rfl))
    have hpct := MitmVerif.C21.partitionPct_none _ (hno 0x25 (Or.inr (Or.inl rfl)))
    have hsplit := MitmVerif.C21.splitOn_no_sep 0x3a _ (hno 0x3a (Or.inl rfl))
    have hne : (bytesOf (invalidStr (tyNameCps 28) b)).isEmpty = false := by rw [hshape]; rfl
    simp [C22.parseV6, hsl, hpct, C22.parseV6Int, C22.v6Parts, hne, hsplit]
  unfold ip6Enc
  split
  · rw [hpv]
  · rfl

/-- all five text codecs of `ResourceRecord` transcribed (TXT, NS/CNAME/PTR, A, AAAA): the laws hold as soon as the HTTPS
    part `O` satisfies them (`https_reencode_exact` proves the HTTPS law in its own types) -/
theorem transcribed_codec_laws_6 (I : C25.Idna) (O : Codec) (LO : CodecLaws O) : CodecLawsT (realCodec6 I O) where
  dec_enc := by
    intro t b j h
    simp only [realCodec6] at h ⊢
    by_cases h28 : t = 28
    · simp only [h28, if_true] at h ⊢
      cases hd : ip6Dec b with
      | none => simp [hd] at h
      | some s => simp only [hd, Option.map_some, Option.some.injEq] at h; subst h; exact ip6_dec_enc b s hd
    · simp only [h28, if_false] at h ⊢
      exact (transcribed_codec_laws_A I O LO).dec_enc t b j h
  strict_rejects := by
    intro t b hs
    simp only [realCodec6]
    by_cases h28 : t = 28
    · subst h28; simp only [if_true]; exact ip6_rejects_marker b
    · simp only [h28, if_false]; exact (transcribed_codec_laws_A I O LO).strict_rejects t _ b hs

/-- **C50 (DNS view round trip, every text codec transcribed).** For the codec whose A, AAAA, NS, CNAME, PTR and TXT parts are
    the transcriptions of mitmproxy's / CPython's code: re-encoding the unedited DNS-view rendering of `m` gives `m` with the
    reserved bits cleared, under the guards (clean YAML text, YAML load∘dump, representable records).  Parameters left: the YAML
    library, Python's idna codec for ACE labels (no law needed), and the HTTPS part `O` (law proved in `https_reencode_exact`). -/
theorem dns_view_roundtrip_transcribed_6 (Y : Yaml) (I : C25.Idna) (O : Codec) (LO : CodecLaws O) (m : Msg)
    (hclean : Clean (Y.dump (toJson (realCodec6 I O) m)))
    (hload : (Y.load (Y.dump (toJson (realCodec6 I O) m))).bind (fromJson (realCodec6 I O)) =
      fromJson (realCodec6 I O) (toJson (realCodec6 I O) m))
    (hrep : ∀ r, (r ∈ m.an ∨ r ∈ m.ns ∨ r ∈ m.ar) → Representable (realCodec6 I O) r) :
    reencodeDns Y (realCodec6 I O) (prettifyDns Y (realCodec6 I O) m) = some { m with z := 0 } := by
  unfold reencodeDns prettifyDns prettifyText
  simp only [Bool.false_eq_true, if_false]
  rw [escape_identity_on_clean _ hclean, hload]
  exact dns_json_roundtrip_partial_T _ (transcribed_codec_laws_6 I O LO) m hrep

example : ip6Dec [0x20, 1, 0xd, 0xb8, 0, 0, 0, 0, 0, 1, 0, 0, 0, 0, 0, 1] = some (cpsOf "2001:db8::1:0:0:1") := by decide +kernel
example : ip6Dec [0, 0, 0, 0, 0, 0, 0, 0, 0, 0, 0xff, 0xff, 1, 2, 3, 4] = some (cpsOf "::ffff:102:304") := by decide +kernel
example : ip6Dec [1, 2, 3] = none := by decide +kernel

end MitmVerif.Props.C50

/-! ### C49's Dumper theorem with the symbol texts discharged -/
namespace MitmVerif.Props.C50
open MitmVerif MitmVerif.C49 MitmVerif.C50 MitmVerif.Gen.C50

def symOrigins : List String :=
  ["dns.op_codes.to_str(f.request.op_code)", "dns.types.to_str(f.request.questions[0].type)",
   "response_codes.to_str(f.response.response_code)"]

/-- **C49 `dumper_output_clean` with fewer hypotheses.** The three `internal` pieces that are symbol names
    (`dns.op_codes.to_str`, `dns.types.to_str`, `response_codes.to_str` of whatever number the wire carries) need no
    cleanliness assumption: they are the transcribed `to_str`, proved clean for every number.  Only the remaining internal
    texts (sizes, ints, enum names) are still assumed clean. -/
theorem dumper_output_clean_sym (env : Env) (sentinel : Nat) (hs : isCc sentinel = false) (nOp nTy nRc : Nat)
    (hop : env.internal "dns.op_codes.to_str(f.request.op_code)" = (toStr opNames "OPCODE" nOp).map Char.toNat)
    (hty : env.internal "dns.types.to_str(f.request.questions[0].type)" = (toStr typeNames "TYPE" nTy).map Char.toNat)
    (hrc : env.internal "response_codes.to_str(f.response.response_code)" = (toStr rcodeNames "RCODE" nRc).map Char.toNat)
    (hint : ∀ o, o ∉ symOrigins → Clean (env.internal o)) :
    ∀ l ∈ MitmVerif.Gen.C49.echoLines, ∀ out, MayEcho env sentinel l.2 out → Clean out := by
  apply MitmVerif.Props.C49.dumper_output_clean env sentinel hs
  intro o
  by_cases h : o ∈ symOrigins
  · simp only [symOrigins, List.mem_cons, List.not_mem_nil, or_false] at h
    rcases h with rfl | rfl | rfl
    · rw [hop]; exact opcode_text_clean nOp
    · rw [hty]; exact type_text_clean nTy
    · rw [hrc]; exact rcode_text_clean nRc
  · exact hint o h

end MitmVerif.Props.C50

/-! ### audit round 6 (b-c44): non-vacuity witnesses appended by the cross-auditor -/
namespace MitmVerif.Props.C50
open MitmVerif MitmVerif.C49 MitmVerif.C50 MitmVerif.C50.Codecs MitmVerif.Gen.C50

/-- a message with a question and records of a decoded strict type with invalid data (A, 3 bytes), a decoded loose type
    with valid data (TXT "hé"), AAAA with valid data and an undecoded type (99) -/
def auditMsg : Msg :=
  ⟨7, false, 0, true, false, true, true, 0, 3, [⟨cpsOf "a.b", 1, 1⟩],
   [⟨cpsOf "a.b", 1, 1, 60, [1, 2, 3]⟩, ⟨cpsOf "a.b", 16, 1, 60, [0x68, 0xc3, 0xa9]⟩],
   [⟨cpsOf "n", 28, 1, 5, [0x20, 1, 0xd, 0xb8, 0, 0, 0, 0, 0, 1, 0, 0, 0, 0, 0, 1]⟩],
   [⟨[], 99, 1, 0, [1, 2]⟩]⟩

def auditNone : Codec := ⟨fun _ _ => none, fun _ _ => none⟩

private theorem auditNone_laws : CodecLaws auditNone := ⟨(by intro t b j h; cases h), (by intros; rfl)⟩

/-- a (degenerate but lawful for this message) YAML: dumps to a clean text and loads the value back -/
def auditYaml (C : Codec) : Yaml := ⟨fun _ => [100, 58, 32, 49], fun _ => some (toJson C auditMsg)⟩

-- all three hypotheses of `dns_view_roundtrip_transcribed_6` hold together for a message with records of four kinds,
-- and the conclusion is the non-trivial equation (every text codec a transcription, ASCII idna, no HTTPS):
example : reencodeDns (auditYaml (realCodec6 asciiIdna auditNone)) (realCodec6 asciiIdna auditNone)
    (prettifyDns (auditYaml (realCodec6 asciiIdna auditNone)) (realCodec6 asciiIdna auditNone) auditMsg) =
      some { auditMsg with z := 0 } := by
  apply dns_view_roundtrip_transcribed_6 (auditYaml _) asciiIdna auditNone auditNone_laws auditMsg
  · decide +kernel
  · rfl
  · intro r hr
    simp only [auditMsg, List.mem_cons, List.not_mem_nil, or_false] at hr
    rcases hr with (rfl | rfl) | rfl | rfl <;> (unfold Representable; decide +kernel)

-- the guard `Representable` separates: valid TXT data is representable, undecodable TXT data (F-C50b) is not
example : Representable (realCodec6 asciiIdna auditNone) ⟨cpsOf "a.b", 16, 1, 60, [0x68, 0xc3, 0xa9]⟩ ∧
    ¬ Representable (realCodec6 asciiIdna auditNone) ⟨cpsOf "a.b", 16, 1, 60, [0xff]⟩ := by
  constructor <;> (unfold Representable; decide +kernel)

-- `record_data_roundtrip_partial` on a real strict type with data the decoder rejects (A, 3 bytes): the marker path
example :
    let C := realCodec6 asciiIdna auditNone
    let j := dataJson (isDecoded 1) (tyNameCps 1) [1, 2, 3] (C.dec 1 [1, 2, 3])
    C.dec 1 [1, 2, 3] = none ∧ j = .str (cpsOf "0x010203 (invalid A data)") ∧
      dataFromJson (isDecoded 1) (C.enc 1 j) j = some [1, 2, 3] := by decide +kernel

-- `dumper_output_clean_sym`: its equations are satisfiable by an environment (unknown op code, TXT, NXDOMAIN)
example : ∃ env : Env,
    env.internal "dns.op_codes.to_str(f.request.op_code)" = (toStr opNames "OPCODE" 9).map Char.toNat ∧
    env.internal "dns.types.to_str(f.request.questions[0].type)" = (toStr typeNames "TYPE" 16).map Char.toNat ∧
    env.internal "response_codes.to_str(f.response.response_code)" = (toStr rcodeNames "RCODE" 3).map Char.toNat ∧
    (∀ o, o ∉ symOrigins → Clean (env.internal o)) :=
  ⟨⟨fun _ => [], fun _ => [], id, fun o =>
      if o = "dns.op_codes.to_str(f.request.op_code)" then (toStr opNames "OPCODE" 9).map Char.toNat
      else if o = "dns.types.to_str(f.request.questions[0].type)" then (toStr typeNames "TYPE" 16).map Char.toNat
      else if o = "response_codes.to_str(f.response.response_code)" then (toStr rcodeNames "RCODE" 3).map Char.toNat
      else [0x37]⟩,
    by simp, by simp, by simp,
    by
      intro o ho
      simp only [symOrigins, List.mem_cons, List.not_mem_nil, or_false, not_or] at ho
      simp only [ho.1, ho.2.1, ho.2.2, if_false]
      decide⟩

end MitmVerif.Props.C50

/-! ### the HTTPS transcription connected to the record codec: no codec law is assumed any more -/
namespace MitmVerif.Props.C50
open MitmVerif MitmVerif.C49 MitmVerif.C50 MitmVerif.C50.Codecs MitmVerif.C50.Https

/-- the HTTPS branch satisfies the codec laws: `dec_enc` is `https_reencode_exact`, `strict_rejects` holds because a string
    is not a JSON object.  Hypotheses: the domain-name law (`NameLaw`) and that the opaque object code can be read back. -/
theorem https_codec_laws (N : NameCodec) (LN : NameLaw N) (K : ObjCode) (hK : ∀ j, K.decode (K.code j) = some j) :
    CodecLaws (httpsCodec N K) where
  dec_enc := by
    intro t b j h
    simp only [httpsCodec] at h ⊢
    by_cases h65 : t = 65
    · simp only [h65, if_true] at h ⊢
      cases hu : unpack N b with
      | none => simp [hu] at h
      | some r =>
        simp only [hu, Option.map_some, Option.some.injEq] at h
        subst h
        have hre := https_reencode_exact N LN b r hu
        simp only [reencode, hu] at hre
        simp only [hK, Option.bind_some]
        exact hre
    · simp [h65] at h
  strict_rejects := by
    intro t tn b _
    simp only [httpsCodec]
    split <;> rfl

/-- **no codec law assumed**: the codec with every type-specific branch transcribed (A, AAAA, NS, CNAME, PTR, TXT, HTTPS) -/
theorem all_transcribed_codec_laws (I : C25.Idna) (N : NameCodec) (LN : NameLaw N) (K : ObjCode)
    (hK : ∀ j, K.decode (K.code j) = some j) : CodecLawsT (realCodecAll I N K) :=
  transcribed_codec_laws_6 I (httpsCodec N K) (https_codec_laws N LN K hK)

/-- **C50 (DNS view round trip, every record codec transcribed).** `dns_view_roundtrip_transcribed_6` with the HTTPS part
    instantiated by the transcription of https_records.py.  What is left as hypothesis: the three guards (clean YAML text, YAML
    load∘dump on this JSON value, representable records), the law of the domain-name codec used inside HTTPS rdata (`NameLaw`,
    which `name_dec_enc` proves for C25's codec in its own types), and that the object code is readable. -/
theorem dns_view_roundtrip_all_transcribed (Y : Yaml) (I : C25.Idna) (N : NameCodec) (LN : NameLaw N) (K : ObjCode)
    (hK : ∀ j, K.decode (K.code j) = some j) (m : Msg)
    (hclean : Clean (Y.dump (toJson (realCodecAll I N K) m)))
    (hload : (Y.load (Y.dump (toJson (realCodecAll I N K) m))).bind (fromJson (realCodecAll I N K)) =
      fromJson (realCodecAll I N K) (toJson (realCodecAll I N K) m))
    (hrep : ∀ r, (r ∈ m.an ∨ r ∈ m.ns ∨ r ∈ m.ar) → Representable (realCodecAll I N K) r) :
    reencodeDns Y (realCodecAll I N K) (prettifyDns Y (realCodecAll I N K) m) = some { m with z := 0 } := by
  unfold reencodeDns prettifyDns prettifyText
  simp only [Bool.false_eq_true, if_false]
  rw [escape_identity_on_clean _ hclean, hload]
  exact dns_json_roundtrip_partial_T _ (all_transcribed_codec_laws I N LN K hK) m hrep

end MitmVerif.Props.C50

/-! ### the hypothesis "the object code can be read back" is satisfiable: a concrete length-prefixed code -/
namespace MitmVerif.Props.C50
open MitmVerif MitmVerif.C50 MitmVerif.C50.Codecs MitmVerif.C50.Https

private theorem decodeList_code (v rest : List Nat) : decodeList (codeList v ++ rest) = some (v, rest) := by
  simp [decodeList, codeList]

private theorem decodeKey_code (k : JKey) (rest : List Nat) : decodeKey (codeKey k ++ rest) = some (k, rest) := by
  cases k with
  | name s =>
    have hid : List.map (Char.ofNat ∘ Char.toNat) s.toList = s.toList := by
      simp [Function.comp_def]
    simp [codeKey, decodeKey, decodeList_code, List.map_map, hid]
  | num n => simp [codeKey, decodeKey]

private theorem decodeParams_code : ∀ (ps : List (JKey × Bytes)) (rest : List Nat),
    decodeParams ps.length (ps.flatMap codeParam ++ rest) = some (ps, rest) := by
  intro ps
  induction ps with
  | nil => intro rest; simp [decodeParams]
  | cons kv r ih =>
    intro rest
    obtain ⟨k, v⟩ := kv
    simp only [List.length_cons, List.flatMap_cons, codeParam, List.append_assoc, decodeParams, decodeKey_code,
      decodeList_code, ih]
    simp [List.map_map, Function.comp_def]

/-- the concrete code reads back every JSON object -/
theorem listObjCode_readable (j : J) : listObjCode.decode (listObjCode.code j) = some j := by
  obtain ⟨target, pri, ps⟩ := j
  simp only [listObjCode, codeJ, decodeJ]
  rw [decodeList_code]
  simp only [decodeParams_code ps [] |> (by simpa using ·)]
  by_cases h : 0 ≤ pri
  · simp [h, Int.natAbs_of_nonneg h]
  · have hneg : pri < 0 := by omega
    simp [h]
    omega

end MitmVerif.Props.C50

namespace MitmVerif.Props.C50
open MitmVerif MitmVerif.C50 MitmVerif.C50.Codecs MitmVerif.C50.Https
-- the hypotheses of `all_transcribed_codec_laws` / `dns_view_roundtrip_all_transcribed` about N and K are satisfiable
example : ∃ (N : NameCodec) (K : ObjCode), NameLaw N ∧ ∀ j, K.decode (K.code j) = some j :=
  ⟨⟨fun _ => none, fun _ => none⟩, listObjCode, ⟨by intro b s rest h; cases h⟩, listObjCode_readable⟩
-- and the HTTPS branch of the plugged-in codec does decode and restore a record (priority 0xffff, port, alpn)
example : (httpsCodec asciiCodec listObjCode).dec 65 [0xff, 0xff, 1, 0x61, 0, 0, 3, 0, 2, 1, 0xbb, 0, 1, 0, 3, 2, 0x68, 0x32] ≠ none := by
  decide +kernel
end MitmVerif.Props.C50
