/-
  C51 — property theorems.
  * `roundtrip`      : escaped_str_to_bytes(bytes_to_escaped_str(b, k, q)) = b   for all b, k, q
  * `output_clean`   : the escaped text is printable ASCII plus TAB/LF/CR only when kept on request
-/
import MitmVerif.Model.C51
namespace MitmVerif.Props.C51
open MitmVerif MitmVerif.C51

private theorem hexVal_hexDigit : ∀ n : Fin 16, hexVal (hexDigit n.val) = some n.val := by decide

private theorem hexVal_hexDigit' (n : Nat) (h : n < 16) : hexVal (hexDigit n) = some n :=
  hexVal_hexDigit ⟨n, h⟩

private theorem byte_recompose_fin : ∀ n : Fin 256,
    UInt8.ofNat (n.val / 16) * 16 + UInt8.ofNat (n.val % 16) = UInt8.ofNat n.val := by decide +kernel

private theorem byte_recompose (b : UInt8) :
    UInt8.ofNat (b.toNat / 16) * 16 + UInt8.ofNat (b.toNat % 16) = b := by
  have := byte_recompose_fin ⟨b.toNat, UInt8.toNat_lt b⟩
  simpa using this

private theorem encByte_pos (k q : Bool) (b : UInt8) : 1 ≤ (encByte k q b).length := by
  unfold encByte; split <;> (try split) <;> (try split) <;> (try split) <;> (try split) <;> (try split) <;> simp

/-- decoding one emitted token yields the byte, and continues on the rest with one unit less fuel -/
private theorem dec_token (k q : Bool) (b : UInt8) (rest : Bytes) (f : Nat)
    (hf : (encByte k q b ++ rest).length ≤ f + 1) :
    ∃ f', rest.length ≤ f' ∧ decF (f + 1) (encByte k q b ++ rest) = (decF f' rest).map (b :: ·) := by
  have hlen : rest.length ≤ f := by
    have := encByte_pos k q b
    simp at hf; omega
  unfold encByte
  by_cases h1 : b = 0x5c
  · subst h1
    refine ⟨f, ?_, ?_⟩
    · exact hlen
    · simp [decF, decEsc, simpleEsc]
  by_cases h2 : b = 0x27
  · subst h2
    cases q
    · refine ⟨f, hlen, ?_⟩; simp [decF]
    · refine ⟨f, hlen, ?_⟩; simp [decF, decEsc, simpleEsc]
  by_cases h3 : b = 0x09
  · subst h3
    cases k
    · refine ⟨f, hlen, ?_⟩; simp [decF, decEsc, simpleEsc]
    · refine ⟨f, hlen, ?_⟩; simp [decF]
  by_cases h4 : b = 0x0a
  · subst h4
    cases k
    · refine ⟨f, hlen, ?_⟩; simp [decF, decEsc, simpleEsc]
    · refine ⟨f, hlen, ?_⟩; simp [decF]
  by_cases h5 : b = 0x0d
  · subst h5
    cases k
    · refine ⟨f, hlen, ?_⟩; simp [decF, decEsc, simpleEsc]
    · refine ⟨f, hlen, ?_⟩; simp [decF]
  simp only [h1, h2, h3, h4, h5, if_false]
  by_cases h6 : 0x20 ≤ b.toNat ∧ b.toNat ≤ 0x7e
  · simp only [h6, and_self, if_true]
    refine ⟨f, hlen, ?_⟩
    simp [decF, h1]
  · simp only [h6, if_false]
    have hb : b.toNat < 256 := UInt8.toNat_lt b
    have hhi : b.toNat / 16 < 16 := by omega
    have hlo : b.toNat % 16 < 16 := by omega
    refine ⟨f, hlen, ?_⟩
    simp [decF, decEsc, simpleEsc, hexVal_hexDigit' _ hhi, hexVal_hexDigit' _ hlo, byte_recompose]

private theorem decF_enc (k q : Bool) (bs : Bytes) :
    ∀ f, (enc k q bs).length ≤ f → decF f (enc k q bs) = some bs := by
  induction bs with
  | nil => intro f _; cases f <;> simp [enc, decF]
  | cons b bs ih =>
    intro f hf
    have henc : enc k q (b :: bs) = encByte k q b ++ enc k q bs := by simp [enc]
    rw [henc] at hf ⊢
    have hpos := encByte_pos k q b
    cases f with
    | zero => simp only [List.length_append] at hf; omega
    | succ f =>
      obtain ⟨f', hf', heq⟩ := dec_token k q b (enc k q bs) f hf
      rw [heq, ih f' hf']; rfl

/-- **C51 (round trip).** For every byte string and every option pair the escaped text converts
    back to exactly the same bytes. -/
theorem roundtrip (k q : Bool) (bs : Bytes) : dec (enc k q bs) = some bs :=
  decF_enc k q bs _ (Nat.le_refl _)

private theorem hexDigit_ok : ∀ n : Fin 16, okChar false (hexDigit n.val) = true := by decide

private theorem encByte_clean (k q : Bool) (b : UInt8) : ∀ c ∈ encByte k q b, okChar k c = true := by
  unfold encByte
  by_cases h1 : b = 0x5c
  · subst h1; simp [okChar]
  by_cases h2 : b = 0x27
  · subst h2; cases q <;> simp [okChar]
  by_cases h3 : b = 0x09
  · subst h3; cases k <;> simp [okChar]
  by_cases h4 : b = 0x0a
  · subst h4; cases k <;> simp [okChar]
  by_cases h5 : b = 0x0d
  · subst h5; cases k <;> simp [okChar]
  simp only [h1, h2, h3, h4, h5, if_false]
  by_cases h6 : 0x20 ≤ b.toNat ∧ b.toNat ≤ 0x7e
  · simp only [h6, and_self, if_true]
    intro c hc; simp at hc; subst hc; simp [okChar, h6.1, h6.2]
  · simp only [h6, if_false]
    have hb : b.toNat < 256 := UInt8.toNat_lt b
    have hhi : b.toNat / 16 < 16 := by omega
    have hlo : b.toNat % 16 < 16 := by omega
    have e1 := hexDigit_ok ⟨_, hhi⟩
    have e2 := hexDigit_ok ⟨_, hlo⟩
    intro c hc
    simp at hc
    rcases hc with rfl | rfl | rfl | rfl
    · simp [okChar]
    · simp [okChar]
    · simp only [okChar] at e1 ⊢; simp at e1 ⊢; left; exact e1
    · simp only [okChar] at e2 ⊢; simp at e2 ⊢; left; exact e2

/-- **C51 (clean output).** The escaped text contains no raw control character other than the
    TAB / LF / CR kept on request (and no non-ASCII byte). -/
theorem output_clean (k q : Bool) (bs : Bytes) : ∀ c ∈ enc k q bs, okChar k c = true := by
  intro c hc
  simp only [enc, List.mem_flatMap] at hc
  obtain ⟨b, _, hcb⟩ := hc
  exact encByte_clean k q b c hcb

/-- without `keep_spacing` the text has no control character at all -/
theorem output_no_control (q : Bool) (bs : Bytes) :
    ∀ c ∈ enc false q bs, 0x20 ≤ c.toNat ∧ c.toNat ≤ 0x7e := by
  intro c hc
  have := output_clean false q bs c hc
  simpa [okChar] using this

/-- **enc_injective.** Two different byte strings never show as the same text (whatever the options of each view). -/
theorem enc_injective (k q k' q' : Bool) (a b : Bytes) (h : enc k q a = enc k' q' b) : a = b := by
  have ha := roundtrip k q a
  rw [h, roundtrip k' q' b] at ha
  exact (Option.some.inj ha).symm

/-- **enc_append.** Escaping is byte-local: the text of a concatenation is the concatenation of the texts
    (so an edit of one region of the text changes only the corresponding bytes). -/
theorem enc_append (k q : Bool) (a b : Bytes) : enc k q (a ++ b) = enc k q a ++ enc k q b := by
  simp [enc, List.flatMap_append]

/-- **edit_roundtrip.** Replacing the middle of the text by the escaped form of other bytes converts back to the
    bytes with exactly that region replaced. -/
theorem edit_roundtrip (k q : Bool) (a b' c : Bytes) :
    dec (enc k q a ++ enc k q b' ++ enc k q c) = some (a ++ b' ++ c) := by
  rw [← enc_append, ← enc_append]; exact roundtrip k q _

-- non-vacuity / sanity: concrete instances computed by the kernel
--   b"\x00'\\\n\xffA"  ->  \x00'\\\n\xffA
example : enc false false [0x00, 0x27, 0x5c, 0x0a, 0xff, 0x41] =
    [0x5c,0x78,0x30,0x30, 0x27, 0x5c,0x5c, 0x5c,0x6e, 0x5c,0x78,0x66,0x66, 0x41] := by decide +kernel
example : dec [0x5c,0x78,0x30,0x30, 0x27, 0x5c,0x5c, 0x5c,0x6e, 0x5c,0x78,0x66,0x66, 0x41] =
    some [0x00, 0x27, 0x5c, 0x0a, 0xff, 0x41] := by decide +kernel
-- the decoder does reject something (the theorem is not about a constant function)
example : dec [0x5c] = none ∧ dec [0x5c, 0x78, 0x34] = none := by decide +kernel


/-! ## round-6 cross-audit: further non-vacuity witnesses -/

-- the hypothesis of `enc_injective` is satisfiable across DIFFERENT option pairs (same text, different views)
example : enc false false [0x41, 0x22] = enc true true [0x41, 0x22] := by decide +kernel
example : ([0x41, 0x22] : Bytes) = [0x41, 0x22] := enc_injective false false true true _ _ (by decide +kernel)
-- keep_spacing really keeps TAB / LF / CR raw and still escapes the other controls (`output_clean` with k = true is not
-- the k = false statement in disguise)
example : enc true false [0x09, 0x0a, 0x0d, 0x00, 0x7f] =
    [0x09, 0x0a, 0x0d, 0x5c,0x78,0x30,0x30, 0x5c,0x78,0x37,0x66] := by decide +kernel
example : ∀ c ∈ enc true false [0x09, 0x1b, 0x80], okChar true c = true := output_clean true false _
example : okChar false 0x09 = false ∧ okChar true 0x09 = true ∧ okChar true 0x1b = false ∧ okChar true 0x80 = false := by decide
-- `edit_roundtrip` on a concrete three-region text (quote + backslash | newline kept raw | non-ASCII)
example : dec (enc true true [0x27, 0x5c] ++ enc true true [0x0a] ++ enc true true [0xff]) = some ([0x27, 0x5c] ++ [0x0a] ++ [0xff]) :=
  edit_roundtrip true true _ _ _
-- the round trip where the escaped text itself contains backslash-n as two characters next to a raw newline
example : dec (enc true false [0x5c, 0x6e, 0x0a]) = some [0x5c, 0x6e, 0x0a] ∧ enc true false [0x5c, 0x6e, 0x0a] = [0x5c, 0x5c, 0x6e, 0x0a] := by
  decide +kernel

end MitmVerif.Props.C51
