/-
  C52 — property theorems for the model of `mitmproxy/addons/serverplayback.py`.

  All theorems quantify over ALL histories `es` (loads, adds, clears, changes of the matching options,
  requests with arbitrary reuse/extra settings) starting from the freshly created addon, and over an
  arbitrary key function `hash` (the options-dependent matching key).  `s.recorded` is the list of
  not-yet-served recordings in recording order (`pending_in_recording_order`).

  * `served_only_if_keys_equal`      a served recording is pending, has a response, and its key equals the request's
  * `at_most_once_without_reuse`     without reuse no recording is served more often than it was loaded
  * `equal_keys_in_recording_order`  without reuse the *first* pending recording with an equal key and a response is served
  * `reuse_serves_first`             with reuse that first recording is served every time, nothing is consumed
  * `unmatched_as_configured`        forwarded when inactive; kill/status/forward as configured when nothing matches; served otherwise
  * `reindex_preserves_multiset`     changing the matching options keeps `recorded` and the multiset in `flowmap`
  * `never_crashes`                  `pop(0)` never hits an empty list
  * `key_eq_iff_fields`              the model of `_hash`: keys are equal iff the statement's fields are equal
-/
import MitmVerif.Lemmas.C52
set_option linter.unusedSectionVars false
set_option linter.unusedSimpArgs false
set_option linter.unusedVariables false
namespace MitmVerif.Props.C52
open MitmVerif MitmVerif.C52

section
variable {O Req Key : Type} [DecidableEq Req] [DecidableEq Key] (hash : O → Req → Key)

/-- every HTTP recording handed to `load_flows`/`add_flows` in the history, in order -/
def loadedOf : List (Event O Req) → List (Rec Req)
  | [] => []
  | .load rs :: es => rs.filter (·.isHttp) ++ loadedOf es
  | .add rs :: es => rs.filter (·.isHttp) ++ loadedOf es
  | _ :: es => loadedOf es

/-- the recordings served by a list of request outcomes, in order -/
def servedOf : List (Outcome Req) → List (Rec Req)
  | [] => []
  | .served r :: os => r :: servedOf os
  | _ :: os => servedOf os

/-- no request of the history runs with `server_replay_reuse` / `server_replay_nopop` -/
def NoReuse (es : List (Event O Req)) : Prop := ∀ q c, Event.request q c ∈ es → (c.reuse || c.nopop) = false

private theorem unmatched_ne_served (c : RCfg) (r : Rec Req) : (unmatched c : Outcome Req) ≠ .served r := by
  unfold unmatched; split
  · simp
  · split <;> simp

private theorem unmatched_ne_crash (c : RCfg) : (unmatched c : Outcome Req) ≠ .crash := by
  unfold unmatched; split
  · simp
  · split <;> simp

private theorem inv_request {s : State O Req Key} (h : Inv hash s) (q : Req) (c : RCfg) :
    Inv hash (request hash s q c).1 := by
  by_cases hr : s.recorded = []
  · rw [request_inactive hash h hr]; exact h
  · cases hc : (c.reuse || c.nopop) with
    | true => rw [request_reuse hash h hr q c hc]; exact h
    | false =>
      rcases request_nr hash h hr q c hc with ⟨_, _, _, _, _, _, _, _, _, _, hi⟩ | ⟨_, _, _, _, hi⟩
      · exact hi
      · exact hi

private theorem inv_step {s : State O Req Key} (h : Inv hash s) (e : Event O Req) : Inv hash (step hash s e).1 := by
  cases e with
  | load rs => exact inv_loadFlows hash s rs
  | add rs => exact inv_addFlows hash h rs
  | clear => exact inv_empty hash s.opts
  | configure o => exact inv_configure hash s o
  | request q c => exact inv_request hash h q c
  | edit k c => exact h

private theorem inv_runFrom {s : State O Req Key} (h : Inv hash s) (es : List (Event O Req)) :
    Inv hash (runFrom hash s es).1 := by
  induction es generalizing s with
  | nil => exact h
  | cons e es ih => simp only [runFrom]; exact ih (inv_step hash h e)

private theorem inv_run (o : O) (es : List (Event O Req)) : Inv hash (run hash o es).1 :=
  inv_runFrom hash (inv_empty hash o) es

/-- the pending list after a request is a sub-list (same order) of the pending list before it -/
private theorem request_sublist {s : State O Req Key} (h : Inv hash s) (q : Req) (c : RCfg) :
    (request hash s q c).1.recorded.Sublist s.recorded := by
  by_cases hr : s.recorded = []
  · rw [request_inactive hash h hr]; exact List.Sublist.refl _
  · cases hc : (c.reuse || c.nopop) with
    | true => rw [request_reuse hash h hr q c hc]; exact List.Sublist.refl _
    | false =>
      rcases request_nr hash h hr q c hc with ⟨pre, r, post, e1, _, _, _, _, e2, _, _⟩ | ⟨_, _, e2, _, _⟩
      · rw [e2, e1]
        exact List.Sublist.append List.filter_sublist (List.sublist_cons_self r post)
      · rw [e2]; exact List.filter_sublist

/-- `recorded` really is "the not yet served recordings in recording order": it is a sub-list (order kept)
    of everything that was loaded, in loading order -/
theorem pending_in_recording_order (o : O) (es : List (Event O Req)) :
    (run hash o es).1.recorded.Sublist (loadedOf es) := by
  have key : ∀ (es : List (Event O Req)) (s : State O Req Key), Inv hash s →
      (runFrom hash s es).1.recorded.Sublist (s.recorded ++ loadedOf es) := by
    intro es
    induction es with
    | nil => intro s _; simp [runFrom, loadedOf]
    | cons e es ih =>
      intro s h
      have ih' := ih (step hash s e).1 (inv_step hash h e)
      simp only [runFrom]
      cases e with
      | load rs =>
        simp only [step, loadFlows_recorded, loadedOf] at ih' ⊢
        exact ih'.trans (List.sublist_append_right _ _)
      | add rs =>
        simp only [step, addFlows_recorded, loadedOf, List.append_assoc] at ih' ⊢
        exact ih'
      | clear =>
        simp only [step, MitmVerif.C52.clear, loadedOf, List.nil_append] at ih' ⊢
        exact ih'.trans (List.sublist_append_right _ _)
      | configure o' =>
        simp only [step, configure_recorded hash h, loadedOf] at ih' ⊢
        exact ih'
      | request q c =>
        simp only [step, loadedOf] at ih' ⊢
        exact ih'.trans (List.Sublist.append (request_sublist hash h q c) (List.Sublist.refl _))
      | edit k c =>
        simp only [step, loadedOf] at ih' ⊢
        exact ih'
  simpa [run, init] using key es (init o) (inv_empty hash o)

/-- **served only if keys equal**: whatever happened before, a request is answered with recording `r` only if
    `r` is a pending recording that has a response and whose matching key (under the current options) equals
    the key of the request. -/
theorem served_only_if_keys_equal (o : O) (es : List (Event O Req)) (q : Req) (c : RCfg) (r : Rec Req) :
    let s := (run hash o es).1
    (request hash s q c).2 = .served r →
      r ∈ s.recorded ∧ r.hasResp = true ∧ hash s.opts r.req = hash s.opts q := by
  intro s hs
  have h : Inv hash s := inv_run hash o es
  by_cases hr : s.recorded = []
  · rw [request_inactive hash h hr] at hs; simp at hs
  · cases hc : (c.reuse || c.nopop) with
    | true =>
      rw [request_reuse hash h hr q c hc] at hs
      simp only at hs
      split at hs
      · rename_i r' hf
        simp only [Outcome.served.injEq] at hs; subst hs
        have hp := List.find?_some hf
        simp only [Bool.and_eq_true, sameKey, decide_eq_true_eq] at hp
        exact ⟨List.mem_of_find?_eq_some hf, hp.2, hp.1⟩
      · exact absurd hs (unmatched_ne_served c r)
    | false =>
      rcases request_nr hash h hr q c hc with ⟨pre, r', post, e1, _, hk, hrr, ho, _, _, _⟩ | ⟨_, ho, _, _, _⟩
      · rw [ho] at hs
        simp only [Outcome.served.injEq] at hs; subst hs
        refine ⟨by rw [e1]; simp, hrr, by simpa [sameKey] using hk⟩
      · rw [ho] at hs; exact absurd hs (unmatched_ne_served c r)

private theorem count_filter_le (p : Rec Req → Bool) (l : List (Rec Req)) (r : Rec Req) :
    (l.filter p).count r ≤ l.count r := List.Sublist.count_le r List.filter_sublist

/-- **at most once without reuse**: in a history without reuse, every recording is served at most as often
    as it was loaded (so a recording loaded once is served at most once). -/
theorem at_most_once_without_reuse (o : O) (es : List (Event O Req)) (hnr : NoReuse es) (r : Rec Req) :
    (servedOf (run hash o es).2).count r ≤ (loadedOf es).count r := by
  have key : ∀ (es : List (Event O Req)) (s : State O Req Key), Inv hash s → NoReuse es →
      (servedOf (runFrom hash s es).2).count r + (runFrom hash s es).1.recorded.count r
        ≤ s.recorded.count r + (loadedOf es).count r := by
    intro es
    induction es with
    | nil => intro s _ _; simp [runFrom, servedOf, loadedOf]
    | cons e es ih =>
      intro s h hn
      have hn' : NoReuse es := fun q c hm => hn q c (List.mem_cons_of_mem _ hm)
      have ih' := ih (step hash s e).1 (inv_step hash h e) hn'
      simp only [runFrom]
      cases e with
      | load rs =>
        simp only [step, loadFlows_recorded, loadedOf, List.count_append] at ih' ⊢
        omega
      | add rs =>
        simp only [step, addFlows_recorded, loadedOf, List.count_append] at ih' ⊢
        omega
      | clear =>
        simp only [step, MitmVerif.C52.clear, loadedOf, List.count_nil] at ih' ⊢
        omega
      | configure o' =>
        simp only [step, configure_recorded hash h, loadedOf] at ih' ⊢
        exact ih'
      | edit k c =>
        simp only [step, loadedOf] at ih' ⊢
        exact ih'
      | request q c =>
        have hc : (c.reuse || c.nopop) = false := hn q c (List.mem_cons_self ..)
        simp only [step, loadedOf] at ih' ⊢
        by_cases hr : s.recorded = []
        · rw [request_inactive hash h hr] at ih' ⊢
          simpa [servedOf] using ih'
        · rcases request_nr hash h hr q c hc with ⟨pre, r', post, e1, _, _, _, ho, e2, _, _⟩ | ⟨_, ho, e2, _, _⟩
          · rw [e2] at ih'
            rw [ho]
            simp only [servedOf, List.count_cons, e1, List.count_append] at ih' ⊢
            have := count_filter_le (fun x => !sameKey hash s.opts q x) pre r
            omega
          · rw [e2] at ih'
            have hso : servedOf ((request hash s q c).2 :: (runFrom hash (request hash s q c).1 es).2)
                = servedOf (runFrom hash (request hash s q c).1 es).2 := by
              rw [ho]; unfold unmatched; split
              · rfl
              · split <;> rfl
            rw [hso]
            have := count_filter_le (fun x => !sameKey hash s.opts q x) s.recorded r
            omega
  have := key es (init o) (inv_empty hash o) hnr
  have hi : (init o : State O Req Key).recorded = [] := rfl
  rw [hi] at this
  simp only [List.count_nil] at this
  unfold run
  omega

/-- **equal keys in recording order**: without reuse, the recording served to a request is the first pending
    recording, in recording order, whose key equals the request's key and that has a response; afterwards it
    (and the response-less recordings with that key recorded before it) are no longer pending, everything
    else stays pending in the same order. -/
theorem equal_keys_in_recording_order (o : O) (es : List (Event O Req)) (q : Req) (c : RCfg) (r : Rec Req)
    (hc : (c.reuse || c.nopop) = false) :
    let s := (run hash o es).1
    (request hash s q c).2 = .served r →
      ∃ pre post, s.recorded = pre ++ r :: post ∧
        (∀ x ∈ pre, ¬ (hash s.opts x.req = hash s.opts q ∧ x.hasResp = true)) ∧
        (request hash s q c).1.recorded
          = pre.filter (fun x => decide (hash s.opts x.req ≠ hash s.opts q)) ++ post := by
  intro s hs
  have h : Inv hash s := inv_run hash o es
  by_cases hr : s.recorded = []
  · rw [request_inactive hash h hr] at hs; simp at hs
  · rcases request_nr hash h hr q c hc with ⟨pre, r', post, e1, hpre, _, _, ho, e2, _, _⟩ | ⟨_, ho, _, _, _⟩
    · rw [ho] at hs
      simp only [Outcome.served.injEq] at hs; subst hs
      refine ⟨pre, post, e1, ?_, ?_⟩
      · intro x hx hh
        exact hpre x hx ⟨by simpa [sameKey] using hh.1, hh.2⟩
      · rw [e2]; congr 1
        apply List.filter_congr
        intro x _; simp [sameKey]
    · rw [ho] at hs; exact absurd hs (unmatched_ne_served c r)

/-- **reuse serves the first**: with reuse the state is unchanged and the request is served exactly the first
    pending recording (recording order) with an equal key and a response. -/
theorem reuse_serves_first (o : O) (es : List (Event O Req)) (q : Req) (c : RCfg)
    (hc : (c.reuse || c.nopop) = true) :
    let s := (run hash o es).1
    (request hash s q c).1 = s ∧
    ∀ r, (request hash s q c).2 = .served r ↔
      s.recorded.find? (fun x => decide (hash s.opts x.req = hash s.opts q) && x.hasResp) = some r := by
  intro s
  have h : Inv hash s := inv_run hash o es
  by_cases hr : s.recorded = []
  · rw [request_inactive hash h hr]
    refine ⟨rfl, fun r => ?_⟩
    rw [hr]; simp
  · rw [request_reuse hash h hr q c hc]
    refine ⟨rfl, fun r => ?_⟩
    have hfun : (fun x => sameKey hash s.opts q x && x.hasResp)
        = (fun x : Rec Req => decide (hash s.opts x.req = hash s.opts q) && x.hasResp) := rfl
    rw [hfun]
    cases hf : s.recorded.find? (fun x => decide (hash s.opts x.req = hash s.opts q) && x.hasResp) with
    | none =>
      simp only
      constructor
      · intro hu; exact absurd hu (unmatched_ne_served c r)
      · intro hu; simp at hu
    | some r' => simp

/-- **unmatched as configured** (and matched requests are served): replay inactive ⇒ the request is forwarded
    untouched; active and no pending recording with an equal key and a response ⇒ killed / status / forwarded
    exactly as configured (`unmatched`, spelled out in `unmatched_table`); otherwise some recording is served. -/
theorem unmatched_as_configured (o : O) (es : List (Event O Req)) (q : Req) (c : RCfg) :
    let s := (run hash o es).1
    let matching := ∃ x ∈ s.recorded, hash s.opts x.req = hash s.opts q ∧ x.hasResp = true
    (s.recorded = [] → request hash s q c = (s, .forwarded)) ∧
    (s.recorded ≠ [] → ¬ matching → (request hash s q c).2 = unmatched c) ∧
    (matching → ∃ r, (request hash s q c).2 = .served r) := by
  intro s matching
  have h : Inv hash s := inv_run hash o es
  refine ⟨fun hr => request_inactive hash h hr q c, ?_, ?_⟩
  · intro hr hnm
    cases hc : (c.reuse || c.nopop) with
    | true =>
      rw [request_reuse hash h hr q c hc]
      cases hf : s.recorded.find? (fun x => sameKey hash s.opts q x && x.hasResp) with
      | none => rfl
      | some r =>
        exfalso; apply hnm
        have hp := List.find?_some hf
        simp only [Bool.and_eq_true, sameKey, decide_eq_true_eq] at hp
        exact ⟨r, List.mem_of_find?_eq_some hf, hp.1, hp.2⟩
    | false =>
      rcases request_nr hash h hr q c hc with ⟨pre, r, post, e1, _, hk, hrr, _, _, _, _⟩ | ⟨_, ho, _, _, _⟩
      · exfalso; apply hnm
        exact ⟨r, by rw [e1]; simp, by simpa [sameKey] using hk, hrr⟩
      · exact ho
  · intro ⟨x, hx, hk, hxr⟩
    have hr : s.recorded ≠ [] := fun h0 => by rw [h0] at hx; simp at hx
    cases hc : (c.reuse || c.nopop) with
    | true =>
      rw [request_reuse hash h hr q c hc]
      cases hf : s.recorded.find? (fun x => sameKey hash s.opts q x && x.hasResp) with
      | none =>
        exfalso
        have := List.find?_eq_none.mp hf x hx
        simp [sameKey, hk, hxr] at this
      | some r => exact ⟨r, rfl⟩
    | false =>
      rcases request_nr hash h hr q c hc with ⟨_, r, _, _, _, _, _, ho, _, _, _⟩ | ⟨hall, _, _, _, _⟩
      · exact ⟨r, ho⟩
      · exfalso; exact hall x hx ⟨by simp [sameKey, hk], hxr⟩

/-- **the next unused recording for the key is served** (with or without reuse, after any history): the request is
    answered with `r` exactly when `r` is the first pending recording, in recording order, that has a response and
    whose key equals the request's key. -/
theorem serves_first_match (o : O) (es : List (Event O Req)) (q : Req) (c : RCfg) (r : Rec Req) :
    let s := (run hash o es).1
    (request hash s q c).2 = .served r ↔
      s.recorded.find? (fun x => decide (hash s.opts x.req = hash s.opts q) && x.hasResp) = some r := by
  intro s
  have h : Inv hash s := inv_run hash o es
  by_cases hr : s.recorded = []
  · rw [request_inactive hash h hr, hr]; simp
  · cases hc : (c.reuse || c.nopop) with
    | true => exact (reuse_serves_first hash o es q c hc).2 r
    | false =>
      rcases request_nr hash h hr q c hc with ⟨pre, r', post, e1, hpre, hk, hrr, ho, _, _, _⟩ | ⟨hall, ho, _, _, _⟩
      · have hfind : s.recorded.find? (fun x => decide (hash s.opts x.req = hash s.opts q) && x.hasResp) = some r' := by
          rw [List.find?_eq_some_iff_append]
          refine ⟨by simpa [sameKey, hrr] using hk, pre, post, e1, ?_⟩
          intro a ha
          have := hpre a ha
          simp only [sameKey, decide_eq_true_eq] at this
          cases hd : (decide (hash s.opts a.req = hash s.opts q) && a.hasResp) with
          | false => rfl
          | true =>
            exfalso; apply this
            simpa using hd
        rw [ho, hfind]
        constructor
        · intro h'; cases h'; rfl
        · intro h'; cases h'; rfl
      · rw [ho]
        have hnone : s.recorded.find? (fun x => decide (hash s.opts x.req = hash s.opts q) && x.hasResp) = none := by
          rw [List.find?_eq_none]
          intro a ha hd
          apply hall a ha
          simpa [sameKey] using hd
        rw [hnone]
        constructor
        · intro h'; exact absurd h' (unmatched_ne_served c r)
        · intro h'; cases h'

/-- **what is served is the recording as it was loaded** — in every history, including histories in which later
    addons rewrite responses that were served earlier (`Event.edit`): an `edit` never changes the addon's state, and
    every response that is served is the value (`resp` included) of a recording exactly as it was handed to
    `load_flows` / `add_flows`.  Serving never changes a recording: the pending list only ever loses elements. -/
theorem served_response_is_recorded (o : O) (es : List (Event O Req)) :
    (∀ s k c, step hash s (.edit k c) = (s, none)) ∧
    (∀ q c r, (request hash (run hash o es).1 q c).2 = .served r → r ∈ loadedOf es) ∧
    (∀ q c, (request hash (run hash o es).1 q c).1.recorded.Sublist (run hash o es).1.recorded) := by
  refine ⟨fun _ _ _ => rfl, ?_, fun q c => request_sublist hash (inv_run hash o es) q c⟩
  intro q c r hs
  exact (pending_in_recording_order hash o es).subset ((served_only_if_keys_equal hash o es q c r hs).1)

/-- the configured treatment of unmatched requests, spelled out -/
theorem unmatched_table (c : RCfg) :
    ((c.killExtra = true ∨ c.extra = .kill) → (unmatched c : Outcome Req) = .killed) ∧
    (c.killExtra = false → ∀ n, c.extra = .status n → (unmatched c : Outcome Req) = .status n) ∧
    (c.killExtra = false → c.extra = .forward → (unmatched c : Outcome Req) = .forwarded) := by
  refine ⟨?_, ?_, ?_⟩
  · rintro (h | h) <;> simp [unmatched, h]
  · intro h n hn; simp [unmatched, h, hn]
  · intro h hn; simp [unmatched, h, hn]

private theorem lookup_head_ne {k0 k : Key} {l0 : List (Rec Req)} {rest : FlowMap Req Key} (hne : k0 ≠ k) :
    fmLookup ((k0, l0) :: rest) k = fmLookup rest k := by simp [fmLookup, hne]

/-- the buckets of `flowmap` together are a permutation of `recorded` -/
private theorem flatten_perm (o : O) : ∀ (fm : FlowMap Req Key) (recd : List (Rec Req)),
    (keys fm).Nodup → (∀ k, fmLookup fm k = optNE (bucket hash o recd k)) →
    (fm.flatMap (·.2)).Perm recd := by
  intro fm
  induction fm with
  | nil =>
    intro recd _ hl
    cases recd with
    | nil => exact List.Perm.refl _
    | cons r rest =>
      have := hl (hash o r.req)
      simp [fmLookup, optNE, bucket] at this
  | cons e rest ih =>
    obtain ⟨k0, l0⟩ := e
    intro recd hnd hl
    simp only [keys, List.map_cons, List.nodup_cons] at hnd
    have h0 := hl k0
    simp only [fmLookup, if_true] at h0
    have hl0 : l0 = bucket hash o recd k0 := by
      unfold optNE at h0
      split at h0
      · simp at h0
      · simpa using h0
    let recd' := recd.filter (fun x => !decide (hash o x.req = k0))
    have hrest : (rest.flatMap (·.2)).Perm recd' := by
      apply ih recd' hnd.2
      intro k
      by_cases hk : k = k0
      · subst hk
        rw [fmLookup_not_mem hnd.1]
        simp [recd', bucket, optNE, List.filter_filter]
      · have hne : k0 ≠ k := fun h' => hk h'.symm
        rw [← lookup_head_ne (l0 := l0) hne, hl k]
        congr 1
        simp only [recd', bucket, List.filter_filter]
        apply List.filter_congr
        intro x _
        by_cases hx : hash o x.req = k
        · have : ¬ hash o x.req = k0 := by rw [hx]; exact hk
          simp [hx, hk]
        · simp [hx]
    simp only [List.flatMap_cons]
    rw [hl0]
    exact (List.Perm.append_left _ hrest).trans (List.filter_append_perm _ recd)

private theorem count_eq_length (fm : FlowMap Req Key) :
    (fm.map (fun e => e.2.length)).sum = (fm.flatMap (·.2)).length := by
  induction fm with
  | nil => rfl
  | cons e rest ih => simp only [List.map_cons, List.sum_cons, List.flatMap_cons, List.length_append, ih]

/-- **re-index preserves the multiset**: after a change of the matching options the pending recordings are the
    same list (same order), the contents of `flowmap` are a permutation of what they were, `count()` is unchanged
    — nothing lost, nothing duplicated. -/
theorem reindex_preserves_multiset (o : O) (es : List (Event O Req)) (o' : O) :
    let s := (run hash o es).1
    let s' := configure hash s o'
    s'.recorded = s.recorded ∧
    (s'.flowmap.flatMap (·.2)).Perm (s.flowmap.flatMap (·.2)) ∧
    (s'.flowmap.flatMap (·.2)).Perm s.recorded ∧
    count s' = count s := by
  intro s s'
  have h : Inv hash s := inv_run hash o es
  have h' : Inv hash s' := inv_configure hash s o'
  have hrec : s'.recorded = s.recorded := configure_recorded hash h o'
  have p : (s.flowmap.flatMap (·.2)).Perm s.recorded := flatten_perm hash s.opts _ _ h.nodup h.look
  have p' : (s'.flowmap.flatMap (·.2)).Perm s'.recorded := flatten_perm hash s'.opts _ _ h'.nodup h'.look
  rw [hrec] at p'
  refine ⟨hrec, p'.trans p.symm, p', ?_⟩
  unfold count
  rw [count_eq_length, count_eq_length]
  exact (p'.trans p.symm).length_eq

/-- **never crashes**: in no history does `next_flow` pop from an empty list -/
theorem never_crashes (o : O) (es : List (Event O Req)) : Outcome.crash ∉ (run hash o es).2 := by
  have key : ∀ (es : List (Event O Req)) (s : State O Req Key), Inv hash s →
      Outcome.crash ∉ (runFrom hash s es).2 := by
    intro es
    induction es with
    | nil => intro s _; simp [runFrom]
    | cons e es ih =>
      intro s h
      have ih' := ih (step hash s e).1 (inv_step hash h e)
      simp only [runFrom]
      cases e with
      | load rs => simpa [step] using ih'
      | add rs => simpa [step] using ih'
      | clear => simpa [step] using ih'
      | configure o' => simpa [step] using ih'
      | edit k c => simpa [step] using ih'
      | request q c =>
        simp only [step, List.mem_cons, not_or] at ih' ⊢
        refine ⟨?_, ih'⟩
        by_cases hr : s.recorded = []
        · rw [request_inactive hash h hr]; simp
        · cases hc : (c.reuse || c.nopop) with
          | true =>
            rw [request_reuse hash h hr q c hc]
            simp only
            split
            · simp
            · exact fun h' => unmatched_ne_crash c h'.symm
          | false =>
            rcases request_nr hash h hr q c hc with ⟨_, r, _, _, _, _, _, ho, _, _, _⟩ | ⟨_, ho, _, _, _⟩
            · rw [ho]; simp
            · rw [ho]; exact fun h' => unmatched_ne_crash c h'.symm
  exact key es (init o) (inv_empty hash o)

end

/-- **the matching key**: two requests have the same key under options `o` iff they agree on method, scheme,
    path, the query parameters not ignored, and — unless ignored — host, port and content (the body, or the
    non-ignored form fields when payload parameters are ignored and the request carries a form), plus the
    configured headers. -/
theorem key_eq_iff_fields (o : HashOpts) (a b : ReqF) :
    keyOf o a = keyOf o b ↔
      a.scheme = b.scheme ∧ a.method = b.method ∧ a.path = b.path ∧
      a.query.filter (fun p => !o.ignoreParams.contains p.1) = b.query.filter (fun p => !o.ignoreParams.contains p.1) ∧
      (o.ignoreHost = false → a.host = b.host) ∧
      (o.ignorePort = false → a.port = b.port) ∧
      (o.ignoreContent = false → contentOf o a = contentOf o b) ∧
      (∀ i ∈ o.useHeaders, hdrGet a.headers i = hdrGet b.headers i) := by
  have hmap : (o.useHeaders.map (fun i => (i, hdrGet a.headers i)) = o.useHeaders.map (fun i => (i, hdrGet b.headers i)))
      ↔ ∀ i ∈ o.useHeaders, hdrGet a.headers i = hdrGet b.headers i := by
    rw [List.map_inj_left]; simp
  unfold keyOf
  rw [MKey.mk.injEq]
  cases o.ignoreHost <;> cases o.ignorePort <;> cases o.ignoreContent <;> cases hu : o.useHeaders.isEmpty <;>
    simp only [if_true, if_false, Bool.false_eq_true, Option.some.injEq, true_and, and_true, forall_const,
      false_imp_iff, imp_false, not_true_eq_false, reduceCtorEq]
  all_goals (first | (rw [hmap]; try (generalize (∀ i ∈ o.useHeaders, hdrGet a.headers i = hdrGet b.headers i) = H; constructor <;> (intro h; simp only [h, and_self]))) | skip)
  all_goals (
    have hnil : o.useHeaders = [] := by simpa using hu
    simp only [hnil, List.not_mem_nil, false_imp_iff, implies_true, and_true]
    try (constructor <;> (intro h; simp only [h, and_self])))

/-- the statement's notion of a matching request, spelled out on the request parts: `a` and `b` agree on every part
    that the options `o` do not ignore -/
def Agree (o : HashOpts) (a b : ReqF) : Prop :=
  a.scheme = b.scheme ∧ a.method = b.method ∧ a.path = b.path ∧
  a.query.filter (fun p => !o.ignoreParams.contains p.1) = b.query.filter (fun p => !o.ignoreParams.contains p.1) ∧
  (o.ignoreHost = false → a.host = b.host) ∧
  (o.ignorePort = false → a.port = b.port) ∧
  (o.ignoreContent = false → contentOf o a = contentOf o b) ∧
  (∀ i ∈ o.useHeaders, hdrGet a.headers i = hdrGet b.headers i)

/-- requests that agree on all non-ignored parts have the same key — for every option combination -/
theorem agreeing_parts_same_key (o : HashOpts) (a b : ReqF) : Agree o a b ↔ keyOf o a = keyOf o b :=
  (key_eq_iff_fields o a b).symm

/-- what "agree on the content" means under each payload option: with payload parameters to ignore and a
    non-empty form of the same kind, the non-ignored form fields must agree (two forms whose fields are all ignored
    agree whatever their kind); otherwise the raw bodies must be equal -/
theorem content_agree_cases (o : HashOpts) (a b : ReqF) :
    (o.ignorePayloadParams = [] → (contentOf o a = contentOf o b ↔ a.body = b.body)) ∧
    (o.ignorePayloadParams ≠ [] → a.multipart ≠ [] → b.multipart ≠ [] →
      (contentOf o a = contentOf o b ↔
        a.multipart.filter (fun p => !o.ignorePayloadParams.contains p.1)
          = b.multipart.filter (fun p => !o.ignorePayloadParams.contains p.1))) ∧
    (o.ignorePayloadParams ≠ [] → a.multipart = [] → b.multipart = [] → a.urlencoded ≠ [] → b.urlencoded ≠ [] →
      (contentOf o a = contentOf o b ↔
        a.urlencoded.filter (fun p => !o.ignorePayloadParams.contains p.1)
          = b.urlencoded.filter (fun p => !o.ignorePayloadParams.contains p.1))) ∧
    (a.multipart = [] → a.urlencoded = [] → b.multipart = [] → b.urlencoded = [] →
      (contentOf o a = contentOf o b ↔ a.body = b.body)) := by
  have inj1 : ∀ (l1 l2 : List (Bytes × Bytes)) (t : Bool),
      l1.map (fun p => (t, p.1, p.2)) = l2.map (fun p => (t, p.1, p.2)) ↔ l1 = l2 := by
    intro l1 l2 t
    constructor
    · intro h
      have := congrArg (List.map (fun (p : Bool × Bytes × Bytes) => (p.2.1, p.2.2))) h
      simpa [List.map_map, Function.comp_def] using this
    · intro h; rw [h]
  refine ⟨?_, ?_, ?_, ?_⟩
  · intro h; simp [contentOf, h]
  · intro h ha hb
    have h' : o.ignorePayloadParams.isEmpty = false := by cases hq : o.ignorePayloadParams <;> simp_all
    have ha' : a.multipart.isEmpty = false := by cases hq : a.multipart <;> simp_all
    have hb' : b.multipart.isEmpty = false := by cases hq : b.multipart <;> simp_all
    simp only [contentOf, h', ha', hb', Bool.not_false, Bool.and_self, if_true, Content.form.injEq]
    exact inj1 _ _ true
  · intro h ha hb hua hub
    have h' : o.ignorePayloadParams.isEmpty = false := by cases hq : o.ignorePayloadParams <;> simp_all
    have hua' : a.urlencoded.isEmpty = false := by cases hq : a.urlencoded <;> simp_all
    have hub' : b.urlencoded.isEmpty = false := by cases hq : b.urlencoded <;> simp_all
    simp only [contentOf, h', ha, hb, hua', hub', List.isEmpty_nil, Bool.not_true, Bool.and_false, Bool.false_eq_true,
      if_false, Bool.not_false, Bool.and_self, if_true, Content.form.injEq]
    exact inj1 _ _ false
  · intro h1 h2 h3 h4
    simp [contentOf, h1, h2, h3, h4]

/-- **requests that differ in a non-ignored form field never share a key** (so a recording is not served to them):
    with payload parameters to ignore, the content not ignored and a non-empty multipart form on both sides, different
    lists of non-ignored fields give different keys — whatever the other request parts and the ignored fields are. -/
theorem differing_field_different_key (o : HashOpts) (a b : ReqF) (hc : o.ignoreContent = false)
    (hp : o.ignorePayloadParams ≠ []) (ha : a.multipart ≠ []) (hb : b.multipart ≠ [])
    (hd : a.multipart.filter (fun p => !o.ignorePayloadParams.contains p.1)
          ≠ b.multipart.filter (fun p => !o.ignorePayloadParams.contains p.1)) :
    keyOf o a ≠ keyOf o b := by
  intro h
  have hag := (agreeing_parts_same_key o a b).mpr h
  have hcont := hag.2.2.2.2.2.2.1 hc
  exact hd (((content_agree_cases o a b).2.1 hp ha hb).mp hcont)

/-- **header lookup inside the model** (`Headers.get`): the configured header names are matched case-insensitively, and
    repeated fields are folded in order with ", " — a request without the header has the value `None`. -/
theorem header_lookup_spec (hs : List (Bytes × Bytes)) (n n' : Bytes) :
    (asciiLower n = asciiLower n' → hdrGet hs n = hdrGet hs n') ∧
    (hdrGet hs n = none ↔ ∀ p ∈ hs, asciiLower p.1 ≠ asciiLower n) ∧
    (∀ v w, hdrGet [(n, v), (n', w)] n = if asciiLower n' = asciiLower n then some (v ++ [44, 32] ++ w) else some v) := by
  refine ⟨fun h => by simp [hdrGet, h], ?_, ?_⟩
  · unfold hdrGet
    constructor
    · intro h p hp
      cases hf : (hs.filter (fun p => asciiLower p.1 == asciiLower n)).map (·.2) with
      | nil =>
        have hf' : hs.filter (fun p => asciiLower p.1 == asciiLower n) = [] := by simpa using hf
        intro he
        have : p ∈ hs.filter (fun p => asciiLower p.1 == asciiLower n) := List.mem_filter.mpr ⟨hp, by simp [he]⟩
        rw [hf'] at this; simp at this
      | cons v vs => rw [hf] at h; simp at h
    · intro h
      have : hs.filter (fun p => asciiLower p.1 == asciiLower n) = [] := by
        rw [List.filter_eq_nil_iff]
        intro p hp; simpa using h p hp
      simp [this]
  · intro v w
    by_cases h : asciiLower n' = asciiLower n
    · simp [hdrGet, h, joinCommaSpace]
    · simp [hdrGet, h, joinCommaSpace]

/-- **the property with the real key**: instantiate the replay model with `keyOf` (the transcription of `_hash`'s
    field selection).  After ANY history of loads / adds / clears / option changes / requests and for EVERY option
    combination, a request `q` is answered with recording `r` exactly when `r` is the first pending recording, in
    recording order, that has a response and agrees with `q` on all parts that the current options do not ignore. -/
theorem agreeing_request_served_next (o : HashOpts) (es : List (Event HashOpts ReqF)) (q : ReqF) (c : RCfg)
    (r : Rec ReqF) :
    let s := (run keyOf o es).1
    (request keyOf s q c).2 = .served r ↔
      ∃ pre post, s.recorded = pre ++ r :: post ∧ r.hasResp = true ∧ Agree s.opts r.req q ∧
        ∀ x ∈ pre, ¬ (Agree s.opts x.req q ∧ x.hasResp = true) := by
  intro s
  have hsf : (request keyOf s q c).2 = .served r ↔
      s.recorded.find? (fun x => decide (keyOf s.opts x.req = keyOf s.opts q) && x.hasResp) = some r :=
    serves_first_match keyOf o es q c r
  rw [hsf, List.find?_eq_some_iff_append]
  constructor
  · rintro ⟨hp, pre, post, e, hpre⟩
    simp only [Bool.and_eq_true, decide_eq_true_eq] at hp
    refine ⟨pre, post, e, hp.2, (agreeing_parts_same_key _ _ _).mpr hp.1, ?_⟩
    intro x hx ⟨ha, hxr⟩
    have := hpre x hx
    simp [(agreeing_parts_same_key _ _ _).mp ha, hxr] at this
  · rintro ⟨pre, post, e, hrr, ha, hpre⟩
    refine ⟨by simp [(agreeing_parts_same_key _ _ _).mp ha, hrr], pre, post, e, ?_⟩
    intro x hx
    cases hd : (decide (keyOf s.opts x.req = keyOf s.opts q) && x.hasResp) with
    | false => rfl
    | true =>
      exfalso
      simp only [Bool.and_eq_true, decide_eq_true_eq] at hd
      exact hpre x hx ⟨(agreeing_parts_same_key _ _ _).mpr hd.1, hd.2⟩

/-- … and with the real key a recording is served only to a request that agrees with it on all non-ignored parts -/
theorem served_only_if_parts_agree (o : HashOpts) (es : List (Event HashOpts ReqF)) (q : ReqF) (c : RCfg)
    (r : Rec ReqF) :
    let s := (run keyOf o es).1
    (request keyOf s q c).2 = .served r → Agree s.opts r.req q := by
  intro s h
  obtain ⟨_, _, _, _, ha, _⟩ := (agreeing_request_served_next o es q c r).mp h
  exact ha

/-! ### the models are not vacuous -/
section
private def h0 : Nat → Nat → Nat := fun o r => if o = 0 then r else 0
private def r1 : Rec Nat := ⟨1, 10, true, true, 101⟩
private def r2 : Rec Nat := ⟨2, 20, true, true, 102⟩
private def r3 : Rec Nat := ⟨3, 10, true, true, 103⟩
private def r4 : Rec Nat := ⟨4, 10, false, true, 0⟩
private def nr : RCfg := ⟨false, false, false, .status 404⟩
private def ru : RCfg := ⟨true, false, false, .kill⟩

/-- the F-C52a history (r1(a) r2(b) r3(a); ignore the distinguishing field; three requests) is served in
    recording order by the fixed code; a fourth request is answered as configured -/
example : (run h0 0 [.load [r1, r2, r3], .configure 1, .request 7 nr, .request 7 nr, .request 7 nr]).2
    = [.served r1, .served r2, .served r3] := by decide
/-- with reuse the same recording is served again and again, unaffected by edits of the copies served before -/
example : (run h0 0 [.load [r1], .request 10 ru, .edit 0 999, .request 10 ru, .edit 1 5, .request 10 ru]).2
    = [.served r1, .served r1, .served r1] := by decide
example : (run h0 0 [.load [r1, r2], .request 10 nr, .request 10 nr, .request 10 nr]).2
    = [.served r1, .status 404, .status 404] := by decide
/-- response-less recordings are skipped; reuse serves the same recording again; kill when nothing matches -/
example : (run h0 0 [.load [r4, r1, r3], .request 10 ru, .request 10 ru, .request 20 ru, .request 10 nr, .request 10 nr]).2
    = [.served r1, .served r1, .killed, .served r1, .served r3] := by decide
/-- non-vacuity with the real key: ignoring the host makes a recording for another host match -/
private def oAll : HashOpts := ⟨false, false, false, [], [], []⟩
private def oNoHost : HashOpts := ⟨false, true, false, [], [], []⟩
private def rqA : ReqF := ⟨[104], [71], [47], [], [97], 80, some [], none, [], []⟩
private def rqB : ReqF := { rqA with host := [98] }
private def recA : Rec ReqF := ⟨1, rqA, true, true, 7⟩
example : (run keyOf oAll [.load [recA], .request rqB nr]).2 = [.status 404] := by decide
example : (run keyOf oAll [.load [recA], .configure oNoHost, .request rqB nr]).2 = [.served recA] := by decide
/-- the multipart decoder inside the model: a part that writes `filename="u"` BEFORE `name="w"` is the field `w`
    (the `\b` of the name pattern), and a part without a name parameter is no field -/
private def mpBody1 : Bytes := [45, 45, 88, 88, 13, 10, 67, 111, 110, 116, 101, 110, 116, 45, 68, 105, 115, 112, 111, 115, 105, 116, 105, 111, 110, 58, 32, 102, 111, 114, 109, 45, 100, 97, 116, 97, 59, 32, 102, 105, 108, 101, 110, 97, 109, 101, 61, 34, 117, 34, 59, 32, 110, 97, 109, 101, 61, 34, 119, 34, 13, 10, 13, 10, 49, 13, 10, 45, 45, 88, 88, 45, 45, 13, 10]
private def mpBody2 : Bytes := [45, 45, 88, 88, 13, 10, 67, 111, 110, 116, 101, 110, 116, 45, 68, 105, 115, 112, 111, 115, 105, 116, 105, 111, 110, 58, 32, 102, 111, 114, 109, 45, 100, 97, 116, 97, 59, 32, 102, 105, 108, 101, 110, 97, 109, 101, 61, 34, 117, 34, 13, 10, 13, 10, 49, 13, 10, 45, 45, 88, 88, 45, 45, 13, 10]
example : (({ rqA with boundary := some [88, 88], body := some mpBody1 } : ReqF).multipart) = [([119], [49])] := by decide +kernel
example : (({ rqA with boundary := some [88, 88], body := some mpBody2 } : ReqF).multipart) = [] := by decide +kernel
example : (({ rqA with boundary := none, body := some mpBody1 } : ReqF).multipart) = [] := by decide
example : Agree oNoHost rqA rqB ∧ ¬ Agree oAll rqA rqB := by
  constructor
  · simp [Agree, oNoHost, rqA, rqB, contentOf]
  · simp [Agree, oAll, rqA, rqB]
/-! audit round 6: further non-vacuity witnesses (added by the auditor) -/
-- `differing_field_different_key`: all five hypotheses on two multipart requests whose non-ignored field `w` differs
-- (1 vs 2) while payload parameter `x` is ignored — and the conclusion
private def mpBody3 : Bytes := [45, 45, 88, 88, 13, 10, 67, 111, 110, 116, 101, 110, 116, 45, 68, 105, 115, 112, 111, 115, 105, 116, 105, 111, 110, 58, 32, 102, 111, 114, 109, 45, 100, 97, 116, 97, 59, 32, 102, 105, 108, 101, 110, 97, 109, 101, 61, 34, 117, 34, 59, 32, 110, 97, 109, 101, 61, 34, 119, 34, 13, 10, 13, 10, 50, 13, 10, 45, 45, 88, 88, 45, 45, 13, 10]
private def oPP : HashOpts := ⟨false, false, false, [], [[120]], []⟩
private def rqM1 : ReqF := { rqA with boundary := some [88, 88], body := some mpBody1 }
private def rqM3 : ReqF := { rqA with boundary := some [88, 88], body := some mpBody3 }
example : oPP.ignoreContent = false ∧ oPP.ignorePayloadParams ≠ [] ∧ rqM1.multipart ≠ [] ∧ rqM3.multipart ≠ [] ∧
    rqM1.multipart.filter (fun p => !oPP.ignorePayloadParams.contains p.1)
      ≠ rqM3.multipart.filter (fun p => !oPP.ignorePayloadParams.contains p.1) ∧
    keyOf oPP rqM1 ≠ keyOf oPP rqM3 := by decide +kernel
-- … while ignoring the field `w` itself makes the two requests share a key (the model is not constant in the option)
example : keyOf ⟨false, false, false, [], [[119]], []⟩ rqM1 = keyOf ⟨false, false, false, [], [[119]], []⟩ rqM3 := by decide +kernel
-- `equal_keys_in_recording_order` / `at_most_once_without_reuse`: the response-less recording with the key is dropped
-- together with the served one; a recording loaded twice is served twice and no more (the third request finds the
-- replay exhausted = inactive and is forwarded; with another recording still pending it gets the configured status)
example : (run h0 0 [.load [r4, r1, r3], .request 10 nr]).1.recorded = [r3] := by decide
example : (run h0 0 [.load [r1, r1], .request 10 nr, .request 10 nr, .request 10 nr]).2
    = [.served r1, .served r1, .forwarded] := by decide
example : (run h0 0 [.load [r1, r1, r2], .request 10 nr, .request 10 nr, .request 10 nr]).2
    = [.served r1, .served r1, .status 404] := by decide
-- `reindex_preserves_multiset` on a state with something already served: two pending recordings collapse into one bucket
example : (configure h0 (run h0 0 [.load [r1, r2, r3], .request 20 nr]).1 1).flowmap = [(0, [r1, r3])] ∧
    count (configure h0 (run h0 0 [.load [r1, r2, r3], .request 20 nr]).1 1) = 2 := by decide
-- `unmatched_as_configured`: inactive replay forwards; the deprecated kill_extra wins over a configured status
example : (run h0 0 [.request 10 nr]).2 = [.forwarded] ∧ (run h0 0 [.load [r1], .clear, .request 10 nr]).2 = [.forwarded] ∧
    (run h0 0 [.load [r1], .request 20 ⟨false, false, true, .status 404⟩]).2 = [.killed] := by decide
-- `header_lookup_spec` / the `useHeaders` part of the key: case-insensitive names, ", " folding, and a differing
-- configured header separates two otherwise equal requests
example : hdrGet [([65], [49]), ([97], [50])] [65] = some [49, 44, 32, 50] ∧ hdrGet [([65], [49])] [66] = none := by decide
example : keyOf ⟨false, false, false, [], [], [[120]]⟩ { rqA with headers := [([88], [49])] }
    ≠ keyOf ⟨false, false, false, [], [], [[120]]⟩ { rqA with headers := [([88], [50])] } ∧
    keyOf oAll { rqA with headers := [([88], [49])] } = keyOf oAll { rqA with headers := [([88], [50])] } := by decide
end

end MitmVerif.Props.C52
