/-
  C53 — client replay runs queued flows sequentially and cleans up.
  Theorems about the model `MitmVerif.C53` (Model/C53.lean) for EVERY history of replay submissions,
  stop commands, user edits, playback-loop steps and replay completions (`Reach attrs fs s`: `s` is
  reached from the idle addon holding flows `attrs`/`fs` by some list of operations).
  "every replayed flow ends with a response or an error" is a liveness claim.  What is PROVED, about the model and
  under an explicit fairness hypothesis (the history continues with playback-loop / server operations until no
  terminal event is enabled): a variant decreases on every such operation (`replay_variant_decreases`,
  `replay_run_bounded`), a terminal event is always enabled while work is left (`terminal_event_enabled`), a
  completing continuation EXISTS and is short (`fair_completion_exists`), and at an idle end every started replay has
  its `fin` (`every_replay_completes`, `all_started_replays_complete` — by `terminal_event_enabled` their hypothesis
  says "the end state is quiescent", and their conclusion is the log invariant read there).  What is NOT proved: that
  the real ReplayHandler turns every server outcome into a response/error hook — that is explored by the harness
  (winddown of every script, oracle clauses), see level_note.

  Tie conditions.  Some theorems carry a hypothesis their proof does not use (`_hnot : stopBlocked s = false`,
  `_hloop : ∀ o ∈ os, isLoopOp o = true`).  They are not what makes the statement true — it holds for the model
  function in every state — but what makes it a statement about mitmproxy: in a blocked state `step s .stop = none`,
  the driver never runs `stopReplay` there and the real code is outside the model (F-C53b/c); and only for histories
  of loop/server operations is "the end state enables no terminal event" the fairness hypothesis meant here.

  "Unreplayable" in `unreplayable_never_queued` is read at the time of queueing (`check` is evaluated by
  `start_replay`): a flow already queued can become live later (a replay of it starts) and stay in the queue.
-/
import MitmVerif.Lemmas.C53
namespace MitmVerif.Props.C53
open MitmVerif.C53

/-- with client_replay_concurrency = 1 replays never overlap: read oldest-first, the log is a sequence of
    `start t, [sent t], fin t` groups — a request is sent only by the one replay that is running, and
    the next replay starts only after `fin` of the previous one. -/
theorem sequential {attrs : List Attr} {fs : List FState} {s : St} (h : Reach attrs fs s) :
    logStatus s.log = some (statusOf s.inflight) :=
  (Reach.inv h).seq

/-- flows are replayed in queue order: the tickets (order of `put_nowait`) of the replays started so far
    are strictly increasing in time, every ticket still queued is larger than every ticket started, and
    the queue itself is in ticket order. -/
theorem queue_order {attrs : List Attr} {fs : List FState} {s : St} (h : Reach attrs fs s) :
    (startTickets s.log).Pairwise (· > ·) ∧
    (∀ t ∈ startTickets s.log, ∀ e ∈ s.queue, t < e.ticket) ∧
    (s.queue.map (·.ticket)).Pairwise (· < ·) :=
  ⟨(Reach.inv h).ord.order, (Reach.inv h).ord.ahead, (Reach.inv h).ord.sorted⟩

/-- flows that cannot be replayed (live, intercepted, non-HTTP, missing request or content, WebSocket)
    are never in the queue. -/
theorem unreplayable_never_queued {attrs : List Attr} {fs : List FState} {s : St} (h : Reach attrs fs s) :
    ∀ e ∈ s.queue, ∃ a, s.attrs[e.idx]? = some a ∧ replayable a = true :=
  (Reach.inv h).repl

/-- the full statement: stopping replay restores every still-queued flow (its earliest queued occurrence)
    to the state it had right before start_replay prepared it -/
def StopRestoresQueued (s : St) : Prop :=
  ∀ e ∈ s.queue, s.queue.find? (·.idx == e.idx) = some e →
    ((stopReplay s).fs[e.idx]?).map (·.cur) = some e.pre

/-- proved part: every queued flow that had no older backup when start_replay prepared it (`fresh`) is
    restored to its pre-replay state.  What is excluded is exactly `Flow.backup()` finding an older backup
    (a user edit, or an earlier replay that finished): known finding F-C53a — and stop while a still-queued
    flow is also the one in flight (`stopBlocked`, known finding F-C53b), where the code is outside the model. -/
theorem stop_restores_queued_partial {attrs : List Attr} {fs : List FState} {s : St} (h : Reach attrs fs s)
    (_hnot : stopBlocked s = false)   -- tie condition (unused in the proof): only then does `step s .stop` run `stopReplay`
    :
    ∀ e ∈ s.queue, e.fresh = true → ((stopReplay s).fs[e.idx]?).map (·.cur) = some e.pre := by
  intro e he hf
  obtain ⟨f, hfs, hb⟩ := (Reach.inv h).back e he hf
  exact revertAll_restores _ s.fs e.idx f e.pre (List.mem_map.mpr ⟨e, he, rfl⟩) hfs hb

/-- full strength, no guard on the flow: stopping replay sets EVERY still-queued flow to the backup it has carried
    since it was queued (`bk`) — its pre-replay state if it had no backup then (`fresh_backup_is_pre`), the older
    backup otherwise.  This is exactly what the code does, F-C53a included: the model predicts the wrong outcome. -/
theorem stop_restores_backup {attrs : List Attr} {fs : List FState} {s : St} (h : Reach attrs fs s)
    (_hnot : stopBlocked s = false)   -- tie condition (unused in the proof): only then does `step s .stop` run `stopReplay`
    :
    ∀ e ∈ s.queue, ((stopReplay s).fs[e.idx]?).map (·.cur) = some e.bk := by
  intro e he
  obtain ⟨f, hfs, hb⟩ := (Reach.inv h).bk e he
  exact revertAll_restores _ s.fs e.idx f e.bk (List.mem_map.mpr ⟨e, he, rfl⟩) hfs hb

/-- the backup recorded for an entry whose flow had none is that flow's pre-replay state -/
theorem fresh_backup_is_pre {attrs : List Attr} {fs : List FState} {s : St} (h : Reach attrs fs s) :
    ∀ e ∈ s.queue, e.fresh = true → e.bk = e.pre :=
  (Reach.inv h).fresh

/-- hence a queued flow is restored to its pre-replay state exactly when the backup it carries is that state -/
theorem stop_restores_pre_iff {attrs : List Attr} {fs : List FState} {s : St} (h : Reach attrs fs s)
    (hnot : stopBlocked s = false) :
    ∀ e ∈ s.queue, (((stopReplay s).fs[e.idx]?).map (·.cur) = some e.pre ↔ e.bk = e.pre) := by
  intro e he
  rw [stop_restores_backup h hnot e he]
  constructor
  · intro h'; exact Option.some.inj h'
  · intro h'; rw [h']

def okAttr : Attr := { live := false, intercepted := false, isHttp := true, hasReq := true, hasContent := true, ws := false }
def cur0 : Cur := { resp := true, err := false, marked := false, ver := 0 }

/-- F-C53a: an edited flow (it has a backup) is queued, replay is stopped: the flow is reverted to the state
    before the *edit*, not to its pre-replay state -/
theorem stop_restores_queued_counterexample :
    ∃ s, Reach [okAttr] [{ cur := cur0, backup := none }] s ∧ ¬ StopRestoresQueued s := by
  refine ⟨_, ⟨[.edit 0, .start [0]], rfl⟩, ?_⟩
  intro h
  have := h { ticket := 0, idx := 0, fresh := false, pre := { cur0 with ver := 1 }, bk := cur0 } (by decide) (by decide)
  revert this
  decide

/-- F-C53b/c is reachable in the model's terms: the same flow submitted twice, the first occurrence taken and its
    request out (server connection open) -/
theorem stop_blocked_reachable :
    ∃ s, Reach [okAttr] [{ cur := cur0, backup := none }] s ∧ stopBlocked s = true ∧ step s .stop = none :=
  ⟨_, ⟨[.start [0, 0], .take, .send], rfl⟩, by decide⟩

/-! ### liveness: "every replayed flow ends with a response or an error"

The server side is the environment.  The fairness hypothesis is stated explicitly: the history continues
with playback-loop / server operations only (`isLoopOp`: take, send, finish — no new submissions) until no
terminal event is enabled any more, i.e. the loop has taken what it can take and the server has answered,
refused or dropped everything pending. -/

/-- variant: every playback-loop / server operation strictly decreases `variant` (3 per queued flow, 2 for a
    taken replay, 1 for a replay whose request is out) -/
theorem replay_variant_decreases {s s' : St} {o : Op} (ho : isLoopOp o = true) (h : step s o = some s') :
    variant s' < variant s := by
  have := variant_step ho h; omega

/-- hence no history of loop/server operations is longer than the variant: the loop cannot run forever
    without new submissions -/
theorem replay_run_bounded {s s' : St} {os : List Op} (hloop : ∀ o ∈ os, isLoopOp o = true)
    (hrun : run s os = some s') : os.length + variant s' ≤ variant s :=
  variant_run os s s' hloop hrun

/-- progress: while a flow is queued or in flight, a terminal event is enabled — the loop can take the next
    flow, or the replay in flight can be completed by a response as well as by an error -/
theorem terminal_event_enabled (s : St) (h : quiescent s = false) :
    (∃ s', step s .take = some s') ∨ (∀ r, ∃ s', step s (.finish r) = some s') :=
  progress s h

/-- completing a replay leaves the flow with a response or an error -/
theorem finish_sets_outcome {s s' : St} {r : Bool} {e : Entry} {ph : Phase} {f : FState}
    (h : step s (.finish r) = some s') (hinf : s.inflight = some (e, ph)) (hf : s.fs[e.idx]? = some f) :
    ∃ f', s'.fs[e.idx]? = some f' ∧ (f'.cur.resp = true ∨ f'.cur.err = true) := by
  have hlt : e.idx < s.fs.length := by
    rcases Nat.lt_or_ge e.idx s.fs.length with h | h
    · exact h
    · simp [List.getElem?_eq_none h] at hf
  have hget : s.fs[e.idx] = f := by
    have h2 := hf; rw [List.getElem?_eq_getElem hlt] at h2; exact Option.some.inj h2
  simp only [step, hinf, Option.some.injEq] at h; subst h
  cases r
  · exact ⟨{ f with cur := { f.cur with err := true }, lv := false }, by simp [finishFlow, hf, hlt, hget], Or.inr rfl⟩
  · exact ⟨{ f with cur := { f.cur with resp := true }, lv := false }, by simp [finishFlow, hf, hlt, hget], Or.inl rfl⟩

/-- liveness under fairness: from any reachable state, if the history continues with loop/server operations
    only and ends where no terminal event is enabled (the server has answered or refused everything pending
    and the loop has taken everything), then nothing is queued or in flight and every replay that was ever
    started has finished (`fin`: its response/error hook completed). -/
theorem every_replay_completes {attrs : List Attr} {fs : List FState} {s s' : St} {os : List Op}
    (h : Reach attrs fs s) (_hloop : ∀ o ∈ os, isLoopOp o = true) (hrun : run s os = some s')
    (hfair : step s' .take = none ∧ ∀ r, step s' (.finish r) = none) :
    s'.inflight = none ∧ s'.queue = [] ∧ ∀ t ∈ startTickets s'.log, t ∈ finTickets s'.log := by
  have hq : quiescent s' = true := by
    cases hqs : quiescent s' with
    | true => rfl
    | false =>
      rcases progress s' hqs with ⟨s1, h1⟩ | hf
      · rw [hfair.1] at h1; simp at h1
      · obtain ⟨s1, h1⟩ := hf true
        rw [hfair.2 true] at h1; simp at h1
  simp only [quiescent, Bool.and_eq_true, Option.isNone_iff_eq_none, List.isEmpty_iff] at hq
  refine ⟨hq.1, hq.2, ?_⟩
  have hseq := (Reach.inv (Reach.extend h hrun)).seq
  unfold SeqInv at hseq
  rw [hq.1] at hseq
  intro t ht
  rcases log_closed _ _ hseq t ht with h | h | h
  · exact h
  · simp [statusOf] at h
  · simp [statusOf] at h

/-- and such a fair completion always exists and is short: at most `variant s` loop/server operations -/
theorem fair_completion_exists {attrs : List Attr} {fs : List FState} {s : St} (h : Reach attrs fs s) :
    ∃ os s', (∀ o ∈ os, isLoopOp o = true) ∧ os.length ≤ variant s ∧ run s os = some s' ∧
      s'.inflight = none ∧ s'.queue = [] ∧ ∀ t ∈ startTickets s'.log, t ∈ finTickets s'.log := by
  obtain ⟨os, s', hl, hlen, hrun, hq⟩ := drain_exists (variant s) s (Nat.le_refl _)
  refine ⟨os, s', hl, hlen, hrun, ?_⟩
  have hq' := hq
  simp only [quiescent, Bool.and_eq_true, Option.isNone_iff_eq_none, List.isEmpty_iff] at hq'
  refine every_replay_completes h hl hrun ⟨?_, ?_⟩
  · simp [step, hq'.1, hq'.2]
  · intro r; simp [step, hq'.1]

/-- the fairness hypothesis is satisfiable and the conclusion not vacuous: two queued flows, the server answers
    one and refuses the other — both replays are started and finished -/
example : ∃ s', run (startReplay (init [okAttr, okAttr] [{ cur := cur0, backup := none }, { cur := cur0, backup := none }]) [0, 1])
      [.take, .send, .finish true, .take, .finish false] = some s' ∧
    step s' .take = none ∧ startTickets s'.log = [1, 0] ∧ finTickets s'.log = [1, 0] :=
  ⟨_, rfl, by decide⟩

/-- without fairness nothing is promised: a replay whose server never answers stays in flight -/
example : ∃ s', run (init [okAttr] [{ cur := cur0, backup := none }]) [.start [0], .take, .send] = some s' ∧
    s'.inflight.isSome = true ∧ finTickets s'.log = [] :=
  ⟨_, rfl, by decide⟩

/-! ### the option is read when a flow is dispatched -/

/-- `take` decides with the option value it finds when the flow has been dequeued: with the option at 1 the loop
    awaits the replay (it becomes `inflight`, nothing joins the background set), with -1 the replay joins the
    background set and the loop stays free -/
theorem dispatch_reads_option_at_take {s s' : St} (h : step s .take = some s') :
    (s.seq = true → s'.inflight.isSome = true ∧ s'.bg = s.bg) ∧
    (s.seq = false → s'.inflight = none ∧ s'.bg.length = s.bg.length + 1) := by
  simp only [step] at h
  split at h
  · rename_i e rest hinf hq
    split at h
    · rename_i hs
      simp only [Option.some.injEq] at h; subst h
      exact ⟨fun _ => ⟨rfl, rfl⟩, fun h' => by simp [hs] at h'⟩
    · rename_i hs
      simp only [Option.some.injEq] at h; subst h
      exact ⟨fun h' => absurd h' hs, fun _ => ⟨hinf, by simp⟩⟩
  · simp at h

/-- whatever the option did before and does afterwards (`setopt` at idle or busy moments): read oldest-first, the
    global log never shows a replay being started while a replay that was started with the option at 1 has not
    finished; the status is the ticket of the replay the loop is awaiting -/
theorem sequential_while_option_is_one {attrs : List Attr} {fs : List FState} {s : St} (h : Reach attrs fs s) :
    seqStatus s.glog = some (openTicket s) :=
  (Reach.inv h).gseq

/-- in particular no `take` is possible while a replay started with the option at 1 is running -/
theorem no_dispatch_while_awaiting {s : St} (h : s.inflight.isSome = true) : step s .take = none := by
  cases hinf : s.inflight with
  | none => simp [hinf] at h
  | some p => simp [step, hinf]

/-- every replay ever started, in either mode, has finished, is awaited by the loop, or runs in the background -/
theorem started_replays_accounted {attrs : List Attr} {fs : List FState} {s : St} (h : Reach attrs fs s) :
    ∀ t ∈ gstartTickets s.glog, t ∈ gfinTickets s.glog ∨ openTicket s = some t ∨ t ∈ s.bg.map (·.1.ticket) :=
  (Reach.inv h).gclosed

/-- liveness for both modes under fairness: if the history continues with loop/server operations only and ends
    where no terminal event is enabled — nothing to take, nothing awaited, no background replay left to
    complete — then every replay ever started (awaited or background) has finished -/
theorem all_started_replays_complete {attrs : List Attr} {fs : List FState} {s s' : St} {os : List Op}
    (h : Reach attrs fs s) (_hloop : ∀ o ∈ os, isLoopOp o = true) (hrun : run s os = some s')
    (hfair : step s' .take = none ∧ (∀ r, step s' (.finish r) = none) ∧ ∀ t r, step s' (.bfinish t r) = none) :
    s'.inflight = none ∧ s'.queue = [] ∧ s'.bg = [] ∧ ∀ t ∈ gstartTickets s'.glog, t ∈ gfinTickets s'.glog := by
  obtain ⟨h1, h2, _⟩ := every_replay_completes h _hloop hrun ⟨hfair.1, hfair.2.1⟩
  have hbg : s'.bg = [] := by
    cases hb : s'.bg with
    | nil => rfl
    | cons p ps =>
      have := hfair.2.2 p.1.ticket true
      simp [step, hb] at this
  refine ⟨h1, h2, hbg, ?_⟩
  intro t ht
  rcases (Reach.inv (Reach.extend h hrun)).gclosed t ht with h3 | h3 | h3
  · exact h3
  · simp [openTicket, h1] at h3
  · simp [hbg] at h3

/-- the option switched from -1 to 1 while the loop is idle, then two flows queued: the first is dispatched with
    the option value current at dispatch (1): it is awaited, and the second cannot be taken before it finishes -/
example : ∃ s, run (init [okAttr, okAttr] [{ cur := cur0, backup := none }, { cur := cur0, backup := none }])
      [.setopt false, .setopt true, .start [0, 1], .take] = some s ∧
    s.inflight.isSome = true ∧ s.bg = [] ∧ step s .take = none :=
  ⟨_, rfl, by decide⟩

/-- with the option at -1 both are dispatched at once and run in the background; switching to 1 afterwards does
    not stop them, but the next flow is awaited -/
example : ∃ s, run (init [okAttr, okAttr, okAttr]
        [{ cur := cur0, backup := none }, { cur := cur0, backup := none }, { cur := cur0, backup := none }])
      [.setopt false, .start [0, 1], .take, .take, .setopt true, .start [2], .take, .bsend 0, .bfinish 1 false] = some s ∧
    s.bg.map (·.1.ticket) = [0] ∧ openTicket s = some 2 ∧ seqStatus s.glog = some (some 2) :=
  ⟨_, rfl, by decide⟩

/-! ### non-vacuity -/

/-- two flows replayed one after the other, the first answered, the second failing before it is sent -/
example : ∃ s, Reach [okAttr, okAttr] [{ cur := cur0, backup := none }, { cur := cur0, backup := none }] s ∧
    s.log = [.fin 1, .start 1, .fin 0, .sent 0, .start 0] ∧ s.queue = [] :=
  ⟨_, ⟨[.start [0, 1], .take, .send, .finish true, .take, .finish false], rfl⟩, by decide⟩

/-- the model refuses overlapping replays and sends without a running replay -/
example : run (init [okAttr, okAttr] [{ cur := cur0, backup := none }, { cur := cur0, backup := none }])
    [.start [0, 1], .take, .take] = none := by decide
example : run (init [okAttr] [{ cur := cur0, backup := none }]) [.start [0], .send] = none := by decide

/-- check refuses: a live flow and the flow in flight are not queued -/
example : (startReplay (init [{ okAttr with live := true }] [{ cur := cur0, backup := none }]) [0]).queue = [] := by
  decide

/-- the guard of the partial theorem is satisfiable: a fresh queued flow is restored -/
example : ∃ s, Reach [okAttr] [{ cur := cur0, backup := none }] s ∧
    stopBlocked s = false ∧ (∃ e ∈ s.queue, e.fresh = true) ∧ (stopReplay s).fs = [{ cur := cur0, backup := none }] :=
  ⟨_, ⟨[.start [0]], rfl⟩, by decide⟩

/-! ### cross-audit round 6: further non-vacuity witnesses (appended by the auditor, examples only) -/

private def f0 : FState := { cur := cur0, backup := none }

/-- `queue_order` on a state where all three conjuncts speak about something: two replays started (tickets 1, 0), one
    flow still queued (ticket 2) -/
example : ∃ s, Reach [okAttr, okAttr, okAttr] [f0, f0, f0] s ∧ startTickets s.log = [1, 0] ∧
    s.queue.map (·.ticket) = [2] ∧ s.inflight.isSome = true :=
  ⟨_, ⟨[.start [0, 1, 2], .take, .send, .finish true, .take], rfl⟩, by decide⟩

/-- `unreplayable_never_queued`: a WebSocket flow, an intercepted flow and a flow without content submitted together
    with a replayable one — only the replayable one is queued -/
example : ∃ s, Reach [okAttr, { okAttr with ws := true }, { okAttr with intercepted := true }, { okAttr with hasContent := false }]
      [f0, f0, f0, f0] s ∧ s.queue.map (·.idx) = [0] :=
  ⟨_, ⟨[.start [1, 0, 2, 3]], rfl⟩, by decide⟩

/-- `stop_restores_backup` / `stop_restores_pre_iff` on a NON-fresh entry (the F-C53a situation) with the guard
    `stopBlocked = false`: the flow is set to the backup it carried (`bk = cur0`), which is not its pre-replay state -/
example : ∃ s, Reach [okAttr] [f0] s ∧ stopBlocked s = false ∧
    s.queue.map (fun e => (e.fresh, e.bk, e.pre)) = [(false, cur0, { cur0 with ver := 1 })] ∧
    (stopReplay s).fs.map (·.cur) = [cur0] :=
  ⟨_, ⟨[.edit 0, .start [0]], rfl⟩, by decide⟩

/-- the same flow queued twice, first occurrence taken but its request not yet out: stop is NOT blocked (the guard of the
    stop theorems holds while a queued flow is also in flight) and the flow is reverted -/
example : ∃ s, Reach [okAttr] [f0] s ∧ stopBlocked s = false ∧ s.inflight.isSome = true ∧ s.queue.map (·.idx) = [0] ∧
    (stopReplay s).fs.map (·.cur) = [cur0] :=
  ⟨_, ⟨[.start [0, 0], .take], rfl⟩, by decide⟩

/-- `all_started_replays_complete`: its fairness hypothesis is satisfiable after background replays — nothing to take,
    nothing awaited, no background replay left — and both started replays have finished -/
example : ∃ s', run (init [okAttr, okAttr] [f0, f0]) [.setopt false, .start [0, 1], .take, .take, .bsend 1, .bfinish 0 true, .bfinish 1 false] = some s' ∧
    step s' .take = none ∧ (∀ r, step s' (.finish r) = none) ∧ (∀ t r, step s' (.bfinish t r) = none) ∧
    gstartTickets s'.glog = [1, 0] ∧ gfinTickets s'.glog = [1, 0] :=
  ⟨_, rfl, by decide, fun _ => rfl, fun _ _ => rfl, by decide, by decide⟩

/-- `finish_sets_outcome`: its hypotheses hold in a reachable state (a replay in flight on an existing flow) -/
example : ∃ s e ph f, Reach [okAttr] [f0] s ∧ s.inflight = some (e, ph) ∧ s.fs[e.idx]? = some f ∧
    (step s (.finish false)).isSome = true :=
  ⟨_, _, _, _, ⟨[.start [0], .take], rfl⟩, rfl, rfl, by decide⟩

end MitmVerif.Props.C53
