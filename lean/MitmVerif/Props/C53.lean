/-
  C53 — client replay runs queued flows sequentially and cleans up.
  Theorems about the model `MitmVerif.C53` (Model/C53.lean) for EVERY history of replay submissions,
  stop commands, user edits, playback-loop steps and replay completions (`Reach attrs fs s`: `s` is
  reached from the idle addon holding flows `attrs`/`fs` by some list of operations).
  "every replayed flow ends with a response or an error" is a liveness claim: explored by the harness,
  not proved (see level_note).
-/
import MitmVerif.Lemmas.C53
namespace MitmVerif.Props.C53
open MitmVerif.C53

/-- with client_replay_concurrency = 1 replays never overlap: read oldest-first, the log is a sequence of
    `start t, [sent t], fin t` groups — a request is sent only by the one replay that is running, and
    the next replay starts only after `fin` of the previous one. -/
theorem sequential {attrs : List Attr} {fs : List FState} {s : St} (h : Reach attrs fs s) :
    logStatus s.log = some (statusOf s.inflight) :=
  (Reach.inv h).seq

/-- flows are replayed in queue order: the tickets (order of `put_nowait`) of the replays started so far
    are strictly increasing in time, every ticket still queued is larger than every ticket started, and
    the queue itself is in ticket order. -/
theorem queue_order {attrs : List Attr} {fs : List FState} {s : St} (h : Reach attrs fs s) :
    (startTickets s.log).Pairwise (· > ·) ∧
    (∀ t ∈ startTickets s.log, ∀ e ∈ s.queue, t < e.ticket) ∧
    (s.queue.map (·.ticket)).Pairwise (· < ·) :=
  ⟨(Reach.inv h).ord.order, (Reach.inv h).ord.ahead, (Reach.inv h).ord.sorted⟩

/-- flows that cannot be replayed (live, intercepted, non-HTTP, missing request or content, WebSocket)
    are never in the queue. -/
theorem unreplayable_never_queued {attrs : List Attr} {fs : List FState} {s : St} (h : Reach attrs fs s) :
    ∀ e ∈ s.queue, ∃ a, s.attrs[e.idx]? = some a ∧ replayable a = true :=
  (Reach.inv h).repl

/-- the full statement: stopping replay restores every still-queued flow (its earliest queued occurrence)
    to the state it had right before start_replay prepared it -/
def StopRestoresQueued (s : St) : Prop :=
  ∀ e ∈ s.queue, s.queue.find? (·.idx == e.idx) = some e →
    ((stopReplay s).fs[e.idx]?).map (·.cur) = some e.pre

/-- proved part: every queued flow that had no older backup when start_replay prepared it (`fresh`) is
    restored to its pre-replay state.  What is excluded is exactly `Flow.backup()` finding an older backup
    (a user edit, or an earlier replay that finished): known finding F-C53a — and stop while a still-queued
    flow is also the one in flight (`stopBlocked`, known finding F-C53b), where the code is outside the model. -/
theorem stop_restores_queued_partial {attrs : List Attr} {fs : List FState} {s : St} (h : Reach attrs fs s)
    (_hnot : stopBlocked s = false) :
    ∀ e ∈ s.queue, e.fresh = true → ((stopReplay s).fs[e.idx]?).map (·.cur) = some e.pre := by
  intro e he hf
  obtain ⟨f, hfs, hb⟩ := (Reach.inv h).back e he hf
  exact revertAll_restores _ s.fs e.idx f e.pre (List.mem_map.mpr ⟨e, he, rfl⟩) hfs hb

def okAttr : Attr := { live := false, intercepted := false, isHttp := true, hasReq := true, hasContent := true, ws := false }
def cur0 : Cur := { resp := true, err := false, marked := false, ver := 0 }

/-- F-C53a: an edited flow (it has a backup) is queued, replay is stopped: the flow is reverted to the state
    before the *edit*, not to its pre-replay state -/
theorem stop_restores_queued_counterexample :
    ∃ s, Reach [okAttr] [{ cur := cur0, backup := none }] s ∧ ¬ StopRestoresQueued s := by
  refine ⟨_, ⟨[.edit 0, .start [0]], rfl⟩, ?_⟩
  intro h
  have := h { ticket := 0, idx := 0, fresh := false, pre := { cur0 with ver := 1 } } (by decide) (by decide)
  revert this
  decide

/-- F-C53b is reachable in the model's terms: the same flow submitted twice, the first occurrence taken -/
theorem stop_blocked_reachable :
    ∃ s, Reach [okAttr] [{ cur := cur0, backup := none }] s ∧ stopBlocked s = true ∧ step s .stop = none :=
  ⟨_, ⟨[.start [0, 0], .take], rfl⟩, by decide⟩

/-! ### non-vacuity -/

/-- two flows replayed one after the other, the first answered, the second failing before it is sent -/
example : ∃ s, Reach [okAttr, okAttr] [{ cur := cur0, backup := none }, { cur := cur0, backup := none }] s ∧
    s.log = [.fin 1, .start 1, .fin 0, .sent 0, .start 0] ∧ s.queue = [] :=
  ⟨_, ⟨[.start [0, 1], .take, .send, .finish true, .take, .finish false], rfl⟩, by decide⟩

/-- the model refuses overlapping replays and sends without a running replay -/
example : run (init [okAttr, okAttr] [{ cur := cur0, backup := none }, { cur := cur0, backup := none }])
    [.start [0, 1], .take, .take] = none := by decide
example : run (init [okAttr] [{ cur := cur0, backup := none }]) [.start [0], .send] = none := by decide

/-- check refuses: a live flow and the flow in flight are not queued -/
example : (startReplay (init [{ okAttr with live := true }] [{ cur := cur0, backup := none }]) [0]).queue = [] := by
  decide

/-- the guard of the partial theorem is satisfiable: a fresh queued flow is restored -/
example : ∃ s, Reach [okAttr] [{ cur := cur0, backup := none }] s ∧
    stopBlocked s = false ∧ (∃ e ∈ s.queue, e.fresh = true) ∧ (stopReplay s).fs = [{ cur := cur0, backup := none }] :=
  ⟨_, ⟨[.start [0]], rfl⟩, by decide⟩

end MitmVerif.Props.C53
