/-
  C54 — property theorems about the sticky-cookie jar model (Model/C54.lean), for ALL histories of responses
  and requests, every clock (the `expired` flags), every filter outcome (`flt`) and every notion of
  "IP address" obeying the two laws of `IPNotion`.

  * `impl_domain_match_sound` : stickycookie.domain_match(host, dom) ⇒ RFC 6265 §5.1.3 domain-match
  * `impl_path_match_iff`     : stickycookie.path_match = RFC 6265 §5.1.4 path-match on the request path
  * `attached_only_if_spec_match` : every cookie put on a request was set by an earlier, unexpired Set-Cookie of a
        response on the same port, whose key domain is domain-matched by the request host AND by the host that
        set it, and whose key path is path-matched by the request path
  * `foreign_domain_not_stored` : a Set-Cookie whose Domain is not domain-matched by the responding host leaves the
        jar unchanged; `stored_only_from_matching_host`: so after any history every jar entry was set by a matching host
  * `jar_is_last_write`, `jar_keys_and_names_unique`, `attached_is_latest_unexpired` : the jar is a function of the whole
        history (last accepted Set-Cookie per key and name wins; expired = gone) and only that is ever attached
  * `attached_only_if_spec_match_raw`, `max_age_nonpositive_is_expired`, `no_expiry_attribute_not_expired`,
        `valueless_domain_path_ignored` : the same with the clock, `cookies.is_expired` and the attribute lookup inside the model
  * `attached_only_if_spec_match_hdr`, `jar_is_last_write_hdr` : the same for histories given by the TEXT of the Set-Cookie
        headers (tokenizer = C34's transcription of `_read_set_cookie_pairs`); only email.utils' date verdict stays a parameter
  * `expired_removed_partial` : `expired_removed` under the name its guard calls for; `empty_domain_matches_nothing` : the
        RFC spec for an empty Domain value (host-only, §5.2.3)
  * `expired_removed` : after an accepted expired Set-Cookie there is no cookie of that name under its key, and no
        empty dict is left behind; `expired_removed_history`: the same at the end of any history;
        `jar_no_empty_dicts`: the jar never holds an empty dict
-/
import MitmVerif.Lemmas.C54
import MitmVerif.Model.C54_Header
namespace MitmVerif.Props.C54
open MitmVerif MitmVerif.C54

theorem impl_domain_match_sound (ip : IPNotion) (host dom : Bytes)
    (h : implDomainMatch host dom = true) : domainMatch6265 ip.isIP host dom = true :=
  implDomainMatch_sound ip host dom h

theorem impl_path_match_iff (req cpath : Bytes) :
    implPathMatch req cpath = pathMatch6265 (uriPath req) cpath :=
  implPathMatch_eq req cpath

/-- **Attachment.** If `(n, v)` is in the Cookie header the addon builds for a request after any history, then the
    filter matched and some response of that history carried an unexpired Set-Cookie `n=v`, on the same port,
    whose stored domain is RFC 6265 domain-matched both by the request host and by the host that set it, and whose
    stored path is RFC 6265 path-matched by the request path. -/
theorem attached_only_if_spec_match (ip : IPNotion) (evs : List Event) (flt : Bool) (host : Bytes) (port : Nat)
    (path n : Bytes) (v : Val) (h : (n, v) ∈ attached (runJar [] evs) flt host port path) :
    flt = true ∧
    ∃ rhost rport cs c, Event.resp rhost rport cs ∈ evs ∧ c ∈ cs ∧ c.name = n ∧ c.value = v ∧ c.expired = false ∧
      rport = port ∧
      domainMatch6265 ip.isIP host (ckey c rhost rport).domain = true ∧
      domainMatch6265 ip.isIP rhost (ckey c rhost rport).domain = true ∧
      pathMatch6265 (uriPath path) (ckey c rhost rport).path = true := by
  unfold attached at h
  cases flt with
  | false => simp at h
  | true =>
    refine ⟨rfl, ?_⟩
    simp only [if_true, List.mem_flatMap] at h
    obtain ⟨⟨k, d⟩, hkd, hm⟩ := h
    split at hm
    · rename_i hcond
      simp only [Bool.and_eq_true, decide_eq_true_eq] at hcond
      obtain ⟨⟨hdom, hport⟩, hpath⟩ := hcond
      rcases origin_run evs [] (fun _ _ _ => False) (by simp) k d n v hkd hm with hF | hS
      · exact hF.elim
      · obtain ⟨rhost, rport, cs, c, hev, hc, h1, h2, h3, hk, hdm⟩ := hS
        refine ⟨rhost, rport, cs, c, hev, hc, h1, h2, h3, ?_, ?_, ?_, ?_⟩
        · rw [hport, hk]; rfl
        · rw [← hk]; exact implDomainMatch_sound ip _ _ hdom
        · rw [← hk]; exact implDomainMatch_sound ip _ _ hdm
        · rw [← hk, ← implPathMatch_eq]; exact hpath
    · simp at hm

/-- **Foreign domains.** A Set-Cookie whose (effective) domain is not RFC 6265 domain-matched by the responding
    host does not change the jar. -/
theorem foreign_domain_not_stored (ip : IPNotion) (jar : Jar) (host : Bytes) (port : Nat) (c : Cookie)
    (h : domainMatch6265 ip.isIP host (ckey c host port).domain = false) :
    setCookie jar host port c = jar := by
  unfold setCookie
  simp only
  split
  · rename_i hdm
    have := implDomainMatch_sound ip _ _ hdm
    rw [h] at this; cases this
  · rfl

/-- … hence after any history every cookie in the jar sits under a key whose domain is domain-matched by the
    host of the response that set it (and whose port is that response's port). -/
theorem stored_only_from_matching_host (ip : IPNotion) (evs : List Event) (k : JKey) (d : Dict) (n : Bytes) (v : Val)
    (hk : (k, d) ∈ runJar [] evs) (hn : (n, v) ∈ d) :
    ∃ rhost rport cs c, Event.resp rhost rport cs ∈ evs ∧ c ∈ cs ∧ c.name = n ∧ c.value = v ∧ c.expired = false ∧
      k = ckey c rhost rport ∧ domainMatch6265 ip.isIP rhost k.domain = true := by
  rcases origin_run evs [] (fun _ _ _ => False) (by simp) k d n v hk hn with hF | hS
  · exact hF.elim
  · obtain ⟨rhost, rport, cs, c, hev, hc, h1, h2, h3, hk', hdm⟩ := hS
    exact ⟨rhost, rport, cs, c, hev, hc, h1, h2, h3, hk', implDomainMatch_sound ip _ _ hdm⟩

/-- **Expiry.** After a Set-Cookie that is expired and passes the domain check, no dict stored under its key holds a
    cookie of that name, and no empty dict is left under that key — for every jar, hence after every history. -/
theorem expired_removed (jar : Jar) (host : Bytes) (port : Nat) (c : Cookie)
    (hexp : c.expired = true) (hdm : implDomainMatch host (ckey c host port).domain = true) :
    ∀ d, (ckey c host port, d) ∈ setCookie jar host port c → d ≠ [] ∧ ∀ v, (c.name, v) ∉ d := by
  intro d hk
  unfold setCookie at hk
  simp only [hdm, if_true, hexp] at hk
  split at hk
  · rename_i hl
    exact absurd hk (jarLookup_none_not_mem hl d)
  · rename_i d0 hl
    split at hk
    · have := (List.mem_filter.mp hk).2
      simp at this
    · rename_i hne
      obtain ⟨p, hp, hpe⟩ := List.mem_map.mp hk
      split at hpe
      · simp at hpe
        rw [← hpe.2]
        refine ⟨by simpa using hne, ?_⟩
        intro v hv
        have := (List.mem_filter.mp hv).2
        simp at this
      · rename_i hpk
        subst hpe
        exact absurd rfl hpk

/-- the same at the end of a history: if the last Set-Cookie processed is an accepted expired one, the jar holds no
    cookie of that name under its key -/
theorem expired_removed_history (evs : List Event) (host : Bytes) (port : Nat) (cs : List Cookie) (c : Cookie)
    (hexp : c.expired = true) (hdm : implDomainMatch host (ckey c host port).domain = true) :
    ∀ d, (ckey c host port, d) ∈ runJar [] (evs ++ [Event.resp host port (cs ++ [c])]) →
      d ≠ [] ∧ ∀ v, (c.name, v) ∉ d := by
  intro d hk
  simp only [runJar, List.foldl_append, List.foldl_cons, List.foldl_nil, stepJar, response] at hk
  exact expired_removed _ host port c hexp hdm d hk

/-- the jar never holds an empty dict (`if not self.jar[dom_port_path]: self.jar.pop(...)`) -/
theorem jar_no_empty_dicts (evs : List Event) (k : JKey) (d : Dict) (h : (k, d) ∈ runJar [] evs) : d ≠ [] :=
  run_nonempty evs (by simp) k d h

/-- `expired_removed` under its proper name: it is the PARTIAL form of the expiry clause — guarded by the code's own
    acceptance test `implDomainMatch`; the full RFC reading is `ExpiredRemovedRFC` below, with
    `expired_removed_rfc_partial` and `expired_removed_rfc_counterexample` (finding F-C54g). -/
theorem expired_removed_partial (jar : Jar) (host : Bytes) (port : Nat) (c : Cookie)
    (hexp : c.expired = true) (hguard : implDomainMatch host (ckey c host port).domain = true) :
    ∀ d, (ckey c host port, d) ∈ setCookie jar host port c → d ≠ [] ∧ ∀ v, (c.name, v) ∉ d :=
  expired_removed jar host port c hexp hguard

/-- **Empty Domain value.** An empty cookie domain (`Domain=` or `Domain=.`) suffix-matches nothing in the RFC reading used
    here (§5.2.3 / §5.3 step 4: such a cookie is host-only): for every host that is not the attribute string itself the
    spec says no — in particular for hosts ending in a dot, which the earlier form of `domainMatch6265` let through. -/
theorem empty_domain_matches_nothing (isIP : Bytes → Bool) (host dom : Bytes)
    (hd : dropDot (asciiLower dom) = []) (hne : asciiLower host ≠ asciiLower dom) (hne' : asciiLower host ≠ []) :
    domainMatch6265 isIP host dom = false := by
  simp [domainMatch6265, hd, hne, hne']

/-! ### the jar as a function of the whole history -/

/-- **Last write wins.** After any history the slot `(key, name)` of the jar holds exactly what the last accepted
    Set-Cookie for that key and name says: its value, or nothing if it was expired (or there was none). -/
theorem jar_is_last_write (evs : List Event) (k : JKey) (n : Bytes) :
    jarGet (runJar [] evs) k n = lastWrite evs k n := by
  rw [jarGet_run]; rfl

/-- After any history the jar's keys are pairwise different and so are the cookie names under each key: the
    association lists of the model are Python dicts. -/
theorem jar_keys_and_names_unique (evs : List Event) :
    ((runJar [] evs).map (·.1)).Nodup ∧ ∀ k d, (k, d) ∈ runJar [] evs → (d.map (·.1)).Nodup :=
  run_wf evs ⟨by simp, by simp⟩

/-- **Attachment, exactly.** A cookie `(n, v)` put on a request after any history is, for some jar key matching
    the request (domain, port, path), the value of the LAST accepted Set-Cookie for that key and name — so a cookie
    that was expired (or overwritten) later in the history is never sent. -/
theorem attached_is_latest_unexpired (evs : List Event) (flt : Bool) (host : Bytes) (port : Nat)
    (path n : Bytes) (v : Val) (h : (n, v) ∈ attached (runJar [] evs) flt host port path) :
    ∃ k : JKey, implDomainMatch host k.domain = true ∧ port = k.port ∧ implPathMatch path k.path = true ∧
      lastWrite evs k n = some v := by
  unfold attached at h
  cases flt with
  | false => simp at h
  | true =>
    simp only [if_true, List.mem_flatMap] at h
    obtain ⟨⟨k, d⟩, hkd, hm⟩ := h
    split at hm
    · rename_i hcond
      simp only [Bool.and_eq_true, decide_eq_true_eq] at hcond
      obtain ⟨⟨hdom, hport⟩, hpath⟩ := hcond
      have hwf := jar_keys_and_names_unique evs
      refine ⟨k, hdom, hport, hpath, ?_⟩
      rw [← jar_is_last_write]
      unfold jarGet
      rw [jarLookup_of_mem_nodup hwf.1 hkd]
      exact dictGet_of_mem_nodup (hwf.2 k d hkd) hm
    · simp at hm

/-! ### the expiry clause read with RFC 6265's acceptance rule (finding F-C54g) -/

/-- Full-strength RFC reading: an expired Set-Cookie from ANY host that RFC-domain-matches its domain empties the slot.
    The code does not satisfy this (it accepts a Set-Cookie only when `stickycookie.domain_match` does, which treats a
    Domain without leading dot as exact-host); see `_partial` and `_counterexample`. -/
def ExpiredRemovedRFC (isIP : Bytes → Bool) : Prop :=
  ∀ (jar : Jar) (host : Bytes) (port : Nat) (c : Cookie), c.expired = true →
    domainMatch6265 isIP host (ckey c host port).domain = true →
    jarGet (setCookie jar host port c) (ckey c host port) c.name = none

/-- what holds: the same under the guard that the code's own domain check accepts the response -/
theorem expired_removed_rfc_partial (jar : Jar) (host : Bytes) (port : Nat) (c : Cookie) (hexp : c.expired = true)
    (hguard : implDomainMatch host (ckey c host port).domain = true) :
    jarGet (setCookie jar host port c) (ckey c host port) c.name = none := by
  rw [jarGet_setCookie]
  simp [writeCookie, hguard, hexp]

private def cx (x : String) : Bytes := x.toUTF8.toList

/-- witness: `sid` stored for `Domain=example.com` by example.com; sub.example.com (which RFC-domain-matches) expires it -/
theorem expired_removed_rfc_counterexample : ¬ ExpiredRemovedRFC stdIP := by
  intro h
  have := h [(⟨cx "example.com", 80, [slash]⟩, [(cx "sid", cx "1")])] (cx "sub.example.com") 80
    { name := cx "sid", value := some [], attrs := [(cx "Domain", some (cx "example.com"))], expired := true }
    rfl (by decide +kernel)
  revert this
  decide +kernel

/-! ### with the clock and the attribute parsing inside the model -/

/-- `attached_only_if_spec_match` for histories of raw Set-Cookies processed at arbitrary clock readings: the
    unexpired-ness of the cookie is the transcribed `cookies.is_expired` at the time of its response. -/
theorem attached_only_if_spec_match_raw (ip : IPNotion) (evs : List RawEvent) (flt : Bool) (host : Bytes)
    (port : Nat) (path n : Bytes) (v : Val) (h : (n, v) ∈ attached (runRaw [] evs) flt host port path) :
    flt = true ∧
    ∃ now rhost rport cs c, RawEvent.resp now rhost rport cs ∈ evs ∧ c ∈ cs ∧ c.name = n ∧ c.value = v ∧
      isExpired now c.attrs c.dateTs = false ∧ rport = port ∧
      domainMatch6265 ip.isIP host (ckey (c.toCookie now) rhost rport).domain = true ∧
      domainMatch6265 ip.isIP rhost (ckey (c.toCookie now) rhost rport).domain = true ∧
      pathMatch6265 (uriPath path) (ckey (c.toCookie now) rhost rport).path = true := by
  obtain ⟨hf, rhost, rport, cs, c, hev, hc, h1, h2, h3, h4, h5, h6, h7⟩ :=
    attached_only_if_spec_match ip (evs.map RawEvent.toEvent) flt host port path n v h
  refine ⟨hf, ?_⟩
  obtain ⟨rev, hrev, hre⟩ := List.mem_map.mp hev
  cases rev with
  | req f h' p' pa => simp [RawEvent.toEvent] at hre
  | resp now rh rp rcs =>
    simp only [RawEvent.toEvent, Event.resp.injEq] at hre
    obtain ⟨e1, e2, e3⟩ := hre
    subst e1; subst e2; subst e3
    obtain ⟨rc, hrc, hrce⟩ := List.mem_map.mp hc
    subst hrce
    exact ⟨now, rh, rp, rcs, rc, hrev, hrc, h1, h2, h3, h4, h5, h6, h7⟩

/-- **From the header text.** `attached_only_if_spec_match` for histories whose responses are given by the TEXT of
    their Set-Cookie headers: the tokenizer (`cookies._read_set_cookie_pairs`, transcription shared with C34), the
    attribute lookup, `is_expired` and the clock are all inside the model; only email.utils' verdict on an Expires
    value (`dateOf`) is a parameter, and the theorem holds for every such function. -/
theorem attached_only_if_spec_match_hdr (ip : IPNotion) (dateOf : Bytes → Option Int) (evs : List HdrEvent)
    (flt : Bool) (host : Bytes) (port : Nat) (path n : Bytes) (v : Val)
    (h : (n, v) ∈ attached (runHdr dateOf [] evs) flt host port path) :
    flt = true ∧
    ∃ now rhost rport hs hd c, HdrEvent.resp now rhost rport hs ∈ evs ∧ hd ∈ hs ∧ c ∈ cookiesOfHeader dateOf hd ∧
      c.name = n ∧ c.value = v ∧ isExpired now c.attrs c.dateTs = false ∧ rport = port ∧
      domainMatch6265 ip.isIP host (ckey (c.toCookie now) rhost rport).domain = true ∧
      domainMatch6265 ip.isIP rhost (ckey (c.toCookie now) rhost rport).domain = true ∧
      pathMatch6265 (uriPath path) (ckey (c.toCookie now) rhost rport).path = true := by
  obtain ⟨hf, now, rhost, rport, cs, c, hev, hc, h1, h2, h3, h4, h5, h6, h7⟩ :=
    attached_only_if_spec_match_raw ip (evs.map (HdrEvent.toRaw dateOf)) flt host port path n v h
  refine ⟨hf, ?_⟩
  obtain ⟨hev', hmem, heq⟩ := List.mem_map.mp hev
  cases hev' with
  | req f h' p' pa => simp [HdrEvent.toRaw] at heq
  | resp now' rh rp hs =>
    simp only [HdrEvent.toRaw, RawEvent.resp.injEq] at heq
    obtain ⟨e1, e2, e3, e4⟩ := heq
    subst e1; subst e2; subst e3; subst e4
    obtain ⟨hd, hhd, hcd⟩ := List.mem_flatMap.mp hc
    exact ⟨now', rh, rp, hs, hd, c, hmem, hhd, hcd, h1, h2, h3, h4, h5, h6, h7⟩

/-- the jar after a header-text history is the last-write function of the parsed history -/
theorem jar_is_last_write_hdr (dateOf : Bytes → Option Int) (evs : List HdrEvent) (k : JKey) (n : Bytes) :
    jarGet (runHdr dateOf [] evs) k n =
      lastWrite ((evs.map (HdrEvent.toRaw dateOf)).map RawEvent.toEvent) k n :=
  jar_is_last_write _ k n

/-- A Max-Age that `int()` accepts and that is ≤ 0 makes the cookie expired at every clock reading, whatever the
    Expires attribute says (RFC 6265 §4.1.2.2: Max-Age has precedence). -/
theorem max_age_nonpositive_is_expired (now : Int) (attrs : List (Bytes × Option Bytes)) (dateTs : Option Int)
    (v : Bytes) (m : Int) (h1 : attrGet kMaxAge attrs = some (some v)) (h2 : pyInt v = some m) (h3 : m ≤ 0) :
    isExpired now attrs dateTs = true := by
  simp only [isExpired, expirationTs, h1, h2, decide_eq_true_eq]
  omega

/-- without a usable Max-Age and without an Expires attribute a cookie is never expired -/
theorem no_expiry_attribute_not_expired (now : Int) (attrs : List (Bytes × Option Bytes)) (dateTs : Option Int)
    (h1 : attrGet kMaxAge attrs = none) (h2 : attrGet kExpires attrs = none) :
    isExpired now attrs dateTs = false := by
  simp [isExpired, expirationTs, h1, h2]

/-- a Domain / Path attribute without a value is ignored: the cookie is host-only / has path "/" -/
theorem valueless_domain_path_ignored (c : Cookie) (host : Bytes) (port : Nat) :
    (attrGet kDomain c.attrs = some none → (ckey c host port).domain = host) ∧
    (attrGet kPath c.attrs = some none → (ckey c host port).path = [slash]) := by
  constructor <;> intro h <;> simp [ckey, h]

/-! ### non-vacuity and regression examples -/

private def s (x : String) : Bytes := x.toUTF8.toList

private def ck (n v : String) (attrs : List (String × String)) (e : Bool) : Cookie :=
  { name := s n, value := s v, attrs := attrs.map (fun p => (s p.1, some (s p.2))), expired := e }

private def hist : List Event :=
  [ .resp (s "a.example.com") 80 [ck "sid" "1" [("Domain", ".example.com"), ("Path", "/foo")] false],
    .resp (s "x.example.com.evil.org") 80 [ck "sid" "evil" [("Domain", ".example.com")] false] ]

-- the hypotheses of `attached_only_if_spec_match` are satisfiable: a cookie is attached …
example : attached (runJar [] hist) true (s "b.example.com") 80 (s "/foo/bar?x") = [(s "sid", some (s "1"))] := by decide +kernel
-- … and the model is not constant: other host / port / path / filter get nothing, the foreign Set-Cookie was dropped
example : attached (runJar [] hist) true (s "x.example.com.evil.org") 80 (s "/foo") = [] := by decide +kernel
example : attached (runJar [] hist) true (s "b.example.com") 81 (s "/foo") = [] := by decide +kernel
example : attached (runJar [] hist) true (s "b.example.com") 80 (s "/foobar") = [] := by decide +kernel
example : attached (runJar [] hist) false (s "b.example.com") 80 (s "/foo") = [] := by decide +kernel
example : (runJar [] hist).length = 1 := by decide +kernel
-- expiry removes the entry
example : runJar [] (hist ++ [.resp (s "a.example.com") 80
    [ck "sid" "" [("Domain", ".example.com"), ("Path", "/foo"), ("Max-Age", "0")] true]]) = [] := by decide +kernel
-- the matchers the code used before the repairs violate RFC 6265 on exactly the recorded witnesses
example : oldPathMatch (s "/foobar") (s "/foo") = true ∧ pathMatch6265 (s "/foobar") (s "/foo") = false := by decide +kernel
example : oldDomainMatch (s "x.example.com.evil.org") (s ".example.com") = true ∧
    domainMatch6265 stdIP (s "x.example.com.evil.org") (s ".example.com") = false := by decide +kernel
example : oldDomainMatch (s "example.com") (s "example.com.") = true ∧
    domainMatch6265 stdIP (s "example.com") (s "example.com.") = false := by decide +kernel
example : implDomainMatch (s "x.example.com.evil.org") (s ".example.com") = false ∧
    implDomainMatch (s "example.com") (s "example.com.") = false ∧
    implDomainMatch (s "www.Example.com") (s ".example.COM") = true ∧
    implDomainMatch (s "example.com") (s ".example.com") = true := by decide +kernel
-- empty Domain values: neither the code nor the RFC spec lets "example.com." (or anything else) match them
example : domainMatch6265 stdIP (s "example.com.") (s "") = false ∧ domainMatch6265 stdIP (s "example.com.") (s ".") = false ∧
    implDomainMatch (s "example.com.") (s "") = false ∧ implDomainMatch (s "example.com.") (s ".") = false ∧
    domainMatch6265 stdIP (s "sub.example.com") (s ".example.com") = true := by decide +kernel
-- an IP host never suffix-matches
example : domainMatch6265 stdIP (s "1.2.3.4") (s ".3.4") = false ∧ implDomainMatch (s "1.2.3.4") (s ".3.4") = false := by decide +kernel
-- last write wins: re-set, then expired
example : lastWrite hist ⟨s ".example.com", 80, s "/foo"⟩ (s "sid") = some (s "1") := by decide +kernel
example : lastWrite (hist ++ [.resp (s "a.example.com") 80
    [ck "sid" "" [("Domain", ".example.com"), ("Path", "/foo")] true]]) ⟨s ".example.com", 80, s "/foo"⟩ (s "sid") = none := by
  decide +kernel
-- the transcribed expiry: Max-Age beats Expires, int() grammar, valueless attributes
private def at' (l : List (String × Option String)) : List (Bytes × Option Bytes) := l.map (fun p => (s p.1, p.2.map s))
example : isExpired 1000 (at' [("Expires", some "x"), ("Max-Age", some "0")]) (some 5000) = true := by decide +kernel
example : isExpired 1000 (at' [("Max-Age", some "1_0")]) none = false ∧ pyInt (s "1_0") = some 10 := by decide +kernel
example : isExpired 1000 (at' [("Max-Age", none), ("expires", some "x")]) (some 999) = true := by decide +kernel
example : isExpired 1000 (at' [("Max-Age", some "abc")]) none = false ∧ pyInt (s "abc") = none ∧ pyInt (s "1__0") = none ∧
    pyInt (s "-5") = some (-5) ∧ pyInt (s " +7 ") = some 7 := by decide +kernel
example : (ckey { name := s "a", value := s "b", attrs := at' [("Domain", none)], expired := false } (s "h.example") 80).domain
    = s "h.example" := by decide +kernel
-- the tokenizer inside the model (after e0e81be4a / 8cc872297): a short Expires value no longer swallows the Path …
example : ((cookiesOfHeader (fun _ => none) (C34.S "a=b; Expires=0; Path=/admin")).map
    (fun c => (ckey (c.toCookie 0) (s "example.com") 80).path)) = [s "/admin"] := by decide +kernel
-- … and an RFC 850 date with a long weekday name is ONE cookie whose Expires value is the whole date
example : (cookiesOfHeader (fun _ => some 0) (C34.S "sid=; Expires=Thursday, 01-Jan-70 00:00:00 GMT; Path=/")).map
    (fun c => (c.name, attrGet kExpires c.attrs, isExpired 1000 c.attrs c.dateTs))
    = [(s "sid", some (some (s "Thursday, 01-Jan-70 00:00:00 GMT")), true)] := by decide +kernel
-- a header-text history: learn from the text, attach, expire by text
example : attached (runHdr (fun _ => none) [] [.resp 1000 (s "a.example.com") 80 [C34.S "sid=1; Domain=.example.com; Path=/foo"]])
    true (s "b.example.com") 80 (s "/foo/bar") = [(s "sid", some (s "1"))] := by decide +kernel
example : runHdr (fun _ => none) [] [.resp 1000 (s "a.example.com") 80 [C34.S "sid=1; Domain=.example.com; Path=/foo"],
    .resp 1001 (s "a.example.com") 80 [C34.S "sid=; Max-Age=0; Domain=.example.com; Path=/foo"]] = [] := by decide +kernel
-- a cookie NAME without "=value" is stored with value `none` and sent back as the bare name; special values are quoted
example : (cookiesOfHeader (fun _ => none) (C34.S "flag; Path=/x")).map (fun c => (c.name, c.value)) = [(s "flag", none)] := by
  decide +kernel
example : cookieHeaderText (attached (runHdr (fun _ => none) [] [.resp 0 (s "example.com") 80 [C34.S "flag", C34.S "sid=\"a b\""]])
    true (s "example.com") 80 (s "/")) = C34.S "flag; sid=\"a b\"" := by decide +kernel
-- the laws of `IPNotion` are satisfiable
example : IPNotion := stdIPNotion

end MitmVerif.Props.C54

/-! ### round-6 cross-audit: further non-vacuity witnesses (appended by the auditor, no statement changed) -/
namespace MitmVerif.Props.C54
open MitmVerif MitmVerif.C54

-- `expired_removed` on its non-trivial branch: two cookies under one key, one is expired — the dict stays, without it
-- (the example in the file above empties the jar, where the ∀ d of the theorem ranges over nothing)
private def twoHist : List Event :=
  [ .resp (s "a.example.com") 80 [ck "sid" "1" [("Domain", ".example.com")] false, ck "lang" "en" [("Domain", ".example.com")] false] ]
example : runJar [] (twoHist ++ [.resp (s "a.example.com") 80 [ck "sid" "" [("Domain", ".example.com")] true]]) =
    [(⟨s ".example.com", 80, [slash]⟩, [(s "lang", some (s "en"))])] := by decide +kernel
example : implDomainMatch (s "a.example.com") (ckey (ck "sid" "" [("Domain", ".example.com")] true) (s "a.example.com") 80).domain = true := by
  decide +kernel
-- `attached_only_if_spec_match` applied to a concrete attachment (its hypothesis holds; stdIPNotion is an IPNotion)
example : ∃ rhost rport cs c, Event.resp rhost rport cs ∈ hist ∧ c ∈ cs ∧ c.name = s "sid" ∧ c.value = some (s "1") ∧ c.expired = false ∧
    rport = 80 ∧ domainMatch6265 stdIP (s "b.example.com") (ckey c rhost rport).domain = true ∧
    domainMatch6265 stdIP rhost (ckey c rhost rport).domain = true ∧
    pathMatch6265 (uriPath (s "/foo/bar?x")) (ckey c rhost rport).path = true :=
  (attached_only_if_spec_match stdIPNotion hist true (s "b.example.com") 80 (s "/foo/bar?x") (s "sid") (some (s "1"))
    (by decide +kernel)).2
-- `foreign_domain_not_stored` applied: the hypothesis (RFC says no) holds for the evil host of `hist`
example : setCookie (runJar [] twoHist) (s "x.example.com.evil.org") 80 (ck "sid" "evil" [("Domain", ".example.com")] false) =
    runJar [] twoHist :=
  foreign_domain_not_stored stdIPNotion _ _ _ _ (by decide +kernel)
-- `attached_is_latest_unexpired`: an overwritten value is not sent any more, only the last one
example : attached (runJar [] (twoHist ++ [.resp (s "b.example.com") 80 [ck "sid" "2" [("Domain", ".example.com")] false]]))
    true (s "c.example.com") 80 (s "/") = [(s "sid", some (s "2")), (s "lang", some (s "en"))] := by decide +kernel
example : lastWrite (twoHist ++ [.resp (s "b.example.com") 80 [ck "sid" "2" [("Domain", ".example.com")] false]])
    ⟨s ".example.com", 80, [slash]⟩ (s "sid") = some (some (s "2")) := by decide +kernel
-- `max_age_nonpositive_is_expired` applied (hypotheses hold together): Max-Age=-5 with a far-future Expires
example : isExpired 1000 (at' [("Expires", some "x"), ("Max-Age", some "-5")]) (some 999999) = true :=
  max_age_nonpositive_is_expired 1000 _ _ (s "-5") (-5) (by decide +kernel) (by decide +kernel) (by decide)
-- auditor's note (spec corner): an EMPTY Domain value used to make the Lean RFC spec say "match" for every non-IP host that
-- ends in a dot.  Owner round 6: `domainMatch6265` now treats an empty cookie domain as host-only (§5.2.3), so spec and code
-- agree here (`empty_domain_matches_nothing`); the example is kept with the corrected value
example : domainMatch6265 stdIP (s "example.com.") [] = false ∧ implDomainMatch (s "example.com.") [] = false := by decide +kernel

end MitmVerif.Props.C54
