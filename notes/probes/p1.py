from mitmproxy import dns
from mitmproxy.net.dns import types, classes
q = dns.Question("example.com", types.TXT, classes.IN)
for data in [b"\x05hello", b"\x02\xc0\x0c", b"\xc0\x0c", b"abc\xc3\xa9"]:
    m = dns.DNSMessage(id=1, query=False, op_code=0, authoritative_answer=False, truncation=False,
        recursion_desired=True, recursion_available=True, reserved=0, response_code=0,
        questions=[q], answers=[dns.ResourceRecord("example.com", types.TXT, classes.IN, 60, data)],
        authorities=[], additionals=[])
    m2 = dns.DNSMessage.unpack(m.packed)
    print(data, "->", m2.answers[0].data, m2.answers[0].data == data)
# MX with pref 0xC00C
data = b"\xc0\x0c" + b"\x04mail\xc0\x0c"
m = dns.DNSMessage(id=1, query=False, op_code=0, authoritative_answer=False, truncation=False,
    recursion_desired=True, recursion_available=True, reserved=0, response_code=0,
    questions=[dns.Question("example.com", types.MX, classes.IN)], answers=[dns.ResourceRecord("example.com", types.MX, classes.IN, 60, data)],
    authorities=[], additionals=[])
m2 = dns.DNSMessage.unpack(m.packed)
print("MX", data, "->", m2.answers[0].data)
