import asyncio, io, time
from mitmproxy.proxy.server import TimeoutWatchdog
async def main():
    fired = []
    async def cb(): fired.append(time.time())
    w = TimeoutWatchdog(0.4, cb)  # timeout 0.4s
    t0 = time.time(); w.register_activity()
    task = asyncio.create_task(w.watch())
    await asyncio.sleep(0.3)           # slow connect: no activity, no hook
    with w.disarm():                   # server_connected hook starts (no register_activity), is slow
        await asyncio.sleep(0.4)
        print("fired while hook pending:", bool(fired), "blocker", w.blocker, "at", [round(x-t0,2) for x in fired])
    task.cancel()
asyncio.run(main())
# C49 dumper paths
from mitmproxy.addons import dumper
from mitmproxy.test import tflow, taddons
from mitmproxy import dns as mdns
from mitmproxy.net.dns import types, classes
sio = io.StringIO(); d = dumper.Dumper(sio)
with taddons.context(d) as tctx:
    tctx.configure(d, flow_detail=3)
    f = tflow.twebsocketflow(); f.request.path = "/ws\x1b[31m"; f.websocket.close_reason = "bye\x1b]0;pwn\x07"; f.websocket.close_code = 1000
    d.websocket_message(f); d.websocket_end(f)
    g = tflow.tdnsflow(resp=True); g.request.questions[0].name = "a\x1b[2Jb.com"
    g.response.answers = [mdns.ResourceRecord("x.com", types.TXT, classes.IN, 60, b"\x1b[41mred")]
    d.dns_response(g)
    t = tflow.ttcpflow(); t.server_conn.address = ("h\x1b[5m", 80); d.tcp_message(t)
out = sio.getvalue()
import re
print("ESC occurrences in dumper output:", out.count("\x1b"), [m.group(0) for m in re.finditer(r"\x1b.{0,6}", out)][:8])
