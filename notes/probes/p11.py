from mitmproxy import options
from mitmproxy.connection import Client, Server, ConnectionState
from mitmproxy.proxy import context, events, commands, layer, mode_specs
from mitmproxy.proxy.layers import modes
from mitmproxy.addons import next_layer, upstream_auth, proxyserver, tlsconfig
from mitmproxy.test import taddons
nl = next_layer.NextLayer(); ua = upstream_auth.UpstreamAuth()
with taddons.context(nl, ua, proxyserver.Proxyserver()) as tctx:
    tctx.configure(ua, upstream_auth="user:secret")
    tctx.options.mode = ["upstream:http://upstreamproxy:3128"]
    mode = mode_specs.ProxyMode.parse("upstream:http://upstreamproxy:3128")
    c = Client(peername=("127.0.0.1",1234), sockname=("127.0.0.1",8080), state=ConnectionState.OPEN, proxy_mode=mode)
    ctx = context.Context(c, tctx.options)
    top = modes.HttpUpstreamProxy(ctx)
    sent = []
    from collections import deque
    q = deque()
    def feed(ev0):
        q.append(ev0)
        while q:
            ev = q.popleft()
            for cmd in list(top.handle_event(ev)):
                if isinstance(cmd, commands.StartHook):
                    tctx.master.addons.trigger(cmd)
                    q.append(events.HookCompleted(cmd))
                elif isinstance(cmd, commands.OpenConnection):
                    cmd.connection.state = ConnectionState.OPEN; cmd.connection.timestamp_start = 1
                    sent.append(("OPEN", cmd.connection.address, cmd.connection.via))
                    q.append(events.OpenConnectionCompleted(cmd, None))
                elif isinstance(cmd, commands.SendData):
                    sent.append(("SEND", type(cmd.connection).__name__, getattr(cmd.connection,'address',None), cmd.data))
                    if isinstance(cmd.connection, Server) and cmd.data.startswith(b"CONNECT"):
                        q.append(events.DataReceived(cmd.connection, b"HTTP/1.1 200 OK\r\n\r\n"))
    feed(events.Start())
    feed(events.DataReceived(c, b"CONNECT origin.example:80 HTTP/1.1\r\nHost: origin.example:80\r\n\r\n"))
    feed(events.DataReceived(c, b"GET /inner HTTP/1.1\r\nHost: origin.example\r\n\r\n"))
    for s in sent: print(s)
