from mitmproxy.addons.next_layer import NextLayer
from mitmproxy.addons import proxyauth
from mitmproxy.proxy.context import Context
from mitmproxy.test import taddons, tflow
from mitmproxy import connection
import binascii
# S1
class C: pass
ctx_ = C(); ctx_.client = C(); ctx_.client.transport_protocol="tcp"
for d in [b"GET / HTTP/1.1\r\nHost: example.com\r\n\r\n", b"GET / HTTP/1.1\r\nHost:example.com\r\n\r\n", b"GET / HTTP/1.1\r\nhost:\texample.com \r\n\r\n",
          b"GET / HTTP/1.1\r\nX: y\r\nHost:example.com\r\n\r\n", b"GET / HTTP/1.1\r\nHost: \r\nX: evil.com\r\n\r\n"]:
    try:
        print(d, NextLayer._get_host_header(ctx_, d, b""))
    except Exception as e:
        print(d, "EXC", type(e))
# S2
for cred in ["user:pass", "user:pa:ss"]:
    v = "Basic " + binascii.b2a_base64(cred.encode()).decode().strip()
    try:
        print(cred, proxyauth.parse_http_basic_auth(v))
    except Exception as e:
        print(cred, "EXC", e)
