from mitmproxy.test import tflow
from mitmproxy.proxy.layers.websocket import Fragmentizer
f = tflow.tflow(resp=True)
print("modified before backup", f.modified())
f.backup()
print("modified after backup, no edit", f.modified())
f.request.path = "/x"
print("modified after edit", f.modified())
f.request.path = "/path"
print("modified after edit back", f.modified())
s0 = tflow.tflow(resp=True)
f.revert(); print("after revert modified", f.modified(), f._backup)
# copy
g = f.copy(); print(g.id != f.id, g.live, g.get_state()["request"] == f.get_state()["request"])
# S8 websocket fragmentizer
txt = ("a" + "é"*3000)
out = list(Fragmentizer([], True)(txt.encode()))
joined = "".join(m.data for m in out)
print("ws text frag ok:", joined == txt, len(out), [len(m.data) for m in out])
out = list(Fragmentizer([b"ab", b"cd"], True)("aééb"[:0].encode() or "é".encode()*2))
print([m.data for m in out])
out = list(Fragmentizer([b"abc", b"d"], True)("éé".encode()))
print([m.data for m in out])
