from mitmproxy import http
from mitmproxy.test import tutils, tflow
r = tutils.treq()
for u in ["http://[::1]:8080/a?b=c", "https://[2001:db8::1]/", "http://bücher.example/p", "http://example.com:80/", "https://example.com:443/x", "http://example.com/a b", "http://example.com", "http://EXAMPLE.com/é?q=ü"]:
    try:
        r.url = u
        u1 = r.url
        r.url = u1
        print(repr(u), "->", repr(u1), "->", repr(r.url), "| host", r.host, r.port, r.scheme, r.path)
    except Exception as e:
        print(repr(u), "EXC", type(e).__name__, e)
# host edit w/ Host header
r = tutils.treq(); r.headers["Host"]="address:22"; r.host="::1"; r.port = 8080
print(r.headers["Host"], r.authority)
# C32 text round trip
for ct, txt in [("text/html", '<meta charset="latin-1">é'), ("text/plain; charset=utf-8", "﻿hello"), ("text/plain", "ÿþab"), ("text/css", '@charset "latin-1";é'), ("application/xml", '<?xml version="1.0" encoding="latin-1"?><a>é</a>'), ("text/plain; charset=ascii", "é"), ("text/plain; charset=utf-16", "hi")]:
    m = tutils.tresp(); m.headers["content-type"] = ct
    try:
        m.text = txt
        print(ct, repr(txt), "->", repr(m.text), m.text == txt, m.headers["content-type"])
    except Exception as e:
        print(ct, repr(txt), "EXC", type(e).__name__, e)
