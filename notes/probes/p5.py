import io
from mitmproxy.io import FlowReader, tnetstring
from mitmproxy import exceptions
def tryload(b, label):
    try:
        fl = list(FlowReader(io.BytesIO(b)).stream())
        print(label, "OK", len(fl))
    except exceptions.FlowReadException as e:
        print(label, "FlowReadException", str(e)[:60])
    except BaseException as e:
        print(label, "OTHER", type(e).__name__, str(e)[:80])
tryload(tnetstring.dumps({}), "empty dict")
tryload(tnetstring.dumps({"version": 21}), "version only")
tryload(tnetstring.dumps({"version": 21, "type": "http"}), "version+type")
tryload(tnetstring.dumps({"version": "x"}), "version str")
tryload(tnetstring.dumps({"version": 1}), "version 1")
tryload(tnetstring.dumps({b"version": (0,18)}), "bytes keys old")
d = b""
for i in range(600):
    d = str(len(d)).encode() + b":" + d + b"]"
tryload(d, "deep nesting")
tryload(b"999999999999:abc", "huge len")
tryload(tnetstring.dumps({"version": 21, "type": "dns", "id":"x"}), "dns partial")
tryload(tnetstring.dumps([1,2]), "list")
tryload(tnetstring.dumps({"version": 99}), "future")
