import asyncio
from mitmproxy.test import tflow, taddons, tutils
from mitmproxy.addons import view, stickycookie, proxyserver
from mitmproxy.net.http import multipart
from mitmproxy import optmanager, exceptions
# S26 view marked-only + add
async def main():
    v = view.View()
    with taddons.context(v) as tctx:
        f1 = tflow.tflow(); f1.marked=":x:"; v.add([f1])
        v.toggle_marked()
        f2 = tflow.tflow(); v.add([f2])
        print("marked-only view contains unmarked new flow:", f2 in v, [bool(f.marked) for f in v])
        f3 = tflow.tflow(); v.toggle_marked(); v.add([f3]); v.toggle_marked(); v.update([f3])
        print("after update of unmarked:", f3 in v)
        # S27 stale order key
        v2 = view.View()
    with taddons.context(v2) as tctx:
        a = tflow.tflow(resp=True); b = tflow.tflow(resp=True)
        a.request.content=b"x"*10; a.response.content=b""; b.request.content=b"y"*20; b.response.content=b""
        v2.add([a,b]); v2.set_order("size"); print("size order", [len(f.request.content) for f in v2])
        v2.set_order("time"); a.request.content=b"x"*100; v2.update([a]); v2.set_order("size")
        print("size order after growth under other order", [len(f.request.content) for f in v2])
    # S40 sticky cookie path prefix
    sc = stickycookie.StickyCookie()
    with taddons.context(sc) as tctx:
        tctx.configure(sc, stickycookie=".")
        f = tflow.tflow(resp=True); f.request.host="example.com"; f.request.path="/foo"
        f.response.headers["set-cookie"]="a=b; Path=/foo"
        sc.response(f)
        for host, path in [("example.com","/foobar"),("example.com","/foo/bar"),("example.com","/"),("EXAMPLE.com","/foo"), ("xexample.com","/foo")]:
            g = tflow.tflow(); g.request.host=host; g.request.path=path; g.request.headers.pop("cookie",None)
            sc.request(g); print(host,path,"->",g.request.headers.get("cookie"))
asyncio.run(main())
# S39 multipart
ct = "multipart/form-data; boundary=XX"
for parts in [[(b"k", b"line1\r\nline2")], [(b"k", b"")], [(b"k", b"v"), (b"k2", b"a\nb")], [(b'k"q', b"v")]]:
    enc = multipart.encode_multipart(ct, list(parts)); print(parts, "->", multipart.decode_multipart(ct, enc))
# S38 optmanager
o = optmanager.OptManager(); o.add_option("a", int, 1, ""); o.add_option("b", int, 2, "")
try: o.update(a=5, b="x")
except Exception as e: print("EXC", type(e).__name__)
print("a after rejected update:", o.a)
