import struct
from mitmproxy import dns, options
from mitmproxy.connection import Client, Server, ConnectionState
from mitmproxy.proxy import context, events, commands, layer
from mitmproxy.proxy.layers import dns as dnsl
from mitmproxy.net.dns import types, classes
from mitmproxy.utils import strutils
from mitmproxy.test import taddons
def mk(tp="tcp"):
    opts = options.Options()
    c = Client(peername=("127.0.0.1",1234), sockname=("127.0.0.1",53), transport_protocol=tp, state=ConnectionState.OPEN)
    ctx = context.Context(c, opts)
    ctx.server = Server(address=("8.8.8.8",53), transport_protocol=tp)
    ctx.server.state = ConnectionState.OPEN; ctx.server.timestamp_start=1
    return ctx
def run(l, evs):
    out=[]
    def feed(ev):
        for cmd in l.handle_event(ev):
            out.append(cmd)
            if isinstance(cmd, commands.StartHook):
                feed(events.HookCompleted(cmd))
    for e in evs: feed(e)
    return out
def q(id, name="example.com"):
    return dns.DNSMessage(id=id, query=True, op_code=0, authoritative_answer=False, truncation=False, recursion_desired=True, recursion_available=False, reserved=0, response_code=0, questions=[dns.Question(name, types.A, classes.IN)], answers=[], authorities=[], additionals=[])
def frame(m): p=m.packed; return struct.pack("!H",len(p))+p
# S7: [valid m1][zero-length] whole vs split
for split in (False, True):
    ctx = mk(); l = dnsl.DNSLayer(ctx)
    data = frame(q(1)) + b"\x00\x00"
    evs=[events.Start()]
    if split:
        evs += [events.DataReceived(ctx.client, data[:-2]), events.DataReceived(ctx.client, data[-2:])]
    else:
        evs += [events.DataReceived(ctx.client, data)]
    out = run(l, evs)
    print("split" if split else "whole", [type(c).__name__ for c in out])
# S6: unsolicited response
ctx = mk("udp"); l = dnsl.DNSLayer(ctx)
r = q(77).succeed([]) 
try:
    out = run(l, [events.Start(), events.DataReceived(ctx.server, r.packed)])
    print("unsolicited:", [type(c).__name__ for c in out], [hasattr(c.flow,'request') for c in out if hasattr(c,'flow')])
except Exception as e:
    print("unsolicited EXC", type(e).__name__, e)
# S19
print(repr(strutils.escape_control_characters("a\x1b[31m\x9b31m\x7f\x85")))
# S4
from mitmproxy.addons import proxyserver
print([h for h in ("LOCALHOST","localhost.","127.0.0.2","::ffff:127.0.0.1","0.0.0.0","127.1") if h not in ("localhost","127.0.0.1","::1","0.0.0.0")])
