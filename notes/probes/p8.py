from mitmproxy import options
from mitmproxy.connection import Client, Server, ConnectionState
from mitmproxy.proxy import context, events, commands
from mitmproxy.proxy.layers import http
from mitmproxy.addons import proxyserver, core
from mitmproxy.test import taddons
def run_case(segs):
    with taddons.context(proxyserver.Proxyserver()) as tctx:
        opts = tctx.options
        c = Client(peername=("127.0.0.1",1234), sockname=("127.0.0.1",8080), state=ConnectionState.OPEN)
        ctx = context.Context(c, opts)
        l = http.HttpLayer(ctx, http.HTTPMode.regular)
        out=[]
        def feed(ev):
            for cmd in l.handle_event(ev):
                out.append(cmd)
                if isinstance(cmd, commands.StartHook):
                    feed(events.HookCompleted(cmd))
                elif isinstance(cmd, commands.OpenConnection):
                    cmd.connection.state = ConnectionState.OPEN; cmd.connection.timestamp_start=1
                    feed(events.OpenConnectionCompleted(cmd, None))
        feed(events.Start())
        for s in segs: feed(events.DataReceived(c, s))
        return [ (type(c).__name__, getattr(c,'data',None)) for c in out if not isinstance(c, commands.Log)]
req = b"\r\nGET http://example.com/ HTTP/1.1\r\nHost: example.com\r\n\r\n"
print(run_case([req]))
print(run_case([req[:2], req[2:]]))
