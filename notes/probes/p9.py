import subprocess, asyncio, io
from mitmproxy.test import tflow, taddons, tutils
from mitmproxy.addons import serverplayback, export, dumper
from mitmproxy import command, command_lexer, types, http
# C52a
sp = serverplayback.ServerPlayback()
with taddons.context(sp) as tctx:
    def mk(host, tag):
        f = tflow.tflow(resp=True); f.request.host = host; f.response.content = tag; return f
    r1, r2, r3 = mk("a.com", b"r1"), mk("b.com", b"r2"), mk("a.com", b"r3")
    sp.load_flows([r1, r2, r3])
    tctx.configure(sp, server_replay_ignore_host=True)
    out = []
    for i in range(3):
        q = tflow.tflow(); q.request.host = "zzz.com"; sp.request(q); out.append(q.response.content if q.response else None)
    print("C52 served order after reindex:", out)
# C45
for s in ["C:\\new", "both'\"q", "a b", "plain"]:
    qd = command_lexer.quote(s)
    parts = [p for p in command_lexer.expr.parse_string("cmd " + qd, parse_all=True) if not p.isspace()]
    arg = types.CommandTypes.get(str).parse(None, str, command_lexer.unquote(parts[1])) if len(parts)==2 else parts
    print("C45", repr(s), "->", repr(qd), "->", repr(arg), arg == s)
print("C45 lexer adjacency:", list(command_lexer.expr.parse_string('x foo"bar baz"', parse_all=True)))
# C48
with taddons.context(export.Export()) as tctx:
    for body in [b"50%\n", b"a\\nb\x01", b"line\n", b"@/etc/hostname", b"plain"]:
        f = tflow.tflow(); f.request.method="POST"; f.request.content = body
        cmd = export.curl_command(f)
        stub = "curl() { for a in \"$@\"; do printf '%s\\0' \"$a\"; done; }; "
        outb = subprocess.run(["bash","-c", stub + cmd], capture_output=True).stdout.split(b"\0")
        d = outb[outb.index(b"-d")+1] if b"-d" in outb else None
        print("C48", body, "->", d, d == body)
