#!/bin/sh
# MANIFEST.setup_cmd — offline build of the Lean library, every property's theorems and every model driver.
set -e
cd "$(dirname "$0")"
mkdir -p .work evidence
python3 tools/genlake.py
cd lean
lake build MitmVerif 2>&1 | tail -3
exes=$(grep -o 'name = "mv_[a-z0-9]*"' lakefile.toml | sed 's/name = "\(.*\)"/\1/')
[ -n "$exes" ] && lake build $exes 2>&1 | tail -3
# sanity of the sans-io world against the real asyncio server (informational; never fails the setup)
/venv/bin/python ../harness/selftest_world.py 150 1 2>/dev/null | tail -1 || true
echo "setup ok"
