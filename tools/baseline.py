#!/venv/bin/python
"""Run the pinned suite (guard OFF) and compare with /root/.vp/BASELINE.json stable_pass.
usage: tools/baseline.py [pytest-args...]   exit 0 iff every stable_pass test passed."""
import json, os, subprocess, sys, tempfile, xml.etree.ElementTree as ET
base = json.load(open("/root/.vp/BASELINE.json"))
env = dict(os.environ); env.pop("MITMPROXY_VERIF", None)
with tempfile.TemporaryDirectory() as d:
    x = os.path.join(d, "j.xml")
    cmd = ["/venv/bin/python", "-m", "pytest", "-ra", "-q", "-p", "no:cacheprovider", "--timeout=900",
           "--continue-on-collection-errors", "--junitxml=" + x] + sys.argv[1:]
    r = subprocess.run(cmd, cwd="/repo", env=env, capture_output=True, text=True)
    print(r.stdout[-1500:])
    ok = set()
    for tc in ET.parse(x).getroot().iter("testcase"):
        if not any(c.tag in ("failure", "error", "skipped") for c in tc):
            ok.add(f"{tc.get('classname')}::{tc.get('name')}")
want = set(base["stable_pass"])
missing = sorted(want - ok)
print(f"stable_pass={len(want)} passed_now={len(ok)} missing={len(missing)}")
for m in missing[:40]: print("  MISSING", m)
sys.exit(1 if missing else 0)
