#!/usr/bin/env python3
"""Copy the clause tables (statement clause -> theorem -> oracle clause) out of the builders' final round-5 reports
into notes/clauses/<builder>.md.  Input: the sub-agent transcripts of this session (JSONL)."""
import json, os, re, sys
SUB = "/root/.claude/projects/-verif/5e9659ab-c41d-46bf-a51e-afaf19f4cfa1/subagents"
AGENTS = {"b-c32": "a65a09fcf5f329315", "b-c04": "a41f6416edeae2e6d", "b-c41": "ad44dcf73e3fc168e", "b-c43": "ad92475b2f919ae28",
          "b-c17": "aadf789f7f00bae76", "b-c39": "ad4b3c8711e4f7d01", "b-c35": "a964362888ab3bde1", "b-c03": "a2e07233427ba99c1",
          "b-c22": "a57cba0965ffffaa6", "b-c44": "a63e482070f1ef674", "b-c01": "ad5723cc4ee092ca3", "b-c36": "ac06e00e9603bf858",
          "b-c13": "a662912cf8258b9ad", "b-c49": "ae8c52ca6804330ed", "b-c14": "ab5a2a2a0830de617", "b-c29": "ad51b365e8a1f6a1a",
          "b-c46": "a3bdd8f156ae6d8a2", "b-c21": "ac48151bbc3bfd99e", "b-c07": "afe048e24379bc0bf", "b-c12": "ae545b4b387e5a672",
          "b-c20": "a3b34b84fab0ac707", "b-c09": "aeba14ad3a798c004", "b-c19": "aeef9ee1920b54637", "b-c25": "ad69fa0532d50e8da",
          "b-c05": "a77a14ce57a1bba28", "b-c27": "a5ea0059a5b52f949", "b-c28": "ab6de0415bd419348"}
AGENTS.update(dict(a.split("=") for a in sys.argv[1:]))
OUT = os.path.join(os.path.dirname(__file__), "..", "notes", "clauses")
for name, aid in sorted(AGENTS.items()):
    p = os.path.join(SUB, f"agent-{aid}.jsonl")
    if not os.path.exists(p): continue
    last = None
    for line in open(p):
        try: j = json.loads(line)
        except Exception: continue
        m = j.get("message") or {}
        if m.get("role") != "assistant": continue
        c = m.get("content")
        txt = c if isinstance(c, str) else "\n".join(x.get("text", "") for x in c if isinstance(x, dict) and x.get("type") == "text")
        if "|---" in txt and re.search(r"(?i)clause|sentence|statement", txt): last = txt
    if not last: continue
    lines = last.split("\n"); keep = []; i = 0
    while i < len(lines):
        if lines[i].lstrip().startswith("|"):
            j0 = i
            while j0 > 0 and lines[j0 - 1].strip() and not lines[j0 - 1].lstrip().startswith("|") and i - j0 < 3: j0 -= 1
            k = i
            while k < len(lines) and lines[k].lstrip().startswith("|"): k += 1
            keep += lines[j0:k] + [""]
            i = k
        else: i += 1
    open(os.path.join(OUT, name + ".md"), "w").write(f"Clause tables from {name}'s round-5 report.\n\n" + "\n".join(keep))
    print(name, sum(1 for l in keep if l.startswith("|")))
