#!/venv/bin/python
"""Rewrite the per-property table of DESIGN.md §5 from what is on disk (Model/Gen/Lemmas files, Props theorem names,
harness level_note, known/*.json). Keeps everything outside the table."""
import glob, json, os, re, sys
V = os.path.dirname(os.path.dirname(os.path.abspath(__file__)))
sys.path.insert(0, os.path.join(V, "harness"))
from common.lean import theorem_names  # noqa
man = {c["property_id"]: c for c in json.load(open(os.path.join(V, "MANIFEST.json")))["checks"]}
rows = []
tot = 0
for n in range(1, 55):
    pid = "C%02d" % n
    L = os.path.join(V, "lean", "MitmVerif")
    files = []
    for sub in ("Model", "Gen", "Lemmas"):
        fs = sorted(os.path.basename(p)[:-5] for p in glob.glob(os.path.join(L, sub, pid + "*.lean")))
        if fs: files.append(sub + "/{" + ",".join(fs) + "}" if len(fs) > 1 else sub + "/" + fs[0])
    thms = [t.split(".")[-1] for t in theorem_names(pid)]
    tot += len(thms)
    c = man.get(pid)
    note = (c["level_note"] if c else "not claimed").replace("|", "/").replace("\n", " ")
    status = "partial" if re.match(r"\s*(PARTIAL|partial)", note) else ("cx" if "counterexample" in " ".join(thms) else "full (model-level)")
    short = note[:260] + ("…" if len(note) > 260 else "")
    k = {}
    kf = os.path.join(V, "known", pid + ".json")
    if os.path.exists(kf): k = json.load(open(kf))
    ff = []
    if k.get("fixed"): ff.append("%d fix%s" % (len(k["fixed"]), "es" if len(k["fixed"]) > 1 else ""))
    if k.get("findings"): ff.append("findings " + ", ".join(f["id"] for f in k["findings"]))
    rows.append("| %s | %s | %d: %s | %s — %s | %s |" % (pid, "; ".join(files) or "–", len(thms), ", ".join("`%s`" % t for t in thms), status, short, "; ".join(ff) or "–"))
p = os.path.join(V, "DESIGN.md")
s = open(p).read()
head = "| id | Lean files | property theorems (`Props/Cxx.lean`) | status — assumed / partial (from `level_note`) | fixes / findings |\n|----|-----------|------------------|--------|------------------|\n"
a = s.index("| id | ")
b = s.index("\n\n", a)
s = s[:a] + head + "\n".join(rows) + s[b:]
s = re.sub(r"All 54 properties are claimed; `not_applicable` is empty\. [0-9+]+ property theorems", "All 54 properties are claimed; `not_applicable` is empty. %d property theorems" % tot, s)
# §6: number of fix commits and the list of unrepaired findings
import subprocess
nfix = len([l for l in subprocess.run(["git", "-C", "/repo", "log", "--format=%s"], capture_output=True, text=True).stdout.splitlines() if l.startswith("fix:")])
s = re.sub(r"\*\*\d+ `fix:` commits\*\*", "**%d `fix:` commits**" % nfix, s)
ids = []
for n in range(1, 55):
    kf = os.path.join(V, "known", "C%02d.json" % n)
    if os.path.exists(kf): ids += [f["id"] for f in json.load(open(kf)).get("findings", [])]
s = re.sub(r"(`_partial` \+ `_counterexample`:\n)(.*?)(On the unchanged tree each check)", lambda m: m.group(1) + "  " + ", ".join(ids) + ".\n  " + m.group(3), s, flags=re.S)
open(p, "w").write(s)
print("DESIGN.md §6:", nfix, "fix commits,", len(ids), "findings")
print("DESIGN.md §5 table:", len(rows), "rows,", tot, "theorems")
