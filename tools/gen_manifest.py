#!/venv/bin/python
"""Regenerate MANIFEST.json from the check modules that exist (harness/cXX.py) — every property
without a module is listed under not_applicable with the reason recorded in tools/not_claimed.json."""
import importlib, json, os, sys
V = os.path.dirname(os.path.dirname(os.path.abspath(__file__)))


def _atomic(path, obj):
    """several builders run this tool while checks read the files: never expose a half-written file"""
    tmp = path + ".tmp%d" % os.getpid()
    with open(tmp, "w") as f: json.dump(obj, f, indent=1)
    os.replace(tmp, path)
sys.path.insert(0, os.path.join(V, "harness")); sys.path.insert(0, "/repo")
os.chdir("/repo")
props = [json.loads(l) for l in open(os.path.join(V, "properties.jsonl"))]
reasons = json.load(open(os.path.join(V, "tools", "not_claimed.json"))) if os.path.exists(os.path.join(V, "tools", "not_claimed.json")) else {}
checks, na = [], []
for p in props:
    pid = p["id"]
    if not os.path.exists(os.path.join(V, "harness", pid.lower() + ".py")):
        na.append({"property_id": pid, "reason": reasons.get(pid, "not claimed yet: the Lean model and correspondence harness planned in DESIGN.md §5 are not built; no other technique is substituted")})
        continue
    # a check is claimed only once it has run clean on this tree (evidence written, all theorems discharged)
    evp = os.path.join(V, "evidence", pid + ".json")
    ready = False
    if os.path.exists(evp):
        try:
            ev = json.load(open(evp)); cov = ev.get("coverage", {})
            ready = ev.get("violations", 1) == 0 and cov.get("obligations") == cov.get("discharged")
        except Exception:
            ready = False
    if not ready:
        na.append({"property_id": pid, "reason": reasons.get(pid, "not claimed yet: the Lean model/correspondence for this property is under construction and has not yet run clean on the unchanged tree; no other technique is substituted")})
        continue
    try:
        c = importlib.import_module(pid.lower()).Check()
    except Exception as e:
        na.append({"property_id": pid, "reason": f"not claimed yet: check module does not import ({type(e).__name__})"})
        continue
    checks.append({
        "property_id": pid,
        "quick_cmd": f"./check {pid} --tier quick",
        "thorough_cmd": f"./check {pid} --tier thorough",
        "evidence_file": f"evidence/{pid}.json",
        "replay_cmd_template": f"./check {pid} --replay {{path}}",
        "engine": "lean4-proof+correspondence",
        "level_claimed": {"category": "proof", "text": c.level_text, "design_ref": "DESIGN.md " + (c.design_ref or f"§5 {pid}")},
        "level_note": c.level_note,
        "technique": c.technique,
    })
hooks_commits = json.load(open(os.path.join(V, "tools", "hook_commits.json"))) if os.path.exists(os.path.join(V, "tools", "hook_commits.json")) else []
m = {
    "version": 1,
    "setup_cmd": "./setup.sh",
    "hooks": {
        "guard": "MITMPROXY_VERIF",
        "enable": "checks export MITMPROXY_VERIF=1 before importing mitmproxy from /repo (pure Python, nothing to build)",
        "baseline_off_cmd": "cd /repo && /venv/bin/python -m pytest -ra -q -p no:cacheprovider --timeout=900 --continue-on-collection-errors",
        "source_commits": hooks_commits,
        "add_only": True,
    },
    "engines": [{
        "name": "lean4-proof+correspondence", "path": "lean/ + harness/",
        "serves_properties": [c["property_id"] for c in checks],
        "kind_free_text": "Lean 4 theorems about hand-written executable models (lean/MitmVerif), Gen tables regenerated from /repo, and a differential line-protocol correspondence between the compiled model drivers and the real Python code (harness/)",
    }],
    "checks": checks,
    "not_applicable": na,
    "notes": "All checks: ./check <id> --tier quick|thorough; exit 0 held, 1 VIOLATION, 2 infrastructure. See DESIGN.md.",
}
_atomic(os.path.join(V, "MANIFEST.json"), m)
# known_findings.json = merge of the per-property fragments known/Cxx.json (edited by hand, never at run time)
import glob
kf = {"_doc": "Committed; merged by tools/gen_manifest.py from known/Cxx.json; never written at run time. "
              "findings: genuine defects recorded rather than repaired — each suppresses exactly the inputs its predicate "
              "(a classifier in harness/cXX.py, Check.known) recognises. fixed: informational, suppresses nothing.",
      "findings": [], "fixed": []}
for f in sorted(glob.glob(os.path.join(V, "known", "C*.json"))):
    j = json.load(open(f))
    kf["findings"] += j.get("findings", []); kf["fixed"] += j.get("fixed", [])
_atomic(os.path.join(V, "known_findings.json"), kf)
print(f"{len(checks)} checks, {len(na)} not claimed")
