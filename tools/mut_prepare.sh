#!/bin/sh
# usage: tools/mut_prepare.sh <round> <extra-text-file> NN...   — create /tmp/mut-cNN-<round> worktrees with _INSTRUCTIONS.txt
R=$1; EXTRA=$(cat $2); shift 2
for p in "$@"; do t=c$p-$R; git -C /repo worktree add -q /tmp/mut-$t HEAD && python3 /verif/tools/mut_prompt.py C$p $t "$EXTRA" > /tmp/mut-$t/_INSTRUCTIONS.txt && echo -n "$t "; done; echo
