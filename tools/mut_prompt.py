#!/usr/bin/env python3
"""print the prompt for an independent mutation agent for property <id> working in /tmp/mut-<id>-<n>"""
import json, sys
pid, tag = sys.argv[1], sys.argv[2]
extra = sys.argv[3] if len(sys.argv) > 3 else ""
p = next(json.loads(l) for l in open("/verif/properties.jsonl") if json.loads(l)["id"] == pid)
wt = f"/tmp/mut-{tag}"
print(f"""You are an independent tester. You are given ONE semantic property of the open-source project mitmproxy and a private scratch checkout of its source at {wt} (a git worktree; Python package `mitmproxy/`, tests under `test/`).
RULES: work only inside {wt}. Do not read, list or write anything under /verif or /repo (off limits), and do not look at other /tmp/mut-* or /tmp/wt-* directories.

PROPERTY {p['id']}: {p['title']}
{p['statement']}
Quantified over: {p['quantifier']['text']}
Anchor files: {', '.join(p['anchors']['files'])}

TASK: craft ONE realistic source change (a plausible refactor, optimisation, clean-up, bug-fix-gone-wrong or feature tweak a developer might actually commit; roughly 1–30 lines; it may touch two cooperating sites that each look fine alone) to the mitmproxy code in this checkout that BREAKS the property while (a) the package still imports and (b) the ENTIRE existing test-suite still passes. The breakage must need something specific to manifest — a particular input, a particular segmentation/interleaving/timing, a multi-step sequence of operations, a fault at a particular point — NOT something ordinary use or the existing tests expose at once. Avoid trivial sabotage (returning None, deleting the feature, checking for a magic string). {extra}

How to run things: always put the worktree first on the path: `cd {wt} && PYTHONPATH={wt} /venv/bin/python ...`; verify once that `import mitmproxy; print(mitmproxy.__file__)` prints a path under {wt}. Full suite (≈20–60 s): `cd {wt} && PYTHONPATH={wt} /venv/bin/python -m pytest -q -p no:cacheprovider --timeout=900 --deselect test/mitmproxy/contentviews/test__view_urlencoded.py::test_view_urlencoded 2>&1 | tail -5` (that one deselected test fails on the unmodified tree already). There is no network.

DELIVERABLES in {wt}/_seed/ (create the directory):
  patch.diff  — `git diff -- mitmproxy` of your change (source only)
  demo.py     — a small standalone program, run as `cd <tree> && PYTHONPATH=<tree> /venv/bin/python _seed/demo.py`, that exits 0 on the unmodified tree and exits 1 (printing what went wrong) on the modified tree. It must exercise the real mitmproxy code and show the PROPERTY being violated (observable behaviour), not detect your edit textually.
  meta.json   — {{"property": "{p['id']}", "summary": "<what the change is>", "needs": "<what specific input/sequence/interleaving it needs in order to manifest>", "why_tests_pass": "<why the existing suite does not notice>", "files": ["<changed files>"]}}
Verify yourself: with the patch applied the suite passes and demo.py exits 1; with it reverted (`git apply -R _seed/patch.diff`, afterwards `git apply _seed/patch.diff` again — do NOT use `git stash`: the stash is shared between worktrees and other testers run concurrently) demo.py exits 0. Leave the worktree WITH the patch applied. Final answer: the three file paths and a two-line summary. Time budget: about 30–40 minutes; if your first idea is caught by the existing tests, try another.""")
