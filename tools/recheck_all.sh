#!/bin/sh
# usage: tools/recheck_all.sh [jobs] — re-run every seed against the current checks (appends to each verify.log); summary via tools/seed_table.py
# Seeds are ordered by round (c01-1, c02-1, … c54-1, c01-2, …) so that concurrent jobs belong to DIFFERENT properties: two scratch runs of the
# same property regenerate the same Gen/Cxx.lean and race in the lake build (seen as theorems=0/N in the log).
J=${1:-3}
ls -d /verif/seeded/c*-* | xargs -n1 basename | sort -t- -k2,2n -k1,1 | xargs -P $J -I{} sh -c 'P=$(echo {} | cut -c1-3 | tr a-z A-Z); /verif/tools/seed_recheck.sh $P {} >/dev/null 2>&1; echo {} done'
git -C /verif checkout -- lean/MitmVerif/Gen 2>/dev/null
