#!/bin/sh
# usage: tools/recheck_all.sh [jobs] — re-run every seed against the current checks (appends to each verify.log); summary via tools/seed_table.py
J=${1:-3}
ls -d /verif/seeded/c*-* | xargs -n1 basename | xargs -P $J -I{} sh -c 'P=$(echo {} | cut -c1-3 | tr a-z A-Z); /verif/tools/seed_recheck.sh $P {} >/dev/null 2>&1; echo {} done'
