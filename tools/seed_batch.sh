#!/bin/sh
# usage: tools/seed_batch.sh tag...   (sequential seed_verify; summary to stdout)
for t in "$@"; do
  P=$(echo $t | cut -c1-3 | tr a-z A-Z)
  /verif/tools/seed_verify.sh $P $t
  echo "=== $t"; grep -E "^rc=|VIOLATION prop|tier=|what fails|INFRA|PATCH" /verif/seeded/$t/verify.log | cut -c1-220
done
echo ALLDONE
