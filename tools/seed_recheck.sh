#!/bin/sh
# usage: tools/seed_recheck.sh <Cxx> <tag> [tier]  — re-run ./check against /verif/seeded/<tag>/patch.diff on a fresh worktree; appends to verify.log
P=$1; TAG=$2; TIER=${3:-quick}; DST=/verif/seeded/$TAG; WT=/tmp/sr-$TAG
git -C /repo worktree remove --force $WT 2>/dev/null; rm -rf $WT
git -C /repo worktree add -q $WT HEAD || exit 3
PATCH=$DST/patch.diff; [ -f $DST/patch_rebased.diff ] && PATCH=$DST/patch_rebased.diff; git -C $WT apply $PATCH 2>/dev/null || git -C $WT apply -C1 $PATCH || { echo "PATCH DOES NOT APPLY on $(git -C /repo rev-parse --short HEAD)" | tee -a $DST/verify.log; git -C /repo worktree remove --force $WT; exit 4; }
cd /verif
{ echo "== recheck $TIER on $(git -C /repo rev-parse --short HEAD) at $(date -u +%FT%TZ)"; VERIF_REPO=$WT ./check $P --tier $TIER 2>&1 | grep -E "VIOLATION|KNOWN|tier=|INFRA|what fails|failing input" | cut -c1-400; } | tee -a $DST/verify.log
git -C /repo worktree remove --force $WT 2>/dev/null; rm -rf $WT
