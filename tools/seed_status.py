#!/usr/bin/env python3
"""usage: tools/seed_status.py <round>  — verdict of the LAST check block in every seeded/cNN-<round>/verify.log"""
import glob, re, sys
r = sys.argv[1]
out = {"caught": [], "tie-only": [], "MISSED": [], "?": []}
for d in sorted(glob.glob(f"/verif/seeded/c*-{r}")):
    try: log = open(d + "/verify.log").read()
    except OSError: out["?"].append(d[-5:]); continue
    blks = re.split(r"== (?:check quick on patched tree|recheck)", log)[1:]
    if not blks: out["?"].append(d[-5:]); continue
    b = blks[-1]
    s = "tie-only" if "no-failing-input-found" in b else "caught" if "VIOLATION property=" in b else "MISSED" if "violations=0" in b else "?"
    out[s].append(d[-5:])
for k, v in out.items(): print(k, len(v), " ".join(v))
