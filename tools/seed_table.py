#!/usr/bin/env python3
"""per-round seed statistics from seeded/*/verify.log: first verdict vs last verdict"""
import glob, re, collections
def verdicts(log):
    out = []
    for b in re.split(r"== (?:check quick on patched tree|recheck)", log)[1:]:
        if "SUPERSEDED:" in b: out.append("superseded"); continue
        out.append("tie" if "no-failing-input-found" in b else "caught" if "VIOLATION property=" in b else "missed" if "violations=0" in b else "?")
    return out
rounds = collections.defaultdict(lambda: collections.Counter())
final = collections.defaultdict(lambda: collections.Counter())
lists = collections.defaultdict(lambda: collections.defaultdict(list))
for d in sorted(glob.glob("/verif/seeded/c*-*")):
    tag = d.split("/")[-1]; r = tag.split("-")[1]
    try: v = verdicts(open(d + "/verify.log").read())
    except OSError: v = []
    if "SUPERSEDED:" in (open(d + "/verify.log").read() if v else ""): pass
    f = v[0] if v else "?"; l = [x for x in v if x != "?"][-1] if [x for x in v if x != "?"] else "?"
    if "superseded" in v: l = "superseded"; f = [x for x in v if x != "superseded"][0]
    rounds[r][f] += 1; final[r][l] += 1
    if f != "caught": lists[r][f].append(tag)
    if l not in ("caught", "superseded"): lists[r]["final-" + l].append(tag)
tot_f = collections.Counter(); tot_l = collections.Counter()
for r in sorted(rounds):
    print(f"round {r}: first {dict(rounds[r])}  final {dict(final[r])}")
    for k, v in lists[r].items(): print(f"   {k}: {' '.join(v)}")
    tot_f.update(rounds[r]); tot_l.update(final[r])
print("total first", dict(tot_f), " final", dict(tot_l))
