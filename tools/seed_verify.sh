#!/bin/sh
# usage: tools/seed_verify.sh <Cxx> <tag>    (tag names /tmp/mut-<tag> produced by a mutation agent)
# copies the seed into /verif/seeded/<tag>/, re-verifies it on a FRESH worktree, runs ./check against the mutated tree.
set -u
P=$1; TAG=$2; SRC=/tmp/mut-$TAG/_seed; DST=/verif/seeded/$TAG; WT=/tmp/sv-$TAG
mkdir -p $DST && cp $SRC/patch.diff $SRC/demo.py $SRC/meta.json $DST/ || exit 3
exec > $DST/verify.log 2>&1
echo "seed $TAG for $P verified on $(git -C /repo rev-parse --short HEAD) at $(date -u +%FT%TZ)"
git -C /repo worktree remove --force $WT 2>/dev/null; rm -rf $WT
git -C /repo worktree add -q $WT HEAD || exit 3
mkdir -p $WT/_seed && cp $DST/demo.py $WT/_seed/
cd $WT
echo "== demo on clean tree"; PYTHONPATH=$WT /venv/bin/python _seed/demo.py >/tmp/sv-$TAG.clean.log 2>&1; echo "rc=$?"
git apply $DST/patch.diff || { echo "PATCH DOES NOT APPLY"; exit 4; }
echo "== demo on patched tree"; PYTHONPATH=$WT /venv/bin/python _seed/demo.py >/tmp/sv-$TAG.patched.log 2>&1; echo "rc=$?"; tail -3 /tmp/sv-$TAG.patched.log
echo "== suite on patched tree"; PYTHONPATH=$WT /venv/bin/python -m pytest -q -p no:cacheprovider --timeout=900 --deselect test/mitmproxy/contentviews/test__view_urlencoded.py::test_view_urlencoded 2>&1 | tail -2
cd /verif
echo "== check quick on patched tree"; VERIF_REPO=$WT ./check $P --tier quick 2>&1 | grep -E "VIOLATION|KNOWN|tier=|INFRA|what fails|failing input" | cut -c1-400
git -C /repo worktree remove --force $WT 2>/dev/null; rm -rf $WT
git -C /repo worktree remove --force /tmp/mut-$TAG 2>/dev/null; rm -rf /tmp/mut-$TAG
