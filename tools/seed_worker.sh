#!/bin/sh
# usage: tools/seed_worker.sh <name> — take tags from /verif/.work/seedq (one per line) and run seed_verify on each; stop on a line "STOP"
Q=/verif/.work/seedq; LOG=/verif/.work/seed_worker_$1.log; touch $Q
while :; do
  T=$(flock $Q.lock sh -c "head -1 $Q; sed -i 1d $Q")
  if [ -z "$T" ]; then sleep 20; continue; fi
  [ "$T" = STOP ] && { echo STOP >> $Q; exit 0; }
  P=$(echo $T | cut -c1-3 | tr a-z A-Z)
  /verif/tools/seed_verify.sh $P $T >/dev/null 2>&1
  { echo "=== $T"; grep -E "^rc=|VIOLATION prop|tier=|what fails|INFRA|PATCH" /verif/seeded/$T/verify.log | cut -c1-220; } >> $LOG
done
