#!/bin/sh
# usage: tools/sweep.sh <seed> [tier] [jobs] — run every claimed check once; prints one line per check; evidence goes to the usual place
SEED=${1:-1}; TIER=${2:-quick}; J=${3:-4}
cd /verif
python3 -c "import json;print('\n'.join(c['property_id'] for c in json.load(open('MANIFEST.json'))['checks']))" > .work/sweep.ids
mkdir -p .work/sweep
xargs -P $J -I{} sh -c "VERIF_SEED=$SEED ./check {} --tier $TIER > .work/sweep/{}.$SEED.log 2>&1; echo {} rc=\$? \$(grep -E 'tier=' .work/sweep/{}.$SEED.log | tail -1 | cut -c1-160)" < .work/sweep.ids
